------------------------------ MODULE Compose ------------------------------
(***************************************************************************)
(* Composition, tensor product, adjoint, basis plugging and the identity   *)
(* test of graph.rs (528-741), transcribed, together with the linear-      *)
(* algebra statements they must satisfy under the reference denotation.    *)
(***************************************************************************)
EXTENDS ZXSem

\* ---------- append_graph: other's vertices get fresh names (ascending), scalars multiply ----------
AppendMap(g, h) == LET q == SetToSortSeq(h.vs, <) IN [v \in h.vs |-> Fresh(g) + (CHOOSE i \in 1..Len(q) : q[i] = v) - 1]
\* self's inputs/outputs are NOT updated by the code; the caller decides
AppendG(g, h) ==
  LET m == AppendMap(g, h)
      h2 == Rename(h, m)
  IN [g EXCEPT !.vs = g.vs \cup h2.vs, !.ty = h2.ty @@ g.ty, !.ph = h2.ph @@ g.ph, !.vr = h2.vr @@ g.vr,
               !.et = h2.et @@ g.et, !.sc = RMul(g.sc, h.sc)]
\* juxtaposition with boundaries concatenated: the tensor product
Juxtapose(g, h) == LET m == AppendMap(g, h) IN
  [AppendG(g, h) EXCEPT !.ins = g.ins \o [i \in 1..Len(h.ins) |-> m[h.ins[i]]],
                       !.outs = g.outs \o [i \in 1..Len(h.outs) |-> m[h.outs[i]]]]

\* ---------- plug: self's outputs into other's inputs ----------
MergeET(a, b) == IF a = b THEN "N" ELSE "H"
FirstNbr(g, v) == CHOOSE u \in Nbrs(g, v) : TRUE
RECURSIVE PlugLoop(_, _, _, _, _)
PlugLoop(r, g0outs, h, m, k) ==
  IF k > Len(g0outs) \/ r.panic THEN r
  ELSE LET g == r.g
           o == g0outs[k]
           i == h.ins[k]
       IN IF o \notin g.vs \/ Nbrs(g, o) = {} \/ Nbrs(h, i) = {} \/ m[FirstNbr(h, i)] \notin g.vs
          THEN [g |-> g, panic |-> TRUE]
          ELSE LET no == FirstNbr(g, o)
                   ni == FirstNbr(h, i)
                   et == MergeET(ET(g, o, no), ET(h, i, ni))
                   r2 == Smart(g, no, m[ni], et)
               IN PlugLoop([g |-> DelV(DelV(r2.g, o), m[i]), panic |-> r2.panic], g0outs, h, m, k + 1)
Plug(g, h) ==
  IF Len(g.outs) # Len(h.ins) THEN [g |-> g, panic |-> TRUE]
  ELSE LET m == AppendMap(g, h)
           r == PlugLoop([g |-> AppendG(g, h), panic |-> FALSE], g.outs, h, m, 1)
       IN [g |-> [r.g EXCEPT !.outs = [k \in 1..Len(h.outs) |-> m[h.outs[k]]]], panic |-> r.panic]
\* the code is only meaningful when every seam wire joins two different components' interior or a
\* boundary that survives; a wire from an output of g straight to ANOTHER output of g (a cup) meeting
\* a wire between two inputs of h (a cap) closes a loop through deleted boundaries
PlugDefined(g, h) == ~Plug(g, h).panic

\* ---------- adjoint ----------
Adjoint(g) == [g EXCEPT !.ph = [v \in g.vs |-> (8 - g.ph[v]) % 8], !.ins = g.outs, !.outs = g.ins, !.sc = RConj(g.sc)]

\* ---------- basis plugging ----------
Basis == {"Z0", "Z1", "X0", "X1", "SKIP"}
BPhase(b) == IF b \in {"Z1", "X1"} THEN 4 ELSE 0
BIsZ(b) == b \in {"Z0", "Z1"}
PlugVertex(g, v, b) ==
  IF b = "SKIP" THEN g
  ELSE LET g1 == [g EXCEPT !.ty[v] = "Z", !.ph[v] = BPhase(b)]
       IN IF BIsZ(b) THEN ToggleET(g1, v, FirstNbr(g1, v)) ELSE g1
RECURSIVE PlugList(_, _, _, _)
PlugList(g, bnds, plug, k) ==
  IF k > Len(bnds) THEN g
  ELSE IF k <= Len(plug) /\ plug[k] # "SKIP" THEN PlugList(PlugVertex(g, bnds[k], plug[k]), bnds, plug, k + 1)
  ELSE PlugList(g, bnds, plug, k + 1)
Kept(bnds, plug) == SelectSeq([k \in 1..Len(bnds) |-> <<k, bnds[k]>>], LAMBDA p : ~(p[1] <= Len(plug) /\ plug[p[1]] # "SKIP"))
NumPlugged(plug) == Cardinality({k \in 1..Len(plug) : plug[k] # "SKIP"})
PlugInputs(g, plug) ==
  LET kept == Kept(g.ins, plug) IN
  MulSc([PlugList(g, g.ins, plug, 1) EXCEPT !.ins = [k \in 1..Len(kept) |-> kept[k][2]]], Sqrt2Pow(-NumPlugged(plug)))
PlugOutputs(g, plug) ==
  LET kept == Kept(g.outs, plug) IN
  MulSc([PlugList(g, g.outs, plug, 1) EXCEPT !.outs = [k \in 1..Len(kept) |-> kept[k][2]]], Sqrt2Pow(-NumPlugged(plug)))

\* normalised basis vectors as 1-index tensors
BasisVec(b) == CASE b = "Z0" -> <<ROne, RZero>> [] b = "Z1" -> <<RZero, ROne>>
                 [] b = "X0" -> <<InvSqrt2, InvSqrt2>> [] b = "X1" -> <<InvSqrt2, RNeg(InvSqrt2)>>
\* contract positions (those k <= Len(plug) with plug[k] # SKIP, offset by `off`) of T with the basis vectors
RECURSIVE ContractList(_, _, _, _, _)
ContractList(T, n, plug, off, k) ==
  \* processes positions from the last to the first so that earlier indices stay valid
  IF k = 0 THEN T
  ELSE IF plug[k] = "SKIP" THEN ContractList(T, n, plug, off, k - 1)
  ELSE LET p == off + k
           bv == BasisVec(plug[k])
           T2 == [b \in BIdx(n - 1) |->
                    RAdd(RMul(bv[1], T[[i \in 1..n |-> IF i < p THEN b[i] ELSE IF i = p THEN 0 ELSE b[i - 1]]]),
                         RMul(bv[2], T[[i \in 1..n |-> IF i < p THEN b[i] ELSE IF i = p THEN 1 ELSE b[i - 1]]]))]
       IN ContractList(T2, n - 1, plug, off, k - 1)
ApplyInputs(T, m, k, plug) == ContractList(T, m + k, plug, 0, Len(plug))
ApplyOutputs(T, m, k, plug) == ContractList(T, m + k, plug, m, Len(plug))

\* ---------- identity test: plain wires from the i-th input to the i-th output and nothing else ----------
IsIdentitySpec(g) ==
  /\ Len(g.ins) = Len(g.outs)
  /\ g.vs = ToSet(g.ins) \cup ToSet(g.outs) /\ Cardinality(g.vs) = 2 * Len(g.ins)
  /\ \A i \in 1..Len(g.ins) : ET(g, g.ins[i], g.outs[i]) = "N"
\* the code's test (graph.rs:652-659), with the edge type
IsIdentityCode(g) ==
  LET n == Len(g.ins) IN
  /\ Len(g.outs) = n /\ Cardinality(g.vs) = 2 * n
  /\ \A i \in 1..n : ET(g, g.ins[i], g.outs[i]) = "N"
=============================================================================
