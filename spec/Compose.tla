------------------------------ MODULE Compose ------------------------------
(***************************************************************************)
(* Composition, tensor product, adjoint, basis plugging and the identity   *)
(* test of graph.rs (528-741), transcribed, together with the linear-      *)
(* algebra statements they must satisfy under the reference denotation.    *)
(***************************************************************************)
EXTENDS ZXSem

\* ---------- append_graph: other's vertices get fresh names (ascending), scalars multiply ----------
AppendMap(g, h) == LET q == SetToSortSeq(h.vs, <) IN [v \in h.vs |-> Fresh(g) + (CHOOSE i \in 1..Len(q) : q[i] = v) - 1]
\* self's inputs/outputs are NOT updated by the code; the caller decides
AppendG(g, h) ==
  LET m == AppendMap(g, h)
      h2 == Rename(h, m)
  IN [g EXCEPT !.vs = g.vs \cup h2.vs, !.ty = h2.ty @@ g.ty, !.ph = h2.ph @@ g.ph, !.vr = h2.vr @@ g.vr,
               !.et = h2.et @@ g.et, !.sc = RMul(g.sc, h.sc)]
\* juxtaposition with boundaries concatenated: the tensor product
Juxtapose(g, h) == LET m == AppendMap(g, h) IN
  [AppendG(g, h) EXCEPT !.ins = g.ins \o [i \in 1..Len(h.ins) |-> m[h.ins[i]]],
                       !.outs = g.outs \o [i \in 1..Len(h.outs) |-> m[h.outs[i]]]]

\* ---------- plug: self's outputs into other's inputs ----------
MergeET(a, b) == IF a = b THEN "N" ELSE "H"
FirstNbr(g, v) == CHOOSE u \in Nbrs(g, v) : TRUE
RECURSIVE PlugLoop(_, _, _, _, _)
PlugLoop(r, g0outs, h, m, k) ==
  IF k > Len(g0outs) \/ r.panic THEN r
  ELSE LET g == r.g
           o == g0outs[k]
           i == h.ins[k]
       IN IF o \notin g.vs \/ Nbrs(g, o) = {} \/ Nbrs(h, i) = {} \/ m[FirstNbr(h, i)] \notin g.vs
          THEN [g |-> g, panic |-> TRUE]
          ELSE LET no == FirstNbr(g, o)
                   ni == FirstNbr(h, i)
                   et == MergeET(ET(g, o, no), ET(h, i, ni))
                   r2 == Smart(g, no, m[ni], et)
               IN PlugLoop([g |-> DelV(DelV(r2.g, o), m[i]), panic |-> r2.panic], g0outs, h, m, k + 1)
Plug(g, h) ==
  IF Len(g.outs) # Len(h.ins) THEN [g |-> g, panic |-> TRUE]
  ELSE LET m == AppendMap(g, h)
           r == PlugLoop([g |-> AppendG(g, h), panic |-> FALSE], g.outs, h, m, 1)
       IN [g |-> [r.g EXCEPT !.outs = [k \in 1..Len(h.outs) |-> m[h.outs[k]]]], panic |-> r.panic]
\* the code is only meaningful when every seam wire joins two different components' interior or a
\* boundary that survives; a wire from an output of g straight to ANOTHER output of g (a cup) meeting
\* a wire between two inputs of h (a cap) closes a loop through deleted boundaries
PlugDefined(g, h) == ~Plug(g, h).panic

\* ---------- adjoint ----------
Adjoint(g) == [g EXCEPT !.ph = [v \in g.vs |-> (8 - g.ph[v]) % 8], !.ins = g.outs, !.outs = g.ins, !.sc = RConj(g.sc)]

\* ---------- basis plugging ----------
Basis == {"Z0", "Z1", "X0", "X1", "SKIP"}
BPhase(b) == IF b \in {"Z1", "X1"} THEN 4 ELSE 0
BIsZ(b) == b \in {"Z0", "Z1"}
PlugVertex(g, v, b) ==
  IF b = "SKIP" THEN g
  ELSE LET g1 == [g EXCEPT !.ty[v] = "Z", !.ph[v] = BPhase(b)]
       IN IF BIsZ(b) THEN ToggleET(g1, v, FirstNbr(g1, v)) ELSE g1
RECURSIVE PlugList(_, _, _, _)
PlugList(g, bnds, plug, k) ==
  IF k > Len(bnds) THEN g
  ELSE IF k <= Len(plug) /\ plug[k] # "SKIP" THEN PlugList(PlugVertex(g, bnds[k], plug[k]), bnds, plug, k + 1)
  ELSE PlugList(g, bnds, plug, k + 1)
Kept(bnds, plug) == SelectSeq([k \in 1..Len(bnds) |-> <<k, bnds[k]>>], LAMBDA p : ~(p[1] <= Len(plug) /\ plug[p[1]] # "SKIP"))
NumPlugged(plug) == Cardinality({k \in 1..Len(plug) : plug[k] # "SKIP"})
PlugInputs(g, plug) ==
  LET kept == Kept(g.ins, plug) IN
  MulSc([PlugList(g, g.ins, plug, 1) EXCEPT !.ins = [k \in 1..Len(kept) |-> kept[k][2]]], Sqrt2Pow(-NumPlugged(plug)))
PlugOutputs(g, plug) ==
  LET kept == Kept(g.outs, plug) IN
  MulSc([PlugList(g, g.outs, plug, 1) EXCEPT !.outs = [k \in 1..Len(kept) |-> kept[k][2]]], Sqrt2Pow(-NumPlugged(plug)))

\* normalised basis vectors as 1-index tensors
BasisVec(b) == CASE b = "Z0" -> <<ROne, RZero>> [] b = "Z1" -> <<RZero, ROne>>
                 [] b = "X0" -> <<InvSqrt2, InvSqrt2>> [] b = "X1" -> <<InvSqrt2, RNeg(InvSqrt2)>>
\* contract positions (those k <= Len(plug) with plug[k] # SKIP, offset by `off`) of T with the basis vectors
RECURSIVE ContractList(_, _, _, _, _)
ContractList(T, n, plug, off, k) ==
  \* processes positions from the last to the first so that earlier indices stay valid
  IF k = 0 THEN T
  ELSE IF plug[k] = "SKIP" THEN ContractList(T, n, plug, off, k - 1)
  ELSE LET p == off + k
           bv == BasisVec(plug[k])
           T2 == [b \in BIdx(n - 1) |->
                    RAdd(RMul(bv[1], T[[i \in 1..n |-> IF i < p THEN b[i] ELSE IF i = p THEN 0 ELSE b[i - 1]]]),
                         RMul(bv[2], T[[i \in 1..n |-> IF i < p THEN b[i] ELSE IF i = p THEN 1 ELSE b[i - 1]]]))]
       IN ContractList(T2, n - 1, plug, off, k - 1)
ApplyInputs(T, m, k, plug) == ContractList(T, m + k, plug, 0, Len(plug))
ApplyOutputs(T, m, k, plug) == ContractList(T, m + k, plug, m, Len(plug))

\* ---------- identity test: plain wires from the i-th input to the i-th output and nothing else ----------
IsIdentitySpec(g) ==
  /\ Len(g.ins) = Len(g.outs)
  /\ g.vs = ToSet(g.ins) \cup ToSet(g.outs) /\ Cardinality(g.vs) = 2 * Len(g.ins)
  /\ \A i \in 1..Len(g.ins) : ET(g, g.ins[i], g.outs[i]) = "N"
\* the code's test (graph.rs:652-659), with the edge type
IsIdentityCode(g) ==
  LET n == Len(g.ins) IN
  /\ Len(g.outs) = n /\ Cardinality(g.vs) = 2 * n
  /\ \A i \in 1..n : ET(g, g.ins[i], g.outs[i]) = "N"

\* ======================= additions: API-coverage gaps #2, #19, #20 (docs/api_audit.md) =======================
\* ---------- append / plug with an explicit injective naming m of other's vertices (AppendMap is the code's own choice;
\*            in tag space, Trace_Backends, m is the identity) ----------
AppendNamed(g, h, m) ==
  LET h2 == Rename(h, m)
  IN [g EXCEPT !.vs = g.vs \cup h2.vs, !.ty = h2.ty @@ g.ty, !.ph = h2.ph @@ g.ph, !.vr = h2.vr @@ g.vr,
               !.et = h2.et @@ g.et, !.sc = RMul(g.sc, h.sc)]
PlugNamed(g, h, m) ==
  IF Len(g.outs) # Len(h.ins) THEN [g |-> g, panic |-> TRUE]
  ELSE LET r == PlugLoop([g |-> AppendNamed(g, h, m), panic |-> FALSE], g.outs, h, m, 1)
       IN [g |-> [r.g EXCEPT !.outs = [k \in 1..Len(h.outs) |-> m[h.outs[k]]]], panic |-> r.panic]

\* ---------- conditional scalar factors under composition: what the linear-algebra statements need when the
\*            operands carry parameters (the transcriptions AppendG / Adjoint above do what the code does:
\*            other's factors are not taken over, factors are not conjugated) ----------
MergeSF(f, k) == [e \in (DOMAIN f) \cup (DOMAIN k) |->
                    IF e \in DOMAIN f /\ e \in DOMAIN k THEN RMul(f[e], k[e]) ELSE IF e \in DOMAIN f THEN f[e] ELSE k[e]]
ConjSF(f) == [e \in DOMAIN f |-> RConj(f[e])]
NoSF(g) == [g EXCEPT !.sf = <<>>]
AdjointFull(g) == [Adjoint(g) EXCEPT !.sf = ConjSF(g.sf)]
JuxtaposeFull(g, h) == [Juxtapose(g, h) EXCEPT !.sf = MergeSF(g.sf, h.sf)]

\* ---------- copy(adjoint) (graph.rs:807-827): as the code does it (vertices and edges only, then adjoint()) and as its
\*            doc comment says ("a copy of the graph" / "the adjoint of the graph ... inputs and outputs flipped") ----------
CopyCode(g, adj) == LET c == [g EXCEPT !.ins = <<>>, !.outs = <<>>, !.sc = ROne, !.sf = <<>>] IN IF adj THEN Adjoint(c) ELSE c
CopySpec(g, adj) == IF adj THEN AdjointFull(g) ELSE g

\* ---------- make_bipartite (graph.rs:829-893): every edge between two Z or two X spiders is replaced by a path through a
\*            new phase-free spider of the other colour, plain edges (the type of the replaced edge is not looked at);
\*            nm : replaced edge -> name of the new spider ----------
SameColour(g) == {e \in DOMAIN g.et : \A u, v \in e : g.ty[u] = g.ty[v] /\ g.ty[u] \in {"Z", "X"}}
SplitEdge(g, e, n) ==
  LET u == Min(e)  v == Max(e)
  IN SetET(SetET(AddV(DelE(g, u, v), n, IF g.ty[u] = "Z" THEN "X" ELSE "Z", 0), u, n, "N"), n, v, "N")
RECURSIVE SplitAll(_, _, _)
SplitAll(g, es, nm) == IF es = {} THEN g ELSE LET e == CHOOSE e \in es : TRUE IN SplitAll(SplitEdge(g, e, nm[e]), es \ {e}, nm)
BipartiteNamed(g, nm) == SplitAll(g, SameColour(g), nm)

\* ---------- subgraph_from_vertices (graph.rs:778-794): data and induced edges, nothing else.  With the boundary lists
\*            restricted to S it is, for a union S of connected components, that factor of the tensor product ----------
RestrictTo(g, S) ==
  [EmptyG EXCEPT !.vs = S, !.ty = [v \in S |-> g.ty[v]], !.ph = [v \in S |-> g.ph[v]], !.vr = [v \in S |-> g.vr[v]],
                 !.et = [e \in {e \in DOMAIN g.et : e \subseteq S} |-> g.et[e]],
                 !.ins = SelectSeq(g.ins, LAMBDA v : v \in S), !.outs = SelectSeq(g.outs, LAMBDA v : v \in S)]
Closed(g, S) == S \subseteq g.vs /\ \A e \in DOMAIN g.et : e \subseteq S \/ e \cap S = {}
\* ascending positions, in Bnd(g), of the boundaries that lie in S (= the boundary order of RestrictTo(g, S))
BndPosIn(g, S) == SelectSeq([i \in 1..Len(Bnd(g)) |-> i], LAMBDA i : Bnd(g)[i] \in S)
\* T (n indices) = sc * (A (x) B), A on the index positions pa and B on the positions pb
FactorsOK(T, n, sc, A, pa, B, pb) ==
  \A b \in BIdx(n) : T[b] = RMul(sc, RMul(A[[i \in 1..Len(pa) |-> b[pa[i]]]], B[[i \in 1..Len(pb) |-> b[pb[i]]]]))
SubgraphSpecOK(g, S) ==
  Closed(g, S) => FactorsOK(Den(g), Len(Bnd(g)), g.sc, Den(RestrictTo(g, S)), BndPosIn(g, S),
                            Den(RestrictTo(g, g.vs \ S)), BndPosIn(g, g.vs \ S))

\* ---------- BasisElem::flipped / is_x / is_z / phase ----------
BFlip(b) == CASE b = "Z0" -> "Z1" [] b = "Z1" -> "Z0" [] b = "X0" -> "X1" [] b = "X1" -> "X0" [] OTHER -> "SKIP"
InnerB(a, b) == RAdd(RMul(RConj(BasisVec(a)[1]), BasisVec(b)[1]), RMul(RConj(BasisVec(a)[2]), BasisVec(b)[2]))
\* "flipped" = the other element of the same basis: same basis and orthogonal
FlipOK(b, f) == IF b = "SKIP" THEN f = "SKIP" ELSE f \in Basis \ {"SKIP"} /\ BIsZ(f) = BIsZ(b) /\ InnerB(b, f) = RZero
=============================================================================
