------------------------------- MODULE BigNat -------------------------------
(***************************************************************************)
(* Natural numbers of arbitrary size for TLC (whose integers are 32 bit):  *)
(* little-endian sequences of limbs in base B = 2^15, canonical = no       *)
(* leading (most significant) zero limb, zero = <<>>.  Products of two     *)
(* limbs stay below 2^30 and every carry chain below 2^31.                 *)
(* Used by Dyadic.tla to state what quizx's 64-bit-mantissa floating       *)
(* format must compute (C07).                                              *)
(***************************************************************************)
EXTENDS Integers, Sequences, TLC

B == 32768
LB == 15
BZero == <<>>
RECURSIVE BNorm(_)
BNorm(a) == IF a = <<>> THEN <<>> ELSE IF a[Len(a)] = 0 THEN BNorm(SubSeq(a, 1, Len(a) - 1)) ELSE a
BIsZero(a) == BNorm(a) = <<>>
RECURSIVE BFromInt(_)
BFromInt(n) == IF n = 0 THEN <<>> ELSE <<n % B>> \o BFromInt(n \div B)
Limb(a, i) == IF i <= Len(a) THEN a[i] ELSE 0
Max2(x, y) == IF x > y THEN x ELSE y

RECURSIVE BAddC(_, _, _, _)
BAddC(a, b, i, c) ==
  IF i > Max2(Len(a), Len(b)) THEN (IF c = 0 THEN <<>> ELSE <<c>>)
  ELSE LET s == Limb(a, i) + Limb(b, i) + c IN <<s % B>> \o BAddC(a, b, i + 1, s \div B)
BAdd(a, b) == BNorm(BAddC(a, b, 1, 0))

\* comparison: -1, 0, 1
RECURSIVE BCmpFrom(_, _, _)
BCmpFrom(a, b, i) == IF i = 0 THEN 0 ELSE IF Limb(a, i) < Limb(b, i) THEN -1 ELSE IF Limb(a, i) > Limb(b, i) THEN 1 ELSE BCmpFrom(a, b, i - 1)
BCmp(a, b) == BCmpFrom(a, b, Max2(Len(a), Len(b)))
BLeq(a, b) == BCmp(a, b) <= 0
BLess(a, b) == BCmp(a, b) < 0

\* a - b for a >= b
RECURSIVE BSubC(_, _, _, _)
BSubC(a, b, i, br) ==
  IF i > Len(a) THEN <<>>
  ELSE LET d == Limb(a, i) - Limb(b, i) - br IN
       IF d < 0 THEN <<d + B>> \o BSubC(a, b, i + 1, 1) ELSE <<d>> \o BSubC(a, b, i + 1, 0)
BSub(a, b) == BNorm(BSubC(a, b, 1, 0))
BAbsDiff(a, b) == IF BLeq(b, a) THEN BSub(a, b) ELSE BSub(b, a)

\* multiplication by one limb, then schoolbook
RECURSIVE BMulLimbC(_, _, _, _)
BMulLimbC(a, m, i, c) ==
  IF i > Len(a) THEN (IF c = 0 THEN <<>> ELSE <<c>>)
  ELSE LET p == a[i] * m + c IN <<p % B>> \o BMulLimbC(a, m, i + 1, p \div B)
BMulLimb(a, m) == BNorm(BMulLimbC(a, m, 1, 0))
ShiftLimbs(a, k) == IF a = <<>> THEN <<>> ELSE [i \in 1..k |-> 0] \o a
RECURSIVE BMulFrom(_, _, _)
BMulFrom(a, b, j) == IF j > Len(b) THEN <<>> ELSE BAdd(ShiftLimbs(BMulLimb(a, b[j]), j - 1), TLCEval(BMulFrom(a, b, j + 1)))
BMul(a, b) == BNorm(BMulFrom(a, b, 1))

RECURSIVE P2(_)
P2(n) == IF n = 0 THEN 1 ELSE 2 * P2(n - 1)
\* shifts by k bits
BShl(a, k) == IF a = <<>> THEN <<>> ELSE ShiftLimbs(BMulLimb(a, P2(k % LB)), k \div LB)
\* floor(a / 2^k)
RECURSIVE BShrBitsC(_, _, _)
BShrBitsC(a, r, i) ==        \* r < LB; processes from limb i upwards: out[i] = (a[i] >> r) | (low r bits of a[i+1]) << (LB - r)
  IF i > Len(a) THEN <<>>
  ELSE <<(a[i] \div P2(r)) + (Limb(a, i + 1) % P2(r)) * P2(LB - r)>> \o BShrBitsC(a, r, i + 1)
BShr(a, k) ==
  LET q == k \div LB
      a1 == IF q >= Len(a) THEN <<>> ELSE SubSeq(a, q + 1, Len(a))
  IN BNorm(BShrBitsC(a1, k % LB, 1))
\* number of significant bits
RECURSIVE BitsOfLimb(_)
BitsOfLimb(x) == IF x = 0 THEN 0 ELSE 1 + BitsOfLimb(x \div 2)
BBitLen(a0) == LET a == BNorm(a0) IN IF a = <<>> THEN 0 ELSE (Len(a) - 1) * LB + BitsOfLimb(a[Len(a)])
BIsOdd(a) == a # <<>> /\ a[1] % 2 = 1
\* number of trailing zero bits (a # 0)
RECURSIVE BTrailingZeros(_)
BTrailingZeros(a) == IF a[1] = 0 THEN LB + BTrailingZeros(Tail(a))
                     ELSE LET RECURSIVE tz(_) tz(x) == IF x % 2 = 1 THEN 0 ELSE 1 + tz(x \div 2) IN tz(a[1])
\* low k bits all zero?
BLowBitsZero(a, k) == BIsZero(a) \/ BTrailingZeros(BNorm(a)) >= k
BTwoPow(k) == BShl(<<1>>, k)
IsBigNat(a) == \A i \in 1..Len(a) : a[i] \in 0..(B - 1)
=============================================================================
