-------------------------------- MODULE Simp --------------------------------
(***************************************************************************)
(* The simplifiers of quizx/src/simplify.rs as iteration of the rules of   *)
(* Rules.tla.  vertex_simp!/edge_simp! snapshot the vertex/edge list and   *)
(* apply the rule wherever the matcher (re-checked before every unchecked  *)
(* application) holds, until a pass finds nothing; the order depends on    *)
(* storage order (hash-map iteration in one backend), so the specification *)
(* allows ANY order: a strategy is the set of rules it may fire, and the   *)
(* behaviours of the code are a subset of the behaviours of the spec.      *)
(*   flow_simp              : fusion, x_to_z, remove_id, remove_single/pair*)
(*   interior_clifford_simp : + pivot, local_comp                          *)
(*   clifford_simp          : + gen_pivot under the `reduce` matcher       *)
(*   full_simp              : + fuse_gadgets, remove_gadget_pi (batch)     *)
(* The single-rule simplifiers (id_simp, spider_simp, pivot_simp,          *)
(* local_comp_simp, gen_pivot_simp, scalar_simp) are sub-strategies.       *)
(***************************************************************************)
EXTENDS Rules

\* ---------- fuse_gadgets (simplify.rs:270-330), one batch step ----------
\* leaf v of a phase gadget: degree-1 Z spider whose neighbour w is a phase-0, variable-free Z hub of
\* degree > 1 all of whose legs are H edges to Z spiders
GadgetHub(g, v) == CHOOSE w \in Nbrs(g, v) : TRUE
IsGadgetLeaf(g, v) ==
  /\ g.ty[v] = "Z" /\ Deg(g, v) = 1
  /\ LET w == GadgetHub(g, v) IN
       g.ty[w] = "Z" /\ g.ph[w] = 0 /\ PIsEmpty(g.vr[w]) /\ Deg(g, w) > 1 /\ AllZH(g, w)
GadgetKey(g, v) == Nbrs(g, GadgetHub(g, v)) \ {v}
GadgetLeaves2(g) == {v \in g.vs : IsGadgetLeaf(g, v)}
GadgetGroups(g) == {grp \in {{v \in GadgetLeaves2(g) : GadgetKey(g, v) = GadgetKey(g, u)} : u \in GadgetLeaves2(g)} :
                      Cardinality(grp) > 1}
CanFuseGadgets(g) == GadgetGroups(g) # {}
\* fuse one group, keeping leaf `keep`
FuseGroup(g, grp, keep) ==
  LET others == grp \ {keep}
      ph == FoldSet(LAMBDA v, acc : acc + g.ph[v], 0, others)
      pv == FoldSet(LAMBDA v, acc : PXor(acc, g.vr[v]), PZero, others)
      deg == Cardinality(GadgetKey(g, keep))
      num == Cardinality(grp)
      g1 == AddPar(AddPh(g, keep, ph), keep, pv)
      g2 == FoldSet(LAMBDA v, acc : DelV(DelV(acc, GadgetHub(g, v)), v), g1, others)
  IN MulSc(g2, Sqrt2Pow(-((num - 1) * (deg - 1))))
\* all groups at once (the groups are disjoint and their hubs distinct); the kept gadget is the code's
\* first in storage order: any member
RECURSIVE FuseAll(_, _)
FuseAll(g, grps) == IF grps = {} THEN g
                    ELSE LET grp == CHOOSE x \in grps : TRUE IN FuseAll(FuseGroup(g, grp, Min(grp)), grps \ {grp})
FuseGadgets(g) == FuseAll(g, GadgetGroups(g))
\* the code keeps the first member of a group in the backend's enumeration order: ANY member
RECURSIVE FuseAllSet(_, _)
FuseAllSet(S, grps) == IF grps = {} THEN S
                       ELSE LET grp == CHOOSE x \in grps : TRUE IN
                            FuseAllSet(UNION {{FuseGroup(h, grp, keep) : keep \in grp} : h \in S}, grps \ {grp})
FuseGadgetsSet(g) == FuseAllSet({g}, GadgetGroups(g))

\* ---------- remove_gadget_pi (simplify.rs:332-350) ----------
PiGadgetLeaves(g) == {v \in g.vs : g.ty[v] = "Z" /\ Deg(g, v) = 1
                         /\ LET n == GadgetHub(g, v) IN ET(g, v, n) = "H" /\ g.ty[n] = "Z" /\ g.ph[n] = 4}
CanRemoveGadgetPi(g) == PiGadgetLeaves(g) # {}
\* one leaf per hub
RemoveGadgetPi(g) ==
  LET hubs == {GadgetHub(g, v) : v \in PiGadgetLeaves(g)}
      pick == {Min({v \in PiGadgetLeaves(g) : GadgetHub(g, v) = h}) : h \in hubs}
  IN FoldSet(LAMBDA v, acc : ApplyPiCopy(acc, v).g, g, pick)
\* the code keeps, per hub, the leaf that a hash map happens to retain: ANY one leaf per hub
PiPicks(g) == LET hubs == {GadgetHub(g, v) : v \in PiGadgetLeaves(g)} IN
              {pick \in SUBSET PiGadgetLeaves(g) : \A h \in hubs : Cardinality({v \in pick : GadgetHub(g, v) = h}) = 1}
RemoveGadgetPiSet(g) == {FoldSet(LAMBDA v, acc : ApplyPiCopy(acc, v).g, g, pick) : pick \in PiPicks(g)}

\* ---------- strategies ----------
StratRules(s) ==
  CASE s = "flow"     -> {"spider_fusion", "remove_id", "remove_single", "remove_pair"}
    [] s = "interior" -> {"spider_fusion", "remove_id", "remove_single", "remove_pair", "pivot", "local_comp"}
    [] s = "clifford" -> {"spider_fusion", "remove_id", "remove_single", "remove_pair", "pivot", "local_comp", "gen_pivot_reduce"}
    [] s = "full"     -> {"spider_fusion", "remove_id", "remove_single", "remove_pair", "pivot", "local_comp", "gen_pivot_reduce"}
HasX(g) == \E v \in g.vs : g.ty[v] = "X"
\* the set of results of one step of strategy s from g: [g, panic, what]
StepRec(R, g, a) == LET r == Apply(R, g, a) IN [g |-> r.g, panic |-> r.panic, what |-> <<R, a>>]
SimpSteps(s, g) ==
  UNION {{StepRec(R, g, <<a>>) : a \in {a \in g.vs : Check(R, g, <<a>>)}} : R \in StratRules(s) \cap Rules1}
  \cup
  UNION {{StepRec(R, g, p) : p \in {p \in g.vs \X g.vs : Check(R, g, p)}} : R \in StratRules(s) \cap Rules2}
  \cup (IF HasX(g) THEN {[g |-> XToZ(g), panic |-> FALSE, what |-> <<"x_to_z">>]} ELSE {})
  \cup (IF s = "full" /\ CanFuseGadgets(g) THEN {[g |-> h, panic |-> FALSE, what |-> <<"fuse_gadgets">>] : h \in FuseGadgetsSet(g)} ELSE {})
  \cup (IF s = "full" /\ CanRemoveGadgetPi(g) THEN {[g |-> h, panic |-> FALSE, what |-> <<"remove_gadget_pi">>] : h \in RemoveGadgetPiSet(g)} ELSE {})
Quiescent(s, g) == SimpSteps(s, g) = {}
=============================================================================
