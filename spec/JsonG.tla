------------------------------- MODULE JsonG -------------------------------
(***************************************************************************)
(* C13: the qgraph JSON document of quizx/src/json.rs as an abstract value *)
(* and json/graph.rs (from_graph / to_graph), json/phase.rs and            *)
(* json/scalar.rs transcribed as Encode / Decode.                          *)
(*                                                                         *)
(* A document is the record (field names of JsonGraph)                     *)
(*   [ wire_vertices : Seq([name, boundary, coord, input, output]),        *)
(*     node_vertices : Seq([name, type, value, is_edge, coord]),           *)
(*     undir_edges   : Seq([src, tgt, type]),     position i = edge e(i-1) *)
(*     scalar        : [present, power2, phase, ff, is_zero] ]             *)
(* The three maps of the code are HashMaps: a map is written here as the   *)
(* association list in the order in which the reader iterates over it      *)
(* (to_graph numbers vertices and fuses edges in that order); DecodeOrder  *)
(* in MC_JsonG shows that the result does not depend on it.                *)
(*   name         string ("v3", "b0")                                      *)
(*   coord        <<x, y>> = <<row, qubit>> as integers in units of 0.001  *)
(*   input/output index in the input / output list, JNone = absent         *)
(*   type         "Z" | "X" | "hadamard"  (serde names of VType)           *)
(*   value        phase in half turns as a pair <<n, d>>; NoVal = ""       *)
(*   is_edge      the node stands for a Hadamard edge                      *)
(*   edge type    "simple" | "hadamard"                                    *)
(*   scalar.ff    floatfactor: "one" (1.0), "absent" (not written = 0.0,   *)
(*                which the reader skips), "other" (a float outside TLA+;  *)
(*                then `phase` is opaque and written NoVal)                *)
(* Phases of diagrams are whatever the phase conversion given to           *)
(* EncodeWith / DecodeWith produces: units of pi/4 (ZXGraph, operators     *)
(* Encode / Decode) or reduced pairs <<n, d>> in (-1, 1] (Trace_JsonG).    *)
(* Coordinates of a diagram are a function cg : vs -> <<x, y>>.            *)
(***************************************************************************)
EXTENDS ZXSem

NoVal == <<0, 0>>
JNone == -1

\* ---------- rationals as pairs ----------
RECURSIVE JGcd(_, _)
JGcd(a, b) == IF b = 0 THEN a ELSE JGcd(b, a % b)
JAbs(a) == IF a < 0 THEN -a ELSE a
\* Phase::new: reduced, positive denominator, representative in (-1, 1]
CanonPair(p) ==
  LET s == IF p[2] < 0 THEN -1 ELSE 1
      n0 == s * p[1]
      d0 == s * p[2]
      c == JGcd(JAbs(n0), d0)
      d == d0 \div c
      n1 == (n0 \div c) % (2 * d)
  IN <<IF n1 > d THEN n1 - 2 * d ELSE n1, d>>
\* k pi/4 as the pair Phase stores
PhPair(k) == CanonPair(<<k % 8, 4>>)

\* ---------- vertex types and default phases (graph.rs:45-57, 91-99) ----------
TyName(t) == IF t = "Hbox" THEN "hadamard" ELSE t
TyOf(n) == IF n = "hadamard" THEN "Hbox" ELSE n
\* phase conversions for diagrams with phases in units of pi/4
ValOf4(t, k) == IF k = (IF t = "Hbox" THEN 4 ELSE 0) THEN NoVal ELSE PhPair(k)        \* ignore_value -> ""
PhOf4(t, v) == IF v = NoVal THEN (IF t = "Hbox" THEN 4 ELSE 0) ELSE PhU(v)
\* phase conversions for diagrams with phases as reduced pairs
ValOfRaw(t, p) == IF p = (IF t = "Hbox" THEN <<1, 1>> ELSE <<0, 1>>) THEN NoVal ELSE p
PhOfRaw(t, v) == IF v = NoVal THEN (IF t = "Hbox" THEN <<1, 1>> ELSE <<0, 1>>) ELSE CanonPair(v)

\* ---------- scalar (json/scalar.rs) ----------
NoScalar == [present |-> FALSE, power2 |-> 0, phase |-> NoVal, ff |-> "absent", is_zero |-> FALSE]
EncodeScalar(z) ==
  IF z = ROne THEN NoScalar                                      \* (!scalar.is_one()).then(..)
  ELSE LET e == ExactPhasePow(z) IN
       IF e[1] THEN [present |-> TRUE, power2 |-> e[3], phase |-> PhPair(e[2]), ff |-> "one", is_zero |-> FALSE]
       ELSE IF z = RZero THEN [present |-> TRUE, power2 |-> 0, phase |-> <<0, 1>>, ff |-> "absent", is_zero |-> TRUE]
       ELSE [present |-> TRUE, power2 |-> 0, phase |-> NoVal, ff |-> "other", is_zero |-> FALSE]
\* the documents whose scalar is a value of the ring (no float involved)
ScalarExactDoc(s) == ~s.present \/ s.is_zero \/ (s.ff \in {"one", "absent"} /\ (s.phase = NoVal \/ PhOK(s.phase)))
DecodeScalar(s) ==
  IF ~s.present THEN ROne
  ELSE IF s.is_zero THEN RZero
  ELSE RMul(Omega(IF s.phase = NoVal THEN 0 ELSE PhU(s.phase)), Sqrt2Pow(s.power2))

\* ---------- from_graph (json/graph.rs:34-172) ----------
PosIn(s, x) == IF \E i \in 1..Len(s) : s[i] = x THEN (CHOOSE i \in 1..Len(s) : s[i] = x /\ \A j \in 1..(i - 1) : s[j] # x) - 1
               ELSE JNone
\* avg_coord; exact when the sum is even in units of 0.001 (the code rounds the mean to 0.0005)
AvgC(a, b) == <<(a[1] + b[1]) \div 2, (a[2] + b[2]) \div 2>>
EncodeWith(g, cg, ValOf(_, _)) ==
  LET V == SetToSortSeq(g.vs, <)                                  \* graph.vertices()
      BS == SelectSeq(V, LAMBDA v : g.ty[v] = "B")
      SS == SelectSeq(V, LAMBDA v : g.ty[v] # "B")
      nm(v) == IF g.ty[v] = "B" THEN "b" \o ToString(PosIn(BS, v)) ELSE "v" \o ToString(PosIn(SS, v))
      ES == SetToSortSeq(DOMAIN g.et, LAMBDA e, f : Min(e) < Min(f) \/ (Min(e) = Min(f) /\ Max(e) < Max(f)))
      HS == SelectSeq(ES, LAMBDA e : g.et[e] = "H")
      hn(e) == "v" \o ToString(Len(SS) + PosIn(HS, e))           \* the same name generator as the spiders
      wires == [i \in 1..Len(BS) |-> [name |-> nm(BS[i]), boundary |-> TRUE, coord |-> cg[BS[i]],
                                      input |-> PosIn(g.ins, BS[i]), output |-> PosIn(g.outs, BS[i])]]
      nodes == [i \in 1..Len(SS) |-> [name |-> nm(SS[i]), type |-> TyName(g.ty[SS[i]]),
                                      value |-> ValOf(g.ty[SS[i]], g.ph[SS[i]]), is_edge |-> FALSE, coord |-> cg[SS[i]]]]
               \o [i \in 1..Len(HS) |-> [name |-> hn(HS[i]), type |-> "hadamard", value |-> NoVal, is_edge |-> TRUE,
                                         coord |-> AvgC(cg[Min(HS[i])], cg[Max(HS[i])])]]
      edges == FlattenSeq([i \in 1..Len(ES) |->
                 LET e == ES[i] IN
                 IF g.et[e] = "H" THEN <<[src |-> nm(Min(e)), tgt |-> hn(e), type |-> "simple"],
                                         [src |-> hn(e), tgt |-> nm(Max(e)), type |-> "simple"]>>
                 ELSE <<[src |-> nm(Min(e)), tgt |-> nm(Max(e)), type |-> "simple"]>>])
  IN [doc |-> [wire_vertices |-> wires, node_vertices |-> nodes, undir_edges |-> edges, scalar |-> EncodeScalar(g.sc)],
      \* assert!(input.is_some() || output.is_some())
      panic |-> \E i \in 1..Len(BS) : PosIn(g.ins, BS[i]) = JNone /\ PosIn(g.outs, BS[i]) = JNone]

\* ---------- to_graph (json/graph.rs:175-297) ----------
IsHNode(n) == n.type = "hadamard" /\ n.is_edge
ETy(t) == IF t = "hadamard" THEN "H" ELSE "N"
DecodeWith(doc, PhOf(_, _)) ==
  LET N == doc.node_vertices
      W == doc.wire_vertices
      E == doc.undir_edges
      real == SelectSeq([i \in 1..Len(N) |-> i], LAMBDA i : ~IsHNode(N[i]))
      hs == SelectSeq([i \in 1..Len(N) |-> i], LAMBDA i : IsHNode(N[i]))
      nr == Len(real)
      \* add_vertex_with_data on an empty graph hands out 0, 1, 2, ...: nodes first, then wires
      vs == 0..(nr + Len(W) - 1)
      declared == {N[real[k]].name : k \in 1..nr} \cup {W[k].name : k \in 1..Len(W)}
      hnames == {N[hs[k]].name : k \in 1..Len(hs)}
      idOf(x) == IF \E k \in 1..nr : N[real[k]].name = x THEN (CHOOSE k \in 1..nr : N[real[k]].name = x) - 1
                 ELSE nr + (CHOOSE k \in 1..Len(W) : W[k].name = x) - 1
      \* BTreeMap<index, name>: ascending index, a later insertion replaces an earlier one
      byIndex(f(_)) == LET keys == SetToSortSeq({f(W[k]) : k \in 1..Len(W)} \ {JNone}, <)
                       IN [i \in 1..Len(keys) |-> nr + Max({k \in 1..Len(W) : f(W[k]) = keys[i]}) - 1]
      ty == [v \in vs |-> IF v < nr THEN TyOf(N[real[v + 1]].type) ELSE "B"]
      g0 == [vs |-> vs, ty |-> ty,
             ph |-> [v \in vs |-> IF v < nr THEN PhOf(ty[v], N[real[v + 1]].value) ELSE PhOf("B", NoVal)],
             vr |-> [v \in vs |-> PZero], et |-> <<>>,
             ins |-> byIndex(LAMBDA w : w.input), outs |-> byIndex(LAMBDA w : w.output),
             sc |-> ROne, sf |-> <<>>]
      cg == [v \in vs |-> IF v < nr THEN N[real[v + 1]].coord ELSE W[v - nr + 1].coord]
      undeclared == \E i \in 1..Len(E) : E[i].src \notin declared \cup hnames \/ E[i].tgt \notin declared \cup hnames
      \* both ends virtual: the code invents a Z vertex (graph.rs:250-267); no writer in scope produces it
      hh == \E i \in 1..Len(E) : E[i].src \in hnames /\ E[i].tgt \in hnames
      plain == SelectSeq(E, LAMBDA e : e.src \notin hnames /\ e.tgt \notin hnames)
      \* neighbours of a virtual node in the order in which the edges are met
      nbrs(h) == LET inc == SelectSeq(E, LAMBDA e : e.src = h \/ e.tgt = h)
                 IN [i \in 1..Len(inc) |-> idOf(IF inc[i].src = h THEN inc[i].tgt ELSE inc[i].src)]
      badH == \E k \in 1..Len(hs) : Len(nbrs(N[hs[k]].name)) # 2
      triples == [i \in 1..Len(plain) |-> <<idOf(plain[i].src), idOf(plain[i].tgt), ETy(plain[i].type)>>]
                 \o [k \in 1..Len(hs) |-> LET nb == nbrs(N[hs[k]].name) IN <<nb[1], nb[2], "H">>]
  IN IF undeclared \/ hh THEN [g |-> g0, cg |-> cg, panic |-> undeclared, unsupported |-> hh]
     ELSE IF badH THEN [g |-> g0, cg |-> cg, panic |-> TRUE, unsupported |-> FALSE]
     ELSE LET r == SmartSeq(NoPanic(g0), triples) IN
          \* *graph.scalar_mut() = ..: a present scalar REPLACES what edge fusion accumulated
          [g |-> IF doc.scalar.present THEN [r.g EXCEPT !.sc = DecodeScalar(doc.scalar)] ELSE r.g,
           cg |-> cg, panic |-> r.panic, unsupported |-> FALSE]

\* diagrams with phases in units of pi/4
Encode(g, cg) == EncodeWith(g, cg, ValOf4)
Decode(doc) == DecodeWith(doc, PhOf4)
ZeroCrd(g) == [v \in g.vs |-> <<0, 0>>]

\* ---------- phase texts of other writers, by SHAPE (json/phase.rs to_phase; audit #24) ----------
\* A shape is what the text is made of (the harness renders it in one of the spellings pyzx & co. use and logs it):
\*   kind "frac" : [-] [num] [pi] [/ den]        (a numerator or a pi is present)        value  +-num / den
\*   kind "dec"  : [-] mant * 10^exp10 [pi]      (a decimal literal, exponent optional)   value  +-mant * 10^exp10
\*   kind "empty": the empty text = "no value" (the reader substitutes the vertex type's default)
\*   kind "raw"  : a text that denotes no rational (not judged)
\* A missing numerator means 1, a missing denominator 1; "pi" is a unit, not a factor (phases are in half turns).
RECURSIVE JPow10(_)
JPow10(k) == IF k <= 0 THEN 1 ELSE 10 * JPow10(k - 1)
PhShapeVal(sh) ==
  LET sg == IF sh.neg THEN -1 ELSE 1 IN
  IF sh.kind = "frac" THEN <<sg * (IF sh.hasnum THEN sh.num ELSE 1), IF sh.hasden THEN sh.den ELSE 1>>
  ELSE IF sh.exp10 >= 0 THEN <<sg * sh.mant * JPow10(sh.exp10), 1>>
  ELSE <<sg * sh.mant, JPow10(-sh.exp10)>>
PhShapeWF(sh) == \/ sh.kind = "frac" /\ (sh.hasnum \/ sh.pi) /\ sh.den > 0 /\ sh.num >= 0
                 \/ sh.kind = "dec" /\ sh.mant >= 0
\* "denotes a rational with denominator <= 256": the statement's "exactly, for denominators up to 256"
PhShapeInScope(sh) == PhShapeWF(sh) /\ CanonPair(PhShapeVal(sh))[2] <= 256
\* what decoding such a text may answer: that rational (as Phase stores it) or an error -- never another phase,
\* never "no value", never a panic
ForeignPhaseOK(sh, res, ret) ==
  IF sh.kind = "empty" THEN res = "none"
  ELSE PhShapeInScope(sh) => (res = "err" \/ (res = "ok" /\ ret = CanonPair(PhShapeVal(sh))))

\* ---------- from_phase with caller-chosen PhaseOptions ----------
\* p: the phase (reduced pair), o = [has_ign, ign, ignore_approx, ignore_pi, limit (0 = None)];
\* doc: the text as another reader understands it (NoVal for ""), back_res/back: to_phase of the result.
\*   * p is the ignore value: the text is "" and decodes to "no value" (the caller's default);
\*   * otherwise, if p's denominator is within 256 and within the caller's limit, the text denotes p and decodes to p;
\*   * otherwise the caller asked for an approximation (or p is out of the statement's range): nothing is demanded
\*     of the value; in every case a text denoting a rational with denominator <= 256 decodes to that rational.
PhaseOptOK(p, o, doc, back_res, back) ==
  LET exactScope == p[2] <= 256 /\ (o.limit = 0 \/ p[2] <= o.limit)
  IN /\ IF o.has_ign /\ CanonPair(o.ign) = p THEN doc = NoVal /\ back_res = "none"
        ELSE exactScope => (doc # NoVal /\ CanonPair(doc) = p /\ back_res = "ok" /\ back = p)
     /\ (doc # NoVal /\ doc[2] > 0 /\ CanonPair(doc)[2] <= 256) => (back_res = "ok" /\ back = CanonPair(doc))
\* L1: how from_phase writes (tilde iff it approximated and was not told to hide it; "pi" unless told otherwise or 0;
\* a limited denominator is within the limit)
PhaseOptAsWritten(p, o, doc, tilde, haspi) ==
  IF o.has_ign /\ CanonPair(o.ign) = p THEN ~tilde /\ ~haspi
  ELSE LET lim == o.limit > 0 /\ p[2] > o.limit
       IN /\ tilde = (lim /\ ~o.ignore_approx)
          /\ haspi = (~o.ignore_pi /\ p[1] # 0)              \* the zero test precedes the limiting: "0*pi" is possible
          /\ (lim => doc[2] <= o.limit)

\* ---------- scalar documents of other writers (json/scalar.rs TryFrom<&JsonScalar>) ----------
\* pyzx's Scalar: sqrt2^power2 * e^{i pi phase} * floatfactor * PROD_j (1 + e^{i pi node_j}); is_zero: 0; is_unknown: no value.
\* Defined in the ring when every phase is a multiple of pi/4 and there is no float factor (ff "absent" | "one").
RECURSIVE JNodesProd(_)
JNodesProd(ns) == IF ns = <<>> THEN ROne ELSE RMul(RAdd(ROne, Omega(PhU(ns[1]))), JNodesProd(Tail(ns)))
ScalarDocExact(s) == /\ s.ff \in {"one", "absent"} /\ (s.phase = NoVal \/ PhOK(s.phase))
                     /\ \A i \in 1..Len(s.phasenodes) : s.phasenodes[i] = NoVal \/ PhOK(s.phasenodes[i])
DecodeScalarExt(s) ==
  IF s.is_zero THEN RZero
  ELSE RMul(RMul(Omega(IF s.phase = NoVal THEN 0 ELSE PhU(s.phase)), Sqrt2Pow(s.power2)),
            JNodesProd([i \in 1..Len(s.phasenodes) |-> IF s.phasenodes[i] = NoVal THEN <<0, 1>> ELSE s.phasenodes[i]]))

\* ---------- documents with parallel edges: the multigraph they denote ----------
\* an extra edge <<u, w, t>> between two spiders = a path through a fresh phase-free Z spider (identity on a wire)
RECURSIVE WithParallel(_, _)
WithParallel(g, par) ==
  IF par = <<>> THEN g
  ELSE LET x == Head(par)
           n == Fresh(g)
       IN WithParallel(SetET(SetET(AddV(g, n, "Z", 0), x[1], n, x[3]), n, x[2], "N"), Tail(par))

\* ---------- well-formed documents ----------
DocNames(doc) == [i \in 1..Len(doc.node_vertices) |-> doc.node_vertices[i].name]
                 \o [i \in 1..Len(doc.wire_vertices) |-> doc.wire_vertices[i].name]
\* the endpoints of the edge a virtual node stands for / of a plain edge, as a set of names
DocWF(doc) ==
  LET N == doc.node_vertices
      W == doc.wire_vertices
      E == doc.undir_edges
      nms == DocNames(doc)
      all == ToSet(nms)
      hnames == {N[i].name : i \in {i \in 1..Len(N) : IsHNode(N[i])}}
      inc(h) == {i \in 1..Len(E) : E[i].src = h \/ E[i].tgt = h}
      idx(f(_)) == [k \in 1..Len(W) |-> f(W[k])]
      perm(s) == LET used == SelectSeq(s, LAMBDA x : x # JNone)
                 IN ToSet(used) = 0..(Len(used) - 1) /\ Cardinality(ToSet(used)) = Len(used)
  IN /\ Cardinality(all) = Len(nms)                                              \* names are unique
     /\ \A i \in 1..Len(E) : E[i].src \in all /\ E[i].tgt \in all /\ E[i].src # E[i].tgt    \* endpoints declared
     /\ \A h \in hnames : /\ Cardinality(inc(h)) = 2                               \* a virtual node has exactly two edges
                          /\ \A i \in inc(h) : ~(E[i].src \in hnames /\ E[i].tgt \in hnames)
     /\ \A i \in 1..Len(N) : N[i].type \in {"Z", "X", "hadamard"}
     /\ \A k \in 1..Len(W) : W[k].input # JNone \/ W[k].output # JNone
     /\ perm(idx(LAMBDA w : w.input)) /\ perm(idx(LAMBDA w : w.output))          \* indices are 0..n-1, once each
\* no two edges (plain or virtual) join the same pair: decoding fuses nothing
DocSimple(doc) ==
  LET N == doc.node_vertices
      E == doc.undir_edges
      hnames == {N[i].name : i \in {i \in 1..Len(N) : IsHNode(N[i])}}
      plainI == {i \in 1..Len(E) : E[i].src \notin hnames /\ E[i].tgt \notin hnames}
      ends(h) == {IF E[i].src = h THEN E[i].tgt ELSE E[i].src : i \in {i \in 1..Len(E) : E[i].src = h \/ E[i].tgt = h}}
      pp == [i \in plainI |-> {E[i].src, E[i].tgt}]
      hp == [h \in hnames |-> ends(h)]
  IN /\ \A x, y \in plainI : x # y => pp[x] # pp[y]
     /\ \A x, y \in hnames : x # y => hp[x] # hp[y]
     /\ \A x \in plainI : \A y \in hnames : pp[x] # hp[y]
\* a document as the encoder in scope writes it: plain edges only, wires flagged as boundary (an
\* annotation for other tools; to_graph does not read it)
DocPlain(doc) == /\ \A i \in 1..Len(doc.undir_edges) : doc.undir_edges[i].type = "simple"
                 /\ \A k \in 1..Len(doc.wire_vertices) : doc.wire_vertices[k].boundary

\* ---------- isomorphism anchored on inputs and outputs ----------
\* the anchored isomorphisms g -> h: bijections of the vertex sets that map ins to ins and outs to
\* outs position by position and preserve vertex type, phase, coordinate and edge type
VLab(x, cx, v) == <<x.ty[v], x.ph[v], cx[v]>>
IsoPre(g, h) == /\ Len(g.ins) = Len(h.ins) /\ Len(g.outs) = Len(h.outs)
                /\ Cardinality(g.vs) = Cardinality(h.vs)
                /\ Cardinality(DOMAIN g.et) = Cardinality(DOMAIN h.et)
                /\ LET bg == Bnd(g)  bh == Bnd(h) IN
                   \A i, j \in 1..Len(bg) : (bg[i] = bg[j]) = (bh[i] = bh[j])
Anchor(g, h) == LET bg == Bnd(g)  bh == Bnd(h)
                IN [v \in ToSet(bg) |-> bh[CHOOSE i \in 1..Len(bg) : bg[i] = v]]
AnchorOK(g, cg, h, ch, p0) ==
  /\ \A v \in DOMAIN p0 : VLab(g, cg, v) = VLab(h, ch, p0[v])
  /\ \A u, v \in DOMAIN p0 : ET(g, u, v) = ET(h, p0[u], p0[v])
\* (1) direct search over all maps of the vertices that are not anchored
IsoDirect(g, cg, h, ch) ==
  /\ IsoPre(g, h)
  /\ LET p0 == Anchor(g, h)
         Fg == g.vs \ DOMAIN p0
         Fh == h.vs \ {p0[v] : v \in DOMAIN p0}
     IN /\ AnchorOK(g, cg, h, ch, p0)
        /\ \E f \in [Fg -> Fh] :
             LET m == f @@ p0 IN
             /\ \A u, v \in Fg : u # v => f[u] # f[v]
             /\ \A v \in Fg : VLab(g, cg, v) = VLab(h, ch, f[v])
             /\ \A u \in g.vs : \A v \in Fg : ET(g, u, v) = ET(h, m[u], m[v])
\* (2) refinement: candidates by signature (label, number of N and of H neighbours), partial maps
\* extended vertex by vertex and pruned by the edges to the vertices already mapped
VSig(x, cx, v) == <<VLab(x, cx, v), Cardinality({u \in Nbrs(x, v) : ET(x, u, v) = "N"}),
                    Cardinality({u \in Nbrs(x, v) : ET(x, u, v) = "H"})>>
IsoMaps(g, cg, h, ch) ==
  IF ~IsoPre(g, h) THEN {}
  ELSE LET p0 == Anchor(g, h)
           Fg == g.vs \ DOMAIN p0
           Fh == h.vs \ {p0[v] : v \in DOMAIN p0}
           sg == [v \in Fg |-> VSig(g, cg, v)]
           sh == [w \in Fh |-> VSig(h, ch, w)]
           cand == [v \in Fg |-> {w \in Fh : sh[w] = sg[v]}]
           RECURSIVE Ext(_, _)
           Ext(P, todo) ==
             IF todo = <<>> \/ P = {} THEN P
             ELSE LET v == Head(todo) IN
                  Ext(TLCEval(UNION {{(v :> w) @@ p : w \in {w \in cand[v] :
                                         \A u \in DOMAIN p : p[u] # w /\ ET(g, u, v) = ET(h, p[u], w)}} : p \in P}),
                      Tail(todo))
       IN IF AnchorOK(g, cg, h, ch, p0) THEN Ext({p0}, SetToSortSeq(Fg, <)) ELSE {}
IsoRefine(g, cg, h, ch) == IsoMaps(g, cg, h, ch) # {}
\* with coordinates / without
IsoAnchoredC(g, cg, h, ch) ==
  IF Cardinality(g.vs) <= 6 /\ Cardinality(g.vs \ ToSet(Bnd(g))) <= 4 THEN IsoDirect(g, cg, h, ch) ELSE IsoRefine(g, cg, h, ch)
IsoAnchored(g, h) == IsoAnchoredC(g, ZeroCrd(g), h, ZeroCrd(h))
=============================================================================
