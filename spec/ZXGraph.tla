------------------------------ MODULE ZXGraph ------------------------------
(***************************************************************************)
(* The abstract ZX-diagram that quizx's GraphLike trait stores, and the    *)
(* editing operations of graph.rs transcribed as operators.                *)
(*                                                                         *)
(*   g == [ vs   : finite set of vertex names (naturals),                  *)
(*          ty   : [vs -> {"B","Z","X"}],                                  *)
(*          ph   : [vs -> 0..7]        phase in units of pi/4,             *)
(*          vr   : [vs -> Parity]      <<set of boolean variables, const>>,*)
(*          et   : [E -> {"N","H"}]    E a set of 2-element subsets of vs, *)
(*          ins, outs : Seq(vs),                                           *)
(*          sc   : Ring,               the global scalar,                  *)
(*          sf   : [Expr -> Ring] ]    scalar factors conditioned on an    *)
(*                                     Expr = set of parities (conjunction)*)
(*                                                                         *)
(* Operators that can panic in the code return [g |-> .., panic |-> ..].   *)
(***************************************************************************)
EXTENDS Integers, Sequences, FiniteSets, TLC, FiniteSetsExt, SequencesExt, Folds, Ring

EmptyG == [vs |-> {}, ty |-> <<>>, ph |-> <<>>, vr |-> <<>>, et |-> <<>>,
           ins |-> <<>>, outs |-> <<>>, sc |-> ROne, sf |-> <<>>]

\* ---------- parities and expressions (params.rs) ----------
PZero == <<{}, FALSE>>
PXor(p, q) == <<SymDiff(p[1], q[1]), p[2] # q[2]>>
PIsEmpty(p) == p[1] = {}                         \* Parity::is_empty : no variables (constant ignored)
PIsZero(p)  == p[1] = {} /\ ~p[2]
Lin(p) == {p}                                    \* Expr::linear
PEval(p, sig) == (Cardinality({x \in p[1] : sig[x]}) % 2 = 1) # p[2]
EEval(e, sig) == \A p \in e : PEval(p, sig)

\* ---------- basic accessors ----------
Edge(u, v) == {u, v}
Exists(g, v) == v \in g.vs
HasE(g, u, v) == u # v /\ Edge(u, v) \in DOMAIN g.et
ET(g, u, v) == IF HasE(g, u, v) THEN g.et[Edge(u, v)] ELSE "-"
Nbrs(g, v) == {u \in g.vs : HasE(g, u, v)}
Deg(g, v) == Cardinality(Nbrs(g, v))
Opp(t) == IF t = "N" THEN "H" ELSE "N"
IsZX(g, v) == g.ty[v] \in {"Z", "X"}
Spiders(g) == {v \in g.vs : g.ty[v] # "B"}
Bnd(g) == g.ins \o g.outs
BndSet(g) == {v \in g.vs : g.ty[v] = "B"}
OtherEnd(e, v) == CHOOSE u \in e : u # v
Fresh(g) == IF g.vs = {} THEN 0 ELSE Max(g.vs) + 1
IsPauli(p) == p \in {0, 4}
IsClifford(p) == p % 2 = 0
IsProperClifford(p) == p \in {2, 6}

\* ---------- primitive edits ----------
SetET(g, u, v, t) == [g EXCEPT !.et = (Edge(u, v) :> t) @@ g.et]
DelE(g, u, v) == [g EXCEPT !.et = [e \in (DOMAIN g.et) \ {Edge(u, v)} |-> g.et[e]]]
AddPh(g, v, k) == [g EXCEPT !.ph[v] = (g.ph[v] + k) % 8]
SetPh(g, v, k) == [g EXCEPT !.ph[v] = k % 8]
AddPar(g, v, p) == [g EXCEPT !.vr[v] = PXor(g.vr[v], p)]
MulSc(g, z) == [g EXCEPT !.sc = RMul(g.sc, z)]
MulSF(g, e, z) == [g EXCEPT !.sf = IF e \in DOMAIN g.sf THEN [g.sf EXCEPT ![e] = RMul(g.sf[e], z)]
                                   ELSE (e :> z) @@ g.sf]
DelV(g, v) == [g EXCEPT !.vs = g.vs \ {v},
                        !.ty = [u \in g.vs \ {v} |-> g.ty[u]],
                        !.ph = [u \in g.vs \ {v} |-> g.ph[u]],
                        !.vr = [u \in g.vs \ {v} |-> g.vr[u]],
                        !.et = [e \in {e \in DOMAIN g.et : v \notin e} |-> g.et[e]]]
AddV(g, v, t, p) == [g EXCEPT !.vs = g.vs \cup {v}, !.ty = (v :> t) @@ g.ty, !.ph = (v :> p) @@ g.ph,
                              !.vr = (v :> PZero) @@ g.vr]
ToggleET(g, u, v) == SetET(g, u, v, Opp(ET(g, u, v)))

\* ---------- add_edge_smart (graph.rs:463-526) ----------
NoPanic(h) == [g |-> h, panic |-> FALSE]
Panic(h)   == [g |-> h, panic |-> TRUE]
Smart(g, s, t, ety) ==
  IF s = t THEN
     IF IsZX(g, s) THEN (IF ety = "H" THEN NoPanic(MulSc(AddPh(g, s, 4), Sqrt2Pow(-1))) ELSE NoPanic(g))
     ELSE Panic(g)
  ELSE IF HasE(g, s, t) THEN
     LET e0 == ET(g, s, t)
         same == g.ty[s] = g.ty[t] IN
     IF ~(IsZX(g, s) /\ IsZX(g, t)) THEN Panic(g)
     ELSE IF same THEN
        CASE e0 = "N" /\ ety = "N" -> NoPanic(g)
          [] e0 = "H" /\ ety = "H" -> NoPanic(MulSc(DelE(g, s, t), Sqrt2Pow(-2)))
          [] e0 = "H" /\ ety = "N" -> NoPanic(MulSc(AddPh(SetET(g, s, t, "N"), s, 4), Sqrt2Pow(-1)))
          [] e0 = "N" /\ ety = "H" -> NoPanic(MulSc(AddPh(g, s, 4), Sqrt2Pow(-1)))
     ELSE
        CASE e0 = "N" /\ ety = "N" -> NoPanic(MulSc(DelE(g, s, t), Sqrt2Pow(-2)))
          [] e0 = "N" /\ ety = "H" -> NoPanic(MulSc(AddPh(SetET(g, s, t, "H"), s, 4), Sqrt2Pow(-1)))
          [] e0 = "H" /\ ety = "N" -> NoPanic(MulSc(AddPh(g, s, 4), Sqrt2Pow(-1)))
          [] e0 = "H" /\ ety = "H" -> NoPanic(g)
  ELSE NoPanic(SetET(g, s, t, ety))

\* fold Smart over a sequence of <<s,t,ety>> (the code inserts in some iteration order; the
\* result differs between orders only in which endpoint receives a pi, see Rules.tla)
RECURSIVE SmartSeq(_, _)
SmartSeq(r, q) == IF q = <<>> \/ r.panic THEN r ELSE SmartSeq(Smart(r.g, q[1][1], q[1][2], q[1][3]), Tail(q))

\* ---------- colour change ----------
ColorChange(g, v) == [g EXCEPT !.ty[v] = IF g.ty[v] = "X" THEN "Z" ELSE "X",
                               !.et = [e \in DOMAIN g.et |-> IF v \in e THEN Opp(g.et[e]) ELSE g.et[e]]]
\* x_to_z (graph.rs:440-450)
XToZ(g) == [g EXCEPT !.ty = [v \in g.vs |-> IF g.ty[v] = "X" THEN "Z" ELSE g.ty[v]],
                     !.et = [e \in DOMAIN g.et |->
                               IF Cardinality({v \in e : g.ty[v] = "X"}) = 1 THEN Opp(g.et[e]) ELSE g.et[e]]]

\* ---------- well-formedness ----------
WellFormed(g) ==
  /\ \A e \in DOMAIN g.et : Cardinality(e) = 2 /\ e \subseteq g.vs
  /\ \A v \in BndSet(g) : Deg(g, v) = 1 /\ g.ph[v] = 0
  /\ \A i \in 1..Len(Bnd(g)) : Bnd(g)[i] \in BndSet(g)
  /\ \A i, j \in 1..Len(Bnd(g)) : i # j => Bnd(g)[i] # Bnd(g)[j]
  /\ BndSet(g) = ToSet(Bnd(g))

\* ---------- conversion from / to the JSON shape shared with the harness (abs()) ----------
\* phase [num, den] with den | 4  ->  units of pi/4 in 0..7
PhOK(p) == p[2] > 0 /\ 4 % p[2] = 0
PhU(p) == (((p[1] * (4 \div p[2])) % 8) + 8) % 8
ParFromAbs(vs, c) == <<ToSet(vs), c>>
ScFromAbs(s) == RNorm(<<s[1], s[2], s[3], s[4], s[5]>>)
FromAbs(j) ==
  LET nv == Len(j.v)
      ne == Len(j.e)
      vs == {j.v[i].id : i \in 1..nv}
      rec(v) == j.v[CHOOSE i \in 1..nv : j.v[i].id = v]
      es == {Edge(j.e[i].u, j.e[i].w) : i \in 1..ne}
      erec(e) == j.e[CHOOSE i \in 1..ne : Edge(j.e[i].u, j.e[i].w) = e]
      nsf == Len(j.sf)
      cond(i) == {ParFromAbs(j.sf[i].cond[k][1], j.sf[i].cond[k][2]) : k \in 1..Len(j.sf[i].cond)}
  IN [vs |-> vs,
      ty |-> [v \in vs |-> rec(v).ty],
      ph |-> [v \in vs |-> PhU(rec(v).ph)],
      vr |-> [v \in vs |-> ParFromAbs(rec(v).vars, rec(v).vc)],
      et |-> [e \in es |-> erec(e).t],
      ins |-> j.ins, outs |-> j.outs,
      sc |-> ScFromAbs(j.sc),
      sf |-> [e \in {cond(i) : i \in 1..nsf} |-> ScFromAbs(j.sf[CHOOSE i \in 1..nsf : cond(i) = e].sc)]]
AbsOK(j) == \A i \in 1..Len(j.v) : PhOK(j.v[i].ph)

ToAbs(g) ==
  [v |-> SetToSortSeq({[id |-> v, ty |-> g.ty[v], ph |-> <<g.ph[v], 4>>,
                         vars |-> SetToSortSeq(g.vr[v][1], <), vc |-> g.vr[v][2]] : v \in g.vs},
                      LAMBDA a, b : a.id < b.id),
   e |-> SetToSortSeq({[u |-> Min(e), w |-> Max(e), t |-> g.et[e]] : e \in DOMAIN g.et},
                      LAMBDA a, b : a.u < b.u \/ (a.u = b.u /\ a.w < b.w)),
   ins |-> g.ins, outs |-> g.outs, sc |-> g.sc,
   sf |-> SetToSeq({[cond |-> SetToSeq({<<SetToSortSeq(p[1], <), p[2]>> : p \in e}), sc |-> g.sf[e]] : e \in DOMAIN g.sf})]

\* rename vertices by an injective function m defined on g.vs
Rename(g, m) ==
  LET inv(w) == CHOOSE v \in g.vs : m[v] = w
      nvs == {m[v] : v \in g.vs}
  IN [g EXCEPT !.vs = nvs,
               !.ty = [w \in nvs |-> g.ty[inv(w)]],
               !.ph = [w \in nvs |-> g.ph[inv(w)]],
               !.vr = [w \in nvs |-> g.vr[inv(w)]],
               !.et = [e \in {{m[u] : u \in f} : f \in DOMAIN g.et} |-> g.et[{inv(w) : w \in e}]],
               !.ins = [i \in 1..Len(g.ins) |-> m[g.ins[i]]],
               !.outs = [i \in 1..Len(g.outs) |-> m[g.outs[i]]]]
\* refinement up to the names of vertices created by a step: `spec` and `impl` agree on the vertices of `old`
\* and some bijection between their new vertices makes them equal
SameUpToNew(spec, impl, old) ==
  LET ns == spec.vs \ old
      ni == impl.vs \ old
  IN /\ Cardinality(ns) = Cardinality(ni)
     /\ spec.vs \cap old = impl.vs \cap old
     /\ IF ns = {} THEN spec = impl
        ELSE \E m \in {f \in [ns -> ni] : \A x, y \in ns : x # y => f[x] # f[y]} :
               Rename(spec, [v \in spec.vs |-> IF v \in ns THEN m[v] ELSE v]) = impl
\* compaction of the vector backend: the vertices renumbered 0..n-1 in increasing order of their names
RankOf(g, v) == Cardinality({u \in g.vs : u < v})
Packed(g) == Rename(g, [v \in g.vs |-> RankOf(g, v)])
=============================================================================
