------------------------------ MODULE RankTree ------------------------------
(***************************************************************************)
(* C18: rank-decomposition trees (quizx/src/rankwidth/decomp_tree.rs).     *)
(*                                                                         *)
(* A graph is a record gr = [n |-> N, adj |-> set of pairs <<u, v>>] on    *)
(* the vertices 1..N (code: 0..N-1, shifted by one by the harness); the    *)
(* relation is read symmetrically.  The graph is a parameter of the        *)
(* operators rather than a CONSTANT because one trace shard holds many     *)
(* graphs; MC_RankTree fixes it through its constant GRAPHS.               *)
(*                                                                         *)
(* nodes : the code's node array `DecompTree.nodes`, a sequence of         *)
(*         [kind |-> "leaf" | "int", nhd |-> sequence of node indices,     *)
(*          v |-> vertex (0 for interior nodes)]                           *)
(*         node index here = code index + 1; the ORDER of nhd is kept      *)
(*         because replace_neighbor / other_neighbor act on the first      *)
(*         match.                                                          *)
(* ranks : the cache `DecompTree.ranks`, a function from ordered pairs     *)
(*         <<i, j>>, i <= j (the code's key (min, max)) to naturals.       *)
(*                                                                         *)
(* The moves are transcribed statement by statement including which cache  *)
(* entries they clear; each returns [nodes, ranks, panic].  A panic        *)
(* (replace_neighbor not finding `old`, other_neighbor's expect, the       *)
(* assert in random_local_swap) freezes the node array where the code      *)
(* stopped.                                                                *)
(***************************************************************************)
EXTENDS Integers, Sequences, FiniteSets, TLC

\* ------------------------------------------------------------------ graph
RTVerts(gr) == 1..gr.n
RTConn(gr, u, v) == <<u, v>> \in gr.adj \/ <<v, u>> \in gr.adj

\* F2 rank by elimination.  A matrix is given as the SET of its rows, a row as the set of
\* columns holding a 1; repeated and zero rows do not change the rank, so a set is enough.
\* Pick a non-zero row r and a pivot column p of it, add r to every other row with a 1 in p.
RECURSIVE RTRank(_)
RTRank(rows) ==
  LET nz == rows \ {{}} IN
  IF nz = {} THEN 0
  ELSE LET r == CHOOSE x \in nz : TRUE
           p == CHOOSE c \in r : TRUE
       IN 1 + RTRank({IF p \in x THEN (x \ r) \cup (r \ x) ELSE x : x \in nz \ {r}})

\* rank of the adjacency submatrix rows A x columns B   (BitMatrix::build(..connected..).rank())
CutRankBetween(gr, A, B) == RTRank({{v \in B : RTConn(gr, u, v)} : u \in A})
\* the cut-rank function of the graph
CutRank(gr, S) == CutRankBetween(gr, S, RTVerts(gr) \ S)

\* ------------------------------------------------------------------ node array
RTLeaf(p, v) == [kind |-> "leaf", nhd |-> <<p>>, v |-> v]
RTInt(a, b, c) == [kind |-> "int", nhd |-> <<a, b, c>>, v |-> 0]
RTIdx(nodes) == 1..Len(nodes)
RTNhdSet(nd) == {nd.nhd[k] : k \in 1..Len(nd.nhd)}
RTLeaves(nodes) == {i \in RTIdx(nodes) : nodes[i].kind = "leaf"}      \* DecompTree.leaves
RTInts(nodes) == {i \in RTIdx(nodes) : nodes[i].kind = "int"}         \* DecompTree.interior
RTNorm(x, y) == IF x < y THEN <<x, y>> ELSE <<y, x>>                  \* key normalisation of set/clear/rank
\* edges(): pairs (i, j), i <= j, j in nhd(i) -- also the keys compute_ranks inserts
Edges(nodes) == UNION {{<<i, j>> : j \in {x \in RTNhdSet(nodes[i]) : i <= x}} : i \in RTIdx(nodes)}
\* num_edges(): from the lengths of the two index lists, not from the array
NumEdges(nodes) == (3 * Cardinality(RTInts(nodes)) + Cardinality(RTLeaves(nodes))) \div 2

RTMin(S) == CHOOSE x \in S : \A y \in S : x <= y
RTMax(S) == IF S = {} THEN 0 ELSE CHOOSE x \in S : \A y \in S : y <= x

\* nodes reachable from `front` without entering `seen`
RECURSIVE RTReach(_, _, _)
RTReach(nodes, seen, front) ==
  IF front = {} THEN seen
  ELSE LET nxt == (UNION {RTNhdSet(nodes[i]) : i \in front}) \ seen
       IN RTReach(nodes, seen \cup nxt, nxt)
\* dfs(a, avoid = [b], ..): everything on a's side of the tree edge (a, b)
Side(nodes, a, b) == RTReach(nodes, {a, b}, {a}) \ {b}
\* partition(e).0 : the leaf vertices on the e[1] side of tree edge e
Partition(nodes, e) == {nodes[i].v : i \in Side(nodes, e[1], e[2]) \cap RTLeaves(nodes)}

\* path(a, b): the code's DFS explores neighbours in nhd order; in a tree the result is the
\* unique simple path.  prev = 0 at the start.  <<>> if b is not reachable.  Only evaluated on
\* acyclic arrays (it would not terminate on a cycle; the code's `seen` set has no counterpart).
RECURSIVE RTPath(_, _, _, _)
RTPath(nodes, cur, prev, tgt) ==
  IF cur = tgt THEN <<cur>>
  ELSE LET ks == {k \in 1..Len(nodes[cur].nhd) : nodes[cur].nhd[k] # prev}
           sub == [k \in ks |-> RTPath(nodes, nodes[cur].nhd[k], cur, tgt)]
           good == {k \in ks : sub[k] # <<>>}
       IN IF good = {} THEN <<>> ELSE <<cur>> \o sub[RTMin(good)]
Path(nodes, a, b) == RTPath(nodes, a, 0, b)

\* ------------------------------------------------------------------ the property's predicates
WellIndexed(nodes) == \A i \in RTIdx(nodes) :
   /\ Len(nodes[i].nhd) = (IF nodes[i].kind = "leaf" THEN 1 ELSE 3)
   /\ \A k \in 1..Len(nodes[i].nhd) : nodes[i].nhd[k] \in RTIdx(nodes) /\ nodes[i].nhd[k] # i
SymmetricNhd(nodes) == \A i \in RTIdx(nodes) : \A j \in RTNhdSet(nodes[i]) : i \in RTNhdSet(nodes[j])
\* every interior node has three DISTINCT neighbours; a leaf has one.  With two vertices the
\* code builds two leaves pointing at each other and no interior node; with fewer than two
\* vertices it builds the empty tree (outside the property's quantifier: gr.n >= 2 is required).
Cubic(nodes) == \A i \in RTInts(nodes) : Cardinality(RTNhdSet(nodes[i])) = 3
ConnectedTree(nodes) == Len(nodes) > 0 /\ RTReach(nodes, {1}, {1}) = RTIdx(nodes)
Acyclic(nodes) == Cardinality(Edges(nodes)) = Len(nodes) - 1
LeafBijection(gr, nodes) ==
   /\ \A i, j \in RTLeaves(nodes) : nodes[i].v = nodes[j].v => i = j
   /\ {nodes[i].v : i \in RTLeaves(nodes)} = RTVerts(gr)
ValidTree(gr, nodes) ==
   /\ gr.n >= 2
   /\ WellIndexed(nodes) /\ SymmetricNhd(nodes) /\ Cubic(nodes)
   /\ ConnectedTree(nodes) /\ Acyclic(nodes)
   /\ LeafBijection(gr, nodes)

\* every cached entry belongs to a current tree edge and is the cut rank of that edge's partition
CacheCoherent(gr, nodes, ranks) ==
   \A e \in DOMAIN ranks : e \in Edges(nodes) /\ ranks[e] = CutRank(gr, Partition(nodes, e))

\* rankwidth(): max over the cache (0 if empty); rankwidth_score(): sum of squares over the cache
Width(ranks) == RTMax({ranks[e] : e \in DOMAIN ranks})
RECURSIVE RTSumSq(_, _)
RTSumSq(f, S) == IF S = {} THEN 0
                 ELSE LET e == CHOOSE x \in S : TRUE IN (f[e] * f[e]) + RTSumSq(f, S \ {e})
Score(ranks) == RTSumSq(ranks, DOMAIN ranks)
\* ... and the same from scratch, by definition: width = max over tree edges of the cut rank
TrueRanks(gr, nodes) == [e \in Edges(nodes) |-> CutRank(gr, Partition(nodes, e))]
TrueWidth(gr, nodes) == Width(TrueRanks(gr, nodes))
TrueScore(gr, nodes) == Score(TrueRanks(gr, nodes))

\* ------------------------------------------------------------------ the cache operations
RTDrop(ranks, es) == [k \in (DOMAIN ranks) \ es |-> ranks[k]]
ClearRank(ranks, x, y) == RTDrop(ranks, {RTNorm(x, y)})
RTPathEdges(path) == {RTNorm(path[k], path[k + 1]) : k \in 1..(Len(path) - 1)}
\* compute_ranks: early exit when the NUMBER of cached entries equals num_edges(); otherwise
\* every missing key (i, j), i <= j, j in nhd(i) is filled with the rank of partition.0 x partition.1
ComputeRanks(gr, nodes, ranks) ==
  IF NumEdges(nodes) = Cardinality(DOMAIN ranks) THEN ranks
  ELSE LET miss == Edges(nodes) \ DOMAIN ranks
       IN [e \in (DOMAIN ranks) \cup miss |->
             IF e \in DOMAIN ranks THEN ranks[e]
             ELSE CutRankBetween(gr, Partition(nodes, e), Partition(nodes, <<e[2], e[1]>>))]
\* what rankwidth() / rankwidth_score() answer when called in this state = recomputation from scratch
WidthOK(gr, nodes, ranks) ==
  LET r == ComputeRanks(gr, nodes, ranks)
  IN Width(r) = TrueWidth(gr, nodes) /\ Score(r) = TrueScore(gr, nodes)

\* ------------------------------------------------------------------ pointer surgery
RTSt(nodes) == [nodes |-> nodes, panic |-> FALSE]
\* nodes[i].replace_neighbor(old, new): first occurrence; panics if absent
Rep(st, i, old, new) ==
  IF st.panic THEN st
  ELSE LET nh == st.nodes[i].nhd
           ks == {k \in 1..Len(nh) : nh[k] = old}
       IN IF ks = {} THEN [st EXCEPT !.panic = TRUE]
          ELSE [st EXCEPT !.nodes[i].nhd[RTMin(ks)] = new]
\* node.other_neighbor(ns): first neighbour not in ns; 0 stands for the failing expect.
\* RTOtherK(.., 2) is the SECOND such neighbour: never taken by the code, used only by the
\* order-insensitive abstraction of MC_RankTree (NORMALIZE), see LocalSwapD.
RTOtherK(nd, ns, dk) ==
  LET ks == {k \in 1..Len(nd.nhd) : nd.nhd[k] \notin ns}
  IN IF Cardinality(ks) < dk THEN 0
     ELSE IF dk = 1 THEN nd.nhd[RTMin(ks)] ELSE nd.nhd[RTMin(ks \ {RTMin(ks)})]
RTOther(nd, ns) == RTOtherK(nd, ns, 1)
\* swap_subtrees((p1, c1), (p2, c2))
SwapSubtrees(st, p1, c1, p2, c2) ==
  Rep(Rep(Rep(Rep(st, p1, c1, c2), p2, c2, c1), c1, p1, p2), c2, p2, p1)
\* move_subtree(path)
MoveSubtreeCore(st, path) ==
  LET a == path[1]
      a1 == path[2]
      a2 == path[3]
      b == path[Len(path)]
      b1 == path[Len(path) - 1]
      ao == RTOther(st.nodes[a1], {a, a2})
  IN IF ao = 0 THEN [st EXCEPT !.panic = TRUE]
     ELSE Rep(Rep(Rep(Rep(Rep(Rep(st, a2, a1, ao), ao, a1, a2), b, b1, a1), a1, a2, b), a1, ao, b1), b1, b, a1)

\* ------------------------------------------------------------------ the three moves
RTRes(st, ranks) == [nodes |-> st.nodes, ranks |-> ranks, panic |-> st.panic]

\* swap_random_leaves with the random choice (l1, l2) = (leaves[i1], leaves[i2]), i1 # i2:
\* clears every edge on the path l1 .. l2, then swap_subtrees((p1, l1), (p2, l2))
\* With exactly two leaves (two-vertex graph) each leaf is the other's parent and swap_subtrees would
\* panic in its third replace_neighbor: the code returns early for fewer than three leaves
\* (finding F-C18-2, fixed by cb94cc3).
SwapLeavesArgs(nodes) ==
  IF Cardinality(RTLeaves(nodes)) < 3 THEN {}
  ELSE {a \in RTLeaves(nodes) \X RTLeaves(nodes) : a[1] # a[2]}
SwapLeaves(nodes, ranks, l1, l2) ==
  LET p1 == nodes[l1].nhd[1]
      p2 == nodes[l2].nhd[1]
      path == Path(nodes, l1, l2)
  IN RTRes(SwapSubtrees(RTSt(nodes), p1, l1, p2, l2), RTDrop(ranks, RTPathEdges(path)))

\* random_local_swap with the random choice (c, n1, n2): c interior, n1 # n2 positions of nhd(c).
\* a, b := nhd(c)[n1], nhd(c)[n2]; b is made interior (swap with a, else third neighbour);
\* d := first neighbour of b other than c; clears (c,a), (b,d), (b,c); swap_subtrees((c,a),(b,d))
LocalSwapArgs(nodes) ==
  IF Len(nodes) < 6 THEN {}
  ELSE {a \in RTInts(nodes) \X (1..3) \X (1..3) : a[2] # a[3]}
LocalSwapD(nodes, ranks, c, n1, n2, dk) ==
  LET a0 == nodes[c].nhd[n1]
      b0 == nodes[c].nhd[n2]
      bi == nodes[b0].kind = "int"
      ai == nodes[a0].kind = "int"
      a == IF bi THEN a0 ELSE IF ai THEN b0 ELSE a0
      b == IF bi THEN b0 ELSE IF ai THEN a0 ELSE RTOther(nodes[c], {a0, b0})
  IN IF b = 0 THEN [nodes |-> nodes, ranks |-> ranks, panic |-> TRUE]              \* expect
     ELSE IF nodes[b].kind # "int" THEN [nodes |-> nodes, ranks |-> ranks, panic |-> TRUE]   \* assert
     ELSE LET d == RTOtherK(nodes[b], {c}, dk)
          IN IF d = 0 THEN [nodes |-> nodes, ranks |-> ranks, panic |-> TRUE]
             ELSE RTRes(SwapSubtrees(RTSt(nodes), c, a, b, d),
                        ClearRank(ClearRank(ClearRank(ranks, c, a), b, d), b, c))
\* the code: d is the FIRST neighbour of b other than c (dk = 1).  This is the only place where the
\* order of a neighbour list decides the outcome of a move on a valid tree.
LocalSwap(nodes, ranks, c, n1, n2) == LocalSwapD(nodes, ranks, c, n1, n2, 1)

\* move_random_subtree with the random choice (a, b) of ANY two nodes: the code re-draws until
\* the path has at least 4 nodes; clears the WHOLE cache; move_subtree(path)
MoveSubtreeArgs(nodes) ==
  IF Len(nodes) < 6 THEN {}
  ELSE {a \in RTIdx(nodes) \X RTIdx(nodes) : Len(Path(nodes, a[1], a[2])) >= 4}
MoveSubtree(nodes, ranks, a, b) ==
  RTRes(MoveSubtreeCore(RTSt(nodes), Path(nodes, a, b)), <<>>)

\* all results of one call of the named random move (the call is a no-op when the argument set
\* is empty: fewer than 2 leaves / fewer than 6 nodes)
RTSame(nodes, ranks) == [nodes |-> nodes, ranks |-> ranks, panic |-> FALSE]
MoveResultsD(kind, nodes, ranks, DS) ==
  CASE kind = "swap_leaves" ->
         IF SwapLeavesArgs(nodes) = {} THEN {RTSame(nodes, ranks)}
         ELSE {SwapLeaves(nodes, ranks, a[1], a[2]) : a \in SwapLeavesArgs(nodes)}
    [] kind = "local_swap" ->
         IF LocalSwapArgs(nodes) = {} THEN {RTSame(nodes, ranks)}
         ELSE {LocalSwapD(nodes, ranks, a[1][1], a[1][2], a[1][3], a[2]) : a \in LocalSwapArgs(nodes) \X DS}
    [] kind = "move_subtree" ->
         IF MoveSubtreeArgs(nodes) = {} THEN {RTSame(nodes, ranks)}
         ELSE {MoveSubtree(nodes, ranks, a[1], a[2]) : a \in MoveSubtreeArgs(nodes)}
    [] OTHER -> {}
MoveResults(kind, nodes, ranks) == MoveResultsD(kind, nodes, ranks, {1})

\* order-insensitive view of a node array: every neighbour list sorted
RECURSIVE RTSorted(_)
RTSorted(S) == IF S = {} THEN <<>> ELSE <<RTMin(S)>> \o RTSorted(S \ {RTMin(S)})
SortNhds(nodes) == [i \in RTIdx(nodes) |-> [nodes[i] EXCEPT !.nhd = RTSorted(RTNhdSet(nodes[i]))]]

\* ------------------------------------------------------------------ the annealer (annealer.rs, run())
\* State a = [old, olds, best, bestw, bests, panic]: old_decomp (with its cache), old_score,
\* best_decomp, best_width, best_score.  Temperature, cooling and the iteration bound only decide
\* WHEN the loop stops and the value of the acceptance probability; the loop may stop after any
\* iteration (so the result `best` is examined in every state) and acceptance of a non-improving
\* proposal is a coin.  What is kept of the floating point: with adaptive cooling
\*   t = temp * (1 + (score - best_score) / best_score)
\* is NaN iff best_score = 0 and score = 0, then prob is NaN and random_bool(prob) panics
\* (best_score = 0 and score > 0 gives t = inf, prob = 1: accepted).
AnnealKinds == {"swap_leaves", "local_swap", "move_subtree"}
AnnealStart(gr, nodes, ranks) ==
  LET r0 == ComputeRanks(gr, nodes, ranks)      \* init_decomp.rankwidth(): the cache the caller left is trusted
      d == [nodes |-> nodes, ranks |-> r0]
  IN [old |-> d, olds |-> Score(r0), best |-> d, bestw |-> Width(r0), bests |-> Score(r0), panic |-> FALSE]
\* one iteration: r is the result of the drawn move on a clone of old, coin the draw of random_bool
AnnealStep(gr, a, adaptive, r, coin) ==
  IF r.panic THEN [a EXCEPT !.panic = TRUE]
  ELSE LET rk == ComputeRanks(gr, r.nodes, r.ranks)
           score == Score(rk)
           w == Width(rk)
           d == [nodes |-> r.nodes, ranks |-> rk]
           kept == [old |-> d, olds |-> score,
                    best |-> IF w < a.bestw THEN d ELSE a.best,
                    bestw |-> IF w < a.bestw THEN w ELSE a.bestw,
                    bests |-> IF score < a.bests THEN score ELSE a.bests,
                    panic |-> FALSE]
       IN IF score < a.olds THEN kept
          \* adaptive cooling divides by the best score only when it is positive (finding F-C18-1, fixed by c3ef207)
          ELSE IF coin THEN kept ELSE a
\* the tree run() would return now is valid, no wider than the starting tree, and the width the
\* annealer believes it has is its width
AnnealerOK(gr, initw, a) ==      \* initw = TrueWidth of the starting tree
  /\ ValidTree(gr, a.best.nodes)
  /\ TrueWidth(gr, a.best.nodes) <= initw
  /\ a.bestw = TrueWidth(gr, a.best.nodes)
  /\ CacheCoherent(gr, a.best.nodes, a.best.ranks)

\* the canonical caterpillar on n >= 2 vertices: leaves 1..n (leaf i holds vertex i), spine
\* n+1 .. 2n-2; spine node k carries leaf k+1, the two ends carry one more leaf each
Caterpillar(n) ==
  IF n = 2 THEN <<RTLeaf(2, 1), RTLeaf(1, 2)>>
  ELSE LET sp(k) == n + k
           m == n - 2
           par(i) == IF i = 1 THEN sp(1) ELSE IF i = n THEN sp(m) ELSE sp(i - 1)
       IN [i \in 1..(2 * n - 2) |->
             IF i <= n THEN RTLeaf(par(i), i)
             ELSE LET k == i - n
                  IN RTInt(IF k = 1 THEN 1 ELSE sp(k - 1), k + 1, IF k = m THEN n ELSE sp(k + 1))]
\* ------------------------------------------------------------------ the query API and direct calls (audit #16)
\* judged by definition on a valid tree, not against the transcription
RTSeqSet(s) == {s[i] : i \in 1..Len(s)}
RTNoDup(s) == \A i, j \in 1..Len(s) : i # j => s[i] # s[j]
\* path(a, b): THE path of the tree from a to b (consecutive nodes adjacent, no node twice)
IsTreePath(nodes, p, a, b) ==
  /\ Len(p) >= 1 /\ p[1] = a /\ p[Len(p)] = b /\ RTNoDup(p)
  /\ \A k \in 1..Len(p) : p[k] \in RTIdx(nodes)
  /\ \A k \in 1..(Len(p) - 1) : p[k + 1] \in RTNhdSet(nodes[p[k]])
\* partition(e) = (leaf vertices on e[1]'s side, leaf vertices on e[2]'s side), each vertex once
PartitionOK(nodes, e, p1, p2) ==
  /\ RTNoDup(p1) /\ RTNoDup(p2)
  /\ RTSeqSet(p1) = Partition(nodes, e) /\ RTSeqSet(p2) = Partition(nodes, <<e[2], e[1]>>)
\* edges(): every tree edge once as (i, j), i <= j;  num_edges(): their number
EdgesOK(nodes, es, ne) ==
  /\ RTNoDup(es) /\ {<<es[i][1], es[i][2]>> : i \in 1..Len(es)} = Edges(nodes) /\ ne = Cardinality(Edges(nodes))
\* arguments of swap_subtrees((p1, c1), (p2, c2)) that denote two DISJOINT subtrees hanging at c1 below p1 and at c2
\* below p2: the tree path from c1 to c2 leaves c1 through p1 and reaches c2 through p2 (p1 = p2: siblings)
SwapArgsValid(nodes, p1, c1, p2, c2) ==
  LET pt == Path(nodes, c1, c2) IN Len(pt) >= 3 /\ pt[2] = p1 /\ pt[Len(pt) - 1] = p2
\* argument of move_subtree: a tree path with at least four nodes
MoveArgsValid(nodes, pt) == Len(pt) >= 4 /\ IsTreePath(nodes, pt, pt[1], pt[Len(pt)])
\* the direct calls as the harness makes them (the protocol of the library's own random moves), L1 only
SwapDirect(nodes, ranks, p1, c1, p2, c2) ==
  RTRes(SwapSubtrees(RTSt(nodes), p1, c1, p2, c2), RTDrop(ranks, RTPathEdges(Path(nodes, c1, c2))))
MoveDirect(nodes, ranks, pt, selective) ==
  LET ao == RTOther(nodes[pt[2]], {pt[1], pt[3]})
  IN RTRes(MoveSubtreeCore(RTSt(nodes), pt),
           IF selective THEN RTDrop(ranks, RTPathEdges(pt) \cup {RTNorm(ao, pt[2])}) ELSE <<>>)
\* sort_nhds keeps the tree: same edges, same leaves with the same vertices, every neighbour list ascending
SortKeepsTree(pre, post) ==
  /\ Len(post) = Len(pre) /\ Edges(post) = Edges(pre)
  /\ \A i \in RTIdx(pre) : post[i].kind = pre[i].kind /\ post[i].v = pre[i].v /\ RTNhdSet(post[i]) = RTNhdSet(pre[i])
                             /\ \A k \in 1..(Len(post[i].nhd) - 1) : post[i].nhd[k] <= post[i].nhd[k + 1]
\* the caterpillar with leaf i holding vertex perm[i]
CaterpillarPerm(perm) == LET c == Caterpillar(Len(perm)) IN [i \in 1..Len(c) |-> IF c[i].kind = "leaf" THEN [c[i] EXCEPT !.v = perm[i]] ELSE c[i]]
=============================================================================
