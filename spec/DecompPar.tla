----------------------------- MODULE DecompPar -----------------------------
(***************************************************************************)
(* The decomposer's recursion (decompose.rs:1140-1384) as a fork-join      *)
(* process, to show that the combination logic is schedule independent.    *)
(* A computation tree is given as constants: Kids[n] is the sequence of    *)
(* children of node n (<<>> for a Clifford leaf), Kind[n] is "sum" (terms  *)
(* of a decomposition step) or "prod" (connected components) and Leaf[n]   *)
(* the scalar of a leaf, here a small integer standing for a ring element. *)
(* Sequential mode evaluates children in order on one stack; parallel mode *)
(* hands every child to a CLONE of the decomposer on a pool of W workers   *)
(* (rayon into_par_iter) and collects the results IN ORDER.  Clones copy   *)
(* the counters nterms / done of their parent at fork time and their own   *)
(* updates are dropped (self.clone() in the closure), which is why the     *)
(* counters are only exact in sequential mode.                             *)
(***************************************************************************)
EXTENDS Integers, Sequences, FiniteSets, TLC
CONSTANTS Nodes, Root, Kids, Kind, Leaf, W
VARIABLES st,       \* node -> "idle" | "ready" | "running" | "waiting" | "done"
          res,      \* node -> result (0 until done)
          owner,    \* node -> worker that runs it (0 = none)
          nterms    \* node -> the nterms counter of the decomposer (clone) that evaluates the node
vars == <<st, res, owner, nterms>>
Workers == 1..W
RECURSIVE Value(_)
SeqSum(s) == LET RECURSIVE f(_) f(i) == IF i = 0 THEN 0 ELSE s[i] + f(i - 1) IN f(Len(s))
SeqProd(s) == LET RECURSIVE f(_) f(i) == IF i = 0 THEN 1 ELSE s[i] * f(i - 1) IN f(Len(s))
Value(n) == IF Kids[n] = <<>> THEN Leaf[n]
            ELSE IF Kind[n] = "sum" THEN SeqSum([i \in 1..Len(Kids[n]) |-> Value(Kids[n][i])])
            ELSE SeqProd([i \in 1..Len(Kids[n]) |-> Value(Kids[n][i])])
RECURSIVE NumLeaves(_)
NumLeaves(n) == IF Kids[n] = <<>> THEN 1 ELSE SeqSum([i \in 1..Len(Kids[n]) |-> NumLeaves(Kids[n][i])])
Init == /\ st = [n \in Nodes |-> IF n = Root THEN "ready" ELSE "idle"]
        /\ res = [n \in Nodes |-> 0] /\ owner = [n \in Nodes |-> 0] /\ nterms = [n \in Nodes |-> 0]
Busy(w) == \E n \in Nodes : owner[n] = w /\ st[n] = "running"
\* a free worker (or one blocked in a join: rayon steals) takes any ready node
Take(w, n) == /\ st[n] = "ready" /\ ~Busy(w)
              /\ st' = [st EXCEPT ![n] = "running"] /\ owner' = [owner EXCEPT ![n] = w] /\ UNCHANGED <<res, nterms>>
\* a running leaf finishes: Clifford graph -> scalar, nterms += 1 on this clone
FinishLeaf(n) == /\ st[n] = "running" /\ Kids[n] = <<>>
                 /\ st' = [st EXCEPT ![n] = "done"] /\ res' = [res EXCEPT ![n] = Leaf[n]]
                 /\ nterms' = [nterms EXCEPT ![n] = @ + 1] /\ UNCHANGED owner
\* a running inner node forks: every child is handed to a clone (copy of the counter), the node waits
Fork(n) == /\ st[n] = "running" /\ Kids[n] # <<>>
           /\ st' = [k \in Nodes |-> IF k = n THEN "waiting" ELSE IF \E i \in 1..Len(Kids[n]) : Kids[n][i] = k THEN "ready" ELSE st[k]]
           /\ nterms' = [k \in Nodes |-> IF \E i \in 1..Len(Kids[n]) : Kids[n][i] = k THEN nterms[n] ELSE nterms[k]]
           /\ UNCHANGED <<res, owner>>
\* ordered collect: when all children are done combine their results by position; the clones' counters are dropped
Join(n) == /\ st[n] = "waiting" /\ \A i \in 1..Len(Kids[n]) : st[Kids[n][i]] = "done"
           /\ st' = [st EXCEPT ![n] = "done"]
           /\ res' = [res EXCEPT ![n] = IF Kind[n] = "sum" THEN SeqSum([i \in 1..Len(Kids[n]) |-> res[Kids[n][i]]])
                                         ELSE SeqProd([i \in 1..Len(Kids[n]) |-> res[Kids[n][i]]])]
           /\ UNCHANGED <<owner, nterms>>
Next == \/ \E w \in Workers, n \in Nodes : Take(w, n)
        \/ \E n \in Nodes : FinishLeaf(n) \/ Fork(n) \/ Join(n)
Spec == Init /\ [][Next]_vars /\ WF_vars(Next)
\* every partial result is the value of its subtree, whatever the schedule
PartialOK == \A n \in Nodes : st[n] = "done" => res[n] = Value(n)
SchedIndep == st[Root] = "done" => res[Root] = Value(Root)
Terminates == <>(st[Root] = "done")
\* the discrepancy the clones introduce (information): the root's counter stays 0 unless the root is a leaf
NTermsLost == st[Root] = "done" /\ Kids[Root] # <<>> => nterms[Root] = 0
=============================================================================
