-------------------------------- MODULE Qasm --------------------------------
(***************************************************************************)
(* C14: OpenQASM 2 printing and parsing of circuits (quizx/src/circuit.rs: *)
(* to_qasm, Display, from_qasm, from_qasm_parser, CircuitWriter; gate.rs:  *)
(* from_qasm_name, qasm_name, Gate::to_qasm).                              *)
(*                                                                         *)
(* Texts are abstracted to programs                                        *)
(*   [regs |-> <<[name, size], ...>>,      quantum registers, declaration  *)
(*                                         order                           *)
(*    ncb  |-> size of the classical register c (0: none),                 *)
(*    stmts |-> <<statement, ...>>]                                        *)
(* with statements                                                         *)
(*   [s |-> "gate", name, param |-> <<>> or <<p, ...>>, args |-> <<ref>>]  *)
(*        a gate application name(p) ref, ref;  (also the built-in CX);    *)
(*        a gate name the front end does not declare is an "undefined      *)
(*        gate name" of the property                                       *)
(*   [s |-> "barrier", args]   [s |-> "reset", args]   [s |-> "U", args]   *)
(*   [s |-> "if", val, then |-> statement]                                 *)
(*   [s |-> "measure", args |-> <<ref>>, cbit]                             *)
(* A ref is <<register index (1-based, declaration order), bit>>.  A phase *)
(* (parameter p, gate field ph) is a pair <<num, den>>: the rational       *)
(* num/den as a multiple of pi.  How a parameter is spelled in the text    *)
(* (k*pi/d, pi/d, 0.25*pi, a plain decimal ...) and where the declarations *)
(* stand are properties of the text, not of the abstract program; the      *)
(* harness renders them (fields form, layout: ignored here).  Floating     *)
(* point is outside TLA+: that "0.3333333333333333*pi" is read as 1/3 is   *)
(* decided on the real code by trace validation, for every k/d, d <= 16.   *)
(*                                                                         *)
(* Circuits are [n, gates] with gates [t, qs, ph, vars] as in Circuit.tla, *)
(* except that ph is the pair <<num, den>> (Circuit.tla's PhU only has     *)
(* multiples of pi/4) and vars is the sequence of variable numbers.        *)
(*                                                                         *)
(* Whole-register operands of gates (broadcast), user gate definitions and *)
(* several classical registers are outside the abstract syntax.            *)
(* TLC's standard module already defines Print: the operators are QParse   *)
(* and QPrint.                                                             *)
(***************************************************************************)
EXTENDS Circuit

\* ---------- phases: phase.rs normalize, Rational64 reduction ----------
QAbs(x) == IF x < 0 THEN -x ELSE x
RECURSIVE QGcd(_, _)
QGcd(a, b) == IF b = 0 THEN a ELSE QGcd(b, a % b)
QPhZero == <<0, 1>>
\* reduced, denominator > 0, in (-1, 1]
QNormPh(p) ==
  LET g == QGcd(QAbs(p[1]), p[2])
      n0 == p[1] \div g
      d == p[2] \div g
      m == n0 % (2 * d)
  IN IF m > d THEN <<m - (2 * d), d>> ELSE <<m, d>>
QPhOK(p) == p[2] > 0 /\ QNormPh(p) = p

\* ---------- the name table: gate.rs GType::from_qasm_name / qasm_name ----------
KindOfName(nm) ==
  CASE nm = "rz" -> "ZPhase" [] nm = "rx" -> "XPhase" [] nm = "x" -> "NOT" [] nm = "z" -> "Z" [] nm = "s" -> "S"
    [] nm = "t" -> "T" [] nm = "sdg" -> "Sdg" [] nm = "tdg" -> "Tdg" [] nm = "h" -> "HAD" [] nm = "cx" -> "CNOT"
    [] nm = "CX" -> "CNOT" [] nm = "cz" -> "CZ" [] nm = "ccx" -> "TOFF" [] nm = "ccz" -> "CCZ" [] nm = "swap" -> "SWAP"
    [] nm = "pp" -> "ParityPhase" [] nm = "xcx" -> "XCX" [] nm = "init_anc" -> "InitAncilla"
    [] nm = "post_sel" -> "PostSelect" [] nm = "measure_d" -> "Measure" [] nm = "measure_r" -> "MeasureReset"
    [] OTHER -> "UnknownGate"
NameOfKind(k) ==
  CASE k = "ZPhase" -> "rz" [] k = "NOT" -> "x" [] k = "XPhase" -> "rx" [] k = "Z" -> "z" [] k = "S" -> "s" [] k = "T" -> "t"
    [] k = "Sdg" -> "sdg" [] k = "Tdg" -> "tdg" [] k = "HAD" -> "h" [] k = "CNOT" -> "cx" [] k = "CZ" -> "cz"
    [] k = "TOFF" -> "ccx" [] k = "CCZ" -> "ccz" [] k = "SWAP" -> "swap" [] k = "ParityPhase" -> "pp" [] k = "XCX" -> "xcx"
    [] k = "InitAncilla" -> "init_anc" [] k = "PostSelect" -> "post_sel" [] k = "Measure" -> "measure_d"
    [] k = "MeasureReset" -> "measure_r" [] OTHER -> "UNKNOWN"
QAllNames == {"rz", "rx", "x", "z", "s", "t", "sdg", "tdg", "h", "cx", "CX", "cz", "ccx", "ccz", "swap", "pp", "xcx",
              "init_anc", "post_sel", "measure_d", "measure_r"}

\* the opaque declarations from_qasm_parser appends to every source (pp and measure_r are NOT declared);
\* include files are ignored (FilePolicy::Ignore), so nothing of qelib1.inc is defined
QPrelude == {"rz", "rx", "x", "z", "s", "t", "sdg", "tdg", "h", "cx", "cz", "ccx", "ccz", "swap", "xcx",
             "init_anc", "post_sel", "measure_d"}
QNumParams(nm) == IF nm \in {"rz", "rx"} THEN 1 ELSE 0
QArity(nm) == CASE nm \in {"cx", "CX", "cz", "swap", "xcx"} -> 2 [] nm \in {"ccx", "ccz"} -> 3 [] OTHER -> 1
\* gates applicable in a program: the prelude and OpenQASM's built-in CX (GateWriter::write_cx pushes a CNOT)
QDefined == QPrelude \cup {"CX"}

\* the gates the property quantifies over: rz/rx/x/z/s/t/sdg/tdg/h/cx/cz/ccx/ccz/swap/xcx and the ancilla gates
QPropKinds == {"ZPhase", "XPhase", "NOT", "Z", "S", "T", "Sdg", "Tdg", "HAD", "CNOT", "CZ", "TOFF", "CCZ", "SWAP", "XCX",
               "InitAncilla", "PostSelect"}
QPropNames == {NameOfKind(k) : k \in QPropKinds}
QKindArity(t) == CASE t \in {"CNOT", "CZ", "SWAP", "XCX"} -> 2 [] t \in {"TOFF", "CCZ"} -> 3 [] OTHER -> 1

NameTableInverse ==
  /\ \A k \in GateKinds : KindOfName(NameOfKind(k)) = k            \* reading a printed name gives the kind back
  /\ \A nm \in QAllNames \ {"CX"} : NameOfKind(KindOfName(nm)) = nm  \* and conversely,
  /\ NameOfKind(KindOfName("CX")) = "cx"                            \* except for the alias CX of cx
  /\ KindOfName(NameOfKind("UnknownGate")) = "UnknownGate"          \* the name printed for an unknown gate is not a gate name
  /\ \A nm \in QPrelude : KindOfName(nm) # "UnknownGate"            \* every declared gate has a kind
  /\ \A k \in QPropKinds : NameOfKind(k) \in QPrelude               \* every gate of the property's list is declared
  /\ \A k \in QPropKinds : QArity(NameOfKind(k)) = QKindArity(k)

\* ---------- declarations: Linearize::visit_qreg, in declaration order, before any statement ----------
QDeclStep(st, reg) == [off |-> Append(st.off, st.next), next |-> st.next + reg.size]
RECURSIVE QDeclRun(_, _)
QDeclRun(st, regs) == IF regs = <<>> THEN st ELSE QDeclRun(QDeclStep(st, Head(regs)), Tail(regs))
QDecl(regs) == QDeclRun([off |-> <<>>, next |-> 0], regs)
QQubit(d, a) == d.off[a[1]] + a[2]
\* TypeError::ZeroSizeRegister, RedefinedRegister
QDeclsOK(regs) == /\ \A i \in 1..Len(regs) : regs[i].size >= 1
                  /\ \A i, j \in 1..Len(regs) : i # j => regs[i].name # regs[j].name
\* the qubit count of a program without statements (no writer initialisation) is summed over the declarations
QSumSizes(regs) == FoldFunction(+, 0, [i \in 1..Len(regs) |-> regs[i].size])
QRefs(regs) == UNION {{<<i, b>> : b \in 0..(regs[i].size - 1)} : i \in 1..Len(regs)}

\* ---------- statements ----------
QRefOK(regs, a) == a[1] \in 1..Len(regs) /\ a[2] >= 0 /\ a[2] < regs[a[1]].size
QGateStmtOK(regs, s) ==
  /\ s.name \in QDefined                                               \* TypeError::UndefinedGate
  /\ Len(s.param) = QNumParams(s.name)                                 \* WrongParameterArity
  /\ Len(s.args) = QArity(s.name)                                      \* WrongArgumentArity
  /\ \A i \in 1..Len(s.args) : QRefOK(regs, s.args[i])                 \* UndefinedRegister / InvalidRegisterIndex
  /\ \A i, j \in 1..Len(s.args) : i # j => s.args[i] # s.args[j]       \* LinearizeErrorKind::OverlappingRegs
QMeasureOK(prog, s) == Len(s.args) = 1 /\ QRefOK(prog.regs, s.args[1]) /\ s.cbit >= 0 /\ s.cbit < prog.ncb

\* CircuitWriter::write_opaque / write_cx / write_measure / write_u / write_barrier / write_reset / start_conditional;
\* type errors are found before the first statement is written, writer errors at their statement: either way the
\* whole result is an error (no partial circuit is returned), so `err` is absorbing
QStmtStep(st, d, prog, s) ==
  IF st.res = "err" THEN st
  ELSE CASE s.s = "gate" ->
              IF QGateStmtOK(prog.regs, s)
              THEN [st EXCEPT !.gates = Append(@, [t |-> KindOfName(s.name),
                                                    qs |-> [i \in 1..Len(s.args) |-> QQubit(d, s.args[i])],
                                                    ph |-> IF s.param = <<>> THEN QPhZero ELSE QNormPh(s.param[1]),
                                                    vars |-> <<>>])]
              ELSE [res |-> "err", gates |-> <<>>]
         [] s.s = "measure" ->
              IF QMeasureOK(prog, s)
              THEN [st EXCEPT !.gates = Append(@, [t |-> "Measure", qs |-> <<QQubit(d, s.args[1])>>, ph |-> QPhZero, vars |-> <<s.cbit>>])]
              ELSE [res |-> "err", gates |-> <<>>]
         [] OTHER -> [res |-> "err", gates |-> <<>>]       \* barrier, reset, if, U: CircuitWriterError::*NotSupported
RECURSIVE QRun(_, _, _, _)
QRun(st, d, prog, stmts) == IF stmts = <<>> THEN st ELSE QRun(QStmtStep(st, d, prog, Head(stmts)), d, prog, Tail(stmts))

QParse(prog) ==
  IF ~QDeclsOK(prog.regs) THEN [res |-> "err"]
  ELSE LET d == QDecl(prog.regs)
           st == QRun([res |-> "ok", gates |-> <<>>], d, prog, prog.stmts)
       IN IF st.res = "err" THEN [res |-> "err"]
          ELSE [res |-> "ok", circ |-> [n |-> IF prog.stmts = <<>> THEN QSumSizes(prog.regs) ELSE d.next, gates |-> st.gates]]
QPrefix(prog, k) == [prog EXCEPT !.stmts = SubSeq(prog.stmts, 1, k)]

\* ---------- printing: Display for Circuit, Gate::to_qasm (only rz / rx print their phase; variables are not printed) ----------
QPrintsParam(t) == t \in {"ZPhase", "XPhase"}
QPrintGate(g) == [s |-> "gate", name |-> NameOfKind(g.t), param |-> IF QPrintsParam(g.t) THEN <<g.ph>> ELSE <<>>,
                  args |-> [i \in 1..Len(g.qs) |-> <<1, g.qs[i]>>]]
QPrint(c) == [regs |-> <<[name |-> "q", size |-> c.n]>>, ncb |-> 0, stmts |-> [i \in 1..Len(c.gates) |-> QPrintGate(c.gates[i])]]

\* ---------- the property ----------
QDistinct(qs) == \A i, j \in 1..Len(qs) : i # j => qs[i] # qs[j]
QGateWF(n, g) == /\ g.t \in QPropKinds /\ Len(g.qs) = QKindArity(g.t) /\ QDistinct(g.qs)
                 /\ \A i \in 1..Len(g.qs) : g.qs[i] >= 0 /\ g.qs[i] < n
                 /\ QPhOK(g.ph) /\ (~QPrintsParam(g.t) => g.ph = QPhZero) /\ g.vars = <<>>
QInDomain(c) == c.n >= 1 /\ \A i \in 1..Len(c.gates) : QGateWF(c.n, c.gates[i])
RoundTrip(c) == QInDomain(c) => QParse(QPrint(c)) = [res |-> "ok", circ |-> c]

\* statements the property calls unsupported, and programs its text speaks about
QUnsupported(s) == s.s \in {"barrier", "reset", "if", "U"} \/ (s.s = "gate" /\ s.name \notin QDefined)
QInProperty(prog) == /\ QDeclsOK(prog.regs)
                     /\ \A i \in 1..Len(prog.stmts) :
                          LET s == prog.stmts[i] IN
                          QUnsupported(s) \/ (s.s = "gate" /\ s.name \in QPropNames /\ QGateStmtOK(prog.regs, s))

\* ---------- extension: whole-register operands (broadcast) and user gate definitions ----------
\* Outside the property's explicit list, but the front end (crate openqasm: type checker + Linearize at unlimited depth)
\* accepts them, and the property's last clause applies: the result is the circuit the text denotes or an error,
\* never a circuit with gates dropped.  What a text DENOTES is OpenQASM 2's definition:
\*   g a, b[1], c;   with registers a, c of equal size k: k applications, the i-th to a[i], b[1], c[i]; operands of size 1
\*                   (an indexed qubit, or a whole register of size 1) are repeated; other sizes must agree
\*   gate nm(p1..) a1.. { body }   an application of nm is its body with the formal arguments / parameters replaced
\* A program may carry   defs |-> << [name, np, nq, body |-> <<bstmt, ...>>], ... >>   with
\*   bstmt: [s |-> "gate", name, param |-> <<pexpr, ...>>, args |-> <<formal argument index, ...>>]
\*          [s |-> "barrier", args |-> <<formal index, ...>>]     [s |-> "U", args |-> <<formal index>>]
\*   pexpr: <<k, d, f>>   the angle (k/d) * pi if f = 0, (k/d) * (formal parameter number f) otherwise
\* and an argument of a top-level gate statement may be a whole register <<r, -1>>.
QXDefs(prog) == IF "defs" \in DOMAIN prog THEN prog.defs ELSE <<>>
QXDefNames(prog) == {QXDefs(prog)[i].name : i \in 1..Len(QXDefs(prog))}
QXDef(prog, nm) == QXDefs(prog)[CHOOSE i \in 1..Len(QXDefs(prog)) : QXDefs(prog)[i].name = nm]
QXNumParams(prog, nm) == IF nm \in QXDefNames(prog) THEN QXDef(prog, nm).np ELSE QNumParams(nm)
QXArity(prog, nm) == IF nm \in QXDefNames(prog) THEN QXDef(prog, nm).nq ELSE QArity(nm)
QXKnown(prog) == QDefined \cup QXDefNames(prog)

\* type checking of the definitions (TypeError::RedefinedGate: the opaque prelude is part of every source; UndefinedGate,
\* Wrong*Arity also inside bodies, whether or not the gate is ever applied)
QXBodyStmtOK(prog, d, b) ==
  /\ \A i \in 1..Len(b.args) : b.args[i] \in 1..d.nq
  /\ b.s = "gate" => /\ b.name \in QXKnown(prog)
                     /\ Len(b.param) = QXNumParams(prog, b.name) /\ Len(b.args) = QXArity(prog, b.name)
                     /\ \A i \in 1..Len(b.param) : b.param[i][3] \in 0..d.np
QXDefsOK(prog) ==
  LET ds == QXDefs(prog) IN
  /\ \A i, j \in 1..Len(ds) : i # j => ds[i].name # ds[j].name
  /\ \A i \in 1..Len(ds) : /\ ds[i].name \notin QDefined
                             /\ \A k \in 1..Len(ds[i].body) : QXBodyStmtOK(prog, ds[i], ds[i].body[k])
\* type checking of a top-level gate statement (UndefinedRegister, InvalidRegisterIndex, WrongOperandSize)
QXRefOK(regs, a) == a[1] \in 1..Len(regs) /\ (a[2] = -1 \/ (a[2] >= 0 /\ a[2] < regs[a[1]].size))
QXArgSize(regs, a) == IF a[2] = -1 THEN regs[a[1]].size ELSE 1
QXStmtTyped(prog, s) ==
  /\ s.name \in QXKnown(prog) /\ Len(s.param) = QXNumParams(prog, s.name) /\ Len(s.args) = QXArity(prog, s.name)
  /\ \A i \in 1..Len(s.args) : QXRefOK(prog.regs, s.args[i])
  /\ \A i, j \in 1..Len(s.args) : LET a == QXArgSize(prog.regs, s.args[i])  b == QXArgSize(prog.regs, s.args[j]) IN (a > 1 /\ b > 1) => a = b
QXTyped(prog) == /\ QDeclsOK(prog.regs) /\ QXDefsOK(prog)
                 /\ \A i \in 1..Len(prog.stmts) : prog.stmts[i].s = "gate" => QXStmtTyped(prog, prog.stmts[i])

\* broadcast of one typed gate statement: its applications on indexed references, in order
QXWidth(regs, s) == Max({QXArgSize(regs, s.args[i]) : i \in 1..Len(s.args)})
QXArgAt(regs, a, k) == IF a[2] = -1 THEN <<a[1], IF regs[a[1]].size = 1 THEN 0 ELSE k>> ELSE a
QXBroadcast(regs, s) == [k \in 1..QXWidth(regs, s) |-> [s EXCEPT !.args = [i \in 1..Len(s.args) |-> QXArgAt(regs, s.args[i], k - 1)]]]
\* inlining of an application on indexed references (fuel bounds the nesting: definitions cannot be recursive)
QXEval(pe, actual) == IF pe[3] = 0 THEN <<pe[1], pe[2]>> ELSE <<pe[1] * actual[pe[3]][1], pe[2] * actual[pe[3]][2]>>
RECURSIVE QXInline(_, _, _)
QXInline(prog, s, fuel) ==
  IF s.s # "gate" \/ s.name \notin QXDefNames(prog) THEN <<s>>
  ELSE IF fuel = 0 THEN <<[s |-> "toodeep", args |-> <<>>]>>
  ELSE LET d == QXDef(prog, s.name)
           inst(b) == IF b.s = "gate"
                      THEN [s |-> "gate", name |-> b.name, param |-> [i \in 1..Len(b.param) |-> QXEval(b.param[i], s.param)],
                            args |-> [i \in 1..Len(b.args) |-> s.args[b.args[i]]]]
                      ELSE [s |-> b.s, args |-> [i \in 1..Len(b.args) |-> s.args[b.args[i]]]]
       IN Flatten([k \in 1..Len(d.body) |-> QXInline(prog, inst(d.body[k]), fuel - 1)])
QXExpandStmt(prog, s) ==
  IF s.s # "gate" THEN <<s>>
  ELSE LET bs == QXBroadcast(prog.regs, s) IN Flatten([k \in 1..Len(bs) |-> QXInline(prog, bs[k], Len(QXDefs(prog)) + 1)])
\* the program over opaque gates / CX / the unsupported statements that the text denotes
QXExpand(prog) == Flatten([i \in 1..Len(prog.stmts) |-> QXExpandStmt(prog, prog.stmts[i])])
QParseX(prog) ==
  IF ~QXTyped(prog) THEN [res |-> "err"]
  ELSE LET r == QParse([regs |-> prog.regs, ncb |-> prog.ncb, stmts |-> QXExpand(prog)]) IN
       \* the qubit count comes from the declarations whatever the statements expand to
       IF r.res = "err" THEN r ELSE [r EXCEPT !.circ.n = QSumSizes(prog.regs)]
\* where the property's explicit clause applies: an undefined gate name anywhere in the text, or a well-typed text that
\* applies barrier / reset / a conditional / U (at top level or through the body of an applied gate)
QXUsesUndefined(prog) ==
  \/ \E i \in 1..Len(prog.stmts) : prog.stmts[i].s = "gate" /\ prog.stmts[i].name \notin QXKnown(prog)
  \/ \E i \in 1..Len(QXDefs(prog)) : \E k \in 1..Len(QXDefs(prog)[i].body) :
        LET b == QXDefs(prog)[i].body[k] IN b.s = "gate" /\ b.name \notin QXKnown(prog)
QXMustErr(prog) ==
  \/ QXUsesUndefined(prog)
  \/ QXTyped(prog) /\ \E i \in 1..Len(QXExpand(prog)) : QXExpand(prog)[i].s \in {"barrier", "reset", "if", "U"}
QXHasBroadcast(prog) == \E i \in 1..Len(prog.stmts) : prog.stmts[i].s = "gate" /\ \E k \in 1..Len(prog.stmts[i].args) : prog.stmts[i].args[k][2] = -1
QXAppliesDef(prog) == \E i \in 1..Len(prog.stmts) : prog.stmts[i].s = "gate" /\ prog.stmts[i].name \in QXDefNames(prog)
\* GType::num_qubits: the fixed arity of a kind, -1 for the kinds without one
QKindNumQubits(t) == IF t \in {"ParityPhase", "UnknownGate"} THEN -1 ELSE QKindArity(t)

\* ---------- conversion from the harness's JSON ----------
QGateFromAbs(j) == [t |-> j.t, qs |-> j.qs, ph |-> j.ph, vars |-> j.vars]
QCircFromAbs(j) == [n |-> j.n, gates |-> [i \in 1..Len(j.gates) |-> QGateFromAbs(j.gates[i])]]
QStmtCore(s) == [s |-> s.s, name |-> s.name, param |-> s.param, args |-> s.args]
QProgCore(p) == [regs |-> [i \in 1..Len(p.regs) |-> [name |-> p.regs[i].name, size |-> p.regs[i].size]], ncb |-> p.ncb,
                 stmts |-> [i \in 1..Len(p.stmts) |-> QStmtCore(p.stmts[i])]]
=============================================================================
