--------------------------------- MODULE F2 ---------------------------------
(***************************************************************************)
(* C17: linear algebra over the two-element field (quizx/src/linalg.rs).    *)
(* A matrix is a sequence of rows, a row a sequence of 0/1 (1-based).       *)
(*  (a) abstract layer: elementary row operations, products, row space,    *)
(*      rank (declaratively and by textbook elimination), echelon forms,   *)
(*      kernel;                                                            *)
(*  (b) the code's gauss_helper (Patel-Markov-Hayes chunked elimination)    *)
(*      transcribed loop by loop as RECURSIVE operators, with the emitted   *)
(*      row operations; inverse and nullspace built on it as the code does; *)
(*  (c) the predicates of property C17.                                     *)
(* Row operations are logged as <<kind, r0, r1>> with kind "add" (add row  *)
(* r0 to row r1) or "swap" and 0-BASED row numbers, exactly as the code's  *)
(* RowOps proxy receives them.                                             *)
(***************************************************************************)
EXTENDS Integers, Sequences, FiniteSets, TLC

-----------------------------------------------------------------------------
(* (a) abstract layer *)
NRows(M) == Len(M)
NCols(M) == IF Len(M) = 0 THEN 0 ELSE Len(M[1])
IsVec(v, n) == Len(v) = n /\ \A j \in 1..n : v[j] \in {0, 1}
IsMat(M, r, c) == Len(M) = r /\ \A i \in 1..r : IsVec(M[i], c)
AllVecs(n) == [1..n -> {0, 1}]
AllMats(r, c) == [1..r -> AllVecs(c)]

ZeroVec(n) == TLCEval([j \in 1..n |-> 0])
IsZeroVec(v) == \A j \in 1..Len(v) : v[j] = 0
\* TLC builds [x \in S |-> e] lazily (every application re-evaluates e): rows and matrices are forced with TLCEval,
\* otherwise chains of row additions cost exponential time
VecAdd(u, v) == TLCEval([j \in 1..Len(u) |-> (u[j] + v[j]) % 2])
Dot(u, v) == Cardinality({j \in 1..Len(u) : u[j] = 1 /\ v[j] = 1}) % 2

\* the single action of the abstract machine, and the swap (1-based here)
RowAdd(M, r0, r1) == [M EXCEPT ![r1] = VecAdd(M[r0], M[r1])]
RowSwap(M, r0, r1) == [M EXCEPT ![r0] = M[r1], ![r1] = M[r0]]

Mul(A, B) == TLCEval([i \in 1..Len(A) |-> TLCEval([j \in 1..NCols(B) |->
                 Cardinality({k \in 1..Len(B) : A[i][k] = 1 /\ B[k][j] = 1}) % 2])])
Transpose(M) == TLCEval([j \in 1..NCols(M) |-> TLCEval([i \in 1..Len(M) |-> M[i][j]])])
VStack(A, B) == A \o B
HStack(A, B) == TLCEval([i \in 1..Len(A) |-> A[i] \o B[i]])
Identity(n) == TLCEval([i \in 1..n |-> TLCEval([j \in 1..n |-> IF i = j THEN 1 ELSE 0])])

\* the span of a list of vectors of length n (all F2-combinations); 2^Len(vs) candidates
SpanOf(vs, n) == {[j \in 1..n |-> Cardinality({i \in S : vs[i][j] = 1}) % 2] : S \in SUBSET (1..Len(vs))}
RowSpace(M) == SpanOf(M, NCols(M))
\* rank, declaratively: the row space has 2^rank elements
Rank(M) == LET n == Cardinality(RowSpace(M)) IN CHOOSE k \in 0..Len(M) : 2^k = n

\* rank by textbook elimination (column by column, swap the first candidate up, clear below);
\* deliberately NOT the code's algorithm.  For matrices too large for RowSpace.
MinOf(S) == CHOOSE x \in S : \A y \in S : x <= y
RECURSIVE RankElimRec(_, _, _)
RankElimRec(M, col, done) ==
  IF col > NCols(M) \/ done >= Len(M) THEN done
  ELSE LET cand == {r \in (done + 1)..Len(M) : M[r][col] = 1} IN
       IF cand = {} THEN RankElimRec(M, col + 1, done)
       ELSE LET M1 == TLCEval(RowSwap(M, MinOf(cand), done + 1))
                M2 == TLCEval([r \in 1..Len(M) |-> IF r > done + 1 /\ M1[r][col] = 1 THEN VecAdd(M1[r], M1[done + 1]) ELSE M1[r]])
            IN RankElimRec(TLCEval(M2), col + 1, done + 1)
RankElim(M) == RankElimRec(M, 1, 0)

SameRowSpace(A, B) == RowSpace(A) = RowSpace(B)
\* the same statement through ranks only: span(A) = span(B) iff rank A = rank B = rank [A;B]
SameRowSpaceElim(A, B) == LET ra == RankElim(A) IN ra = RankElim(B) /\ RankElim(A \o B) = ra

\* echelon forms.  LeadCol = column of the first 1 of a row, 0 for a zero row.
LeadCol(v) == IF IsZeroVec(v) THEN 0 ELSE CHOOSE j \in 1..Len(v) : v[j] = 1 /\ \A k \in 1..(j - 1) : v[k] = 0
\* pivot columns strictly increasing from row to row, zero rows last
IsEchelon(M) == \A i \in 1..(Len(M) - 1) :
   LET a == LeadCol(M[i])  b == LeadCol(M[i + 1]) IN b = 0 \/ (a # 0 /\ a < b)
\* reduced: in addition every pivot column contains a single 1
IsReducedEchelon(M) == /\ IsEchelon(M)
                       /\ \A i \in 1..Len(M) : LET p == LeadCol(M[i]) IN
                             p # 0 => \A k \in 1..Len(M) : k # i => M[k][p] = 0
NonZeroRows(M) == Cardinality({i \in 1..Len(M) : ~IsZeroVec(M[i])})

\* logged row operations
OpsOK(ops, rows) == \A i \in 1..Len(ops) : /\ Len(ops[i]) = 3 /\ ops[i][1] \in {"add", "swap"}
                                           /\ ops[i][2] \in 0..(rows - 1) /\ ops[i][3] \in 0..(rows - 1)
ApplyOp(M, o) == IF o[1] = "add" THEN RowAdd(M, o[2] + 1, o[3] + 1) ELSE RowSwap(M, o[2] + 1, o[3] + 1)
RECURSIVE ApplyOpsFrom(_, _, _)
ApplyOpsFrom(M, ops, i) == IF i > Len(ops) THEN M ELSE ApplyOpsFrom(TLCEval(ApplyOp(M, ops[i])), ops, i + 1)
ApplyOps(M, ops) == ApplyOpsFrom(M, ops, 1)
\* the matrix g of "g * m = m'": the operations applied to the identity
OpsMatrix(ops, rows) == ApplyOps(Identity(rows), ops)
\* the column operations of ColOps are the row operations of the transpose
ApplyColOps(M, ops) == Transpose(ApplyOps(Transpose(M), ops))

\* constructors and Hamming-weight helpers (Mat2::zeros / ones / id / unit_vector, row_weight / weight / unit_rows)
ZerosMat(r, c) == [i \in 1..r |-> [j \in 1..c |-> 0]]
OnesMat(r, c) == [i \in 1..r |-> [j \in 1..c |-> 1]]
UnitVectorMat(dim, i0) == [i \in 1..dim |-> <<IF i - 1 = i0 THEN 1 ELSE 0>>]          \* a dim x 1 column, i0 0-based
VecWeight(v) == Cardinality({j \in 1..Len(v) : v[j] = 1})
RowWeights(M) == [i \in 1..Len(M) |-> VecWeight(M[i])]
RECURSIVE SumSeqFrom(_, _)
SumSeqFrom(ws, i) == IF i > Len(ws) THEN 0 ELSE ws[i] + SumSeqFrom(ws, i + 1)
Weight(M) == SumSeqFrom(RowWeights(M), 1)
\* the 0-based numbers of the rows with exactly one 1, ascending
RECURSIVE UnitRowsFrom(_, _)
UnitRowsFrom(M, i) == IF i > Len(M) THEN <<>> ELSE (IF VecWeight(M[i]) = 1 THEN <<i - 1>> ELSE <<>>) \o UnitRowsFrom(M, i + 1)
UnitRows(M) == UnitRowsFrom(M, 1)
\* the largest count the helpers' return type (u8) can hold
MaxU8 == 255
\* entries written through IndexMut<(usize, usize)>: sets = sequence of <<i0, j0, v>>, 0-based
RECURSIVE ApplySetsFrom(_, _, _)
ApplySetsFrom(M, sets, k) == IF k > Len(sets) THEN M
                             ELSE ApplySetsFrom([M EXCEPT ![sets[k][1] + 1][sets[k][2] + 1] = sets[k][3]], sets, k + 1)
ApplySets(M, sets) == ApplySetsFrom(M, sets, 1)
\* Display for Mat2 (transcription): one line "[ x x x ]" per row
RECURSIVE RowTextFrom(_, _)
RowTextFrom(v, j) == IF j > Len(v) THEN "" ELSE ToString(v[j]) \o " " \o RowTextFrom(v, j + 1)
RowText(v) == "[ " \o RowTextFrom(v, 1) \o "]"
MatLines(M) == [i \in 1..Len(M) |-> RowText(M[i])]

InKernel(M, v) == \A i \in 1..Len(M) : Dot(M[i], v) = 0
Kernel(M) == {v \in AllVecs(NCols(M)) : InKernel(M, v)}

-----------------------------------------------------------------------------
(* (b) gauss_helper, transcribed.  Loop variables are 0-based like the code's; the matrix is
   accessed as m[r + 1][p + 1].  st = [m, ops, prow (pivot_row), pcols (pivot_cols), pc1 (pivot_cols1)].
   The FxHashMap `chunks` is a set of pairs <<chunk, row>> (it is only inserted into and looked up). *)
NumBlocks(cols, bs) == IF cols % bs = 0 THEN cols \div bs ELSE (cols \div bs) + 1
MinI(a, b) == IF a < b THEN a ELSE b
Chunk(row, i0, i1) == SubSeq(row, i0 + 1, i1)                  \* self.d[r][i0..i1]
Seen(chunks, ch) == \E x \in chunks : x[1] = ch
RowOf(chunks, ch) == (CHOOSE x \in chunks : x[1] = ch)[2]
\* self.row_add(r0, r1); x.row_add(r0, r1)
Add0(st, r0, r1) == [st EXCEPT !.m = RowAdd(@, r0 + 1, r1 + 1), !.ops = Append(@, <<"add", r0, r1>>)]

\* for r in pivot_row..rows { duplicate sub-rows of the block are cancelled }
RECURSIVE DedupFwd(_, _, _, _, _, _)
DedupFwd(st, r, rows, i0, i1, chunks) ==
  IF r >= rows THEN st
  ELSE LET ch == Chunk(st.m[r + 1], i0, i1) IN
       IF IsZeroVec(ch) THEN DedupFwd(st, r + 1, rows, i0, i1, chunks)
       ELSE IF Seen(chunks, ch) THEN DedupFwd(TLCEval(Add0(st, RowOf(chunks, ch), r)), r + 1, rows, i0, i1, chunks)
       ELSE DedupFwd(st, r + 1, rows, i0, i1, chunks \cup {<<ch, r>>})

\* for r1 in pivot_row + 1..rows { if self.d[r1][p] != 0 { row_add(pivot_row, r1) } }
RECURSIVE ElimBelow(_, _, _, _)
ElimBelow(st, r1, rows, p) ==
  IF r1 >= rows THEN st
  ELSE ElimBelow(TLCEval(IF st.m[r1 + 1][p + 1] # 0 THEN Add0(st, st.prow, r1) ELSE st), r1 + 1, rows, p)

\* for p in i0..i1 { for r0 in pivot_row..rows { if self.d[r0][p] != 0 { ...; break } } }
RECURSIVE FwdCols(_, _, _, _)
FwdCols(st, p, i1, rows) ==
  IF p >= i1 THEN st
  ELSE LET cand == {r0 \in st.prow..(rows - 1) : st.m[r0 + 1][p + 1] # 0} IN
       IF cand = {} THEN FwdCols(st, p + 1, i1, rows)
       ELSE LET r0 == MinOf(cand)
                s1 == IF r0 # st.prow THEN Add0(st, r0, st.prow) ELSE st
                s2 == ElimBelow(TLCEval(s1), st.prow + 1, rows, p)
            IN FwdCols(TLCEval([s2 EXCEPT !.pcols = Append(@, p), !.prow = @ + 1]), p + 1, i1, rows)

\* for sec in 0..num_blocks
RECURSIVE FwdSecs(_, _, _, _, _, _)
FwdSecs(st, sec, nb, bs, rows, cols) ==
  IF sec >= nb THEN st
  ELSE LET i0 == sec * bs
           i1 == MinI(cols, (sec + 1) * bs)
           s1 == DedupFwd(st, st.prow, rows, i0, i1, {})
           s2 == FwdCols(TLCEval(s1), i0, i1, rows)
       IN FwdSecs(TLCEval(s2), sec + 1, nb, bs, rows, cols)

\* let mut r = pivot_row + 1; while r != 0 { r -= 1; ... }
RECURSIVE DedupBwd(_, _, _, _, _)
DedupBwd(st, r, i0, i1, chunks) ==
  IF r = 0 THEN st
  ELSE LET rr == r - 1
           ch == Chunk(st.m[rr + 1], i0, i1) IN
       IF IsZeroVec(ch) THEN DedupBwd(st, rr, i0, i1, chunks)
       ELSE IF Seen(chunks, ch) THEN DedupBwd(TLCEval(Add0(st, RowOf(chunks, ch), rr)), rr, i0, i1, chunks)
       ELSE DedupBwd(st, rr, i0, i1, chunks \cup {<<ch, rr>>})

\* for r in 0..pivot_row { if self.d[r][pcol] != 0 { row_add(pivot_row, r) } }
RECURSIVE ElimAbove(_, _, _)
ElimAbove(st, r, pcol) ==
  IF r >= st.prow THEN st
  ELSE ElimAbove(TLCEval(IF st.m[r + 1][pcol + 1] # 0 THEN Add0(st, st.prow, r) ELSE st), r + 1, pcol)

\* while let Some(&pcol) = pivot_cols1.last() { if i0 > pcol || pcol >= i1 { break } pop; ...; saturating_sub }
RECURSIVE BwdPivots(_, _, _)
BwdPivots(st, i0, i1) ==
  IF Len(st.pc1) = 0 THEN st
  ELSE LET pcol == st.pc1[Len(st.pc1)] IN
       IF i0 > pcol \/ pcol >= i1 THEN st
       ELSE LET s1 == [st EXCEPT !.pc1 = SubSeq(@, 1, Len(@) - 1)]
                s2 == ElimAbove(TLCEval(s1), 0, pcol)
            IN BwdPivots(TLCEval([s2 EXCEPT !.prow = IF @ = 0 THEN 0 ELSE @ - 1]), i0, i1)

\* let mut sec = num_blocks; while sec != 0 { sec -= 1; ... }
RECURSIVE BwdSecs(_, _, _, _)
BwdSecs(st, sec, bs, cols) ==
  IF sec = 0 THEN st
  ELSE LET s == sec - 1
           i0 == s * bs
           i1 == MinI(cols, (s + 1) * bs)
           s1 == DedupBwd(st, st.prow + 1, i0, i1, {})
           s2 == BwdPivots(TLCEval(s1), i0, i1)
       IN BwdSecs(TLCEval(s2), s, bs, cols)

\* gauss_helper(full_reduce, blocksize, x, pivot_cols): the final matrix, the returned rank, the
\* operations x received and pivot_cols
GaussImpl(M, full, bs) ==
  LET rows == Len(M)
      cols == NCols(M)
      nb == NumBlocks(cols, bs)
      st0 == [m |-> M, ops |-> <<>>, prow |-> 0, pcols |-> <<>>, pc1 |-> <<>>]
      f == TLCEval(FwdSecs(st0, 0, nb, bs, rows, cols))
      rank == f.prow
      b == IF full /\ rank # 0 THEN TLCEval(BwdSecs([f EXCEPT !.prow = rank - 1, !.pc1 = f.pcols], nb, bs, cols)) ELSE f
  IN [m |-> b.m, rank |-> rank, ops |-> b.ops, pcols |-> f.pcols]

\* rank(): gauss(false) = gauss_helper(false, 3, (), _)
RankImpl(M) == GaussImpl(M, FALSE, 3).rank

\* inverse(): None unless square; the operations of gauss_helper(true, 3, inv, _) applied to the identity
InverseImpl(M) ==
  IF Len(M) # NCols(M) THEN [some |-> FALSE, inv |-> <<>>]
  ELSE LET g == GaussImpl(M, TRUE, 3) IN
       IF g.rank < Len(M) THEN [some |-> FALSE, inv |-> <<>>]
       ELSE [some |-> TRUE, inv |-> ApplyOps(Identity(Len(M)), g.ops)]

\* nullspace(): gauss(true), pivot columns re-discovered by the scan, free variables, back substitution
RECURSIVE NsPivots(_, _, _, _, _)
NsPivots(mat, rank, n, col, acc) ==          \* for col in 0..n; acc = pivot_cols, current_rank = Len(acc)
  IF col >= n \/ Len(acc) = rank THEN acc    \* `break` when current_rank == rank (rank = 0: the guard is false throughout)
  ELSE IF Len(acc) < rank /\ mat[Len(acc) + 1][col + 1] = 1 THEN NsPivots(mat, rank, n, col + 1, Append(acc, col))
  ELSE NsPivots(mat, rank, n, col + 1, acc)
RECURSIVE NsFree(_, _, _, _, _)
NsFree(pcs, k, n, col, acc) ==               \* peekable iterator at position k (1-based) of pivot_cols
  IF col >= n THEN acc
  ELSE IF k <= Len(pcs) /\ pcs[k] = col THEN NsFree(pcs, k + 1, n, col + 1, acc)
  ELSE NsFree(pcs, k, n, col + 1, Append(acc, col))
NullspaceImpl(M) ==
  LET g == GaussImpl(M, TRUE, 3)
      n == NCols(M) IN
  IF g.rank = n THEN <<>>
  ELSE LET pcs == NsPivots(g.m, g.rank, n, 0, <<>>)
           free == NsFree(pcs, 1, n, 0, <<>>)
       IN [t \in 1..Len(free) |-> TLCEval([j \in 1..n |->
             IF j - 1 = free[t] THEN 1
             ELSE IF \E row \in 1..Len(pcs) : pcs[row] = j - 1 /\ free[t] > pcs[row] /\ g.m[row][free[t] + 1] = 1 THEN 1
             ELSE 0])]

-----------------------------------------------------------------------------
(* (c) property C17.  `small` selects the declarative definitions (RowSpace, 2^rows combinations);
   otherwise the same statements are evaluated through RankElim. *)
RankOf(M, small) == IF small THEN Rank(M) ELSE RankElim(M)
\* Gaussian elimination: same shape, same row space, echelon (reduced when full), true rank
GaussShape(M, out) == IsMat(out, Len(M), NCols(M))
GaussRowSpace(M, out, small) == IF small THEN SameRowSpace(M, out) ELSE SameRowSpaceElim(M, out)
GaussForm(out, full) == IsEchelon(out) /\ (full => IsReducedEchelon(out))
GaussRank(M, out, rank, small) == rank = RankOf(M, small) /\ rank = NonZeroRows(out)
\* the reported operations: they reproduce the result from the input, and their matrix g satisfies g * m = m'
OpsReproduce(M, ops, out) == OpsOK(ops, Len(M)) /\ ApplyOps(M, ops) = out
OpsAsMatrix(M, ops, out) == OpsOK(ops, Len(M)) /\ Mul(OpsMatrix(ops, Len(M)), M) = out
\* ... and transform any other object X (a matrix with as many rows) exactly as they transformed m: X -> g * X
OpsOnOther(X, ops, outx) == /\ OpsOK(ops, Len(X)) /\ IsMat(outx, Len(X), NCols(X))
                            /\ ApplyOps(X, ops) = outx /\ Mul(OpsMatrix(ops, Len(X)), X) = outx
\* inversion: a two-sided inverse exactly when invertible (square and of full rank)
Invertible(M, small) == Len(M) = NCols(M) /\ RankOf(M, small) = Len(M)
InverseOK(M, some, inv, small) ==
  /\ some <=> Invertible(M, small)
  /\ some => /\ IsMat(inv, Len(M), Len(M))
             /\ Mul(M, inv) = Identity(Len(M)) /\ Mul(inv, M) = Identity(Len(M))
\* null space: vectors of the right length, annihilated, independent, cols - rank many
NullShape(M, vs) == \A t \in 1..Len(vs) : IsVec(vs[t], NCols(M))
NullAnnihilated(M, vs) == \A t \in 1..Len(vs) : InKernel(M, vs[t])
NullIndependent(M, vs, small) == IF small THEN Cardinality(SpanOf(vs, NCols(M))) = 2^Len(vs) ELSE RankElim(vs) = Len(vs)
NullCount(M, vs, small) == Len(vs) = NCols(M) - RankOf(M, small)
\* the helpers around the routines: constructors, Hamming weights (for counts the u8 return type can hold), entry access
CtorOK(kind, r, c, i0, out) ==
  out = (CASE kind = "zeros" -> ZerosMat(r, c) [] kind = "ones" -> OnesMat(r, c) [] kind = "id" -> Identity(r) [] kind = "unit_vector" -> UnitVectorMat(r, i0))
RowWeightOK(M, ret) == ret = RowWeights(M)
WeightOK(M, ret) == ret = Weight(M)
UnitRowsOK(M, ret) == ret = UnitRows(M)
NullspaceOK(M, vs, small) == NullShape(M, vs) /\ NullAnnihilated(M, vs) /\ NullIndependent(M, vs, small) /\ NullCount(M, vs, small)
=============================================================================
