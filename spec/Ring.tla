------------------------------- MODULE Ring -------------------------------
(***************************************************************************)
(* The ring Z[omega][1/2], omega = e^{i pi/4}, in which every Clifford+T   *)
(* ZX-diagram takes its values.  An element is a 5-tuple                   *)
(*     <<a,b,c,d,e>>  =  (a + b w + c w^2 + d w^3) * 2^e                   *)
(* kept canonical (zero is <<0,0,0,0,0>>, otherwise not all of a..d even), *)
(* so that equality of tuples is equality of numbers (1,w,w^2,w^3 is a     *)
(* Z-basis).  This is the algebraic specification of quizx's Scalar4 for   *)
(* exact values (C07) and the coefficient domain of the reference          *)
(* semantics ZXSem (C01..C13).  TLC integers are 32 bit and overflow is an *)
(* error, never silent; all uses keep coefficients small.                  *)
(***************************************************************************)
EXTENDS Integers, Sequences

AllEven(z) == z[1] % 2 = 0 /\ z[2] % 2 = 0 /\ z[3] % 2 = 0 /\ z[4] % 2 = 0
RECURSIVE RNorm(_)
RNorm(z) == IF z[1] = 0 /\ z[2] = 0 /\ z[3] = 0 /\ z[4] = 0 THEN <<0,0,0,0,0>>
            ELSE IF AllEven(z) THEN RNorm(<<z[1] \div 2, z[2] \div 2, z[3] \div 2, z[4] \div 2, z[5] + 1>>)
            ELSE z
RECURSIVE Pow2(_)
Pow2(n) == IF n = 0 THEN 1 ELSE 2 * Pow2(n - 1)

ROne  == <<1,0,0,0,0>>
RZero == <<0,0,0,0,0>>
RIsZero(x) == x = RZero
IsRing(x) == /\ x \in Seq(Int) /\ Len(x) = 5 /\ RNorm(x) = x

RAdd(x, y) ==
  IF x = RZero THEN y ELSE IF y = RZero THEN x ELSE
  LET e  == IF x[5] < y[5] THEN x[5] ELSE y[5]
      fx == Pow2(x[5] - e)
      fy == Pow2(y[5] - e)
  IN RNorm(<<x[1]*fx + y[1]*fy, x[2]*fx + y[2]*fy, x[3]*fx + y[3]*fy, x[4]*fx + y[4]*fy, e>>)

\* product with w^4 = -1
RMul(x, y) ==
  RNorm(<< x[1]*y[1] - x[2]*y[4] - x[3]*y[3] - x[4]*y[2],
           x[1]*y[2] + x[2]*y[1] - x[3]*y[4] - x[4]*y[3],
           x[1]*y[3] + x[2]*y[2] + x[3]*y[1] - x[4]*y[4],
           x[1]*y[4] + x[2]*y[3] + x[3]*y[2] + x[4]*y[1],
           x[5] + y[5] >>)
RNeg(x)  == <<-x[1], -x[2], -x[3], -x[4], x[5]>>
RSub(x, y) == RAdd(x, RNeg(y))
\* complex conjugate: conj(w) = -w^3, conj(w^2) = -w^2, conj(w^3) = -w
RConj(x) == <<x[1], -x[4], -x[3], -x[2], x[5]>>
RInt(n)  == RNorm(<<n,0,0,0,0>>)

\* w^k
Omega(k) == LET j == k % 8 IN
  CASE j = 0 -> <<1,0,0,0,0>>  [] j = 1 -> <<0,1,0,0,0>>  [] j = 2 -> <<0,0,1,0,0>>  [] j = 3 -> <<0,0,0,1,0>>
    [] j = 4 -> <<-1,0,0,0,0>> [] j = 5 -> <<0,-1,0,0,0>> [] j = 6 -> <<0,0,-1,0,0>> [] j = 7 -> <<0,0,0,-1,0>>
Sqrt2    == <<0,1,0,-1,0>>        \* w - w^3
InvSqrt2 == <<0,1,0,-1,-1>>
\* sqrt2^p : even p is a power of two, odd p is sqrt2 * 2^((p-1)/2)
Sqrt2Pow(p) == IF p % 2 = 0 THEN <<1,0,0,0, p \div 2>> ELSE <<0,1,0,-1, (p - 1) \div 2>>
OnePlus(k)  == RAdd(ROne, Omega(k))       \* 1 + e^{i k pi/4}
RECURSIVE RPow(_, _)
RPow(x, n) == IF n = 0 THEN ROne ELSE RMul(x, RPow(x, n - 1))

\* ----- |z|^2 as an element x + y sqrt2 of Z[sqrt2][1/2], triple <<x, y, e>> = (x + y sqrt2) 2^e -----
RECURSIVE N2Norm(_)
N2Norm(t) == IF t[1] = 0 /\ t[2] = 0 THEN <<0,0,0>>
             ELSE IF t[1] % 2 = 0 /\ t[2] % 2 = 0 THEN N2Norm(<<t[1] \div 2, t[2] \div 2, t[3] + 1>>) ELSE t
Norm2(z) == N2Norm(<< z[1]*z[1] + z[2]*z[2] + z[3]*z[3] + z[4]*z[4],
                      z[1]*z[2] + z[2]*z[3] + z[3]*z[4] - z[4]*z[1],
                      2 * z[5] >>)
N2Add(s, t) ==
  IF s = <<0,0,0>> THEN t ELSE IF t = <<0,0,0>> THEN s ELSE
  LET e == IF s[3] < t[3] THEN s[3] ELSE t[3]
      fs == Pow2(s[3] - e)  ft == Pow2(t[3] - e)
  IN N2Norm(<<s[1]*fs + t[1]*ft, s[2]*fs + t[2]*ft, e>>)
N2Mul(s, t) == N2Norm(<<s[1]*t[1] + 2*s[2]*t[2], s[1]*t[2] + s[2]*t[1], s[3] + t[3]>>)
N2One == <<1,0,0>>
\* the real number x + y sqrt2 embedded back into the ring
N2ToRing(t) == RNorm(<<t[1], t[2], 0, -t[2], t[3]>>)
\* sign of x + y sqrt2 (exact: compare x^2 with 2 y^2)
N2Sign(t) ==
  LET x == t[1]  y == t[2] IN
  IF x = 0 /\ y = 0 THEN 0
  ELSE IF x >= 0 /\ y >= 0 THEN 1
  ELSE IF x <= 0 /\ y <= 0 THEN -1
  ELSE IF x > 0 THEN (IF x*x > 2*y*y THEN 1 ELSE -1)       \* y < 0
  ELSE (IF 2*y*y > x*x THEN 1 ELSE -1)                      \* x < 0, y > 0

\* is z a real number / a positive real number (arg = 0)?
RIsReal(z) == z[3] = 0 /\ z[2] = -z[4]
RIsPosReal(z) == RIsReal(z) /\ N2Sign(<<z[1], z[2], 0>>) = 1

\* ----- exact_phase_and_sqrt2_pow: z = w^k * sqrt2^p  ?  returns <<TRUE,k,p>> or <<FALSE,0,0>> -----
NumCoeffs(z) == (IF z[1] # 0 THEN 1 ELSE 0) + (IF z[2] # 0 THEN 1 ELSE 0) + (IF z[3] # 0 THEN 1 ELSE 0) + (IF z[4] # 0 THEN 1 ELSE 0)
ExactPhasePow(z) ==
  LET one(s, p) ==      \* s has exactly one non-zero coefficient
        LET i == CHOOSE i \in 1..4 : s[i] # 0 IN
        IF s[i] = 1 THEN <<TRUE, i - 1, 2 * s[5] + p>>
        ELSE IF s[i] = -1 THEN <<TRUE, i + 3, 2 * s[5] + p>>
        ELSE <<FALSE, 0, 0>>
  IN IF NumCoeffs(z) = 1 THEN one(z, 0)
     ELSE LET s == RMul(z, Sqrt2) IN IF NumCoeffs(s) = 1 THEN one(s, -1) ELSE <<FALSE, 0, 0>>
=============================================================================
