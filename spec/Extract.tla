------------------------------- MODULE Extract -------------------------------
(***************************************************************************)
(* Circuit extraction (quizx/src/extract.rs) as a state machine.           *)
(* State: the remaining diagram g, the circuit c extracted so far (gates   *)
(* are pushed to the FRONT, i.e. they act right after g), the frontier     *)
(* (sequence of <<qubit, vertex>>), the set of gadget hubs, a status.      *)
(* One action per phase of Extractor::extract's loop:                      *)
(*   Prepare   prepare_frontier: pull Hadamards, phases and CZs off the    *)
(*             frontier, pad inputs that share a frontier vertex           *)
(*   FixGadget one boundary pivot that removes a phase gadget next to the  *)
(*             frontier                                                    *)
(*   ExtractV  remove_id on every frontier vertex that has become a wire   *)
(*   Gauss     row operations on the frontier biadjacency matrix mirrored  *)
(*             as CNOTs (control = qubit of the row that is ADDED TO,      *)
(*             target = qubit of the row that is added: impl RowOps for    *)
(*             Circuit); the eliminator of the external bitgauss crate is  *)
(*             not transcribed: the spec performs a plain Gauss-Jordan     *)
(*             elimination, any sequence of row operations keeps ExtInv    *)
(*   Perm      the remaining wire permutation as SWAPs                     *)
(* The property C03 is the invariant ExtInv: in every state                *)
(*      Den(g) ; CircSem(c)  is proportional to the source unitary U0,     *)
(* plus BasicOnly and, at the end, g = identity wires.                     *)
(***************************************************************************)
EXTENDS ToGraph, Rules

ExGate(t, qs, ph) == [t |-> t, qs |-> qs, ph |-> ph % 8, vars |-> PZero]
PushFront(c, g) == [c EXCEPT !.gates = <<g>> \o @]
InSeqV(s, x) == \E i \in 1..Len(s) : s[i] = x
FrontierVs(fr) == {fr[i][2] : i \in 1..Len(fr)}
QubitOfV(fr, v) == fr[CHOOSE i \in 1..Len(fr) : fr[i][2] = v][1]

\* ---------- prepare_frontier (extract.rs:270-358), one output at a time ----------
\* st = [g, c, fr, err]
RECURSIVE PrepNbrs(_, _, _, _, _)
PrepNbrs(st, q, v, o, ns) ==
  IF ns = <<>> \/ st.err THEN st
  ELSE LET n == Head(ns)
           g == st.g IN
       IF n = o THEN PrepNbrs(st, q, v, o, Tail(ns))
       ELSE IF g.ty[n] = "B" THEN
              IF ~InSeqV(g.ins, n) THEN [st EXCEPT !.err = TRUE]           \* two outputs on one vertex
              ELSE IF Deg(g, v) > 2 THEN
                   \* pad: input -opp(type)- new Z(0) -H- v
                   LET n1 == Fresh(g)
                       g1 == AddV(g, n1, "Z", 0)
                       g2 == SetET(SetET(g1, n, n1, Opp(ET(g, n, v))), n1, v, "H")
                   IN PrepNbrs([st EXCEPT !.g = DelE(g2, n, v)], q, v, o, Tail(ns))
              ELSE PrepNbrs(st, q, v, o, Tail(ns))
       ELSE IF n \in FrontierVs(st.fr) THEN
              LET r == QubitOfV(st.fr, n) IN
              PrepNbrs([st EXCEPT !.g = DelE(g, v, n), !.c = PushFront(@, ExGate("CZ", <<q, r>>, 0))], q, v, o, Tail(ns))
       ELSE IF g.ty[n] # "Z" THEN [st EXCEPT !.err = TRUE]
       ELSE PrepNbrs(st, q, v, o, Tail(ns))
RECURSIVE PrepOutputs(_, _)
PrepOutputs(st, q) ==          \* q : 0-based qubit = position in outs
  IF q >= Len(st.g.outs) \/ st.err THEN st
  ELSE LET g == st.g
           o == g.outs[q + 1] IN
       IF Nbrs(g, o) = {} THEN [st EXCEPT !.err = TRUE]
       ELSE LET v == CHOOSE u \in Nbrs(g, o) : TRUE
                et == ET(g, o, v)
                st1 == IF et = "H" THEN [st EXCEPT !.c = PushFront(@, ExGate("HAD", <<q>>, 0)), !.g = SetET(g, v, o, "N")] ELSE st
            IN IF st1.g.ty[v] = "B" THEN PrepOutputs(st1, q + 1)
               ELSE LET st2 == [st1 EXCEPT !.fr = Append(@, <<q, v>>)]
                        p == st2.g.ph[v]
                        st3 == IF p # 0 THEN [st2 EXCEPT !.c = PushFront(@, ExGate("ZPhase", <<q>>, p)), !.g = SetPh(st2.g, v, 0)] ELSE st2
                    IN PrepOutputs(PrepNbrs(st3, q, v, o, SetToSortSeq(Nbrs(st3.g, v), <)), q + 1)
Prepare(g, c) == PrepOutputs([g |-> g, c |-> c, fr |-> <<>>, err |-> FALSE], 0)
\* The code visits the neighbours of a frontier vertex in the backend's storage order, and whether an input is
\* padded (Deg(v) > 2 when the input is met) depends on how many edges to other frontier vertices were already
\* turned into CZ gates.  PrepareSet is the set of results over the orders that matter: the other neighbours
\* in increasing order, the input neighbour(s) inserted at any position.  Prepare(g, c) \in PrepareSet(g, c).
NbrOrders(g, v) ==
  LET nb == Nbrs(g, v)
      inp == {x \in nb : g.ty[x] = "B" /\ InSeqV(g.ins, x)}
      rest == SetToSortSeq(nb \ inp, <)
      inps == SetToSortSeq(inp, <)
  IN IF inp = {} THEN {rest} ELSE {SubSeq(rest, 1, k) \o inps \o SubSeq(rest, k + 1, Len(rest)) : k \in 0..Len(rest)}
PrepOneSet(st, q) ==        \* the results of processing output q from state st
  IF st.err THEN {st}
  ELSE LET g == st.g
           o == g.outs[q + 1] IN
       IF Nbrs(g, o) = {} THEN {[st EXCEPT !.err = TRUE]}
       ELSE LET v == CHOOSE u \in Nbrs(g, o) : TRUE
                et == ET(g, o, v)
                st1 == IF et = "H" THEN [st EXCEPT !.c = PushFront(@, ExGate("HAD", <<q>>, 0)), !.g = SetET(g, v, o, "N")] ELSE st
            IN IF st1.g.ty[v] = "B" THEN {st1}
               ELSE LET st2 == [st1 EXCEPT !.fr = Append(@, <<q, v>>)]
                        p == st2.g.ph[v]
                        st3 == IF p # 0 THEN [st2 EXCEPT !.c = PushFront(@, ExGate("ZPhase", <<q>>, p)), !.g = SetPh(st2.g, v, 0)] ELSE st2
                    IN {PrepNbrs(st3, q, v, o, ord) : ord \in NbrOrders(st3.g, v)}
RECURSIVE PrepSetFrom(_, _, _)
PrepSetFrom(S, q, nq) == IF q >= nq THEN S ELSE PrepSetFrom(UNION {PrepOneSet(st, q) : st \in S}, q + 1, nq)
PrepareSet(g, c) == PrepSetFrom({[g |-> g, c |-> c, fr |-> <<>>, err |-> FALSE]}, 0, Len(g.outs))

\* ---------- gadgets ----------
InitGadgets(g) == {n \in g.vs : \E v \in Nbrs(g, n) : Deg(g, v) = 1 /\ g.ty[v] = "Z" /\ g.ty[n] = "Z"}
\* the frontier vertex / gadget pairs fix_gadgets may pivot (it takes the first in storage order)
GadgetPairs(g, fr, gadgets) == {<<v, n>> \in FrontierVs(fr) \X gadgets : HasE(g, v, n)}

\* ---------- extract_from_frontier: remove_id on every frontier vertex, in frontier order ----------
RECURSIVE ExtractAll(_, _)
ExtractAll(h, vs) == IF vs = <<>> THEN h
                     ELSE IF Exists(h, Head(vs)) /\ CheckRemId(h, Head(vs)) THEN ExtractAll(ApplyRemId(h, Head(vs)).g, Tail(vs))
                     ELSE ExtractAll(h, Tail(vs))

\* ---------- frontier biadjacency and Gauss-Jordan elimination over F2 ----------
FNbrs(g, fr) == SetToSortSeq(UNION {{n \in Nbrs(g, v) : g.ty[n] = "Z"} : v \in FrontierVs(fr)}, <)
Biadj(g, fr, cols) == [i \in 1..Len(fr) |-> [j \in 1..Len(cols) |-> IF HasE(g, fr[i][2], cols[j]) THEN 1 ELSE 0]]
MRowAdd(M, from, to) == [M EXCEPT ![to] = [j \in 1..Len(M[to]) |-> (M[to][j] + M[from][j]) % 2]]
MRowSwap(M, a, b) == [M EXCEPT ![a] = M[b], ![b] = M[a]]
\* returns [m, ops] with ops a sequence of <<"add", from, to>> / <<"swap", a, b>> (1-based rows)
RECURSIVE GJ(_, _, _, _)
GJ(M, ops, col, row) ==
  IF M = <<>> \/ col > Len(M[1]) \/ row > Len(M) THEN [m |-> M, ops |-> ops]
  ELSE LET cand == {i \in row..Len(M) : M[i][col] = 1} IN
       IF cand = {} THEN GJ(M, ops, col + 1, row)
       ELSE LET p == Min(cand)
                M1 == IF p = row THEN M ELSE MRowSwap(M, p, row)
                o1 == IF p = row THEN ops ELSE Append(ops, <<"swap", p, row>>)
                others == SetToSortSeq({i \in 1..Len(M) : i # row /\ M1[i][col] = 1}, <)
                RECURSIVE elim(_, _, _)
                elim(MM, oo, rest) == IF rest = <<>> THEN [m |-> MM, ops |-> oo]
                                      ELSE elim(MRowAdd(MM, row, Head(rest)), Append(oo, <<"add", row, Head(rest)>>), Tail(rest))
                r == elim(M1, o1, others)
            IN GJ(r.m, r.ops, col + 1, row + 1)
\* mirror a row operation on frontier rows as a gate pushed to the front of the circuit
OpGate(fr, op) == IF op[1] = "add" THEN ExGate("CNOT", <<fr[op[3]][1], fr[op[2]][1]>>, 0)      \* control = row added TO
                  ELSE ExGate("SWAP", <<fr[op[2]][1], fr[op[3]][1]>>, 0)
RECURSIVE PushOps(_, _, _)
PushOps(c, fr, ops) == IF ops = <<>> THEN c ELSE PushOps(PushFront(c, OpGate(fr, Head(ops))), fr, Tail(ops))
\* a row swap exchanges the neighbourhoods of two frontier vertices; the frontier itself (qubit, vertex) stays
SetBiadj(g, fr, cols, M) ==
  LET pairs == {<<i, j>> \in (1..Len(fr)) \X (1..Len(cols)) : TRUE}
      keep == {e \in DOMAIN g.et : ~(\E p \in pairs : e = {fr[p[1]][2], cols[p[2]]})}
      add == {{fr[p[1]][2], cols[p[2]]} : p \in {p \in pairs : M[p[1]][p[2]] = 1}}
  IN [g EXCEPT !.et = [e \in keep \cup add |-> IF e \in add THEN "H" ELSE g.et[e]]]

\* ---------- single_sln_set (extract.rs:174-249), the default of the gflow extractor ----------
\* Reduce a copy of the biadjacency matrix while recording the row operations in T (T * M = RREF(M));
\* a row of the reduced matrix with exactly one 1 is an extractable vertex, the support of the same
\* row of T is its solution set: adding all rows of the solution set onto one of them (the target)
\* leaves a frontier vertex with a single neighbour.  The code takes the extractable row with the
\* smallest solution set (the last one among ties) and the first element as target; the
\* specification allows ANY extractable row and ANY target of its solution set - every choice
\* must keep ExtInv and make progress - so the code's choice is one of the spec's behaviours.
IdentM(n) == [i \in 1..n |-> [j \in 1..n |-> IF i = j THEN 1 ELSE 0]]
RECURSIVE ApplyOps(_, _)
ApplyOps(M, ops) == IF ops = <<>> THEN M
                    ELSE LET o == Head(ops) IN
                         ApplyOps(IF o[1] = "add" THEN MRowAdd(M, o[2], o[3]) ELSE MRowSwap(M, o[2], o[3]), Tail(ops))
Support(row) == {j \in 1..Len(row) : row[j] = 1}
\* the set of <<row of the reduced matrix, solution set, target>> the step may use
SlnChoices(M) ==
  LET r == GJ(M, <<>>, 1, 1)
      T == ApplyOps(IdentM(Len(M)), r.ops)
      extr == {i \in 1..Len(M) : Cardinality(Support(r.m[i])) = 1}
  IN UNION {{<<i, Support(T[i]), t>> : t \in Support(T[i])} : i \in extr}
\* the code's own choice: smallest solution set, last among ties; target = smallest index
SlnCodeChoice(M) ==
  LET r == GJ(M, <<>>, 1, 1)
      T == ApplyOps(IdentM(Len(M)), r.ops)
      extr == {i \in 1..Len(M) : Cardinality(Support(r.m[i])) = 1}
      w(i) == Cardinality(Support(T[i]))
  IN IF extr = {} THEN {}
     ELSE LET best == CHOOSE i \in extr : \A k \in extr : w(i) < w(k) \/ (w(i) = w(k) /\ i >= k)
          IN {<<best, Support(T[best]), Min(Support(T[best]))>>}
SlnOps(sln, t) == LET others == SetToSortSeq(sln \ {t}, <) IN [k \in 1..Len(others) |-> <<"add", others[k], t>>]

\* ---------- final permutation ----------
WirePerm(g) == [i \in 1..Len(g.outs) |-> CHOOSE j \in 1..Len(g.ins) : HasE(g, g.outs[i], g.ins[j])]
IsWires(g) == /\ Len(g.ins) = Len(g.outs) /\ g.vs = ToSet(g.ins) \cup ToSet(g.outs)
              /\ \A i \in 1..Len(g.outs) : \E j \in 1..Len(g.ins) : ET(g, g.outs[i], g.ins[j]) = "N"
\* selection sort of the permutation by swaps; returns the swap gates in the order they are pushed to the front
RECURSIVE PermSwaps(_, _)
PermSwaps(p, i) ==
  IF i > Len(p) THEN <<>>
  ELSE IF p[i] = i THEN PermSwaps(p, i + 1)
  ELSE LET k == CHOOSE k \in 1..Len(p) : p[k] = i IN
       <<<<i, k>>>> \o PermSwaps([p EXCEPT ![k] = p[i], ![i] = i], i + 1)

BasicOnlyC(c) == \A i \in 1..Len(c.gates) : c.gates[i].t \in {"HAD", "ZPhase", "CZ", "CNOT", "SWAP"}
\* Den(g) ; CircSem(c)
Total(g, c) == Compose(Den(g), Len(g.ins), Len(g.outs), CircSem(c), c.n)
=============================================================================
