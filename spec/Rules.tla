------------------------------- MODULE Rules -------------------------------
(***************************************************************************)
(* The primitive rewrite rules of quizx/src/basic_rules.rs, transcribed    *)
(* conjunct for conjunct: for every rule R a matcher Check_R (what         *)
(* check_R tests, in the order it tests it) and an effect Apply_R (what    *)
(* R_unchecked does, with its scalar and boolean-variable bookkeeping).    *)
(* Apply_R returns [g |-> post, panic |-> BOOLEAN].  Whether the matcher   *)
(* is a sufficient guard is exactly what Sound / NoPanic decide (C04);     *)
(* iterating the rules gives the simplifiers (Simp.tla, C01); the variable *)
(* bookkeeping is what C10 quantifies over.                                *)
(*                                                                         *)
(* Where the code iterates over a neighbourhood in storage order and the   *)
(* result depends on that order only through the endpoint that receives a  *)
(* pi in add_edge_smart, the transcription fixes name order; the two       *)
(* results denote the same map (the endpoints are N-connected Z spiders).  *)
(***************************************************************************)
EXTENDS ZXGraph

OK(h) == [g |-> h, panic |-> FALSE]
AllZH(g, v) == \A u \in Nbrs(g, v) : g.ty[u] = "Z" /\ ET(g, u, v) = "H"

\* Expr::quadratic (params.rs): the constant-one conjunct is dropped, equal parities collapse
POne == <<{}, TRUE>>
PNeg(p) == <<p[1], ~p[2]>>
Quad(p, q) == IF p = POne THEN {q} ELSE IF q = POne THEN {p} ELSE {p, q}

\* ---------------- spider_fusion(v0, v1) ----------------
CheckFuse(g, a, b) ==
  /\ a # b /\ ET(g, a, b) = "N"
  /\ (g.ty[a] = "Z" /\ g.ty[b] = "Z") \/ (g.ty[a] = "X" /\ g.ty[b] = "X")
ApplyFuse(g, a, b) ==
  LET q == SetToSeq({<<a, v, ET(g, b, v)>> : v \in Nbrs(g, b) \ {a}})
      r == SmartSeq(OK(g), q)
  IN [g |-> DelV(AddPar(AddPh(r.g, a, g.ph[b]), a, g.vr[b]), b), panic |-> r.panic]

\* ---------------- pi_copy(v) ----------------
CheckPiCopy(g, v) ==
  /\ Exists(g, v) /\ IsZX(g, v) /\ Deg(g, v) > 0
  /\ \A n \in Nbrs(g, v) :
       /\ ET(g, v, n) = "N" => (IsZX(g, n) /\ g.ty[n] # g.ty[v])
       /\ ET(g, v, n) = "H" => g.ty[n] = g.ty[v]
ApplyPiCopy(g, v) ==
  LET ns == Nbrs(g, v)
      g1 == MulSc(g, Omega(g.ph[v]))
      g2 == IF ~PIsEmpty(g.vr[v]) THEN MulSF(g1, Lin(g.vr[v]), RNeg(ROne)) ELSE g1
  IN OK([g2 EXCEPT !.ph = [u \in g.vs |-> IF u = v THEN (8 - g.ph[v]) % 8
                                         ELSE IF u \in ns THEN (g.ph[u] + 4) % 8 ELSE g.ph[u]]])

\* ---------------- remove_id(v) ----------------
CheckRemId(g, v) == Exists(g, v) /\ IsZX(g, v) /\ g.ph[v] = 0 /\ Deg(g, v) = 2 /\ PIsEmpty(g.vr[v])
ApplyRemId(g, v) ==
  LET n0 == CHOOSE n \in Nbrs(g, v) : TRUE
      n1 == CHOOSE n \in Nbrs(g, v) : n # n0
      t  == IF ET(g, v, n0) = ET(g, v, n1) THEN "N" ELSE "H"
      r  == Smart(g, n0, n1, t)
  IN [g |-> DelV(r.g, v), panic |-> r.panic]

\* the code takes the two neighbours in storage order; the other order moves a possible pi
ApplyRemIdAlt(g, v) ==
  LET n1 == CHOOSE n \in Nbrs(g, v) : TRUE
      n0 == CHOOSE n \in Nbrs(g, v) : n # n1
      t  == IF ET(g, v, n0) = ET(g, v, n1) THEN "N" ELSE "H"
      r  == Smart(g, n0, n1, t)
  IN [g |-> DelV(r.g, v), panic |-> r.panic]

\* ---------------- color_change(v) ----------------
CheckCC(g, v) == Exists(g, v) /\ IsZX(g, v)
ApplyCC(g, v) == OK(ColorChange(g, v))

\* ---------------- local_comp(v) ----------------
CheckLComp(g, v) == Exists(g, v) /\ g.ty[v] = "Z" /\ IsProperClifford(g.ph[v]) /\ AllZH(g, v)
ApplyLComp(g, v) ==
  LET ns == Nbrs(g, v)
      p  == g.ph[v]
      pv == g.vr[v]
      g1 == [g EXCEPT !.ph = [u \in g.vs |-> IF u \in ns THEN (g.ph[u] + 8 - p) % 8 ELSE g.ph[u]],
                      !.vr = [u \in g.vs |-> IF u \in ns /\ ~PIsEmpty(pv) THEN PXor(g.vr[u], pv) ELSE g.vr[u]]]
      q  == SetToSeq({<<Min(e), Max(e), "H">> : e \in {e \in SUBSET ns : Cardinality(e) = 2}})
      r  == SmartSeq(OK(g1), q)
      x  == Cardinality(ns)
      g2 == MulSc(MulSc(DelV(r.g, v), Sqrt2Pow(((x - 1) * (x - 2)) \div 2)), Omega(IF p = 2 THEN 1 ELSE 7))
      g3 == IF ~PIsEmpty(pv) THEN MulSF(g2, Lin(pv), Omega(8 - p)) ELSE g2
  IN [g |-> g3, panic |-> r.panic]

\* ---------------- pivot(v0, v1) ----------------
CheckPivot1(g, a) == Exists(g, a) /\ g.ty[a] = "Z" /\ IsPauli(g.ph[a]) /\ AllZH(g, a)
CheckPivot2(g, a, b) == Exists(g, b) /\ g.ty[b] = "Z" /\ IsPauli(g.ph[b]) /\ ET(g, a, b) = "H" /\ AllZH(g, b)
CheckPivot(g, a, b) == CheckPivot1(g, a) /\ CheckPivot2(g, a, b)
ApplyPivot(g, a, b) ==
  LET ns0 == Nbrs(g, a)
      ns1 == Nbrs(g, b)
      p0 == g.ph[a]    p1 == g.ph[b]
      w0 == g.vr[a]    w1 == g.vr[b]
      g1 == [g EXCEPT !.ph = [u \in g.vs |-> (g.ph[u] + (IF u \in ns0 THEN p1 ELSE 0) + (IF u \in ns1 THEN p0 ELSE 0)) % 8],
                      !.vr = [u \in g.vs |-> PXor(PXor(g.vr[u], IF u \in ns0 THEN w1 ELSE PZero), IF u \in ns1 THEN w0 ELSE PZero)]]
      q  == SetToSeq({<<n0, n1, "H">> : n0 \in ns0 \ {b}, n1 \in ns1 \ {a}})     \* n0 = n1 is a self-loop
      r  == SmartSeq(OK(g1), q)
      x  == Cardinality(ns0)
      y  == Cardinality(ns1)
      g2 == MulSc(DelV(DelV(r.g, a), b), Sqrt2Pow((x - 2) * (y - 2)))
      g3 == IF p0 # 0 /\ p1 # 0 THEN MulSc(g2, RNeg(ROne)) ELSE g2
      \* (-1)^{(p0 + w0)(p1 + w1)}: the constant part above, the two mixed parts and the quadratic part
      g4 == IF p0 # 0 /\ ~PIsEmpty(w1) THEN MulSF(g3, Lin(w1), RNeg(ROne)) ELSE g3
      g5 == IF p1 # 0 /\ ~PIsEmpty(w0) THEN MulSF(g4, Lin(w0), RNeg(ROne)) ELSE g4
      g6 == IF ~PIsEmpty(w0) /\ ~PIsEmpty(w1) THEN MulSF(g5, Quad(w0, w1), RNeg(ROne)) ELSE g5
  IN [g |-> g6, panic |-> r.panic]

\* ---------------- gen_pivot and its matchers ----------------
UnfuseGadget(g, v) ==
  IF IsPauli(g.ph[v]) THEN g
  ELSE LET v1 == Fresh(g)
           v2 == v1 + 1
           g1 == AddV(AddV(g, v1, "Z", 0), v2, "Z", g.ph[v])
           g2 == [g1 EXCEPT !.ph[v] = 0]
       IN SetET(SetET(g2, v, v1, "H"), v1, v2, "H")
UnfuseBoundary(g, v, b) ==
  IF g.ty[b] # "B" THEN g
  ELSE LET v1 == Fresh(g)
           g1 == AddV(g, v1, "Z", 0)
           g2 == SetET(SetET(g1, v, v1, "H"), v1, b, Opp(ET(g, v, b)))
       IN DelE(g2, v, b)
RECURSIVE UnfuseAll(_, _, _)
UnfuseAll(g, v, q) == IF q = <<>> THEN g ELSE UnfuseAll(UnfuseBoundary(g, v, Head(q)), v, Tail(q))
CheckGenPivot(g, a, b) ==
  /\ a # b /\ ET(g, a, b) = "H"
  /\ \A v \in {a, b} : g.ty[v] = "Z" /\ \A w \in Nbrs(g, v) : (g.ty[w] = "Z" /\ ET(g, v, w) = "H") \/ g.ty[w] = "B"
ApplyGenPivot(g, a, b) ==
  LET nh0 == SetToSortSeq(Nbrs(g, a), <)
      g1  == UnfuseAll(UnfuseGadget(g, a), a, nh0)
      nh1 == SetToSortSeq(Nbrs(g1, b), <)
      g2  == UnfuseAll(UnfuseGadget(g1, b), b, nh1)
  IN ApplyPivot(g2, a, b)
IsInteriorPauli(g, v) == IsPauli(g.ph[v]) /\ \A n \in Nbrs(g, v) : g.ty[n] = "Z" /\ Deg(g, n) > 1
IsBoundaryPauli(g, v) == IsPauli(g.ph[v]) /\ \E n \in Nbrs(g, v) : g.ty[n] = "B"
IsBoundaryPauliH(g, v) == IsPauli(g.ph[v]) /\ \E n \in Nbrs(g, v) : ET(g, v, n) = "H" /\ g.ty[n] = "B"
IsBoundaryProperClifford(g, v) == IsProperClifford(g.ph[v]) /\ \E n \in Nbrs(g, v) : g.ty[n] = "B"
CheckGenPivotReduce(g, a, b) == CheckGenPivot(g, a, b) /\ (IsInteriorPauli(g, a) \/ IsInteriorPauli(g, b))
CheckBoundaryPivot(g, a, b)  == CheckGenPivot(g, a, b) /\ IsBoundaryPauli(g, a)
CheckHBoundaryPivot(g, a, b) == CheckGenPivot(g, a, b) /\ IsBoundaryPauliH(g, a)

\* ---------------- boundary_local_comp(v0, v1) ----------------
\* v0: proper Clifford next to a boundary, v1: interior Pauli H-neighbour; pad, lcomp v0, lcomp v1
CheckBoundaryLComp(g, a, b) ==
  /\ a # b /\ ET(g, a, b) = "H"
  /\ g.ty[a] = "Z" /\ g.ty[b] = "Z"
  /\ \A w \in Nbrs(g, a) : (g.ty[w] = "Z" /\ ET(g, a, w) = "H") \/ g.ty[w] = "B"
  /\ AllZH(g, b)
  /\ IsBoundaryProperClifford(g, a) /\ IsInteriorPauli(g, b)
ApplyBoundaryLComp(g, a, b) ==
  LET g1 == UnfuseAll(g, a, SetToSortSeq(Nbrs(g, a), <))
      r1 == ApplyLComp(g1, a)
      r2 == ApplyLComp(r1.g, b)
  IN [g |-> r2.g, panic |-> r1.panic \/ r2.panic]

\* ---------------- gadget_fusion(v0, v1) ----------------
GadgetLeaves(g, v) == {n \in Nbrs(g, v) : Deg(g, n) = 1}
CheckGadgetFusion(g, a, b) ==
  /\ a # b /\ Exists(g, a) /\ Exists(g, b)
  /\ g.ty[a] = "Z" /\ g.ty[b] = "Z" /\ ~HasE(g, a, b)
  /\ g.ph[a] = 0 /\ g.ph[b] = 0 /\ PIsEmpty(g.vr[a]) /\ PIsEmpty(g.vr[b])
  /\ \A v \in {a, b} : AllZH(g, v) /\ Cardinality(GadgetLeaves(g, v)) = 1
  /\ Nbrs(g, a) \ GadgetLeaves(g, a) = Nbrs(g, b) \ GadgetLeaves(g, b)
ApplyGadgetFusion(g, a, b) ==
  LET l0 == CHOOSE n \in GadgetLeaves(g, a) : TRUE
      l1 == CHOOSE n \in GadgetLeaves(g, b) : TRUE
      g1 == AddPar(AddPh(g, l0, g.ph[l1]), l0, g.vr[l1])
      g2 == DelV(DelV(g1, b), l1)
  IN OK(MulSc(g2, Sqrt2Pow(2 - Deg(g2, a))))

\* ---------------- remove_single(v) ----------------
CheckRemSingle(g, v) == Exists(g, v) /\ Deg(g, v) = 0 /\ IsZX(g, v)
\* the scalar contribution of an isolated spider with phase p and parity pv
SingleFactor(g, p, pv) ==
  IF PIsEmpty(pv) THEN MulSc(g, OnePlus(p))
  ELSE MulSF(MulSF(g, Lin(PNeg(pv)), OnePlus(p)), Lin(pv), OnePlus(p + 4))
ApplyRemSingle(g, v) == OK(DelV(SingleFactor(g, g.ph[v], g.vr[v]), v))

\* ---------------- remove_pair(v0, v1) ----------------
CheckRemPair(g, a, b) ==
  /\ Exists(g, a) /\ Exists(g, b) /\ Deg(g, a) = 1 /\ Deg(g, b) = 1 /\ IsZX(g, a) /\ IsZX(g, b) /\ HasE(g, a, b)
ApplyRemPair(g, a, b) ==
  LET same == (g.ty[a] = g.ty[b] /\ ET(g, a, b) = "N") \/ (g.ty[a] # g.ty[b] /\ ET(g, a, b) = "H")
      p0 == g.ph[a]   p1 == g.ph[b]
      w0 == g.vr[a]   w1 == g.vr[b]
      x0 == Omega(p0) x1 == Omega(p1) x2 == Omega(p0 + p1)
      s00 == RAdd(RAdd(ROne, x0), RSub(x1, x2))
      s01 == RAdd(RSub(ROne, x1), RAdd(x0, x2))
      s10 == RAdd(RSub(ROne, x0), RAdd(x1, x2))
      s11 == RSub(RSub(ROne, x0), RAdd(x1, x2))
      g1 == IF same THEN
              (IF PIsEmpty(w0) /\ PIsEmpty(w1) THEN MulSc(g, OnePlus(p0 + p1))
               ELSE LET w == PXor(w0, w1) IN
                    MulSF(MulSF(g, Lin(PNeg(w)), OnePlus(p0 + p1)), Lin(w), OnePlus(p0 + p1 + 4)))
            ELSE
              LET h == MulSc(g, Sqrt2Pow(-1)) IN
              IF PIsEmpty(w0) /\ PIsEmpty(w1) THEN MulSc(h, s00)
              ELSE IF s00 = s01 /\ s10 = s11 THEN MulSF(MulSF(h, Lin(PNeg(w1)), s00), Lin(w1), s11)
              ELSE IF s00 = s10 /\ s01 = s11 THEN MulSF(MulSF(h, Lin(PNeg(w0)), s00), Lin(w0), s11)
              ELSE IF s00 = s11 /\ s01 = s10 THEN
                   LET w == PXor(w0, w1) IN MulSF(MulSF(h, Lin(PNeg(w)), s00), Lin(w), s11)
              ELSE MulSF(MulSF(MulSF(MulSF(h, Quad(PNeg(w0), PNeg(w1)), s00), Quad(PNeg(w0), w1), s01),
                               Quad(w0, PNeg(w1)), s10), Quad(w0, w1), s11)
  IN OK(DelV(DelV(g1, a), b))

\* ---------------- remove_duplicate(v0, v1) ----------------
CheckRemDup(g, a, b) ==
  /\ a # b /\ Exists(g, a) /\ Exists(g, b) /\ g.ty[a] = "Z" /\ g.ty[b] = "Z"
  /\ IsPauli(g.ph[b])
  /\ AllZH(g, a)
  /\ Nbrs(g, a) = Nbrs(g, b) /\ \A u \in Nbrs(g, a) : ET(g, a, u) = ET(g, b, u)
ApplyRemDup(g, a, b) ==
  LET g1 == AddPar(AddPh(g, a, g.ph[b]), a, g.vr[b])
      g2 == MulSc(g1, Sqrt2Pow(-Deg(g1, a)))
  IN OK(DelV(SingleFactor(g2, g2.ph[a], g2.vr[a]), a))

\* ---------------- the rule table ----------------
Rules1 == {"pi_copy", "remove_id", "color_change", "local_comp", "remove_single"}
Rules2 == {"spider_fusion", "pivot", "gen_pivot", "gen_pivot_reduce", "boundary_pivot", "h_boundary_pivot",
           "boundary_local_comp", "gadget_fusion", "remove_pair", "remove_duplicate"}
Check(R, g, a) ==
  CASE R = "pi_copy"        -> CheckPiCopy(g, a[1])
    [] R = "remove_id"      -> CheckRemId(g, a[1])
    [] R = "color_change"   -> CheckCC(g, a[1])
    [] R = "local_comp"     -> CheckLComp(g, a[1])
    [] R = "remove_single"  -> CheckRemSingle(g, a[1])
    [] R = "spider_fusion"  -> CheckFuse(g, a[1], a[2])
    [] R = "pivot"          -> CheckPivot(g, a[1], a[2])
    [] R = "gen_pivot"      -> CheckGenPivot(g, a[1], a[2])
    [] R = "gen_pivot_reduce" -> CheckGenPivotReduce(g, a[1], a[2])
    [] R = "boundary_pivot" -> CheckBoundaryPivot(g, a[1], a[2])
    [] R = "h_boundary_pivot" -> CheckHBoundaryPivot(g, a[1], a[2])
    [] R = "boundary_local_comp" -> CheckBoundaryLComp(g, a[1], a[2])
    [] R = "gadget_fusion"  -> CheckGadgetFusion(g, a[1], a[2])
    [] R = "remove_pair"    -> CheckRemPair(g, a[1], a[2])
    [] R = "remove_duplicate" -> CheckRemDup(g, a[1], a[2])
Apply(R, g, a) ==
  CASE R = "pi_copy"        -> ApplyPiCopy(g, a[1])
    [] R = "remove_id"      -> ApplyRemId(g, a[1])
    [] R = "color_change"   -> ApplyCC(g, a[1])
    [] R = "local_comp"     -> ApplyLComp(g, a[1])
    [] R = "remove_single"  -> ApplyRemSingle(g, a[1])
    [] R = "spider_fusion"  -> ApplyFuse(g, a[1], a[2])
    [] R \in {"pivot"}      -> ApplyPivot(g, a[1], a[2])
    [] R \in {"gen_pivot", "gen_pivot_reduce", "boundary_pivot", "h_boundary_pivot"} -> ApplyGenPivot(g, a[1], a[2])
    [] R = "boundary_local_comp" -> ApplyBoundaryLComp(g, a[1], a[2])
    [] R = "gadget_fusion"  -> ApplyGadgetFusion(g, a[1], a[2])
    [] R = "remove_pair"    -> ApplyRemPair(g, a[1], a[2])
    [] R = "remove_duplicate" -> ApplyRemDup(g, a[1], a[2])
\* every result the code may produce (storage-order nondeterminism), for refinement checks
ApplySet(R, g, a) == IF R = "remove_id" THEN {ApplyRemId(g, a[1]), ApplyRemIdAlt(g, a[1])} ELSE {Apply(R, g, a)}
=============================================================================
