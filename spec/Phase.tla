-------------------------------- MODULE Phase --------------------------------
(***************************************************************************)
(* C16.  Phases of quizx (quizx/src/phase.rs, quizx/src/phase/utils.rs).   *)
(*                                                                         *)
(* A phase is a rational number of half turns, i.e. an element of Q / 2Z.  *)
(* The code stores the representative in (-1, 1] as a num::Rational64.     *)
(*                                                                         *)
(* Rationals are pairs <<n, d>> of TLC integers.  A pair is a *rational    *)
(* value* (IsRat) when d > 0 and gcd(|n|, d) = 1, which is the invariant   *)
(* num::Ratio maintains; `Reduce` maps any pair with d # 0 (negative       *)
(* denominators, common factors) to it, as Ratio::new does.                *)
(*                                                                         *)
(* TLC integers are 32 bit.  The operands of the arithmetic are phases,     *)
(* |n| <= d, and with d < 2^15 every product below stays under 2^31        *)
(* (a d' + c d < 2^30 + 2^30; limit bounds m <= 2^12 give d m, n k < 2^27).*)
(* Operands near the 64-bit limit cannot be evaluated by TLC.              *)
(*                                                                         *)
(*   Norm(q)          the unique representative in (-1,1] of q + 2Z,       *)
(*                    declaratively (CHOOSE among the translates by 2k)    *)
(*   NormImpl(q)      Phase::normalize transcribed                         *)
(*   PAdd PSub PNeg PMulInt       rational arithmetic, then Norm           *)
(*   PMulRep PDivRep PDivIntRep   Mul<Phase>, Div<Phase>, Div<i64>: on the  *)
(*                    representatives, NOT on classes (transcription only) *)
(*   IsPauli IsClifford IsProperClifford IsT IsZero IsOne                  *)
(*                    the code's predicates on the stored value            *)
(*   ClsPauli ClsClifford ClsProperClifford ClsT                           *)
(*                    what they mean on the class q + 2Z                   *)
(*   LimitDenImpl(q, m)  utils::limit_denominator transcribed step by step *)
(*   LimitDenDecl(q, m)  the closest fraction with denominator <= m,       *)
(*                    ties as Python's Fraction.limit_denominator          *)
(*   IsBestApprox(x, q, m)  the same as a predicate on a given answer x    *)
(*                    (linear in m: this is what trace validation uses)    *)
(***************************************************************************)
EXTENDS Integers, Sequences, TLC

PAbs(x) == IF x < 0 THEN -x ELSE x

\* gcd on naturals (Euclid); Gcd(0, 0) = 0
RECURSIVE Gcd(_, _)
Gcd(a, b) == IF b = 0 THEN a ELSE Gcd(b, a % b)

IsRat(q) == q[2] > 0 /\ Gcd(PAbs(q[1]), q[2]) = 1

\* Ratio::new: divide by the gcd, make the denominator positive (d # 0)
Reduce(q) ==
  LET g == Gcd(PAbs(q[1]), PAbs(q[2]))
      s == IF q[2] < 0 THEN -1 ELSE 1
  IN <<s * (q[1] \div g), s * (q[2] \div g)>>

RInt(k) == <<k, 1>>
RAdd(p, q) == Reduce(<<(p[1] * q[2]) + (q[1] * p[2]), p[2] * q[2]>>)
RNeg(q) == <<-q[1], q[2]>>
RSub(p, q) == RAdd(p, RNeg(q))
RMulInt(q, k) == Reduce(<<q[1] * k, q[2]>>)
\* order on pairs with positive denominators
RLess(p, q) == p[1] * q[2] < q[1] * p[2]
RLeq(p, q) == p[1] * q[2] <= q[1] * p[2]

(***************************************************************************)
(* Canonical representative                                                *)
(***************************************************************************)
\* in (-1, 1]
InRange(q) == -q[2] < q[1] /\ q[1] <= q[2]
\* what a stored phase must look like
Canonical(q) == IsRat(q) /\ InRange(q)

\* q + 2k for the integers k that can possibly land in (-1, 1]
Translates(q) ==
  LET r == Reduce(q)
      b == (PAbs(r[1]) \div (2 * r[2])) + 1
  IN {<<r[1] + (2 * k * r[2]), r[2]>> : k \in (-b)..b}
\* declarative: THE translate by an even integer that lies in (-1, 1]
Norm(q) == CHOOSE x \in Translates(q) : InRange(x)
\* (existence and uniqueness of that translate are checked by MC_Phase: NormUnique)
NormCandidates(q) == {x \in Translates(q) : InRange(x)}

\* i64::rem_euclid
RemEuclid(a, b) == a % PAbs(b)

(* Phase::normalize, transcribed.  The argument is the stored Rational64 (reduced, d > 0 when it
   was built by Ratio::new; the transcription does not assume it).  The slow path ends in
   `Rational64::new(num, denom).into()`, and `into` is Phase::new, which normalises again:
   that is the recursive call (it takes the fast path when d > 0). *)
RECURSIVE NormImpl(_)
NormImpl(q) ==
  LET denom == q[2]
      num == q[1]
  IN IF -denom < num /\ num <= denom THEN q
     ELSE LET n1 == RemEuclid(num, 2 * denom)
              n2 == IF n1 > denom THEN n1 - (2 * denom) ELSE n1
          IN NormImpl(Reduce(<<n2, denom>>))

\* Phase::new(r) for r built by Ratio::new / From<(i64,i64)> / From<i64>
PNew(q) == NormImpl(Reduce(q))

(***************************************************************************)
(* Group operations modulo 2 (arguments: phases, i.e. canonical pairs; the *)
(* definitions make sense for any rational values)                         *)
(***************************************************************************)
PZeroPh == <<0, 1>>
POnePh == <<1, 1>>
PAdd(p, q) == Norm(RAdd(p, q))
PSub(p, q) == Norm(RSub(p, q))
PNeg(p) == Norm(RNeg(p))
PMulInt(p, k) == Norm(RMulInt(p, k))
(* Mul<Phase>, Div<Phase>, Div<i64> (and *=, /=): the code multiplies / divides the STORED REPRESENTATIVES as
   rationals and normalises.  These are not operations on classes (p and p + 2 have different products and
   halves), so property C16 says nothing about WHICH class comes out; what it does say - every stored phase is
   the canonical representative - applies to their results too.  The definitions below are the transcription
   (trace validation compares with them as L1 only).  Divisors must be non-zero (num::Ratio panics otherwise). *)
RMul(p, q) == Reduce(<<p[1] * q[1], p[2] * q[2]>>)
RDiv(p, q) == Reduce(<<p[1] * q[2], p[2] * q[1]>>)         \* q[1] # 0
RDivInt(p, k) == Reduce(<<p[1], p[2] * k>>)                \* k # 0
PMulRep(p, q) == NormImpl(RMul(p, q))
PDivRep(p, q) == NormImpl(RDiv(p, q))
PDivIntRep(p, k) == NormImpl(RDivInt(p, k))
\* Display for Phase = Display for num::Ratio on the stored value: "n" when d = 1, else "n/d"
PhaseStr(p) == IF p[2] = 1 THEN ToString(p[1]) ELSE ToString(p[1]) \o "/" \o ToString(p[2])
\* k-fold sum, k >= 0
RECURSIVE RepAdd(_, _)
RepAdd(p, k) == IF k = 0 THEN PZeroPh ELSE PAdd(RepAdd(p, k - 1), p)
\* same class modulo 2
SameClass(p, q) == Norm(p) = Norm(q)

(***************************************************************************)
(* Classification: the code's definitions on the stored value ...          *)
(***************************************************************************)
IsZero(r) == r[1] = 0                      \* Ratio::is_zero
IsOne(r) == r[1] = r[2]                    \* Ratio::is_one: numer == denom
IsPauli(r) == IsZero(r) \/ IsOne(r)
IsClifford(r) == PAbs(r[2]) <= 2
IsProperClifford(r) == Reduce(r) = <<1, 2>> \/ Reduce(r) = <<-1, 2>>   \* Ratio's == is by value
IsT(r) == PAbs(r[2]) = 4
(* ... and their meaning on the class q + 2Z (q any rational):
   Pauli: q is an integer; Clifford: 2q is an integer; proper Clifford: 2q is an odd integer;
   T: 4q is an odd integer ("non-Clifford multiple of 1/4") *)
IsIntegerR(q) == Reduce(q)[2] = 1
IsOddIntegerR(q) == Reduce(q)[2] = 1 /\ Reduce(q)[1] % 2 = 1
ClsPauli(q) == IsIntegerR(q)
ClsZero(q) == IsIntegerR(q) /\ Reduce(q)[1] % 2 = 0
ClsOne(q) == IsOddIntegerR(q)
ClsClifford(q) == IsIntegerR(RMulInt(q, 2))
ClsProperClifford(q) == IsOddIntegerR(RMulInt(q, 2))
ClsT(q) == IsOddIntegerR(RMulInt(q, 4))

(***************************************************************************)
(* limit_denominator                                                       *)
(***************************************************************************)
(* utils::limit_denominator, transcribed (the variable names are the code's: `new_numer` is in
   fact the next convergent's denominator q2 of CPython, numer_i/denom_i are p_i/q_i, and
   numer/denom are the running remainders n, d).  div_floor is floor division; denom stays
   positive inside the loop (the loop exits before the expansion of q is exhausted because the
   last convergent has denominator q[2] > m).  Ratio::new_raw: no reduction of the result. *)
RECURSIVE LimitLoop(_, _, _, _, _, _, _)
LimitLoop(numer, denom, numer0, denom0, numer1, denom1, m) ==
  LET a == numer \div denom
      newnumer == denom0 + (a * denom1)
  IN IF newnumer > m
     THEN [numer |-> numer, denom |-> denom, numer0 |-> numer0, denom0 |-> denom0, numer1 |-> numer1, denom1 |-> denom1]
     ELSE LimitLoop(denom, numer - (a * denom), numer1, denom1, numer0 + (a * numer1), newnumer, m)
LimitPanics(m) == m <= 1
LimitDenImpl(q, m) ==
  IF q[2] <= m THEN q
  ELSE LET s == LimitLoop(q[1], q[2], 0, 1, 1, 0, m)
           k == (m - s.denom0) \div s.denom1
       IN IF 2 * s.denom * (s.denom0 + (k * s.denom1)) <= q[2]
          THEN <<s.numer1, s.denom1>>
          ELSE <<s.numer0 + (k * s.numer1), s.denom0 + (k * s.denom1)>>
\* Phase::limit_denominator
PLimit(p, m) == NormImpl(LimitDenImpl(p, m))

(* Declaratively.  CPython (Lib/fractions.py, the version the code cites) computes the last
   convergent bound2 = p1/q1 of q with q1 <= m and the last semiconvergent
   bound1 = (p0 + k p1)/(q0 + k q1) with denominator <= m; they lie on opposite sides of q and are
   the best approximations from either side.  It returns

        bound2  if  |bound2 - q| <= |bound1 - q|     (coded as 2 d (q0 + k q1) <= q.denominator)
        bound1  otherwise,

   and q itself when its denominator is <= m ("exact hit").  So among all fractions p/k,
   1 <= k <= m, the result is the one closest to q, and when two are equally close (q is the
   midpoint of bound1 and bound2) the tie goes to the convergent bound2.  For m >= 2 the
   convergent is the one of the two with the SMALLER DENOMINATOR (q1 < q0 + k q1 whenever k >= 1,
   and a tie needs k >= 1; two equidistant candidates with the same denominator would be a and
   a + 1 around a + 1/2, which is an exact hit for m >= 2).  The declarative tie rule is
   therefore "the smaller denominator"; LimitDenImpl = LimitDenDecl on the whole bounded family
   (MC_Phase, which contains ties such as 5/12 with m = 4 -> 1/2, not 1/3) confirms that this
   is what the transcribed algorithm does.

   For a fixed denominator k only the two numerators floor(q k) and floor(q k) + 1 can be
   closest, so the candidate set is finite. *)
LimitCands(q, m) ==
  UNION {{Reduce(<<(q[1] * k) \div q[2], k>>), Reduce(<<((q[1] * k) \div q[2]) + 1, k>>)} : k \in 1..m}
\* |x - q| * (x[2] * q[2]), a non-negative integer
DistNum(x, q) == PAbs((x[1] * q[2]) - (q[1] * x[2]))
\* |x - q| <= |y - q|, |x - q| = |y - q|   (the common factor q[2] cancels)
DistLeq(x, y, q) == DistNum(x, q) * y[2] <= DistNum(y, q) * x[2]
DistEq(x, y, q) == DistNum(x, q) * y[2] = DistNum(y, q) * x[2]
(* The second conjunct follows from the third (the fraction with the same denominator x[2] nearest to q is a
   candidate and lies within 1/(2 x[2]) of q); it is stated first so that TLC never multiplies the
   distance of a far-off x by a denominator (32-bit products). *)
IsBestApprox(x, q, m) ==
  /\ IsRat(x) /\ x[2] <= m
  /\ 2 * DistNum(x, q) <= q[2]
  /\ \A y \in LimitCands(q, m) : DistLeq(x, y, q) /\ ((DistEq(x, y, q) /\ y # x) => x[2] < y[2])
\* at most one x can satisfy IsBestApprox (two would each need the strictly smaller denominator)
LimitDenDecl(q, m) == CHOOSE x \in LimitCands(q, m) : IsBestApprox(x, q, m)
\* is there a second, equally close candidate? (statistics only)
LimitIsTie(x, q, m) == \E y \in LimitCands(q, m) : y # x /\ DistEq(x, y, q)

(***************************************************************************)
(* The property, as predicates over arbitrary (raw) pairs q, r, s with     *)
(* non-zero denominators, integers k and bounds m >= 2                     *)
(***************************************************************************)
\* the stored value is the representative in (-1,1], reduced, and in the class of q
PropRange(q) == Canonical(Norm(q)) /\ IsIntegerR(RSub(Norm(q), Reduce(q))) /\ Reduce(RSub(Norm(q), Reduce(q)))[1] % 2 = 0
\* exactly one translate lies in the interval
PropNormUnique(q) == NormCandidates(q) = {Norm(q)}
\* the code computes it
PropNormImpl(q) == PNew(q) = Norm(q) /\ PNew(<<-q[1], -q[2]>>) = Norm(q)
PropNormIdem(q) == Norm(Norm(q)) = Norm(q) /\ NormImpl(Norm(q)) = Norm(q)
\* phases equal modulo full turns are the same stored value
PropUnique(q, k) == Norm(RAdd(Reduce(q), RInt(2 * k))) = Norm(q)
\* group laws modulo 2 on phases p = Norm(q) ...
PropIdentity(q) == PAdd(Norm(q), PZeroPh) = Norm(q) /\ PAdd(PZeroPh, Norm(q)) = Norm(q)
PropInverse(q) == PAdd(Norm(q), PNeg(Norm(q))) = PZeroPh /\ PNeg(PNeg(Norm(q))) = Norm(q) /\ PSub(Norm(q), Norm(q)) = PZeroPh
PropCommutative(q, r) == PAdd(Norm(q), Norm(r)) = PAdd(Norm(r), Norm(q))
PropAssociative(q, r, s) == PAdd(PAdd(Norm(q), Norm(r)), Norm(s)) = PAdd(Norm(q), PAdd(Norm(r), Norm(s)))
PropSub(q, r) == /\ PSub(Norm(q), Norm(r)) = PAdd(Norm(q), PNeg(Norm(r)))
                 /\ PSub(PAdd(Norm(q), Norm(r)), Norm(r)) = Norm(q)
\* ... which agree with rational arithmetic modulo 2 (well defined on classes)
PropAddClass(q, r) == /\ PAdd(Norm(q), Norm(r)) = Norm(RAdd(Reduce(q), Reduce(r)))
                      /\ PSub(Norm(q), Norm(r)) = Norm(RSub(Reduce(q), Reduce(r)))
                      /\ Canonical(PAdd(Norm(q), Norm(r))) /\ Canonical(PSub(Norm(q), Norm(r)))
PropNegClass(q) == PNeg(Norm(q)) = Norm(RNeg(Reduce(q))) /\ Canonical(PNeg(Norm(q)))
PropMulInt(q, k) ==
  /\ PMulInt(Norm(q), k) = (IF k >= 0 THEN RepAdd(Norm(q), k) ELSE PNeg(RepAdd(Norm(q), -k)))
  /\ PMulInt(Norm(q), k) = Norm(RMulInt(Reduce(q), k))
  /\ Canonical(PMulInt(Norm(q), k))
\* the representative-level product / quotients land on canonical representatives as well, and NormImpl = Norm there
PropRingCanonical(q, r) ==
  LET p == Norm(q)  s == Norm(r) IN
  /\ Canonical(PMulRep(p, s)) /\ PMulRep(p, s) = Norm(RMul(p, s))
  /\ (s[1] # 0 => Canonical(PDivRep(p, s)) /\ PDivRep(p, s) = Norm(RDiv(p, s)))
PropDivIntCanonical(q, k) ==
  LET p == Norm(q) IN k # 0 => Canonical(PDivIntRep(p, k)) /\ PDivIntRep(p, k) = Norm(RDivInt(p, k))
\* the code's predicates on the stored value say what the class is, for every representative
PropClassify(q) ==
  LET p == Norm(q) IN
  /\ IsPauli(p) = ClsPauli(q) /\ IsZero(p) = ClsZero(q) /\ IsOne(p) = ClsOne(q)
  /\ IsClifford(p) = ClsClifford(q) /\ IsProperClifford(p) = ClsProperClifford(q) /\ IsT(p) = ClsT(q)
PropClassInvariant(q, k) ==
  LET q2 == RAdd(Reduce(q), RInt(2 * k)) IN
  /\ ClsPauli(q2) = ClsPauli(q) /\ ClsZero(q2) = ClsZero(q) /\ ClsOne(q2) = ClsOne(q)
  /\ ClsClifford(q2) = ClsClifford(q) /\ ClsProperClifford(q2) = ClsProperClifford(q) /\ ClsT(q2) = ClsT(q)
  /\ IsPauli(Norm(q2)) = IsPauli(Norm(q)) /\ IsClifford(Norm(q2)) = IsClifford(Norm(q))
  /\ IsProperClifford(Norm(q2)) = IsProperClifford(Norm(q)) /\ IsT(Norm(q2)) = IsT(Norm(q))
\* T => not Clifford, proper Clifford => Clifford and not Pauli, Pauli => Clifford
PropClassLattice(q) ==
  LET p == Norm(q) IN
  /\ IsT(p) => ~IsClifford(p)
  /\ IsProperClifford(p) <=> (IsClifford(p) /\ ~IsPauli(p))
  /\ IsPauli(p) => IsClifford(p)
\* limit_denominator on the rational Reduce(q) (any size) and on the phase Norm(q)
PropLimit(q, m) ==
  LET r == Reduce(q)
      x == LimitDenImpl(r, m)
  IN /\ x = LimitDenDecl(r, m)
     /\ IsBestApprox(x, r, m)
     /\ (r[2] <= m => x = r)
PropLimitPhase(q, m) ==
  LET p == Norm(q)
      x == LimitDenImpl(p, m)
  IN /\ IsBestApprox(x, p, m)
     /\ Canonical(PLimit(p, m)) /\ PLimit(p, m) = Norm(x)
     /\ PLimit(p, m)[2] <= m \/ PLimit(p, m) = p
=============================================================================
