------------------------------ MODULE ToGraph ------------------------------
(***************************************************************************)
(* Circuit -> ZX-diagram translation (circuit.rs:266-318, gate.rs:286-689) *)
(* as a state machine: state [g, qs, fresh] where qs maps a live qubit to  *)
(* its (1-based) position in g.outs and fresh is the next measurement      *)
(* variable; AddGate transcribes Gate::add_to_graph case by case.          *)
(* Vertex names are the code's: a fresh graph allocates 0,1,2,... so the   *)
(* translation of a circuit is reproduced name for name (L1).              *)
(* The simplify-while-building option (local_ap_simp after each gate) is   *)
(* not transcribed here: it is validated on recorded translations (L2).    *)
(***************************************************************************)
EXTENDS Circuit

TGInit(n) ==
  LET vs == 0..(2 * n - 1)
      g0 == [EmptyG EXCEPT !.vs = vs, !.ty = [v \in vs |-> "B"], !.ph = [v \in vs |-> 0], !.vr = [v \in vs |-> PZero],
                           !.et = [e \in {{2 * i, 2 * i + 1} : i \in 0..(n - 1)} |-> "N"],
                           !.ins = [i \in 1..n |-> 2 * (i - 1)], !.outs = [i \in 1..n |-> 2 * (i - 1) + 1]]
  IN [g |-> g0, qs |-> [q \in 0..(n - 1) |-> q + 1], fresh |-> 0]

Live(st, q) == q \in DOMAIN st.qs
\* add_spider: the current output boundary of the qubit becomes the spider, a new boundary follows it;
\* for a Hadamard the edge towards the predecessor is toggled. Returns [st, v] (v = -1 if the qubit is gone)
AddSpider(st, q, ty, et, ph) ==
  IF ~Live(st, q) THEN [st |-> st, v |-> -1] ELSE
  LET g == st.g
      i == st.qs[q]
      v0 == g.outs[i]
      pred == CHOOSE u \in Nbrs(g, v0) : TRUE
      o == Fresh(g)
      g1 == [g EXCEPT !.ty[v0] = ty, !.ph[v0] = ph % 8]
      g2 == SetET(AddV(g1, o, "B", 0), v0, o, "N")
      g3 == [g2 EXCEPT !.outs[i] = o]
      g4 == IF et = "H" THEN ToggleET(g3, v0, pred) ELSE g3
  IN [st |-> [st EXCEPT !.g = g4], v |-> v0]
Spider(st, q, ty, et, ph) == AddSpider(st, q, ty, et, ph).st

\* the three two-qubit constructions: spiders t1, t2 joined by an edge of type et, scalar sqrt2
TwoQ(st, q1, t1, q2, t2, et) ==
  LET a == AddSpider(st, q1, t1, "N", 0)
      b == AddSpider(a.st, q2, t2, "N", 0)
  IN IF a.v = -1 \/ b.v = -1 THEN b.st
     ELSE [b.st EXCEPT !.g = MulSc(SetET(b.st.g, a.v, b.v, et), Sqrt2)]

\* removal of output position i: later positions shift down
DropOut(st, q) ==
  LET i == st.qs[q]
      n == Len(st.g.outs)
  IN [st EXCEPT !.g.outs = [k \in 1..(n - 1) |-> IF k < i THEN st.g.outs[k] ELSE st.g.outs[k + 1]],
                !.qs = [p \in (DOMAIN st.qs) \ {q} |-> IF st.qs[p] > i THEN st.qs[p] - 1 ELSE st.qs[p]]]

\* post-selected 4-T CCZ gadget (gate.rs:317-374)
CCZPost(st, qs3) ==
  IF ~(Live(st, qs3[1]) /\ Live(st, qs3[2]) /\ Live(st, qs3[3])) THEN st ELSE
  LET a == AddSpider(st, qs3[1], "Z", "N", 0)
      b == AddSpider(a.st, qs3[2], "Z", "N", 0)
      c == AddSpider(b.st, qs3[3], "Z", "N", 6)
      g == c.st.g
      s == Fresh(g)
      g00 == s + 1   g01 == s + 2   g02 == s + 3
      g10 == s + 4   g11 == s + 5   g12 == s + 6
      h1 == AddV(g, s, "Z", 7)
      h2 == AddV(AddV(AddV(h1, g00, "Z", 0), g01, "Z", 0), g02, "Z", 0)
      h3 == AddV(AddV(AddV(h2, g10, "Z", 7), g11, "Z", 7), g12, "Z", 1)
      es == {<<s, c.v>>, <<g10, g00>>, <<g11, g01>>, <<g12, g02>>,
             <<g00, a.v>>, <<g00, s>>, <<g01, b.v>>, <<g01, s>>, <<g02, a.v>>, <<g02, b.v>>, <<g02, s>>}
      h4 == [h3 EXCEPT !.et = [e \in {{p[1], p[2]} : p \in es} |-> "H"] @@ h3.et]
  IN [c.st EXCEPT !.g = MulSc(h4, <<0, 1, 0, 0, 2>>)]

RECURSIVE AddGates(_, _, _)
AddGate(st, g, postsel) ==
  LET q1 == g.qs[1] IN
  CASE g.t = "ZPhase" -> Spider(st, q1, "Z", "N", g.ph)
    [] g.t = "Z"      -> Spider(st, q1, "Z", "N", 4)
    [] g.t = "S"      -> Spider(st, q1, "Z", "N", 2)
    [] g.t = "Sdg"    -> Spider(st, q1, "Z", "N", 6)
    [] g.t = "T"      -> Spider(st, q1, "Z", "N", 1)
    [] g.t = "Tdg"    -> Spider(st, q1, "Z", "N", 7)
    [] g.t = "XPhase" -> Spider(st, q1, "X", "N", g.ph)
    [] g.t = "NOT"    -> Spider(st, q1, "X", "N", 4)
    [] g.t = "HAD"    -> Spider(st, q1, "Z", "H", 0)
    [] g.t = "CNOT"   -> TwoQ(st, g.qs[1], "Z", g.qs[2], "X", "N")
    [] g.t = "CZ"     -> TwoQ(st, g.qs[1], "Z", g.qs[2], "Z", "H")
    [] g.t = "XCX"    -> TwoQ(st, g.qs[1], "X", g.qs[2], "X", "H")
    [] g.t = "SWAP"   -> IF Live(st, g.qs[1]) /\ Live(st, g.qs[2])
                         THEN [st EXCEPT !.qs[g.qs[1]] = st.qs[g.qs[2]], !.qs[g.qs[2]] = st.qs[g.qs[1]]] ELSE st
    [] g.t = "InitAncilla" ->
         IF ~Live(st, q1) THEN st ELSE
         LET o == st.g.outs[st.qs[q1]]
             inp == CHOOSE u \in Nbrs(st.g, o) : TRUE
         IN IF st.g.ty[inp] # "B" THEN st
            ELSE [st EXCEPT !.g = MulSc([st.g EXCEPT !.ins = SelectSeq(st.g.ins, LAMBDA w : w # inp), !.ty[inp] = "X"], Sqrt2Pow(-1))]
    [] g.t = "PostSelect" ->
         IF ~Live(st, q1) THEN st ELSE
         LET o == st.g.outs[st.qs[q1]]
         IN DropOut([st EXCEPT !.g = MulSc([st.g EXCEPT !.ty[o] = "X"], Sqrt2Pow(-1))], q1)
    [] g.t = "Measure" ->
         IF ~Live(st, q1) THEN st ELSE
         LET o == st.g.outs[st.qs[q1]]
             useFresh == PIsEmpty(g.vars)
             pv == IF useFresh THEN <<{st.fresh}, FALSE>> ELSE g.vars
         IN DropOut([st EXCEPT !.g = MulSc([st.g EXCEPT !.ty[o] = "X", !.vr[o] = pv], Sqrt2Pow(-1)),
                               !.fresh = IF useFresh THEN st.fresh + 1 ELSE st.fresh], q1)
    [] g.t = "MeasureReset" ->
         IF ~Live(st, q1) THEN st ELSE
         LET i == st.qs[q1]
             v == st.g.outs[i]
             useFresh == PIsEmpty(g.vars)
             pv == IF useFresh THEN <<{st.fresh}, FALSE>> ELSE g.vars
             v1 == Fresh(st.g)
             o == v1 + 1
             h1 == [st.g EXCEPT !.ty[v] = "X", !.vr[v] = pv]
             h2 == SetET(AddV(AddV(h1, v1, "X", 0), o, "B", 0), v1, o, "N")
         IN [st EXCEPT !.g = MulSc([h2 EXCEPT !.outs[i] = o], Sqrt2Pow(-2)),
                       !.fresh = IF useFresh THEN st.fresh + 1 ELSE st.fresh]
    [] g.t = "CCZ"  -> IF postsel THEN CCZPost(st, g.qs) ELSE AddGates(st, BasicOf(g), postsel)
    [] g.t = "TOFF" -> IF postsel THEN Spider(CCZPost(Spider(st, g.qs[3], "Z", "H", 0), g.qs), g.qs[3], "Z", "H", 0)
                       ELSE AddGates(st, BasicOf(g), postsel)
    [] g.t = "ParityPhase" -> AddGates(st, BasicOf(g), postsel)
    [] OTHER -> st
AddGates(st, gates, postsel) == IF gates = <<>> THEN st ELSE AddGates(AddGate(st, Head(gates), postsel), Tail(gates), postsel)

\* outputs are returned in qubit order (the qubit -> output position map is undone at the end)
FinalOuts(st) == LET live == SetToSortSeq(DOMAIN st.qs, <) IN [k \in 1..Len(live) |-> st.g.outs[st.qs[live[k]]]]
FirstFresh(c) == IF CircVars(c) = {} THEN 0 ELSE Max(CircVars(c)) + 1
ToGraph(c, postsel) ==
  LET st == AddGates([TGInit(c.n) EXCEPT !.fresh = FirstFresh(c)], c.gates, postsel)
  IN [st.g EXCEPT !.outs = FinalOuts(st)]

\* the measurement variables the translation will use, resolved in the circuit (for CircSemV)
RECURSIVE ResolveVars(_, _, _)
ResolveVars(gates, fresh, dead) ==
  IF gates = <<>> THEN <<>>
  ELSE LET g == Head(gates)
           q == g.qs[1]
           d2 == IF g.t \in {"Measure", "PostSelect"} THEN dead \cup {q} ELSE dead
       IN IF g.t \in {"Measure", "MeasureReset"} /\ PIsEmpty(g.vars) /\ q \notin dead
          THEN <<[g EXCEPT !.vars = <<{fresh}, FALSE>>]>> \o ResolveVars(Tail(gates), fresh + 1, d2)
          ELSE <<g>> \o ResolveVars(Tail(gates), fresh, d2)
Resolved(c) == [c EXCEPT !.gates = ResolveVars(c.gates, FirstFresh(c), {})]

\* Gate::add_to_graph is public: a caller may drive the translation itself and hand in ANY first fresh variable f
\* (also one that collides with an explicit variable: the two measurements then share one outcome variable)
ResolvedFrom(c, f) == [c EXCEPT !.gates = ResolveVars(c.gates, f, {})]
ToGraphFrom(c, postsel, f) ==
  LET st == AddGates([TGInit(c.n) EXCEPT !.fresh = f], c.gates, postsel)
  IN [st.g EXCEPT !.outs = FinalOuts(st)]
\* number of fresh variables the translation allocates (the caller's counter advances by this much)
NumFreshUsed(c) == LET r == Resolved(c) IN Cardinality({i \in 1..Len(c.gates) : r.gates[i].vars # c.gates[i].vars})
=============================================================================
