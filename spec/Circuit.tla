------------------------------ MODULE Circuit ------------------------------
(***************************************************************************)
(* Gate-by-gate matrix semantics of quizx circuits (gate.rs / circuit.rs), *)
(* exact over Ring.  A gate is a record                                    *)
(*     [t |-> kind, qs |-> <<qubits>>, ph |-> phase in units of pi/4,      *)
(*      vars |-> <<set of vars, const>>]                                   *)
(* with 0-based qubits as in the code.  The meaning of a gate prefix is a  *)
(* state [T, inq, outq]: T is a tensor [BIdx(|inq| + |outq|) -> Ring],     *)
(* index order = open input qubits ascending, then live output qubits      *)
(* ascending; ancilla initialisation removes an input, post-selection and  *)
(* measurement remove an output (later gates on that qubit are ignored,    *)
(* as the translation documents).  For measurements the meaning depends on *)
(* the outcome assignment sig (boolean variables).                         *)
(***************************************************************************)
EXTENDS ZXSem

GateKinds == {"XPhase", "NOT", "ZPhase", "Z", "S", "T", "Sdg", "Tdg", "CNOT", "CZ", "ParityPhase", "XCX",
              "SWAP", "HAD", "TOFF", "CCZ", "InitAncilla", "PostSelect", "Measure", "MeasureReset"}
Gate(t, qs, ph) == [t |-> t, qs |-> qs, ph |-> ph % 8, vars |-> PZero]

\* 2x2 matrices as U[x][y] = <y|U|x>  (x, y in {0,1}; TLA+ sequences are 1-based, hence +1)
Mat(a, b, c, d) == <<<<a, b>>, <<c, d>>>>          \* <<<0|U|0>, <1|U|0>>, <<0|U|1>, <1|U|1>>>
MZPhase(k) == Mat(ROne, RZero, RZero, Omega(k))
MHad == Mat(InvSqrt2, InvSqrt2, InvSqrt2, RNeg(InvSqrt2))
\* X-phase: H Z(k) H = 1/2 [[1+e, 1-e],[1-e, 1+e]]
MXPhase(k) == LET e == Omega(k)
                  p == RMul(RAdd(ROne, e), <<1,0,0,0,-1>>)
                  m == RMul(RSub(ROne, e), <<1,0,0,0,-1>>)
              IN Mat(p, m, m, p)

Pos(seq, q) == CHOOSE i \in 1..Len(seq) : seq[i] = q
InSeq(seq, q) == \E i \in 1..Len(seq) : seq[i] = q
Without(seq, q) == SelectSeq(seq, LAMBDA x : x # q)

\* state of the all-wires identity on qubits 0..n-1
CInit(n) == [T |-> IdTensor(n), inq |-> [i \in 1..n |-> i - 1], outq |-> [i \in 1..n |-> i - 1]]

\* apply a one-qubit matrix to live output qubit q
App1(s, q, U) ==
  IF ~InSeq(s.outq, q) THEN s ELSE
  LET m == Len(s.inq)
      p == m + Pos(s.outq, q)
  IN [s EXCEPT !.T = [b \in DOMAIN s.T |->
        RAdd(RMul(s.T[[b EXCEPT ![p] = 0]], U[1][b[p] + 1]), RMul(s.T[[b EXCEPT ![p] = 1]], U[2][b[p] + 1]))]]
\* multiply by a diagonal phase w^{f(bits of the listed qubits)}; f gets the sequence of bits
AppDiag(s, qs, f(_)) ==
  IF \E i \in 1..Len(qs) : ~InSeq(s.outq, qs[i]) THEN s ELSE
  LET m == Len(s.inq)
      ps == [i \in 1..Len(qs) |-> m + Pos(s.outq, qs[i])]
  IN [s EXCEPT !.T = [b \in DOMAIN s.T |-> RMul(s.T[b], Omega(f([i \in 1..Len(qs) |-> b[ps[i]]])))]]
\* classical reversible map on output bits: new[b] = old[pre(b)] for an involution pre
AppPerm(s, qs, pre(_, _)) ==
  IF \E i \in 1..Len(qs) : ~InSeq(s.outq, qs[i]) THEN s ELSE
  LET m == Len(s.inq)
      ps == [i \in 1..Len(qs) |-> m + Pos(s.outq, qs[i])]
  IN [s EXCEPT !.T = [b \in DOMAIN s.T |-> s.T[pre(b, ps)]]]

SumBits(bits) == FoldFunction(+, 0, bits)

RECURSIVE GateSem(_, _, _)
GateSem(s, g, sig) ==
  LET q1 == g.qs[1] IN
  CASE g.t = "ZPhase" -> App1(s, q1, MZPhase(g.ph))
    [] g.t = "Z"      -> App1(s, q1, MZPhase(4))
    [] g.t = "S"      -> App1(s, q1, MZPhase(2))
    [] g.t = "Sdg"    -> App1(s, q1, MZPhase(6))
    [] g.t = "T"      -> App1(s, q1, MZPhase(1))
    [] g.t = "Tdg"    -> App1(s, q1, MZPhase(7))
    [] g.t = "XPhase" -> App1(s, q1, MXPhase(g.ph))
    [] g.t = "NOT"    -> App1(s, q1, MXPhase(4))
    [] g.t = "HAD"    -> App1(s, q1, MHad)
    [] g.t = "CZ"     -> AppDiag(s, g.qs, LAMBDA bits : 4 * bits[1] * bits[2])
    [] g.t = "CCZ"    -> AppDiag(s, g.qs, LAMBDA bits : 4 * bits[1] * bits[2] * bits[3])
    [] g.t = "ParityPhase" -> IF Len(g.qs) = 0 THEN s
                              ELSE AppDiag(s, g.qs, LAMBDA bits : g.ph * (SumBits(bits) % 2))
    [] g.t = "CNOT"   -> AppPerm(s, g.qs, LAMBDA b, ps : [b EXCEPT ![ps[2]] = (b[ps[2]] + b[ps[1]]) % 2])
    [] g.t = "TOFF"   -> AppPerm(s, g.qs, LAMBDA b, ps : [b EXCEPT ![ps[3]] = (b[ps[3]] + b[ps[1]] * b[ps[2]]) % 2])
    [] g.t = "SWAP"   -> AppPerm(s, g.qs, LAMBDA b, ps : [b EXCEPT ![ps[1]] = b[ps[2]], ![ps[2]] = b[ps[1]]])
    [] g.t = "XCX"    -> IF \E i \in 1..2 : ~InSeq(s.outq, g.qs[i]) THEN s ELSE
                         LET h(t) == App1(App1(t, g.qs[1], MHad), g.qs[2], MHad)
                         IN h(AppDiag(h(s), g.qs, LAMBDA bits : 4 * bits[1] * bits[2]))
    [] g.t = "InitAncilla" ->
         \* only as the qubit's first operation: input still open (checked by the caller via `fresh`)
         IF ~InSeq(s.inq, q1) THEN s ELSE
         LET p == Pos(s.inq, q1)
             n == Len(s.inq) + Len(s.outq)
         IN [T |-> [b \in BIdx(n - 1) |-> s.T[[i \in 1..n |-> IF i < p THEN b[i] ELSE IF i = p THEN 0 ELSE b[i - 1]]]],
             inq |-> Without(s.inq, q1), outq |-> s.outq]
    [] g.t \in {"PostSelect", "Measure"} ->
         IF ~InSeq(s.outq, q1) THEN s ELSE
         LET p == Len(s.inq) + Pos(s.outq, q1)
             n == Len(s.inq) + Len(s.outq)
             bit == IF g.t = "PostSelect" THEN 0 ELSE (IF PEval(g.vars, sig) THEN 1 ELSE 0)
         IN [T |-> [b \in BIdx(n - 1) |-> s.T[[i \in 1..n |-> IF i < p THEN b[i] ELSE IF i = p THEN bit ELSE b[i - 1]]]],
             inq |-> s.inq, outq |-> Without(s.outq, q1)]
    [] g.t = "MeasureReset" ->
         IF ~InSeq(s.outq, q1) THEN s ELSE
         LET p == Len(s.inq) + Pos(s.outq, q1)
             bit == IF PEval(g.vars, sig) THEN 1 ELSE 0
         IN [s EXCEPT !.T = [b \in DOMAIN s.T |-> IF b[p] = 0 THEN s.T[[b EXCEPT ![p] = bit]] ELSE RZero]]
    [] OTHER -> s

\* InitAncilla is a no-op in the code once a gate has touched the qubit; `touched` tracks that
RECURSIVE CircRun(_, _, _, _)
CircRun(s, gates, sig, touched) ==
  IF gates = <<>> THEN s
  ELSE LET g == Head(gates)
           s2 == IF g.t = "InitAncilla" /\ g.qs[1] \in touched THEN s ELSE GateSem(s, g, sig)
           t2 == IF g.t = "SWAP" THEN touched \cup ToSet(g.qs)
                 ELSE touched \cup {g.qs[i] : i \in {i \in 1..Len(g.qs) : InSeq(s.outq, g.qs[i])}}
       IN CircRun([s2 EXCEPT !.T = TLCEval(s2.T)], Tail(gates), sig, t2)
CircSemV(c, sig) == CircRun(CInit(c.n), c.gates, sig, {})
CircSem(c) == CircSemV(c, <<>>).T
CircVars(c) == UNION {c.gates[i].vars[1] : i \in 1..Len(c.gates)}

\* ---------- circuit transformations (C15) ----------
AdjGate(g) ==
  CASE g.t \in {"ZPhase", "XPhase", "ParityPhase"} -> [g EXCEPT !.ph = (8 - g.ph) % 8]
    [] g.t = "S" -> [g EXCEPT !.t = "Sdg"] [] g.t = "Sdg" -> [g EXCEPT !.t = "S"]
    [] g.t = "T" -> [g EXCEPT !.t = "Tdg"] [] g.t = "Tdg" -> [g EXCEPT !.t = "T"]
    [] OTHER -> g
CAdjoint(c) == [c EXCEPT !.gates = [i \in 1..Len(c.gates) |-> AdjGate(c.gates[Len(c.gates) + 1 - i])]]
CCZDecomp(qs) ==
  << Gate("CNOT", <<qs[2], qs[3]>>, 0), Gate("Tdg", <<qs[3]>>, 0), Gate("CNOT", <<qs[1], qs[3]>>, 0), Gate("T", <<qs[3]>>, 0),
     Gate("CNOT", <<qs[2], qs[3]>>, 0), Gate("Tdg", <<qs[3]>>, 0), Gate("CNOT", <<qs[1], qs[3]>>, 0), Gate("T", <<qs[2]>>, 0),
     Gate("T", <<qs[3]>>, 0), Gate("CNOT", <<qs[1], qs[2]>>, 0), Gate("T", <<qs[1]>>, 0), Gate("Tdg", <<qs[2]>>, 0),
     Gate("CNOT", <<qs[1], qs[2]>>, 0) >>
BasicOf(g) ==
  CASE g.t = "CCZ"  -> CCZDecomp(g.qs)
    [] g.t = "TOFF" -> <<Gate("HAD", <<g.qs[3]>>, 0)>> \o CCZDecomp(g.qs) \o <<Gate("HAD", <<g.qs[3]>>, 0)>>
    [] g.t = "ParityPhase" ->
         IF Len(g.qs) = 0 THEN <<>>
         ELSE LET n == Len(g.qs)  t == g.qs[n] IN
              [i \in 1..(n - 1) |-> Gate("CNOT", <<g.qs[i], t>>, 0)] \o <<Gate("ZPhase", <<t>>, g.ph)>>
              \o [i \in 1..(n - 1) |-> Gate("CNOT", <<g.qs[n - i], t>>, 0)]
    [] OTHER -> <<g>>
NumBasic(g) == CASE g.t = "CCZ" -> 13 [] g.t = "TOFF" -> 15
                 [] g.t = "ParityPhase" -> (IF Len(g.qs) = 0 THEN 0 ELSE 2 * Len(g.qs) - 1) [] OTHER -> 1
RECURSIVE Flatten(_)
Flatten(ss) == IF ss = <<>> THEN <<>> ELSE Head(ss) \o Flatten(Tail(ss))
ToBasic(c) == [c EXCEPT !.gates = Flatten([i \in 1..Len(c.gates) |-> BasicOf(c.gates[i])])]
Concat(c1, c2) == [n |-> c1.n, gates |-> c1.gates \o c2.gates]
BasicKinds == {"HAD", "ZPhase", "Z", "S", "Sdg", "T", "Tdg", "CZ", "CNOT", "SWAP", "NOT", "XPhase", "XCX"}

\* ---------- the rest of the public surface of circuit.rs (C15) ----------
\* push_front: the circuit with one gate put before all others
CPushFront(c, g) == [c EXCEPT !.gates = <<g>> \o c.gates]
CPushBack(c, g) == [c EXCEPT !.gates = Append(c.gates, g)]
\* num_gates_of_type
KindCount(c, t) == Cardinality({i \in 1..Len(c.gates) : c.gates[i].t = t})
\* CircuitStats::into_array: the seven fields in declaration order
StatsArr(s) == <<s.qubits, s.total, s.oneq, s.twoq, s.moreq, s.cliff, s.non_cliff>>
\* Concatenation is only defined for operands on the same qubits (circuit.rs: "Cannot append circuits with different
\* numbers of qubits"): for mismatched operands there is no composite map, a returned circuit denotes nothing
Concatenable(c1, c2) == c1.n = c2.n

\* ---------- a CNOT / SWAP circuit as an F2 matrix (impl RowOps for Circuit) ----------
\* The impl's documentation (`c|b> = |m b>` after replaying a Gauss elimination of m^-1 ...) holds on X-basis states: there
\* CNOT(control r1, target r0) adds bit r0 INTO bit r1.  XConj(c) is c between two layers of Hadamards; its tensor is the
\* 0/1 matrix of that F2-linear map.
HLayer(n) == [i \in 1..n |-> Gate("HAD", <<i - 1>>, 0)]
XConj(c) == [c EXCEPT !.gates = HLayer(c.n) \o c.gates \o HLayer(c.n)]
F2Cat(x, y, n) == [i \in 1..(2 * n) |-> IF i <= n THEN x[i] ELSE y[i - n]]
IsF2Map(T, n) == \A x \in BIdx(n) : Cardinality({y \in BIdx(n) : T[F2Cat(x, y, n)] # RZero}) = 1
OutOf(T, n, x) == CHOOSE y \in BIdx(n) : T[F2Cat(x, y, n)] # RZero
\* M: sequence of rows, each a sequence of bits
MatVecF2(M, x) == [i \in 1..Len(M) |-> SumBits([j \in 1..Len(x) |-> M[i][j] * x[j]]) % 2]
\* `out` is `base` after one row operation whose matrix (the operation applied to the identity) is M:
\* the map of out is M times the map of base
RowOpMirrors(base, out, M) ==
  LET n == base.n
      Tb == CircSem(XConj(base))
      To == CircSem(XConj(out))
  IN /\ out.n = n /\ Len(M) = n
     /\ IsF2Map(Tb, n) /\ IsF2Map(To, n)
     /\ \A x \in BIdx(n) : OutOf(To, n, x) = MatVecF2(M, OutOf(Tb, n, x))

\* ---------- conversion from the harness's JSON ----------
GateFromAbs(j) == [t |-> j.t, qs |-> j.qs, ph |-> PhU(j.ph), vars |-> ParFromAbs(j.vars, FALSE)]
CircFromAbs(j) == [n |-> j.n, gates |-> [i \in 1..Len(j.gates) |-> GateFromAbs(j.gates[i])]]
CircOK(j) == \A i \in 1..Len(j.gates) : PhOK(j.gates[i].ph)
=============================================================================
