------------------------------- MODULE ZXSem -------------------------------
(***************************************************************************)
(* The reference interpretation of ZX-diagrams: the ORACLE of every        *)
(* denotational property.  It shares no code and no algorithm with         *)
(* quizx/src/tensor.rs.                                                    *)
(*                                                                         *)
(* A diagram with boundary list Bnd(g) = ins \o outs denotes the tensor    *)
(*   T[b] = sc * (1/sqrt2)^{#effH} * SUM_{x extends b} w^{ SUM_v ph[v] x[v]*)
(*                                       + 4 SUM_{effH {u,v}} x[u] x[v] }  *)
(* where x ranges over 0/1 assignments of all vertices that are constant   *)
(* along every effective-N edge, and an edge is effectively Hadamard iff   *)
(* (et = "H") xor IsX(u) xor IsX(v)  (an X spider is a Z spider with every *)
(* leg toggled).  Tensors are functions [1..n -> {0,1}] -> Ring with       *)
(* index order inputs first, then outputs.                                 *)
(*                                                                         *)
(* Two independent evaluators: DenB (sum over assignments of the           *)
(* N-connected classes) and DenC (vertex elimination with a frontier       *)
(* tensor).  MC_Sem checks that they agree and that textbook identities    *)
(* hold, so an error in the oracle has to be made twice to go unnoticed.   *)
(***************************************************************************)
EXTENDS ZXGraph

IsX(g, v) == g.ty[v] = "X"
EffH(g, e) == LET u == CHOOSE u \in e : TRUE
                  v == CHOOSE v \in e : v # u
              IN ((IF g.et[e] = "H" THEN 1 ELSE 0) + (IF IsX(g, u) THEN 1 ELSE 0) + (IF IsX(g, v) THEN 1 ELSE 0)) % 2 = 1
HEdges(g) == {e \in DOMAIN g.et : EffH(g, e)}
NEdges(g) == {e \in DOMAIN g.et : ~EffH(g, e)}

BIdx(n) == [1..n -> {0, 1}]
\* position of v in the boundary list
BPos(g, v) == CHOOSE i \in 1..Len(Bnd(g)) : Bnd(g)[i] = v

\* ---------- evaluator 1: sum over assignments of N-connected classes ----------
\* representative (least name) of the class of v under effective-N edges
ClassRep(g, NE) ==
  LET step(r) == [v \in g.vs |-> Min({r[v]} \cup {r[OtherEnd(e, v)] : e \in {e \in NE : v \in e}})]
      RECURSIVE fix(_)
      fix(r) == LET r2 == TLCEval(step(r)) IN IF r2 = r THEN r ELSE fix(r2)
  IN fix([v \in g.vs |-> v])

Cnt8ToRing(cnt) == RNorm(<<cnt[0] - cnt[4], cnt[1] - cnt[5], cnt[2] - cnt[6], cnt[3] - cnt[7], 0>>)

DenB(g) ==
  LET bn  == Bnd(g)
      n   == Len(bn)
      HE  == HEdges(g)
      NE  == NEdges(g)
      rep == ClassRep(g, NE)
      reps == {rep[v] : v \in g.vs}
      bset == {bn[i] : i \in 1..n}
      \* boundaries not in the boundary list (ill-formed diagrams) are treated as free phase-0 spiders
      breps == {rep[v] : v \in bset}
      free == reps \ breps
      pre == RMul(g.sc, Sqrt2Pow(-Cardinality(HE)))
      \* per class: total phase, and the list of H edges as pairs of reps
      cph == [r \in reps |-> FoldSet(LAMBDA v, acc : acc + g.ph[v], 0, {v \in g.vs : rep[v] = r}) % 8]
      hp  == {<<e, rep[CHOOSE u \in e : TRUE], rep[CHOOSE v \in e : v # (CHOOSE u \in e : TRUE)]>> : e \in HE}
  IN [b \in BIdx(n) |->
        \* the boundary classes get their value from b; inconsistent => 0
        IF \E i, k \in 1..n : rep[bn[i]] = rep[bn[k]] /\ b[i] # b[k] THEN RZero
        ELSE
        LET bx == [r \in breps |-> b[CHOOSE i \in 1..n : rep[bn[i]] = r]]
            expo(s) == LET x == bx @@ s IN
                         (FoldSet(LAMBDA r, acc : acc + cph[r] * x[r], 0, reps)
                          + FoldSet(LAMBDA h, acc : acc + 4 * x[h[2]] * x[h[3]], 0, hp)) % 8
            ex == [s \in [free -> {0, 1}] |-> expo(s)]
            cnt == [k \in 0..7 |-> Cardinality({s \in DOMAIN ex : ex[s] = k})]
        IN RMul(pre, Cnt8ToRing(cnt))]

\* ---------- evaluator 2: vertex elimination with a frontier tensor ----------
Z4Add(p, q) == <<p[1]+q[1], p[2]+q[2], p[3]+q[3], p[4]+q[4]>>
Rot1(p) == <<-p[4], p[1], p[2], p[3]>>
RECURSIVE Rot(_, _)
Rot(p, k) == IF k = 0 THEN p ELSE Rot(Rot1(p), k - 1)
Zero4 == <<0,0,0,0>>

CAddV(g, HE, T, F, v) ==
  LET F1 == F \cup {v}
      prev == Nbrs(g, v) \cap F
      T1 == [x \in [F1 -> {0,1}] |->
               LET y == [u \in F |-> x[u]]
                   bad == \E u \in prev : Edge(u, v) \notin HE /\ x[u] # x[v]
                   k == (g.ph[v] * x[v] + 4 * Cardinality({u \in prev : Edge(u, v) \in HE /\ x[u] = 1 /\ x[v] = 1})) % 8
               IN IF bad THEN Zero4 ELSE Rot(T[y], k)]
  IN <<TLCEval(T1), F1>>

RECURSIVE CElim(_, _, _, _, _)
CElim(g, keep, T, F, done) ==
  LET fin == {w \in F : w \notin keep /\ Nbrs(g, w) \subseteq done}
  IN IF fin = {} THEN <<T, F>>
     ELSE LET w == CHOOSE w \in fin : TRUE
              F2 == F \ {w}
              T2 == [y \in [F2 -> {0,1}] |-> Z4Add(T[(w :> 0) @@ y], T[(w :> 1) @@ y])]
          IN CElim(g, keep, TLCEval(T2), F2, done)

RECURSIVE CRun(_, _, _, _, _, _, _)
CRun(g, HE, keep, order, T, F, done) ==
  IF order = <<>> THEN <<T, F>>
  ELSE LET v == Head(order)
           a == CAddV(g, HE, T, F, v)
           d2 == done \cup {v}
           e == CElim(g, keep, a[1], a[2], d2)
       IN CRun(g, HE, keep, Tail(order), e[1], e[2], d2)

\* elimination order: vertex names ascending (circuit-derived diagrams are numbered by row)
DenCOrd(g, order) ==
  LET HE == HEdges(g)
      bn == Bnd(g)
      n  == Len(bn)
      keep == {bn[i] : i \in 1..n}
      r  == CRun(g, HE, keep, order, [x \in [{} -> {0,1}] |-> <<1,0,0,0>>], {}, {})
      pre == RMul(g.sc, Sqrt2Pow(-Cardinality(HE)))
  IN [b \in BIdx(n) |->
        LET t == r[1][[v \in r[2] |-> b[BPos(g, v)]]]
        IN RMul(pre, RNorm(<<t[1], t[2], t[3], t[4], 0>>))]
DenC(g) == DenCOrd(g, SetToSortSeq(g.vs, <))

\* choose by size: brute force is exponential in the number of spiders
Den(g) == IF Cardinality(Spiders(g)) <= 9 THEN DenB(g) ELSE DenC(g)

\* ---------- variables: instantiate an assignment sig : Var -> BOOLEAN ----------
Inst(g, sig) ==
  LET sc2 == FoldSet(LAMBDA e, acc : IF EEval(e, sig) THEN RMul(acc, g.sf[e]) ELSE acc, g.sc, DOMAIN g.sf)
  IN [g EXCEPT !.ph = [v \in g.vs |-> IF PEval(g.vr[v], sig) THEN (g.ph[v] + 4) % 8 ELSE g.ph[v]],
               !.vr = [v \in g.vs |-> PZero],
               !.sc = sc2, !.sf = <<>>]
VarsOf(g) == UNION {g.vr[v][1] : v \in g.vs} \cup UNION {UNION {p[1] : p \in e} : e \in DOMAIN g.sf}
DenV(g, VS) == [sig \in [VS -> BOOLEAN] |-> Den(Inst(g, sig))]

\* ---------- tensor algebra on [BIdx(n) -> Ring] ----------
TRank(T) == IF DOMAIN T = {<<>>} THEN 0 ELSE Len(CHOOSE b \in DOMAIN T : TRUE)
TScale(T, z) == [b \in DOMAIN T |-> RMul(z, T[b])]
TConj(T) == [b \in DOMAIN T |-> RConj(T[b])]
TIsZero(T) == \A b \in DOMAIN T : T[b] = RZero
SumRing(S, f(_)) == FoldSet(LAMBDA x, acc : RAdd(acc, f(x)), RZero, S)
\* S : m inputs, k outputs ; T : k inputs, p outputs ; "S then T" : m inputs, p outputs
Compose(S, m, k, T, p) ==
  [b \in BIdx(m + p) |->
     SumRing(BIdx(k), LAMBDA c :
        RMul(S[[i \in 1..(m + k) |-> IF i <= m THEN b[i] ELSE c[i - m]]],
             T[[i \in 1..(k + p) |-> IF i <= k THEN c[i] ELSE b[m + i - k]]]))]
\* S : m1 in, k1 out ; T : m2 in, k2 out ; tensor product with index order ins(S) ins(T) outs(S) outs(T)
TensorProd(S, m1, k1, T, m2, k2) ==
  [b \in BIdx(m1 + m2 + k1 + k2) |->
     RMul(S[[i \in 1..(m1 + k1) |-> IF i <= m1 THEN b[i] ELSE b[m2 + i]]],
          T[[i \in 1..(m2 + k2) |-> IF i <= m2 THEN b[m1 + i] ELSE b[m1 + k1 + i]]])]
\* conjugate transpose of T : m in, k out  ->  k in, m out
Dagger(T, m, k) == [b \in BIdx(k + m) |-> RConj(T[[i \in 1..(m + k) |-> IF i <= m THEN b[k + i] ELSE b[i - m]]])]
IdTensor(n) == [b \in BIdx(2 * n) |-> IF \A i \in 1..n : b[i] = b[n + i] THEN ROne ELSE RZero]
\* permutation pi on n wires: input i goes to output pi[i]
PermTensor(n, pi) == [b \in BIdx(2 * n) |-> IF \A i \in 1..n : b[i] = b[n + pi[i]] THEN ROne ELSE RZero]

\* equality up to a non-zero scalar factor (cross-multiplication by first non-zero entries)
ProjEq(S, T) ==
  /\ DOMAIN S = DOMAIN T
  /\ IF TIsZero(S) \/ TIsZero(T) THEN TIsZero(S) /\ TIsZero(T)
     ELSE LET b0 == CHOOSE b \in DOMAIN S : S[b] # RZero IN
          /\ T[b0] # RZero
          /\ \A b \in DOMAIN S : RMul(S[b], T[b0]) = RMul(T[b], S[b0])
\* the factor z with S = z T (when ProjEq and both non-zero): returned as pair <<S[b0], T[b0]>>
ProjFactor(S, T) == LET b0 == CHOOSE b \in DOMAIN S : S[b] # RZero IN <<S[b0], T[b0]>>

\* tensor <-> flat sequence, row-major with index 1 most significant (how the harness logs tensors)
RECURSIVE BitsToNat(_, _)
BitsToNat(b, n) == IF n = 0 THEN 0 ELSE 2 * BitsToNat(b, n - 1) + b[n]
TToSeq(T, n) == [k \in 1..Pow2(n) |-> T[CHOOSE b \in BIdx(n) : BitsToNat(b, n) = k - 1]]
NatToBits(k, n) == [i \in 1..n |-> (k \div Pow2(n - i)) % 2]
TFromSeq(s, n) == [b \in BIdx(n) |-> ScFromAbs(s[BitsToNat(b, n) + 1])]
=============================================================================
