-------------------------------- MODULE Gen --------------------------------
(***************************************************************************)
(* C19: the CONTRACTS of the seeded workload generators of quizx           *)
(* (generate.rs: RandomCircuitBuilder, RandomHiddenShiftCircuitBuilder,    *)
(* RandomPauliGadgetCircuitBuilder, SurfaceCodeCircuitBuilder;             *)
(* random_graph.rs: EquatorialStabilizerStateBuilder).                     *)
(*                                                                         *)
(* The ChaCha random stream is NOT modelled: a generator is specified by   *)
(* what every object it may return has to satisfy, as a predicate over     *)
(* (parameters, returned object).  Parameter conformance is structural;    *)
(* the two semantic promises are stated with the specification's own       *)
(* semantics:                                                              *)
(*   hidden shift : |<s| C |0..0>|^2 = 1 with C's gate-matrix meaning      *)
(*                  (Circuit!GateSem, exact over Ring),                    *)
(*   stabiliser   : SUM_b |Den(g)[b]|^2 = 1 with the reference denotation  *)
(*                  ZXSem!Den.                                             *)
(* Determinism (same seed and parameters => same object) is a property of  *)
(* pairs of executions and is stated in mc/Trace_Gen.tla (Deterministic).  *)
(*                                                                         *)
(* Circuits are Circuit.tla records [n, gates]; parameters are records of  *)
(* small integers (probabilities in percent).  Pauli-gadget circuits carry *)
(* phases that are not multiples of pi/4, so their gates keep the phase as *)
(* the reduced fraction <<num, den>> of pi ("raw" circuits).               *)
(***************************************************************************)
EXTENDS Circuit

\* ---------- parameter conformance shared by all circuit generators ----------
QubitsInRange(c) == \A i \in 1..Len(c.gates) : \A k \in 1..Len(c.gates[i].qs) : c.gates[i].qs[k] \in 0..(c.n - 1)
ArgsDistinct(g) == \A i, k \in 1..Len(g.qs) : i # k => g.qs[i] # g.qs[k]
AllArgsDistinct(c) == \A i \in 1..Len(c.gates) : ArgsDistinct(c.gates[i])
CountKind(c, t) == Cardinality({i \in 1..Len(c.gates) : c.gates[i].t = t})

\* ---------- Circuit::random()  (generate.rs:123-228) ----------
\* p = [qubits, depth, p_cnot, p_cz, p_h, p_s, p_t (, via)], probabilities in percent (via: which builder methods set
\* them; part of the determinism key only).  Every one of the `depth`
\* rounds draws a number in [0,1) and pushes the gate kind whose probability interval contains it; a draw
\* beyond the total pushes nothing: the number of gates is `depth` exactly when the probabilities add up to 1.
RCTotal(p) == p.p_cnot + p.p_cz + p.p_h + p.p_s + p.p_t
RCKinds(p) == (IF p.p_cnot > 0 THEN {"CNOT"} ELSE {}) \cup (IF p.p_cz > 0 THEN {"CZ"} ELSE {})
              \cup (IF p.p_h > 0 THEN {"HAD"} ELSE {}) \cup (IF p.p_s > 0 THEN {"S"} ELSE {}) \cup (IF p.p_t > 0 THEN {"T"} ELSE {})
\* parameters for which a circuit with the promised shape exists at all
RandomCircuitAdmissible(p) ==
  /\ p.qubits >= 0 /\ p.depth >= 0
  /\ p.p_cnot >= 0 /\ p.p_cz >= 0 /\ p.p_h >= 0 /\ p.p_s >= 0 /\ p.p_t >= 0 /\ RCTotal(p) <= 100
  /\ (p.depth > 0 => p.qubits >= 1)
  /\ (p.depth > 0 /\ p.p_cnot + p.p_cz > 0 => p.qubits >= 2)        \* two-qubit gates need two distinct qubits
RandomCircuitOK(p, c) ==
  /\ c.n = p.qubits
  /\ Len(c.gates) <= p.depth
  /\ (RCTotal(p) = 100 => Len(c.gates) = p.depth)
  /\ \A i \in 1..Len(c.gates) :
       LET g == c.gates[i] IN
       /\ g.t \in RCKinds(p)                                           \* only kinds with non-zero probability
       /\ Len(g.qs) = (IF g.t \in {"CNOT", "CZ"} THEN 2 ELSE 1)
  /\ QubitsInRange(c)
  /\ AllArgsDistinct(c)

\* ---------- the state vector C|0..0>  ----------
\* Column 0..0 of CircSem(c), computed with the SAME gate semantics (Circuit!CircRun / GateSem): a run state
\* without open inputs is a state vector [BIdx(n) -> Ring]; 2^n entries per gate instead of 4^n.
\* (MC_Gen!ZeroColumn checks CircApplyZero(c)[b] = CircSem(c)[0..0 \o b].)
ZeroState(n) == [T |-> [b \in BIdx(n) |-> IF \A i \in 1..n : b[i] = 0 THEN ROne ELSE RZero],
                 inq |-> <<>>, outq |-> [i \in 1..n |-> i - 1]]
CircApplyZero(c) == CircRun(ZeroState(c.n), c.gates, <<>>, {}).T
\* <s| C |0..0>  read off the full tensor (inputs first, then outputs)
AmpFull(c, s) == CircSem(c)[[i \in 1..(2 * c.n) |-> IF i <= c.n THEN 0 ELSE s[i - c.n]]]
AmpZero(c, s) == CircApplyZero(c)[s]

\* ---------- Circuit::random_hidden_shift()  (generate.rs:230-331) ----------
\* p = [qubits, clifford_depth, n_ccz], n = qubits = 2h.  The documented construction for the bent function
\* f(x, y) = x.y + h(x) of Maiorana-McFarland type, h given by a Z/CZ/CCZ circuit F on the first half:
\*     H^n ; F ; CZ(q, q+h)_q ; H^n ; Z^s ; F shifted to the second half ; CZ(q, q+h)_q ; H^n
\* (the second oracle is the dual bent function x.y + h(y)); measuring it on |0..0> gives s with certainty.
HadLayer(n) == [i \in 1..n |-> Gate("HAD", <<i - 1>>, 0)]
CrossCZ(n) == [q \in 1..(n \div 2) |-> Gate("CZ", <<q - 1, q - 1 + (n \div 2)>>, 0)]
ShiftLayer(s) == LET on == SelectSeq([i \in 1..Len(s) |-> i - 1], LAMBDA q : s[q + 1] = 1)
                 IN [k \in 1..Len(on) |-> Gate("Z", <<on[k]>>, 0)]
ShiftQubits(gs, d) == [i \in 1..Len(gs) |-> LET g == gs[i] IN [g EXCEPT !.qs = [k \in 1..Len(g.qs) |-> g.qs[k] + d]]]
HiddenShiftSpec(n, F, s) ==
  [n |-> n, gates |-> HadLayer(n) \o F \o CrossCZ(n) \o HadLayer(n) \o ShiftLayer(s) \o ShiftQubits(F, n \div 2) \o CrossCZ(n) \o HadLayer(n)]

HiddenShiftAdmissible(p) == p.qubits >= 6 /\ p.qubits % 2 = 0 /\ p.clifford_depth >= 0 /\ p.n_ccz >= 0
HSOracleLen(p) == (p.n_ccz + 1) * p.clifford_depth + p.n_ccz
\* n_ccz times (clifford_depth gates Z / CZ, one CCZ), then clifford_depth gates Z / CZ; all on the first half,
\* qubit arguments of one gate pairwise distinct
HSOracleOK(p, F) ==
  LET h == p.qubits \div 2
      cd == p.clifford_depth
  IN /\ Len(F) = HSOracleLen(p)
     /\ \A j \in 1..Len(F) :
          LET g == F[j] IN
          /\ \A k \in 1..Len(g.qs) : g.qs[k] \in 0..(h - 1)
          /\ ArgsDistinct(g)
          /\ IF j % (cd + 1) = 0 THEN g.t = "CCZ" /\ Len(g.qs) = 3
             ELSE (g.t = "Z" /\ Len(g.qs) = 1) \/ (g.t = "CZ" /\ Len(g.qs) = 2)
IsBitString(s, n) == Len(s) = n /\ \A i \in 1..n : s[i] \in {0, 1}
\* structure: the circuit IS the construction, instantiated with the oracle read off the circuit
HiddenShiftShape(p, c, s) ==
  LET n == p.qubits
      L == HSOracleLen(p)
  IN /\ c.n = n
     /\ IsBitString(s, n)
     /\ Len(c.gates) >= n + L
     /\ LET F == SubSeq(c.gates, n + 1, n + L) IN HSOracleOK(p, F) /\ c = HiddenShiftSpec(n, F, s)
     /\ CountKind(c, "HAD") = 3 * n /\ CountKind(c, "CCZ") = 2 * p.n_ccz
\* the semantic promise: the amplitude of s on the all-zero input has modulus exactly 1
HiddenShiftPromise(c, s) == IsBitString(s, c.n) /\ Norm2(AmpZero(c, s)) = N2One
HiddenShiftPromiseFull(c, s) == IsBitString(s, c.n) /\ Norm2(AmpFull(c, s)) = N2One
HiddenShiftOK(p, c, s) == HiddenShiftShape(p, c, s) /\ HiddenShiftPromise(c, s)

\* ---------- EquatorialStabilizerStateBuilder  (random_graph.rs:17-55) ----------
\* p = [qubits].  A state (no inputs) on `qubits` outputs that denotes a unit vector; being a stabiliser
\* state diagram, every spider phase is a multiple of pi/2.
StateNorm2(T) == FoldSet(LAMBDA b, acc : N2Add(acc, Norm2(T[b])), <<0, 0, 0>>, DOMAIN T)
StabStateAdmissible(p) == p.qubits >= 0
StabStateUnit(g) == StateNorm2(Den(g)) = N2One
StabStateOK(p, g) ==
  /\ Len(g.ins) = 0 /\ Len(g.outs) = p.qubits
  /\ WellFormed(g)
  /\ \A v \in Spiders(g) : IsClifford(g.ph[v])
  /\ StabStateUnit(g)
\* the builder's diagram as the specification constructs it: boundaries 0..n-1, Z spiders n..2n-1 with phases
\* ph[i] (units of pi/4), Hadamard edges between the spiders i, j for {i, j} in es, scalar sqrt2^(|es| - n)
StabStateSpecSc(n, ph, es, sc) ==
  LET B == 0..(n - 1)
      S == n..(2 * n - 1)
  IN [vs |-> B \cup S,
      ty |-> [v \in B \cup S |-> IF v \in B THEN "B" ELSE "Z"],
      ph |-> [v \in B \cup S |-> IF v \in B THEN 0 ELSE ph[v - n + 1]],
      vr |-> [v \in B \cup S |-> PZero],
      et |-> [e \in {{i, n + i} : i \in B} \cup {{n + x[1], n + x[2]} : x \in es} |->
                IF \E i \in B : e = {i, n + i} THEN "N" ELSE "H"],
      ins |-> <<>>, outs |-> [i \in 1..n |-> i - 1], sc |-> sc, sf |-> <<>>]
StabStateSpec(n, ph, es) == StabStateSpecSc(n, ph, es, Sqrt2Pow(Cardinality(es) - n))

\* ---------- Circuit::random_pauli_gadget()  (generate.rs:333-431) ----------
\* p = [qubits, depth, min_weight, max_weight, phase_denom].  RAW circuits: g.ph = <<num, den>>, the reduced
\* fraction num/den of pi (den > 0), as Rational64 stores it.
RawMultipleOf(ph, d) == ph[2] > 0 /\ d % ph[2] = 0              \* num/den reduced: a multiple of 1/d iff den | d
RawIsClifford(ph) == ph[2] \in {1, 2}                          \* a multiple of pi/2
RawNegEq(ph, qh) == ph[2] = qh[2] /\ ph[2] > 0 /\ (ph[1] + qh[1]) % (2 * ph[2]) = 0      \* qh = -ph  (mod 2 pi)
\* a basis change on one qubit: H (Z <-> X) or the X rotation by +-pi/2 (Z <-> Y)
IsBasisGate(g) == Len(g.qs) = 1 /\ (g.t = "HAD" \/ (g.t = "XPhase" /\ g.ph[2] = 2))
RawAdjointOf(g, h) == h.t = g.t /\ h.qs = g.qs /\ RawNegEq(g.ph, h.ph)
\* the adjoint layer as the contract demands it: reversed order, every gate inverted
RawNeg(ph) == IF ph[1] = ph[2] THEN ph ELSE <<-ph[1], ph[2]>>                            \* representative in (-1, 1]
RawAdjLayer(gs) == [i \in 1..Len(gs) |-> LET g == gs[Len(gs) + 1 - i] IN [g EXCEPT !.ph = RawNeg(g.ph)]]
PauliGadgetAdmissible(p) ==
  /\ p.qubits >= 0 /\ p.depth >= 0 /\ 0 <= p.min_weight /\ p.min_weight <= p.max_weight /\ p.max_weight <= p.qubits
  /\ p.phase_denom >= 1

\* Deterministic parse into blocks: the gates before the first parity-phase gate are its basis-change layer
\* (k gates), the k gates after it the closing layer, then the next block starts.
RECURSIVE GadgetBlocks(_)
GadgetBlocks(gs) ==
  IF gs = <<>> THEN [ok |-> TRUE, blocks |-> <<>>]
  ELSE IF \A i \in 1..Len(gs) : gs[i].t # "ParityPhase" THEN [ok |-> FALSE, blocks |-> <<>>]
  ELSE LET pp == CHOOSE i \in 1..Len(gs) : gs[i].t = "ParityPhase" /\ \A j \in 1..(i - 1) : gs[j].t # "ParityPhase"
           k == pp - 1
       IN IF pp + k > Len(gs) THEN [ok |-> FALSE, blocks |-> <<>>]
          ELSE LET rest == GadgetBlocks(SubSeq(gs, pp + k + 1, Len(gs)))
               IN [ok |-> rest.ok,
                   blocks |-> <<[pre |-> SubSeq(gs, 1, k), pp |-> gs[pp], post |-> SubSeq(gs, pp + 1, pp + k)]>> \o rest.blocks]
GadgetBlockOK(p, b) ==
  LET g == b.pp
      k == Len(b.pre)
  IN \* one parity-phase gate on distinct qubits, weight within range
     /\ ArgsDistinct(g)
     /\ \A i \in 1..Len(g.qs) : g.qs[i] \in 0..(p.qubits - 1)
     /\ Len(g.qs) >= p.min_weight /\ Len(g.qs) <= p.max_weight
     \* phase a multiple of pi/denominator, non-Clifford for even denominators >= 4
     /\ RawMultipleOf(g.ph, p.phase_denom)
     /\ (p.phase_denom >= 4 /\ p.phase_denom % 2 = 0 => ~RawIsClifford(g.ph))
     \* basis-change layer: at most one basis gate on each qubit of the gadget ...
     /\ \A i \in 1..k : IsBasisGate(b.pre[i]) /\ \E j \in 1..Len(g.qs) : g.qs[j] = b.pre[i].qs[1]
     /\ \A i, j \in 1..k : i # j => b.pre[i].qs[1] # b.pre[j].qs[1]
     \* ... and its adjoint (reverse order, inverse gates) after the gadget
     /\ Len(b.post) = k
     /\ \A i \in 1..k : RawAdjointOf(b.pre[k + 1 - i], b.post[i])
PauliGadgetOK(p, c) ==
  LET r == GadgetBlocks(c.gates) IN
  /\ c.n = p.qubits
  /\ r.ok
  /\ Len(r.blocks) = p.depth
  /\ \A i \in 1..Len(r.blocks) : GadgetBlockOK(p, r.blocks[i])
\* what the builder does beyond the property's text (only compared as L1 drift): sorted qubit lists,
\* non-zero phase, basis gates in ascending qubit order with the positive rotation
PauliGadgetAsBuilt(p, c) ==
  LET r == GadgetBlocks(c.gates) IN
  r.ok /\ \A i \in 1..Len(r.blocks) :
            LET b == r.blocks[i] IN
            /\ \A j \in 1..(Len(b.pp.qs) - 1) : b.pp.qs[j] < b.pp.qs[j + 1]
            /\ b.pp.ph[1] # 0
            /\ \A j \in 1..(Len(b.pre) - 1) : b.pre[j].qs[1] < b.pre[j + 1].qs[1]
            /\ \A j \in 1..Len(b.pre) : b.pre[j].t = "XPhase" => b.pre[j].ph = <<1, 2>>
            /\ b.post = RawAdjLayer(b.pre)
\* raw circuit whose phases are multiples of pi/4 -> Circuit.tla record (for the semantics)
RawToCirc(c) == [n |-> c.n, gates |-> [i \in 1..Len(c.gates) |-> LET g == c.gates[i] IN [g EXCEPT !.ph = PhU(g.ph)]]]

\* ---------- Circuit::surface_code()  (generate.rs:433-509; not seeded) ----------
\* p = [distance, rounds].  d^2 data qubits 0..d^2-1 and d^2-1 syndrome qubits; every qubit is initialised first
\* and measured last; CNOTs join a data qubit and a syndrome qubit.
SurfaceCodeAdmissible(p) == p.distance >= 1 /\ p.rounds >= 0
SurfaceCodeOK(p, c) ==
  LET d2 == p.distance * p.distance
      n == 2 * d2 - 1
  IN /\ c.n = n
     /\ QubitsInRange(c) /\ AllArgsDistinct(c)
     /\ Len(c.gates) >= 2 * n
     /\ \A i \in 1..n : c.gates[i].t = "InitAncilla" /\ c.gates[i].qs = <<i - 1>>
     /\ \A i \in 1..n : LET g == c.gates[Len(c.gates) - n + i] IN g.t = "Measure" /\ g.qs = <<i - 1>>
     /\ \A i \in (n + 1)..(Len(c.gates) - n) :
          LET g == c.gates[i] IN
          CASE g.t = "CNOT" -> Len(g.qs) = 2 /\ ((g.qs[1] < d2) # (g.qs[2] < d2))
            [] g.t \in {"HAD", "MeasureReset"} -> Len(g.qs) = 1 /\ g.qs[1] >= d2
            [] OTHER -> FALSE
\* a rotated surface code of distance d has d^2 - 1 stabilisers: every syndrome qubit is measured once per round
\* (only recorded as drift: the property's text makes no promise about the surface-code workload)
SurfaceCodeAllSyndromes(p, c) ==
  LET d2 == p.distance * p.distance IN
  \A q \in d2..(2 * d2 - 2) :
     Cardinality({i \in 1..Len(c.gates) : c.gates[i].t = "MeasureReset" /\ c.gates[i].qs = <<q>>}) = p.rounds
=============================================================================
