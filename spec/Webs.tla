-------------------------------- MODULE Webs --------------------------------
(***************************************************************************)
(* C20: detection webs (quizx/src/detection_webs.rs) and the bipartite     *)
(* form they are computed on (GraphLike::make_bipartite, graph.rs:829-891).*)
(*                                                                         *)
(* Scope: diagrams over Z/X spiders with phases in {0, pi} (0 / 4 in units *)
(* of pi/4), plain ("N") edges, boundaries attached anywhere.              *)
(*                                                                         *)
(* A PAULI WEB of g is a function w : DOMAIN g.et -> {"I","X","Y","Z"}.    *)
(* As an F2 vector it has two bits per edge, the X-part (w[e] in {X,Y})    *)
(* and the Z-part (w[e] in {Z,Y}); pointwise multiplication of Paulis up   *)
(* to phase is XOR of the vectors.                                         *)
(*                                                                         *)
(* The spider constraint of the property text:                             *)
(*   "its own colour's Pauli on all legs or none, the other colour's       *)
(*    Pauli on an even number of legs"                                     *)
(* "Colour" is the colour of the drawing: a Z spider is green, an X spider *)
(* is red, and detection_webs.rs draws Pauli X green and Pauli Z red       *)
(* (PauliWeb::edge_color; the comment on `pw`: "a spider fires by          *)
(* introducing an opposite-colored pi spider on each adjacent edge", i.e.  *)
(* a Z spider puts X(pi) = Pauli X on every leg).  Hence, Y counting as    *)
(* both X and Z:                                                           *)
(*   Z spider v : {legs with X-part} is {} or all legs of v                *)
(*                /\ |{legs with Z-part}| is even                          *)
(*   X spider v : {legs with Z-part} is {} or all legs of v                *)
(*                /\ |{legs with X-part}| is even                          *)
(* This is the only reading under which a web is what it is meant to be, a *)
(* stabiliser: the Z spider |0..0> + e^{ia}|1..1> (a in {0,pi}) is mapped  *)
(* to +-itself exactly by the Paulis with X on all legs or none and Z on   *)
(* an even number of legs.  That statement is not taken on trust: it is    *)
(* the invariant SpiderLemma of MC_Webs, decided by TLC with the reference *)
(* denotation Den (ApplyWeb puts the Paulis on the wires), in both         *)
(* directions, for both colours, both phases and 1..3 legs.  The other     *)
(* reading (Z spider: Z on all or none, X even) fails that lemma already   *)
(* for a one-legged spider.                                                *)
(*                                                                         *)
(*   ValidWeb(g, w) == every edge at a boundary vertex is "I" (a DETECTION *)
(*                     web) /\ the constraint above at every spider.       *)
(*                                                                         *)
(* Two definitions of the space of valid webs of a BIPARTITE diagram:      *)
(*   AllWebsDecl(g) : all 4^|E| assignments filtered by ValidWeb           *)
(*   AllWebsFire(g) : the webs FiringToWeb(g, F) of the firing sets F      *)
(*                    (sets of spiders none of which touches a boundary,   *)
(*                    such that every spider has an even number of fired   *)
(*                    neighbours); FiringToWeb transcribes `pw`.           *)
(* MC_Webs checks that they coincide, that the space is closed under       *)
(* multiplication (so its size is 2^Dim) and that every element stabilises *)
(* the diagram semantically.                                               *)
(***************************************************************************)
EXTENDS ZXSem

Paulis == {"I", "X", "Y", "Z"}
WEdges(g) == DOMAIN g.et
WXp(p) == p \in {"X", "Y"}
WZp(p) == p \in {"Z", "Y"}
WPauli(x, z) == IF x THEN (IF z THEN "Y" ELSE "X") ELSE (IF z THEN "Z" ELSE "I")
WLegs(g, v) == {e \in WEdges(g) : v \in e}
OtherTy(t) == IF t = "Z" THEN "X" ELSE "Z"
WEdgeLess(a, b) == Min(a) < Min(b) \/ (Min(a) = Min(b) /\ Max(a) < Max(b))
WEdgeSeq(g) == SetToSortSeq(WEdges(g), WEdgeLess)
WInScope(g) == /\ \A v \in Spiders(g) : g.ty[v] \in {"Z", "X"} /\ g.ph[v] \in {0, 4}
               /\ \A e \in WEdges(g) : g.et[e] = "N"

\* ---------- make_bipartite (graph.rs:829-891) ----------
\* One edge of the snapshot `edges`: same type at both ends => the edge is REMOVED (line 867), then
\* a new spider of the opposite colour and phase 0 is put in its place -- unless the common type is
\* not Z/X (`_ => continue`, line 872), in which case the edge stays removed and `modified` is not
\* set.  For a boundary-boundary wire (type B at both ends) this deletes the wire: see BipSound.
\* (Genuine defect, see work/c20_fix_3_bbwire.diff; once the code takes the `match` before the
\* remove_edge, the second branch below becomes [g |-> g, mod |-> FALSE] -- until then Trace_Webs
\* reports the difference as L1 drift BipAsTranscribed on diagrams with such a wire, and
\* MC_Webs_bb.cfg, which is not part of the plan, shows TLC's counterexample to BipSound.)
\* The edge type of the removed edge is ignored (add_edge = plain); out of scope here (plain edges).
MBOne(g, e) ==
  LET u == Min(e)
      v == Max(e)
  IN IF g.ty[u] # g.ty[v] THEN [g |-> g, mod |-> FALSE]
     ELSE IF g.ty[u] \notin {"Z", "X"} THEN [g |-> g, mod |-> FALSE]        \* boundary-boundary wire: kept (fixed by 7320bff)
     ELSE LET n == Fresh(g)
          IN [g |-> SetET(SetET(AddV(DelE(g, u, v), n, OtherTy(g.ty[u]), 0), u, n, "N"), n, v, "N"), mod |-> TRUE]
RECURSIVE MBPass(_, _, _)
MBPass(g, es, mod) == IF es = <<>> THEN [g |-> g, mod |-> mod]
                      ELSE LET r == MBOne(g, Head(es)) IN MBPass(r.g, Tail(es), mod \/ r.mod)
\* `while modified`: a second pass never finds anything (a new spider differs in colour from both
\* neighbours) but it is what the code does
RECURSIVE MakeBipartite(_)
MakeBipartite(g) == LET r == MBPass(g, WEdgeSeq(g), FALSE) IN IF r.mod THEN MakeBipartite(r.g) ELSE r.g

\* no edge between same-coloured spiders
Bipartite(g) == \A e \in WEdges(g) : \A u, v \in e : (u # v /\ IsZX(g, u) /\ IsZX(g, v)) => g.ty[u] # g.ty[v]

\* name-independent view of a bipartite form relative to the vertices `old` of the original:
\* the part on old vertices, and every new vertex as <<type, phase, neighbours>>
BipCanon(h, old) ==
  <<h.vs \cap old, [v \in h.vs \cap old |-> <<h.ty[v], h.ph[v]>>], {e \in WEdges(h) : e \subseteq old},
    {<<h.ty[n], h.ph[n], Nbrs(h, n)>> : n \in h.vs \ old}, h.ins, h.outs, h.sc>>

\* ---------- Pauli webs ----------
IdWeb(g) == [e \in WEdges(g) |-> "I"]
IsWeb(g, w) == w \in [WEdges(g) -> Paulis]
\* legs of v carrying the Pauli drawn in v's own colour (Z spider: X-part) / in the other colour
OwnLegs(g, v, w) == {e \in WLegs(g, v) : IF g.ty[v] = "Z" THEN WXp(w[e]) ELSE WZp(w[e])}
OthLegs(g, v, w) == {e \in WLegs(g, v) : IF g.ty[v] = "Z" THEN WZp(w[e]) ELSE WXp(w[e])}
SpiderOK(g, v, w) == /\ OwnLegs(g, v, w) \in {{}, WLegs(g, v)}
                     /\ Cardinality(OthLegs(g, v, w)) % 2 = 0
BoundaryClear(g, w) == \A e \in WEdges(g) : (e \cap BndSet(g) # {}) => w[e] = "I"
ValidWeb(g, w) == BoundaryClear(g, w) /\ \A v \in Spiders(g) : SpiderOK(g, v, w)

\* F2 vector of a web as its support: <<e, 1>> is the X bit of edge e, <<e, 2>> the Z bit
WebVec(w) == {<<e, 1>> : e \in {e \in DOMAIN w : WXp(w[e])}} \cup {<<e, 2>> : e \in {e \in DOMAIN w : WZp(w[e])}}
VecWeb(g, x) == [e \in WEdges(g) |-> WPauli(<<e, 1>> \in x, <<e, 2>> \in x)]
\* pointwise product of Paulis up to phase;  WebVec(WMul(a, b)) = SymDiff(WebVec(a), WebVec(b))
WMul(a, b) == [e \in DOMAIN a |-> WPauli(WXp(a[e]) # WXp(b[e]), WZp(a[e]) # WZp(b[e]))]

\* rank over F2 of a SET of vectors (supports) by elimination
RECURSIVE WRank(_)
WRank(S) ==
  IF S = {} THEN 0
  ELSE LET v == CHOOSE v \in S : TRUE
           R == S \ {v}
       IN IF v = {} THEN WRank(R)
          ELSE LET p == CHOOSE p \in v : TRUE
               IN 1 + WRank(TLCEval({IF p \in u THEN SymDiff(u, v) ELSE u : u \in R}))
\* a sequence of webs is independent: no repetition, full rank
Independent(ws) == LET S == {WebVec(ws[i]) : i \in 1..Len(ws)}
                   IN Cardinality(S) = Len(ws) /\ WRank(S) = Len(ws)
\* all products of sub-families of the sequence ws of webs of g
RECURSIVE Span(_, _)
Span(g, ws) == IF ws = <<>> THEN {IdWeb(g)}
               ELSE LET S == Span(g, Tail(ws)) IN TLCEval(S \cup {WMul(Head(ws), x) : x \in S})
RECURSIVE WLog2(_)
WLog2(n) == IF n <= 1 THEN 0 ELSE 1 + WLog2(n \div 2)

\* ---------- the web space by firing (bipartite g) ----------
TouchesBoundary(g, v) == Nbrs(g, v) \cap BndSet(g) # {}
EvenFired(g, v, F) == Cardinality(Nbrs(g, v) \cap F) % 2 = 0
FireOK(g, F) == /\ F \subseteq Spiders(g)
                /\ \A v \in F : ~TouchesBoundary(g, v)
                /\ \A v \in Spiders(g) : EvenFired(g, v, F)
FiringSets(g) == LET inner == {v \in Spiders(g) : ~TouchesBoundary(g, v)}
                 IN {F \in SUBSET inner : \A v \in Spiders(g) : EvenFired(g, v, F)}
\* pw (detection_webs.rs:97-142): the edges at a fired Z node are "green", at a fired X node "red";
\* red and green -> Y, red only -> Z, green only -> X.  (Sets, not parities: on a non-bipartite
\* diagram two fired Z neighbours would still give X, not I; the code only calls it on the bipartite form.)
FiringToWeb(g, F) ==
  [e \in WEdges(g) |-> LET green == \E v \in e \cap F : g.ty[v] = "Z"
                           red   == \E v \in e \cap F : g.ty[v] = "X"
                       IN WPauli(green, red)]
AllWebsFire(g) == {FiringToWeb(g, F) : F \in FiringSets(g)}
AllWebsDecl(g) == {w \in [WEdges(g) -> Paulis] : ValidWeb(g, w)}
Dim(g) == WLog2(Cardinality(AllWebsFire(g)))

\* ---------- the public read / write API around a web (audit #23) ----------
\* A web is a function on UNORDERED pairs.  PauliWeb keeps it in a map keyed by ordered pairs; `store` is that map
\* as logged (key <<u, v>> -> Pauli).  `answers` is the set of <<u, v, p>> with edge(u, v) = Some(p), the harness
\* having asked EVERY ordered pair of 0..upto.  The read API is order-insensitive and agrees with the stored map:
\* both orders of every stored pair answer its Pauli, nothing else answers.
WStoreOf(lst) == [k \in {<<lst[j][1], lst[j][2]>> : j \in 1..Len(lst)} |->
                   lst[CHOOSE j \in 1..Len(lst) : <<lst[j][1], lst[j][2]>> = k][3]]
WAnswers(lk) == {<<lk[j][1], lk[j][2], lk[j][3]>> : j \in 1..Len(lk)}
LookupOK(store, answers, upto) ==
  /\ \A k \in DOMAIN store : k[1] \in 0..upto /\ k[2] \in 0..upto
  /\ answers = UNION {{<<k[1], k[2], store[k]>>, <<k[2], k[1], store[k]>>} : k \in DOMAIN store}
\* set_edge(from, to, p) called in sequence `ops`: the function on unordered pairs they define (the last Pauli set
\* for a pair wins), as the set of answers of an order-insensitive reader
WSetEdgeAnswers(ops) ==
  LET pairs == {{ops[i][1], ops[i][2]} : i \in 1..Len(ops)}
      last(pr) == ops[CHOOSE i \in 1..Len(ops) : {ops[i][1], ops[i][2]} = pr
                                               /\ \A j \in (i + 1)..Len(ops) : {ops[j][1], ops[j][2]} # pr][3]
  IN UNION {{<<u, v, last(pr)>> : u, v \in pr} \ (IF Cardinality(pr) = 2 THEN {<<u, u, last(pr)>> : u \in pr} ELSE {}) : pr \in pairs}
\* adjacency_matrix(nodelist): entry (i, j) is 1 iff the i-th and the j-th listed vertex are joined by an edge
AdjOK(g, order, rows) ==
  /\ Len(rows) = Len(order)
  /\ \A i \in 1..Len(rows) : Len(rows[i]) = Len(order)
  /\ \A i, j \in 1..Len(order) : (rows[i][j] = 1) = (order[i] # order[j] /\ Edge(order[i], order[j]) \in WEdges(g))
\* adjacency_matrix(None): "all vertices in the graph", each once
IsVertexList(g, order) == ToSet(order) = g.vs /\ Len(order) = Cardinality(g.vs)

\* ---------- semantic grounding: a web as Pauli spiders on the wires ----------
\* X = X spider with phase pi, Z = Z spider with phase pi, Y = both (= XZ up to a unit)
WSubdiv(g, e, p) ==
  LET u == Min(e)
      v == Max(e)
      n == Fresh(g)
      h == DelE(g, u, v)
  IN CASE p = "I" -> g
       [] p = "X" -> SetET(SetET(AddV(h, n, "X", 4), u, n, "N"), n, v, "N")
       [] p = "Z" -> SetET(SetET(AddV(h, n, "Z", 4), u, n, "N"), n, v, "N")
       [] p = "Y" -> SetET(SetET(SetET(AddV(AddV(h, n, "X", 4), n + 1, "Z", 4), u, n, "N"), n, n + 1, "N"), n + 1, v, "N")
ApplyWeb(g, w) == FoldSet(LAMBDA e, acc : WSubdiv(acc, e, w[e]), g, WEdges(g))
\* equal up to a factor in {1, i, -1, -i}
UnitEq(S, T) == \E k \in {0, 2, 4, 6} : S = TScale(T, Omega(k))
Stabilises(g, w) == UnitEq(Den(ApplyWeb(g, w)), Den(g))
\* a single spider with n boundary legs (names: spider 0, boundaries 1..n, all outputs)
WStar(t, p, n) ==
  [EmptyG EXCEPT !.vs = 0..n, !.ty = [v \in 0..n |-> IF v = 0 THEN t ELSE "B"],
                 !.ph = [v \in 0..n |-> IF v = 0 THEN p ELSE 0], !.vr = [v \in 0..n |-> PZero],
                 !.et = [e \in {{0, i} : i \in 1..n} |-> "N"], !.outs = [i \in 1..n |-> i]]
\* the spider constraint is exactly "the Paulis on the legs map the spider to a unit multiple of itself"
SpiderLemmaAt(t, p, n) == LET s == WStar(t, p, n)
                          IN \A w \in [WEdges(s) -> Paulis] : SpiderOK(s, 0, w) <=> Stabilises(s, w)

\* ---------- the linear system of detection_webs() (detection_webs.rs:162-245), as a model ----------
\* Unknowns: one bit per node of `order` (the I_n block is forced to 0 by the no_output rows and plays
\* no role).  Rows: every node of `order` has an even number of fired neighbours; the first `outs`
\* nodes of `order` do not fire.  The number of webs returned is log2 of the number of solutions; a
\* solution that fires a boundary vertex makes `pw` panic (unreachable!).
CodeOuts(g) == FoldSet(LAMBDA b, acc : acc + Deg(g, b), 0, BndSet(g))
CodeFirings(g, order, outs) ==
  LET nodes == ToSet(order)
      m == IF outs < Len(order) THEN outs ELSE Len(order)
      frozen == {order[i] : i \in 1..m}
  IN {F \in SUBSET (nodes \ frozen) : \A v \in nodes : EvenFired(g, v, F)}
\* ordered_nodes as written (lines 59-91), called after outputs := neighbours of boundaries, inputs := []:
\* first every vertex that is NOT such a neighbour (boundary vertices included), then the neighbours
\* that are not of type B; each group by ascending name
OrderAsWritten(g) ==
  LET touched == {v \in g.vs : TouchesBoundary(g, v)}
  IN SetToSortSeq(g.vs \ touched, <) \o SetToSortSeq({v \in touched : g.ty[v] # "B"}, <)
\* what its doc comment says: boundary vertices first
OrderBoundaryFirst(g) == SetToSortSeq(BndSet(g), <) \o SetToSortSeq(g.vs \ BndSet(g), <)
=============================================================================
