--------------------------------- MODULE Sim ---------------------------------
(***************************************************************************)
(* What `quizx sim` (cli/sim.rs) must report, defined from the exact gate  *)
(* semantics: for a circuit c on n qubits applied to |0...0>,              *)
(*   Psi(c)[b]       the amplitude <b|C|0>                                 *)
(*   Prob(c, b)      = |Psi[b]|^2, an element of Z[sqrt2][1/2]             *)
(*   Marg(c, pre)    = sum of Prob over all b extending the prefix pre     *)
(*   Expect(c, P)    = <psi|P|psi> for a Pauli string P                    *)
(* and the sampler as a machine: it draws bit k with the CONDITIONAL       *)
(* probability Marg(pre o 1) / Marg(pre); the chain rule makes the product *)
(* of the conditionals the Born probability of the sample.                 *)
(* The argument front end: bit / Pauli strings are sequences of characters *)
(* (case-insensitive), valid iff every character is in the alphabet and    *)
(* the length is n or 1 (broadcast).                                       *)
(***************************************************************************)
EXTENDS Circuit

Psi(c) == LET T == CircSem(c) IN [b \in BIdx(c.n) |-> T[[i \in 1..(2 * c.n) |-> IF i <= c.n THEN 0 ELSE b[i - c.n]]]]
Prob(psi, b) == Norm2(psi[b])
N2Sum(S, f(_)) == FoldSet(LAMBDA x, acc : N2Add(acc, f(x)), <<0, 0, 0>>, S)
Extends(b, pre) == \A i \in 1..Len(pre) : b[i] = pre[i]
Marg(psi, n, pre) == N2Sum({b \in BIdx(n) : Extends(b, pre)}, LAMBDA b : Prob(psi, b))
TotalProbOne(psi, n) == Marg(psi, n, <<>>) = N2One

\* Pauli matrices as U[x][y] = <y|P|x>
MPauli(p) == CASE p = "I" -> Mat(ROne, RZero, RZero, ROne)
               [] p = "X" -> Mat(RZero, ROne, ROne, RZero)
               [] p = "Y" -> Mat(RZero, Omega(2), Omega(6), RZero)      \* Y|0> = i|1>, Y|1> = -i|0>
               [] p = "Z" -> Mat(ROne, RZero, RZero, RNeg(ROne))
\* (P psi)[b] = prod_k <b_k|P_k|x_k> psi[x] summed over x; each Pauli has one non-zero entry per column
ApplyPauli(psi, n, P) ==
  [b \in BIdx(n) |->
     LET x == [k \in 1..n |-> IF P[k] \in {"X", "Y"} THEN 1 - b[k] ELSE b[k]]
         f == FoldFunction(LAMBDA a, acc : RMul(a, acc), ROne, [k \in 1..n |-> MPauli(P[k])[x[k] + 1][b[k] + 1]])
     IN RMul(f, psi[x])]
SumRingB(S, f(_)) == FoldSet(LAMBDA x, acc : RAdd(acc, f(x)), RZero, S)
Expect(psi, n, P) == LET q == ApplyPauli(psi, n, P) IN SumRingB(BIdx(n), LAMBDA b : RMul(RConj(psi[b]), q[b]))

\* ---------- argument front end ----------
BitChars == {"0", "1"}
PauliChars == {"I", "X", "Y", "Z", "i", "x", "y", "z"}
StringValid(chars, alphabet, n) == (\A k \in 1..Len(chars) : chars[k] \in alphabet) /\ (Len(chars) = n \/ Len(chars) = 1) /\ Len(chars) >= 1
Broadcast(s, n) == IF Len(s) = 1 THEN [k \in 1..n |-> s[1]] ELSE s
Upper(ch) == CASE ch = "i" -> "I" [] ch = "x" -> "X" [] ch = "y" -> "Y" [] ch = "z" -> "Z" [] OTHER -> ch
BitOf(ch) == IF ch = "1" THEN 1 ELSE 0
=============================================================================
