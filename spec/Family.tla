------------------------------- MODULE Family -------------------------------
(***************************************************************************)
(* Finite families of diagrams used by the exhaustive configs.  Diagrams   *)
(* are never enumerated in Init (TLC computes initial states on one        *)
(* thread): Init is a single state and the two build steps below fan the   *)
(* family out over the workers.                                            *)
(*   K    number of spiders (names 1..K)                                   *)
(*   TYS  spider types, PHS phases (units of pi/4), ETS edge types         *)
(*   NB   max number of boundaries (names K+1..K+NB), each attached to a   *)
(*        spider by an N or H edge; the first ni of them are inputs        *)
(*   VARS boolean variables that may decorate spiders ({} = none)          *)
(*   BB   TRUE: additionally allow one boundary-boundary wire              *)
(***************************************************************************)
EXTENDS ZXGraph
CONSTANTS K, TYS, PHS, ETS, NB, VARS, BB

VS == 1..K
Pairs == {e \in SUBSET VS : Cardinality(e) = 2}
Shapes == {[EmptyG EXCEPT !.vs = VS, !.ty = ty, !.ph = ph, !.vr = [v \in VS |-> <<vr[v], FALSE>>]] :
             ty \in [VS -> TYS], ph \in [VS -> PHS], vr \in [VS -> SUBSET VARS]}
\* all wirings of a shape: inner edges, nb boundaries attached anywhere, split into inputs/outputs
Wirings(g) ==
  {LET bs == {K + i : i \in 1..w.nb}
       bw == IF w.bb THEN {K + NB + 1, K + NB + 2} ELSE {}
   IN [g EXCEPT !.vs = VS \cup bs \cup bw,
                !.ty = [b \in bs \cup bw |-> "B"] @@ g.ty,
                !.ph = [b \in bs \cup bw |-> 0] @@ g.ph,
                !.vr = [b \in bs \cup bw |-> PZero] @@ g.vr,
                !.et = (IF w.bb THEN (bw :> w.bbt) ELSE <<>>)
                       @@ [e \in {Edge(w.att[i][1], K + i) : i \in 1..w.nb} |-> w.att[CHOOSE i \in 1..w.nb : K + i \in e][2]]
                       @@ w.et,
                !.ins = [i \in 1..w.ni |-> K + i] \o (IF w.bb THEN <<K + NB + 1>> ELSE <<>>),
                !.outs = [i \in 1..(w.nb - w.ni) |-> K + w.ni + i] \o (IF w.bb THEN <<K + NB + 2>> ELSE <<>>)]
   : w \in UNION {UNION {UNION {
         [et : [E -> ETS], nb : {nb}, att : [1..nb -> VS \X {"N", "H"}], ni : 0..nb,
          bb : (IF BB THEN BOOLEAN ELSE {FALSE}), bbt : {"N", "H"}]
         : nb \in (IF K = 0 THEN {0} ELSE 0..NB)} : E \in SUBSET Pairs} : dummy \in {0}}}
=============================================================================
