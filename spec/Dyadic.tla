------------------------------- MODULE Dyadic -------------------------------
(***************************************************************************)
(* quizx's scalar number format (scalar/dyadic.rs, scalar.rs), C07.        *)
(*                                                                         *)
(* A STORED dyadic is [neg, m, e, ap]: value (-1)^neg * m * 2^e with m a   *)
(* 64-bit mantissa (BigNat), normalised when its top bit (bit 63) is set,  *)
(* or zero with e = 0 and neg = FALSE; ap is the "approximate" flag.       *)
(* An EXACT dyadic (XD) is [neg, m, e] with m an odd BigNat of any size,   *)
(* or the canonical zero: the mathematically exact values the property     *)
(* talks about.  A Scalar4 is four dyadics: coefficients of 1, w, w^2,     *)
(* w^3 (w = e^{i pi/4}).                                                   *)
(*                                                                         *)
(* The property's predicates (Normalised, Sticky, Honest, OrdOK, ...) are  *)
(* defined here on stored values and exact ghosts; Trace_Scalar evaluates  *)
(* them on every operation recorded from the real code.  The format is not *)
(* enumerable, so there is no exhaustive config for it; the algebraic      *)
(* layer (Ring.tla) is model-checked separately (MC_Ring).                 *)
(***************************************************************************)
EXTENDS BigNat, FiniteSets

\* ---------- exact dyadics ----------
XZero == [neg |-> FALSE, m |-> <<>>, e |-> 0]
XNorm(x) == IF BIsZero(x.m) THEN XZero
            ELSE LET m == BNorm(x.m)  tz == BTrailingZeros(m) IN [neg |-> x.neg, m |-> BShr(m, tz), e |-> x.e + tz]
XNeg(x) == IF BIsZero(x.m) THEN XZero ELSE [x EXCEPT !.neg = ~x.neg]
XIsZero(x) == BIsZero(x.m)
XAbs(x) == [x EXCEPT !.neg = FALSE]
XAdd(x, y) ==
  IF XIsZero(x) THEN XNorm(y) ELSE IF XIsZero(y) THEN XNorm(x) ELSE
  LET e == IF x.e < y.e THEN x.e ELSE y.e
      mx == BShl(x.m, x.e - e)
      my == BShl(y.m, y.e - e)
  IN IF x.neg = y.neg THEN XNorm([neg |-> x.neg, m |-> BAdd(mx, my), e |-> e])
     ELSE IF BLeq(my, mx) THEN XNorm([neg |-> x.neg, m |-> BSub(mx, my), e |-> e])
     ELSE XNorm([neg |-> y.neg, m |-> BSub(my, mx), e |-> e])
XSub(x, y) == XAdd(x, XNeg(y))
XMul(x, y) == IF XIsZero(x) \/ XIsZero(y) THEN XZero
              ELSE XNorm([neg |-> x.neg # y.neg, m |-> BMul(x.m, y.m), e |-> x.e + y.e])
XMulBig(x, k) == IF XIsZero(x) THEN XZero ELSE XNorm([x EXCEPT !.m = BMul(x.m, k)])       \* times a natural
XShift(x, k) == IF XIsZero(x) THEN XZero ELSE [x EXCEPT !.e = x.e + k]                     \* times 2^k
\* sign: -1, 0, 1
XSign(x) == IF XIsZero(x) THEN 0 ELSE IF x.neg THEN -1 ELSE 1
XCmp(x, y) == XSign(XSub(x, y))
XLeq(x, y) == XCmp(x, y) <= 0
XFromInt(n) == XNorm([neg |-> n < 0, m |-> BFromInt(IF n < 0 THEN -n ELSE n), e |-> 0])
XMaxAbs(S) == CHOOSE x \in {XAbs(y) : y \in S} : \A y \in S : XLeq(XAbs(y), x)
\* sign of X + Y sqrt2
XSignSqrt2(X, Y) ==
  LET sx == XSign(X)  sy == XSign(Y) IN
  IF sx >= 0 /\ sy >= 0 THEN (IF sx = 0 /\ sy = 0 THEN 0 ELSE 1)
  ELSE IF sx <= 0 /\ sy <= 0 THEN -1
  ELSE LET c == XCmp(XMul(X, X), XShift(XMul(Y, Y), 1)) IN       \* X^2 vs 2 Y^2
       IF sx > 0 THEN (IF c > 0 THEN 1 ELSE -1) ELSE (IF c < 0 THEN 1 ELSE -1)

\* ---------- stored dyadics ----------
Val(d) == XNorm([neg |-> d.neg, m |-> d.m, e |-> d.e])
Normalised(d) == IF BIsZero(d.m) THEN d.e = 0 /\ ~d.neg ELSE BBitLen(d.m) = 64
Fits64(d) == BBitLen(d.m) <= 64
\* the order the type implements must be the order of the reals; the 2^-100 test of abs_diff_eq
OrdOK(a, b, ret) == ret = XCmp(Val(a), Val(b))
TwoPowMinus100 == [neg |-> FALSE, m |-> <<1>>, e |-> -100]
AbsDiffEqOK(a, b, ret) == ret = (XCmp(XAbs(XSub(Val(a), Val(b))), TwoPowMinus100) < 0)
Sticky(ins, out) == (\E i \in 1..Len(ins) : ins[i].ap) => out.ap
Honest(out, ghost) == ~out.ap => Val(out) = ghost
\* a finite double as an exact dyadic: [neg, m (53-bit mantissa as BigNat), e]
FVal(f) == XNorm([neg |-> f.neg, m |-> f.m, e |-> f.e])
Ten12 == BMul(BFromInt(1000000), BFromInt(1000000))
\* |out - v| <= 10^-12 * scale
CloseTo(out, v, scale) == XLeq(XMulBig(XAbs(XSub(out, v)), Ten12), XAbs(scale))

\* ---------- Scalar4: sequences of four ----------
S4Zero == <<XZero, XZero, XZero, XZero>>
S4Add(x, y) == [i \in 1..4 |-> XAdd(x[i], y[i])]
S4Neg(x) == [i \in 1..4 |-> XNeg(x[i])]
S4Sub(x, y) == S4Add(x, S4Neg(y))
\* product with w^4 = -1
S4Mul(x, y) ==
  [k \in 1..4 |->
     LET pos == {<<i, j>> \in (1..4) \X (1..4) : i + j - 2 = k - 1}
         neg == {<<i, j>> \in (1..4) \X (1..4) : i + j - 2 = k + 3}
         sum(S) == LET RECURSIVE f(_) f(T) == IF T = {} THEN XZero ELSE LET p == CHOOSE p \in T : TRUE IN XAdd(XMul(x[p[1]], y[p[2]]), f(T \ {p})) IN f(S)
     IN XSub(sum(pos), sum(neg))]
S4Conj(x) == <<x[1], XNeg(x[4]), XNeg(x[3]), XNeg(x[2])>>
S4Omega(k) == LET j == k % 8
                  one == XFromInt(1)  mone == XFromInt(-1) IN
              [i \in 1..4 |-> IF i - 1 = j THEN one ELSE IF i + 3 = j THEN mone ELSE XZero]
S4Sqrt2Pow(p) == IF p % 2 = 0 THEN <<XShift(XFromInt(1), p \div 2), XZero, XZero, XZero>>
                 ELSE LET d == XShift(XFromInt(1), (p - 1) \div 2) IN <<XZero, d, XZero, XNeg(d)>>
S4One == S4Omega(0)
\* Sum / Product over a sequence of values (folds from zero / one, like the iterator impls)
RECURSIVE S4SumFrom(_, _)
S4SumFrom(xs, k) == IF k > Len(xs) THEN S4Zero ELSE S4Add(xs[k], S4SumFrom(xs, k + 1))
S4SumSeq(xs) == S4SumFrom(xs, 1)
RECURSIVE S4ProdUpTo(_, _)
S4ProdUpTo(xs, k) == IF k = 0 THEN S4One ELSE S4Mul(S4ProdUpTo(xs, k - 1), xs[k])
S4ProdSeq(xs) == S4ProdUpTo(xs, Len(xs))
S4IsZero(x) == \A i \in 1..4 : XIsZero(x[i])
S4Vals(s) == [i \in 1..4 |-> Val(s[i])]
S4Approx(s) == \E i \in 1..4 : s[i].ap
\* exact_phase_and_sqrt2_pow on an exact value: <<TRUE, k, p>> with x = w^k sqrt2^p, else <<FALSE, 0, 0>>
NumNZ(x) == Cardinality({i \in 1..4 : ~XIsZero(x[i])})
S4ExactPhasePow(x) ==
  LET one(s, p) == LET i == CHOOSE i \in 1..4 : ~XIsZero(s[i]) IN
                   IF s[i].m = <<1>> THEN <<TRUE, IF s[i].neg THEN i + 3 ELSE i - 1, 2 * s[i].e + p>> ELSE <<FALSE, 0, 0>>
  IN IF NumNZ(x) = 1 THEN one(x, 0)
     ELSE LET s == S4Mul(x, S4Sqrt2Pow(1)) IN IF NumNZ(s) = 1 THEN one(s, -1) ELSE <<FALSE, 0, 0>>
\* complex value: re = a + (b - d)/sqrt2, im = c + (b + d)/sqrt2; |out - exact| <= 10^-12 * max|coeff|
\* |u - w/sqrt2| <= t  <=>  sqrt2 (u + t) - w >= 0  and  sqrt2 (t - u) + w >= 0, with everything scaled by 10^12
CloseSqrt2(out, a, w, M) ==
  LET u == XSub(out, a)
      U == XMulBig(u, Ten12)
      W == XMulBig(w, Ten12)
      T == XAbs(M)
  IN XSignSqrt2(XNeg(W), XAdd(U, T)) >= 0 /\ XSignSqrt2(W, XSub(T, U)) >= 0
(* AbsDiffEq for Scalar4: |Re x - Re y| <= eps /\ |Im x - Im y| <= eps with eps = 10^-10, computed by the code on the
   two complex doubles.  With U = x1 - y1, W = (x2 - x4) - (y2 - y4):  Re x - Re y = U + W/sqrt2  (Im: U = x3 - y3,
   W = (x2 + x4) - (y2 + y4)), and  |U + W/sqrt2| <= t  <=>  sqrt2 (t - U) - W >= 0  and  sqrt2 (t + U) + W >= 0.
   The doubles carry the conversion error the property allows (10^-12 times the largest coefficient, each), so the
   answer is only determined outside a band around eps: for operands whose coefficients are at most 4 in absolute
   value (error of the difference <= 8 * 10^-12) the answer must be TRUE when both distances are <= 2^-34
   (5.8 * 10^-11) and FALSE when one exceeds 2^-32 (2.3 * 10^-10); in between, and for larger operands, nothing is
   demanded.  The relation is symmetric. *)
AbsLeqSqrt2(U, W, t) == XSignSqrt2(XNeg(W), XSub(t, U)) >= 0 /\ XSignSqrt2(W, XAdd(t, U)) >= 0
S4CloseWithin(x, y, t) ==
  /\ AbsLeqSqrt2(XSub(x[1], y[1]), XSub(XSub(x[2], x[4]), XSub(y[2], y[4])), t)
  /\ AbsLeqSqrt2(XSub(x[3], y[3]), XSub(XAdd(x[2], x[4]), XAdd(y[2], y[4])), t)
EpsLo == [neg |-> FALSE, m |-> <<1>>, e |-> -34]
EpsHi == [neg |-> FALSE, m |-> <<1>>, e |-> -32]
AbsDiffEq4Judged(x, y) == XLeq(XMaxAbs({x[1], x[2], x[3], x[4], y[1], y[2], y[3], y[4]}), XFromInt(4))
AbsDiffEq4OK(x, y, ret, rev) ==
  /\ ret = rev
  /\ S4CloseWithin(x, y, EpsLo) => ret
  /\ ~S4CloseWithin(x, y, EpsHi) => ~ret
ComplexValueOK(re, im, s) ==
  LET v == S4Vals(s)
      M == XMaxAbs({v[1], v[2], v[3], v[4]})
  IN CloseSqrt2(re, v[1], XSub(v[2], v[4]), M) /\ CloseSqrt2(im, v[3], XAdd(v[2], v[4]), M)
=============================================================================
