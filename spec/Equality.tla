------------------------------ MODULE Equality ------------------------------
(***************************************************************************)
(* The contract of quizx/src/equality.rs and the algorithm it uses.        *)
(*   rewriting-based: compose adjoint(g1) with g2, full_simp, test for the *)
(*     identity diagram, then (if a global phase is not allowed) test that *)
(*     the remaining scalar is a positive real.  May answer "unknown".     *)
(*   tensor-based: equal arities and identical tensors.                    *)
(* Def is the property C12: a definite answer is never wrong.              *)
(***************************************************************************)
EXTENDS Compose, Simp

SameArity(g1, g2) == Len(g1.ins) = Len(g2.ins) /\ Len(g1.outs) = Len(g2.outs)
\* S1, S2: denoted tensors; arity: do the arities agree; r \in {"equal", "notequal", "unknown"}
Def(r, arity, S1, S2, phaseOK) ==
  /\ r = "equal" => arity /\ (IF phaseOK THEN ProjEq(S1, S2) ELSE S1 = S2)
  /\ r = "notequal" => ~arity \/ S1 # S2
DefTensor(b, arity, S1, S2) == b = (arity /\ S1 = S2)

\* the diagram the checker simplifies
EqStart(g1, g2) == Plug(Adjoint(g1), g2)
\* its answer on a simplified diagram g (quiescent for full_simp)
EqAnswer(g, phaseOK) ==
  IF IsIdentityCode(g) THEN (IF phaseOK THEN "equal" ELSE IF RIsPosReal(g.sc) THEN "equal" ELSE "notequal")
  ELSE "unknown"
=============================================================================
