------------------------------ MODULE Backends ------------------------------
(***************************************************************************)
(* The two storage representations behind quizx's GraphLike trait, as two  *)
(* concrete machines, and the abstract graph they both have to implement.  *)
(*                                                                         *)
(*  Vec  (vec_graph.rs): slots / adj are sequences indexed by name+1 that  *)
(*        hold NULL for deleted names, `holes` is a stack of free names    *)
(*        (add_vertex pops it), numv / nume are cached counters, adjacency *)
(*        lists are unordered vectors edited with swap_remove, pack()      *)
(*        renumbers the live vertices in order and rewrites adjacency,     *)
(*        inputs and outputs through the renumbering table.                *)
(*  Hash (hash_graph.rs): maps of maps, names never reused (freshv), pack  *)
(*        is a no-op.                                                      *)
(*  Abs  : a set of vertices carrying data and a symmetric typed edge      *)
(*        relation.  Vertex identity across the three is the `tag` field   *)
(*        of the vertex data (the harness stores a unique serial number in *)
(*        the row coordinate), so "the same graph up to the names chosen   *)
(*        for new vertices" is equality after renaming names to tags.      *)
(***************************************************************************)
EXTENDS Integers, Sequences, FiniteSets, TLC, FiniteSetsExt, SequencesExt

\* a deleted slot; same record shape as vertex data so that TLC can compare them
NULL == [ty |-> "dead", tag |-> -1]
NOADJ == <<>>
R(m, ret) == [m |-> m, ret |-> ret]
SwapRemove(s, i) == IF i = Len(s) THEN Front(s) ELSE [Front(s) EXCEPT ![i] = Last(s)]
IndexOf(s, x) == IF \E i \in 1..Len(s) : s[i][1] = x THEN Min({i \in 1..Len(s) : s[i][1] = x}) ELSE 0

\* =========================== vector backend ===========================
VecNew == [slots |-> <<>>, adj |-> <<>>, holes |-> <<>>, numv |-> 0, nume |-> 0, ins |-> <<>>, outs |-> <<>>]
VLen(m) == Len(m.slots)
VLive(m, v) == v >= 0 /\ v < VLen(m) /\ m.slots[v + 1] # NULL
VNames(m) == {v \in 0..(VLen(m) - 1) : m.slots[v + 1] # NULL}
VIndex(m) == VLen(m)
\* add_vertex_with_data: reuse the most recently freed name, else append
VAdd(m, d) ==
  IF m.holes # <<>> THEN
    LET v == Last(m.holes) IN
    R([m EXCEPT !.holes = Front(@), !.slots[v + 1] = d, !.adj[v + 1] = <<>>, !.numv = @ + 1], v)
  ELSE R([m EXCEPT !.slots = Append(@, d), !.adj = Append(@, <<>>), !.numv = @ + 1], VLen(m))
\* add_named_vertex_with_data
VAddNamed(m, v, d) ==
  IF v < VLen(m) THEN
    (IF \E i \in 1..Len(m.holes) : m.holes[i] = v
     THEN LET i == CHOOSE i \in 1..Len(m.holes) : m.holes[i] = v IN
          R([m EXCEPT !.holes = SubSeq(@, 1, i - 1) \o SubSeq(@, i + 1, Len(@)),
                      !.slots[v + 1] = d, !.adj[v + 1] = <<>>, !.numv = @ + 1], "ok")
     ELSE R(m, "err"))
  ELSE
    LET gap == [i \in 1..(v - VLen(m)) |-> VLen(m) + i - 1] IN     \* the names len .. v-1 become holes
    R([m EXCEPT !.slots = @ \o [i \in 1..Len(gap) |-> NULL] \o <<d>>,
                !.adj = @ \o [i \in 1..Len(gap) |-> NOADJ] \o <<<<>>>>,
                !.holes = @ \o gap, !.numv = @ + 1], "ok")
VRemoveHalf(m, s, t) ==
  IF VLive(m, s) /\ IndexOf(m.adj[s + 1], t) # 0
  THEN [m EXCEPT !.adj[s + 1] = SwapRemove(@, IndexOf(@, t))] ELSE m
RECURSIVE VRemoveHalves(_, _, _)
VRemoveHalves(m, nbrs, v) ==
  IF nbrs = <<>> THEN m
  ELSE VRemoveHalves([VRemoveHalf(m, Head(nbrs)[1], v) EXCEPT !.nume = @ - 1], Tail(nbrs), v)
VRemove(m, v) ==
  LET a == m.adj[v + 1]
      m1 == [m EXCEPT !.numv = @ - 1, !.holes = Append(@, v), !.slots[v + 1] = NULL, !.adj[v + 1] = NOADJ]
  IN R(VRemoveHalves(m1, a, v), "ok")
VConnected(m, s, t) == VLive(m, s) /\ IndexOf(m.adj[s + 1], t) # 0
VEType(m, s, t) == m.adj[s + 1][IndexOf(m.adj[s + 1], t)][2]
VAddEdge(m, s, t, ety) ==
  R([m EXCEPT !.nume = @ + 1, !.adj[s + 1] = Append(@, <<t, ety>>), !.adj[t + 1] = Append(m.adj[t + 1], <<s, ety>>)], "ok")
VRemoveEdge(m, s, t) == R(VRemoveHalf(VRemoveHalf([m EXCEPT !.nume = @ - 1], s, t), t, s), "ok")
VSetEType(m, s, t, ety) ==
  R([m EXCEPT !.adj[s + 1][IndexOf(m.adj[s + 1], t)] = <<t, ety>>, !.adj[t + 1][IndexOf(m.adj[t + 1], s)] = <<s, ety>>], "ok")
VSetData(m, v, d) == R([m EXCEPT !.slots[v + 1] = d], "ok")
PACK_RATIO == 10
VPack(m, force) ==
  IF ~(force \/ Len(m.holes) * PACK_RATIO > VLen(m)) THEN R(m, "noop")
  ELSE LET live == SetToSortSeq(VNames(m), <)
           vtab == [v \in VNames(m) |-> (CHOOSE j \in 1..Len(live) : live[j] = v) - 1]
           \* names that are not live map to 0 in the code's table (vec![0; len])
           tab(v) == IF v \in VNames(m) THEN vtab[v] ELSE 0
       IN R([m EXCEPT !.slots = [j \in 1..Len(live) |-> m.slots[live[j] + 1]],
                      !.adj = [j \in 1..Len(live) |-> [k \in 1..Len(m.adj[live[j] + 1]) |->
                                                          <<tab(m.adj[live[j] + 1][k][1]), m.adj[live[j] + 1][k][2]>>]],
                      !.holes = <<>>,
                      !.ins = [k \in 1..Len(m.ins) |-> tab(m.ins[k])],
                      !.outs = [k \in 1..Len(m.outs) |-> tab(m.outs[k])]], "packed")
\* what the public interface shows (enumeration order aside)
VEdges(m) == UNION {{<<s, m.adj[s + 1][k][1], m.adj[s + 1][k][2]>> : k \in 1..Len(m.adj[s + 1])} : s \in VNames(m)}
VecInv(m) ==
  /\ Len(m.adj) = Len(m.slots)
  /\ \A v \in 0..(VLen(m) - 1) : m.slots[v + 1] = NULL => m.adj[v + 1] = NOADJ
  /\ m.numv = Cardinality(VNames(m))
  \* holes lists exactly the dead names, once each
  /\ ToSet(m.holes) = (0..(VLen(m) - 1)) \ VNames(m) /\ Cardinality(ToSet(m.holes)) = Len(m.holes)
  \* adjacency lists: no duplicates, no self entries, symmetric with equal types, live endpoints
  /\ \A s \in VNames(m) : LET a == m.adj[s + 1] IN
        /\ \A i, j \in 1..Len(a) : i # j => a[i][1] # a[j][1]
        /\ \A i \in 1..Len(a) : a[i][1] # s /\ VLive(m, a[i][1]) /\ VConnected(m, a[i][1], s) /\ VEType(m, a[i][1], s) = a[i][2]
  /\ 2 * m.nume = Cardinality(VEdges(m))

\* =========================== hash backend ===========================
HashNew == [vd |-> <<>>, ed |-> <<>>, freshv |-> 0, numv |-> 0, nume |-> 0, ins |-> <<>>, outs |-> <<>>]
HLive(m, v) == v \in DOMAIN m.vd
HNames(m) == DOMAIN m.vd
HIndex(m) == m.freshv
Drop(f, x) == [y \in (DOMAIN f) \ {x} |-> f[y]]
HAdd(m, d) ==
  LET v == m.freshv IN
  R([m EXCEPT !.freshv = @ + 1, !.numv = @ + 1, !.vd = (v :> d) @@ @, !.ed = (v :> <<>>) @@ @], v)
HAddNamed(m, v, d) ==
  IF v \in DOMAIN m.vd THEN R(m, "err")
  ELSE R([m EXCEPT !.freshv = IF v >= @ THEN v + 1 ELSE @, !.numv = @ + 1, !.vd = (v :> d) @@ @, !.ed = (v :> <<>>) @@ @], "ok")
HRemove(m, v) ==
  LET ns == DOMAIN m.ed[v] IN
  R([m EXCEPT !.numv = @ - 1, !.nume = @ - Cardinality(ns), !.vd = Drop(@, v),
              !.ed = [u \in (DOMAIN m.ed) \ {v} |-> IF u \in ns THEN Drop(m.ed[u], v) ELSE m.ed[u]]], "ok")
HConnected(m, s, t) == s \in DOMAIN m.ed /\ t \in DOMAIN m.ed[s]
HAddEdge(m, s, t, ety) == R([m EXCEPT !.nume = @ + 1, !.ed[s] = (t :> ety) @@ @, !.ed[t] = (s :> ety) @@ m.ed[t]], "ok")
HRemoveEdge(m, s, t) == R([m EXCEPT !.nume = @ - 1, !.ed[s] = Drop(@, t), !.ed[t] = Drop(m.ed[t], s)], "ok")
HSetEType(m, s, t, ety) == R([m EXCEPT !.ed[s][t] = ety, !.ed[t][s] = ety], "ok")
HSetData(m, v, d) == R([m EXCEPT !.vd[v] = d], "ok")
HPack(m, force) == R(m, "noop")
HEdges(m) == UNION {{<<s, t, m.ed[s][t]>> : t \in DOMAIN m.ed[s]} : s \in DOMAIN m.ed}
HashInv(m) ==
  /\ DOMAIN m.ed = DOMAIN m.vd
  /\ m.numv = Cardinality(DOMAIN m.vd)
  /\ \A v \in DOMAIN m.vd : v < m.freshv
  /\ \A s \in DOMAIN m.ed : \A t \in DOMAIN m.ed[s] : t # s /\ t \in DOMAIN m.ed /\ s \in DOMAIN m.ed[t] /\ m.ed[t][s] = m.ed[s][t]
  /\ 2 * m.nume = Cardinality(HEdges(m))

\* =========================== abstract graph (tag space) ===========================
AbsNew == [vs |-> {}, data |-> <<>>, et |-> <<>>, ins |-> <<>>, outs |-> <<>>]
AAdd(a, tag, d) == [a EXCEPT !.vs = @ \cup {tag}, !.data = (tag :> d) @@ @]
ARemove(a, tag) == [a EXCEPT !.vs = @ \ {tag}, !.data = Drop(@, tag), !.et = [e \in {e \in DOMAIN a.et : tag \notin e} |-> a.et[e]]]
AAddEdge(a, s, t, ety) == [a EXCEPT !.et = ({s, t} :> ety) @@ @]
ARemoveEdge(a, s, t) == [a EXCEPT !.et = [e \in (DOMAIN a.et) \ {{s, t}} |-> a.et[e]]]
ASetData(a, tag, d) == [a EXCEPT !.data[tag] = d]

\* observables in tag space: data must carry a field `tag`
VTag(m, v) == m.slots[v + 1].tag
HTag(m, v) == m.vd[v].tag
VObs(m) == [vs |-> {VTag(m, v) : v \in VNames(m)},
            data |-> [t \in {VTag(m, v) : v \in VNames(m)} |-> m.slots[(CHOOSE v \in VNames(m) : VTag(m, v) = t) + 1]],
            et |-> [e \in {{VTag(m, x[1]), VTag(m, x[2])} : x \in VEdges(m)} |->
                      (CHOOSE x \in VEdges(m) : {VTag(m, x[1]), VTag(m, x[2])} = e)[3]],
            ins |-> [k \in 1..Len(m.ins) |-> IF VLive(m, m.ins[k]) THEN VTag(m, m.ins[k]) ELSE -1],
            outs |-> [k \in 1..Len(m.outs) |-> IF VLive(m, m.outs[k]) THEN VTag(m, m.outs[k]) ELSE -1]]
HObs(m) == [vs |-> {HTag(m, v) : v \in HNames(m)},
            data |-> [t \in {HTag(m, v) : v \in HNames(m)} |-> m.vd[CHOOSE v \in HNames(m) : HTag(m, v) = t]],
            et |-> [e \in {{HTag(m, x[1]), HTag(m, x[2])} : x \in HEdges(m)} |->
                      (CHOOSE x \in HEdges(m) : {HTag(m, x[1]), HTag(m, x[2])} = e)[3]],
            ins |-> [k \in 1..Len(m.ins) |-> IF HLive(m, m.ins[k]) THEN HTag(m, m.ins[k]) ELSE -1],
            outs |-> [k \in 1..Len(m.outs) |-> IF HLive(m, m.outs[k]) THEN HTag(m, m.outs[k]) ELSE -1]]
VNameOf(m, tag) == CHOOSE v \in VNames(m) : VTag(m, v) = tag
HNameOf(m, tag) == CHOOSE v \in HNames(m) : HTag(m, v) = tag
=============================================================================
