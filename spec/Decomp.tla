------------------------------- MODULE Decomp -------------------------------
(***************************************************************************)
(* Stabiliser decomposition (quizx/src/decompose.rs).                      *)
(*  - every replace_* term constructor transcribed with its hard-coded     *)
(*    Z[omega] scalar (555-889) and the apply_*_decomp dispatchers incl.   *)
(*    the cat decomposition's pi-normalisation and padding (891-1007);     *)
(*  - StepSum: the terms of one decomposition step sum to the original;    *)
(*  - the decomposer as a process on a computation tree (1030-1384):       *)
(*    simplify, finish Clifford leaves, split components (whole scalar to  *)
(*    the first component), choose-and-apply, combine by sum / product.    *)
(* Phases are in units of pi/4: -1/4 = 7, 3/4 = 3, -1/2 = 6, pi = 4.       *)
(***************************************************************************)
EXTENDS ZXSem

Sc(a, b, c, d, e) == RNorm(<<a, b, c, d, e>>)
RECURSIVE AddPhAll(_, _, _)
AddPhAll(g, vs, k) == IF vs = <<>> THEN g ELSE AddPhAll(AddPh(g, Head(vs), k), Tail(vs), k)
NewZ(g, p) == [g |-> AddV(g, Fresh(g), "Z", p), v |-> Fresh(g)]
NewX(g, p) == [g |-> AddV(g, Fresh(g), "X", p), v |-> Fresh(g)]
RECURSIVE EdgeAll(_, _, _, _)
EdgeAll(g, vs, w, t) == IF vs = <<>> THEN g ELSE EdgeAll(SetET(g, Head(vs), w, t), Tail(vs), w, t)
\* ---------- cat states ----------
ReplaceCat6_0(g, vs, sc) ==
  LET tl == Tail(vs)
      g1 == AddPhAll(MulSc(g, sc), tl, 7)
      g2 == EdgeAll(g1, tl, vs[1], "N")                 \* set_edge_type(v, verts[0], N)
  IN SetPh(g2, vs[1], 6)
ReplaceCat6_1(g, vs) == AddPhAll(MulSc(g, Sc(-1, 0, 1, 0, -1)), Tail(vs), 7)
SmartAllPairs(g, vs) ==
  SmartSeq([g |-> g, panic |-> FALSE],
           SetToSeq({<<vs[p[1]], vs[p[2]], "H">> : p \in {p \in (1..Len(vs)) \X (1..Len(vs)) : p[1] < p[2]}})).g
ReplaceCat6_2(g, vs) == SmartAllPairs(AddPhAll(MulSc(g, Sc(0, -1, 0, 0, 7)), Tail(vs), 7), Tail(vs))
ReplaceCat4_0(g, vs) == AddPhAll(MulSc(g, Sc(0, 0, 1, 0, 0)), Tail(vs), 7)

\* ---------- magic-5 ----------
ReplaceMagic5_0(g, vs) ==
  LET g1 == AddPhAll(MulSc(g, Sc(1, 0, 0, 0, 1)), vs, 7)
      g2 == SmartSeq([g |-> g1, panic |-> FALSE], [i \in 1..Len(vs) |-> <<vs[i], vs[1], "N">>]).g
  IN AddPh(g2, vs[1], 5)
ReplaceMagic5_1(g, vs) ==
  LET a == NewZ(MulSc(g, Sc(-1, 0, 1, 0, 1)), 0)
      g1 == EdgeAll(AddPhAll(a.g, vs, 7), vs, a.v, "H")
      b == NewZ(g1, 7)
  IN SetET(b.g, b.v, a.v, "H")
ReplaceMagic5_2(g, vs) ==
  LET a == NewZ(MulSc(g, Sc(0, -1, 0, 0, 9)), 0)
      b == NewZ(a.g, 7)
      g1 == SetET(b.g, a.v, b.v, "H")
      g2 == EdgeAll(EdgeAll(AddPhAll(g1, vs, 7), vs, a.v, "H"), vs, b.v, "H")
  IN SmartAllPairs(g2, vs)

\* ---------- BSS: |T>^6 as seven stabiliser terms ----------
ReplaceB60(g, vs) == AddPhAll(MulSc(g, Sc(-1, 0, 1, 1, -2)), vs, 7)
ReplaceB66(g, vs) == AddPhAll(MulSc(g, Sc(-1, 0, 1, -1, -2)), vs, 3)
ReplaceE6(g, vs) == LET a == NewZ(MulSc(g, Sc(0, -1, 0, 0, 1)), 4) IN EdgeAll(AddPhAll(a.g, vs, 1), vs, a.v, "H")
ReplaceO6(g, vs) == LET a == NewZ(MulSc(g, Sc(-1, 0, -1, 0, 1)), 0) IN EdgeAll(AddPhAll(a.g, vs, 1), vs, a.v, "H")
ReplaceK6(g, vs) == LET a == NewZ(MulSc(g, Sc(1, 0, 0, 0, 1)), 6) IN EdgeAll(AddPhAll(a.g, vs, 7), vs, a.v, "N")
ReplacePhi1(g, vs) ==
  LET g0 == MulSc(g, Sc(1, 0, 1, 0, 3))
      f == Fresh(g0)
      ws == [i \in 1..5 |-> f + i - 1]
      g1 == [g0 EXCEPT !.vs = @ \cup {ws[i] : i \in 1..5}, !.ty = [w \in {ws[i] : i \in 1..5} |-> "Z"] @@ @,
                       !.ph = [w \in {ws[i] : i \in 1..5} |-> 0] @@ @, !.vr = [w \in {ws[i] : i \in 1..5} |-> PZero] @@ @]
      es == {{vs[i], ws[i]} : i \in 1..5} \cup {{ws[i], vs[6]} : i \in 1..5}
            \cup {{ws[1], ws[3]}, {ws[1], ws[4]}, {ws[2], ws[4]}, {ws[2], ws[5]}, {ws[3], ws[5]}}
      g2 == [g1 EXCEPT !.et = [e \in es |-> "H"] @@ @]
  IN AddPh(AddPhAll(g2, SubSeq(vs, 1, 5), 7), vs[6], 3)
ReplacePhi2(g, vs) == ReplacePhi1(g, <<vs[1], vs[2], vs[4], vs[5], vs[6], vs[3]>>)

\* ---------- pairs and singles ----------
ReplaceBellS(g, vs) == AddPh(AddPh(Smart(g, vs[1], vs[2], "N").g, vs[1], 7), vs[2], 1)
ReplaceEpr(g, vs) == LET a == NewZ(MulSc(g, Omega(1)), 4) IN AddPhAll(EdgeAll(a.g, vs, a.v, "H"), vs, 7)
ReplaceSingle0(g, vs) == LET a == NewX(g, 0) IN SetPh(MulSc(SetET(a.g, vs[1], a.v, "N"), Sqrt2Pow(-1)), vs[1], 0)
ReplaceSingle1(g, vs) == LET a == NewX(g, 4) IN
                         SetPh(MulSc(SetET(a.g, vs[1], a.v, "N"), RMul(Omega(g.ph[vs[1]]), Sqrt2Pow(-1))), vs[1], 0)
ReplaceP(g, v, p) == LET a == NewZ(MulSc(g, Sc(0, 1, 0, -1, -1)), p) IN SetET(a.g, v, a.v, "H")
\* reverse_pivot: re-introduce two pivoted-away spiders v0 ~ vs0, v1 ~ vs1
ReversePivot(g, vs0, vs1) ==
  LET x == Len(vs0)  y == Len(vs1)
      a == NewZ(MulSc(g, Sqrt2Pow(-((x - 1) * (y - 1)))), 0)
      b == NewZ(a.g, 0)
      g1 == [b.g EXCEPT !.et = [e \in {e \in DOMAIN b.g.et : ~(\E i \in 1..x, j \in 1..y : e = {vs0[i], vs1[j]})} |-> b.g.et[e]]]
      r1 == SmartSeq([g |-> g1, panic |-> FALSE], [i \in 1..x |-> <<a.v, vs0[i], "H">>])
      r2 == SmartSeq(r1, [j \in 1..y |-> <<b.v, vs1[j], "H">>])
  IN [g |-> Smart(r2.g, a.v, b.v, "H").g, v0 |-> a.v]
ReplaceTPair(g, vs, p) == LET n == Len(vs)  r == ReversePivot(g, SubSeq(vs, 1, n - 2), SubSeq(vs, n - 1, n)) IN ReplaceP(r.g, r.v0, p)
\* spider cutting: Z(alpha) with k legs = (1/sqrt2)^k ( |0..0> + e^{i alpha} |1..1> ) on H legs
CutSpider(g, vs, withPhase) ==
  LET v == vs[1]
      ns == Nbrs(g, v)
      g1 == MulSc(g, Sqrt2Pow(-Cardinality(ns)))
      g2 == IF withPhase THEN [MulSc(g1, Omega(g.ph[v])) EXCEPT !.ph = [u \in g.vs |-> IF u \in ns THEN (g.ph[u] + 4) % 8 ELSE g.ph[u]]]
            ELSE g1
  IN DelV(g2, v)

\* ---------- dispatchers ----------
ApplyBss(g, vs) == <<ReplaceB60(g, vs), ReplaceB66(g, vs), ReplaceE6(g, vs), ReplaceO6(g, vs), ReplaceK6(g, vs),
                     ReplacePhi1(g, vs), ReplacePhi2(g, vs)>>
ApplySym(g, vs) == <<ReplaceBellS(g, vs), ReplaceEpr(g, vs)>>
ApplySingle(g, vs) == <<ReplaceSingle0(g, vs), ReplaceSingle1(g, vs)>>
ApplyTs(g, ts) == IF Len(ts) = 6 THEN ApplyBss(g, ts) ELSE IF Len(ts) >= 2 THEN ApplySym(g, SubSeq(ts, 1, 2)) ELSE ApplySingle(g, ts)
ApplyMagic5(g, vs) == <<ReplaceMagic5_0(g, vs), ReplaceMagic5_1(g, vs), ReplaceMagic5_2(g, vs)>>
\* pi on the hub: pushed through the first T spider (pi-copy): its phase is negated, every other spider
\* neighbour gains pi, and on a leg that ends in a boundary the pi stays on the wire as a Z(pi) spider
\* (t -H- Z(pi) -opposite type- boundary)
RECURSIVE PiOnWires(_, _, _)
PiOnWires(g, t, bs) ==
  IF bs = <<>> THEN g
  ELSE LET b == Head(bs)
           et == ET(g, t, b)
           a == NewZ(g, 4)
       IN PiOnWires(SetET(SetET(DelE(a.g, t, b), t, a.v, "H"), a.v, b, Opp(et)), t, Tail(bs))
ApplyCat(g0, vs0) ==
  \* vs0[1] is a 0- or pi-spider linked to all and only the T-spiders vs0[2..]
  LET g1 == IF g0.ph[vs0[1]] = 4 THEN
              LET neigh == Nbrs(g0, vs0[2]) \ {vs0[1]}
                  sp == {u \in neigh : g0.ty[u] # "B"}
                  h == [g0 EXCEPT !.ph = [u \in g0.vs |-> IF u = vs0[1] THEN 0
                                                        ELSE IF u \in sp THEN (g0.ph[u] + 4) % 8
                                                        ELSE IF u = vs0[2] THEN (8 - g0.ph[u]) % 8 ELSE g0.ph[u]]]
              IN PiOnWires(MulSc(h, Omega(g0.ph[vs0[2]])), vs0[2], SetToSortSeq(neigh \ sp, <))
            ELSE g0
      n0 == Len(vs0) - 1
      pad == n0 \in {3, 5}
      w == Fresh(g1)
      v == w + 1
      g2 == IF pad THEN SetET(SetET(AddV(AddV(g1, w, "Z", 0), v, "Z", 0), v, w, "H"), v, vs0[1], "H") ELSE g1
      vs == IF pad THEN Append(vs0, v) ELSE vs0
      n == IF pad THEN n0 + 1 ELSE n0
  IN IF n = 6 THEN <<ReplaceCat6_0(g2, vs, Sqrt2Pow(-2)), ReplaceCat6_1(g2, vs), ReplaceCat6_2(g2, vs)>>
     ELSE <<ReplaceCat4_0(g2, vs), ReplaceCat6_0(g2, vs, Sc(1, 0, -1, 0, -1))>>
ApplyDecomp(g, d) ==
  CASE d.kind = "Magic5FromCat" -> ApplyMagic5(g, SubSeq(d.vs, 1, 5))
    [] d.kind = "TDecomp"       -> ApplyTs(g, d.vs)
    [] d.kind = "CatDecomp"     -> ApplyCat(g, d.vs)
    [] d.kind = "BssDecomp"     -> ApplyBss(g, d.vs)
    [] d.kind = "SymDecomp"     -> ApplySym(g, d.vs)
    [] d.kind = "SingleDecomp"  -> ApplySingle(g, d.vs)
    [] d.kind = "TPairDecomp"   -> <<ReplaceTPair(g, d.vs, 0), ReplaceTPair(g, d.vs, 4)>>
    [] d.kind = "SpiderCuttingDecomp" -> <<CutSpider(g, d.vs, FALSE), CutSpider(g, d.vs, TRUE)>>

\* ---------- the property of one step ----------
TAdd(S, T) == [b \in DOMAIN S |-> RAdd(S[b], T[b])]
RECURSIVE SumDen(_)
SumDen(terms) == IF Len(terms) = 1 THEN Den(terms[1]) ELSE TAdd(Den(Head(terms)), SumDen(Tail(terms)))
StepSum(g, terms) == SumDen(terms) = Den(g)
TCount(g) == Cardinality({v \in Spiders(g) : ~IsClifford(g.ph[v])})
IsTLike(p) == p % 2 = 1

\* ---------- admissible arguments (what the drivers hand to apply_decomp) ----------
\* cat: hub with Pauli phase, H-connected to exactly the listed spiders, each non-Clifford; 3..6 of them
CatArgsOK(g, vs) ==
  /\ Len(vs) \in 4..7 /\ IsPauli(g.ph[vs[1]]) /\ g.ty[vs[1]] = "Z"
  /\ Nbrs(g, vs[1]) = {vs[i] : i \in 2..Len(vs)} /\ Cardinality(Nbrs(g, vs[1])) = Len(vs) - 1
  /\ \A i \in 2..Len(vs) : g.ty[vs[i]] = "Z" /\ IsTLike(g.ph[vs[i]]) /\ ET(g, vs[1], vs[i]) = "H"
TArgsOK(g, vs) == /\ \A i \in 1..Len(vs) : g.ty[vs[i]] = "Z" /\ IsTLike(g.ph[vs[i]])
                  /\ \A i, j \in 1..Len(vs) : i # j => vs[i] # vs[j]

\* ---------- the decomposer's combination logic on a computation tree ----------
\* a node is [kind |-> "graph", g] | [kind |-> "scalar", s] | [kind |-> "sum"|"prod", kids : sequence of node ids];
\* the meaning of a tree is defined bottom-up; Value of a graph node is Den of the closed diagram (0 indices)
DenClosed(g) == Den(g)[<<>>]

\* ---------- the computation tree of the Decomposer (ComputationNode, decompose.rs:1024-1041, 1155-1399) ----------
\* A tree is [kind |-> "graph", g |-> closed diagram] | [kind |-> "scalar", s |-> ring element]
\*         | [kind |-> "sum",  kids |-> sequence of trees]   (the terms of one decomposition step)
\*         | [kind |-> "prod", kids |-> sequence of trees]   (the connected components of one diagram).
\* decompose_until_depth(k) leaves such a tree behind (reduce_computation = false), decompose / decompose_parallel
\* reduce it: a sum node to the SUM of its children, a product node to their PRODUCT.
TGraph(g) == [kind |-> "graph", g |-> g]
TScalar(s) == [kind |-> "scalar", s |-> s]
RECURSIVE RSumSeq(_)
RSumSeq(s) == IF s = <<>> THEN RZero ELSE RAdd(Head(s), RSumSeq(Tail(s)))
RECURSIVE RProdSeq(_)
RProdSeq(s) == IF s = <<>> THEN ROne ELSE RMul(Head(s), RProdSeq(Tail(s)))
RECURSIVE TreeVal(_)
TreeVal(t) == CASE t.kind = "graph"  -> DenClosed(t.g)
                [] t.kind = "scalar" -> t.s
                [] t.kind = "sum"    -> RSumSeq([i \in 1..Len(t.kids) |-> TreeVal(t.kids[i])])
                [] t.kind = "prod"   -> RProdSeq([i \in 1..Len(t.kids) |-> TreeVal(t.kids[i])])
RECURSIVE TreeHasGraph(_)
TreeHasGraph(t) == CASE t.kind = "graph" -> TRUE [] t.kind = "scalar" -> FALSE
                     [] OTHER -> \E i \in 1..Len(t.kids) : TreeHasGraph(t.kids[i])
RECURSIVE TreeHasProd(_)
TreeHasProd(t) == CASE t.kind \in {"graph", "scalar"} -> FALSE [] t.kind = "prod" -> TRUE
                    [] OTHER -> \E i \in 1..Len(t.kids) : TreeHasProd(t.kids[i])
\* connected components (component_vertices) and the sub-diagram on a vertex set (subgraph_from_vertices: scalar 1,
\* no inputs / outputs); try_decompose_by_components gives the WHOLE scalar of g to the first component
DReach(g, v) ==
  LET RECURSIVE grow(_)
      grow(S) == LET S2 == S \cup UNION {Nbrs(g, u) : u \in S} IN IF S2 = S THEN S ELSE grow(S2)
  IN grow({v})
DComponents(g) == {DReach(g, v) : v \in g.vs}
DSubGraph(g, S) == [g EXCEPT !.vs = S, !.ty = [v \in S |-> g.ty[v]], !.ph = [v \in S |-> g.ph[v]], !.vr = [v \in S |-> g.vr[v]],
                             !.et = [e \in {e \in DOMAIN g.et : e \subseteq S} |-> g.et[e]],
                             !.ins = <<>>, !.outs = <<>>, !.sc = ROne, !.sf = <<>>]
\* the components in a fixed order (least vertex first; the code's order is that of a hash set: any order is allowed,
\* the value of the product does not depend on it), the first one carrying the scalar
SplitKids(g) ==
  LET cs == SetToSortSeq(DComponents(g), LAMBDA A, B : Min(A) < Min(B))
  IN [i \in 1..Len(cs) |-> TGraph(IF i = 1 THEN [DSubGraph(g, cs[i]) EXCEPT !.sc = g.sc] ELSE DSubGraph(g, cs[i]))]
\* one level of decompose_graph on a graph node (no inter-step simplification): a Clifford diagram is finished to its
\* scalar; with splitting on, a diagram with several components becomes a product node; otherwise the chosen
\* decomposition step makes a sum node.  The driver drv is one of three deterministic model drivers: cut / single-
\* decompose the least non-Clifford spider, or pair up the two least ones (what first_ts + TDecomp do below 6 T's).
TsOf(h) == SetToSortSeq({v \in Spiders(h) : ~IsClifford(h.ph[v])}, <)
DrvChoose(drv, h) ==
  LET ts == TsOf(h) IN
  CASE drv = "cut"    -> [kind |-> "SpiderCuttingDecomp", vs |-> <<ts[1]>>]
    [] drv = "single" -> [kind |-> "SingleDecomp", vs |-> <<ts[1]>>]
    [] drv = "ts"     -> [kind |-> "TDecomp", vs |-> SubSeq(ts, 1, IF Len(ts) >= 2 THEN 2 ELSE 1)]
ExpandGraph(g, split, drv) ==
  IF TCount(g) = 0 THEN TScalar(DenClosed(g))
  ELSE IF split /\ Cardinality(DComponents(g)) > 1 THEN [kind |-> "prod", kids |-> SplitKids(g)]
  ELSE LET ts == ApplyDecomp(g, DrvChoose(drv, g)) IN [kind |-> "sum", kids |-> [i \in 1..Len(ts) |-> TGraph(ts[i])]]
\* decompose_until_depth(k): expand every graph node that sits at depth < k (depth counted like current_depth)
RECURSIVE ExpandUntil(_, _, _, _, _)
ExpandUntil(t, depth, k, split, drv) ==
  IF t.kind = "scalar" THEN t
  ELSE IF t.kind = "graph" THEN
    (IF depth = k THEN t ELSE ExpandUntil(ExpandGraph(t.g, split, drv), depth, k, split, drv))
  ELSE [t EXCEPT !.kids = [i \in 1..Len(t.kids) |-> ExpandUntil(t.kids[i], depth + 1, k, split, drv)]]
\* decompose(): reduce a (partially decomposed) tree completely, bottom-up
RECURSIVE ReduceTree(_, _, _)
ReduceTree(t, split, drv) ==
  CASE t.kind = "scalar" -> t.s
    [] t.kind = "graph"  -> ReduceTree(ExpandGraph(t.g, split, drv), split, drv)
    [] t.kind = "sum"    -> RSumSeq([i \in 1..Len(t.kids) |-> ReduceTree(t.kids[i], split, drv)])
    [] t.kind = "prod"   -> RProdSeq([i \in 1..Len(t.kids) |-> ReduceTree(t.kids[i], split, drv)])
\* terms_for_tcount (decompose.rs:34): the BSS bound 7^(t div 6) * 2^((t mod 6) div 2) * (2 if t odd)
RECURSIVE IPow(_, _)
IPow(b, n) == IF n = 0 THEN 1 ELSE b * IPow(b, n - 1)
TermsForTCount(t) == IPow(7, t \div 6) * IPow(2, (t % 6) \div 2) * (IF t % 2 = 1 THEN 2 ELSE 1)
=============================================================================
