//! C04 / C10 (rule layer): for every diagram, every rule and every argument tuple, record
//! what the real matcher says and, when it accepts, what the unchecked rule produces.
//! TLC (mc/Trace_Rules) decides soundness with the specification's denotation.

use crate::absg::{abs, build};
use crate::util::{guarded, Tr};
use quizx::basic_rules::*;
use quizx::graph::*;
use serde_json::{json, Value};

pub const RULES1: &[&str] = &["pi_copy", "remove_id", "color_change", "local_comp", "remove_single"];
pub const RULES2: &[&str] = &[
    "spider_fusion",
    "pivot",
    "gen_pivot",
    "gen_pivot_reduce",
    "boundary_pivot",
    "h_boundary_pivot",
    "boundary_local_comp",
    "gadget_fusion",
    "remove_pair",
    "remove_duplicate",
];

pub fn check<G: GraphLike>(r: &str, g: &G, a: &[V]) -> bool {
    match r {
        "pi_copy" => check_pi_copy(g, a[0]),
        "remove_id" => check_remove_id(g, a[0]),
        "color_change" => check_color_change(g, a[0]),
        "local_comp" => check_local_comp(g, a[0]),
        "remove_single" => check_remove_single(g, a[0]),
        "spider_fusion" => check_spider_fusion(g, a[0], a[1]),
        "pivot" => check_pivot(g, a[0], a[1]),
        "gen_pivot" => check_gen_pivot(g, a[0], a[1]),
        "gen_pivot_reduce" => check_gen_pivot_reduce(g, a[0], a[1]),
        "boundary_pivot" => check_boundary_pivot(g, a[0], a[1]),
        "h_boundary_pivot" => check_h_boundary_pivot(g, a[0], a[1]),
        "boundary_local_comp" => check_boundary_local_comp(g, a[0], a[1]),
        "gadget_fusion" => check_gadget_fusion(g, a[0], a[1]),
        "remove_pair" => check_remove_pair(g, a[0], a[1]),
        "remove_duplicate" => check_remove_duplicate(g, a[0], a[1]),
        _ => panic!("rule {r}"),
    }
}

pub fn unchecked<G: GraphLike>(r: &str, g: &mut G, a: &[V]) {
    match r {
        "pi_copy" => pi_copy_unchecked(g, a[0]),
        "remove_id" => remove_id_unchecked(g, a[0]),
        "color_change" => color_change_unchecked(g, a[0]),
        "local_comp" => local_comp_unchecked(g, a[0]),
        "remove_single" => remove_single_unchecked(g, a[0]),
        "spider_fusion" => spider_fusion_unchecked(g, a[0], a[1]),
        "pivot" => pivot_unchecked(g, a[0], a[1]),
        "gen_pivot" | "gen_pivot_reduce" | "boundary_pivot" | "h_boundary_pivot" => gen_pivot_unchecked(g, a[0], a[1]),
        "boundary_local_comp" => boundary_local_comp_unchecked(g, a[0], a[1]),
        "gadget_fusion" => gadget_fusion_unchecked(g, a[0], a[1]),
        "remove_pair" => remove_pair_unchecked(g, a[0], a[1]),
        "remove_duplicate" => remove_duplicate_unchecked(g, a[0], a[1]),
        _ => panic!("rule {r}"),
    }
}

/// the checked form `X(g, ..) -> bool` (None where the library offers no wrapper)
pub fn checked<G: GraphLike>(r: &str, g: &mut G, a: &[V]) -> Option<bool> {
    Some(match r {
        "pi_copy" => pi_copy(g, a[0]),
        "remove_id" => remove_id(g, a[0]),
        "color_change" => color_change(g, a[0]),
        "local_comp" => local_comp(g, a[0]),
        "remove_single" => remove_single(g, a[0]),
        "spider_fusion" => spider_fusion(g, a[0], a[1]),
        "pivot" => pivot(g, a[0], a[1]),
        "gen_pivot" => gen_pivot(g, a[0], a[1]),
        "boundary_pivot" => boundary_pivot(g, a[0], a[1]),
        "h_boundary_pivot" => h_boundary_pivot(g, a[0], a[1]),
        "boundary_local_comp" => boundary_local_comp(g, a[0], a[1]),
        "gadget_fusion" => gadget_fusion(g, a[0], a[1]),
        "remove_pair" => remove_pair(g, a[0], a[1]),
        "remove_duplicate" => remove_duplicate(g, a[0], a[1]),
        _ => return None,
    })
}

pub struct RuleStats {
    pub tuples: usize,
    pub accepted: usize,
    pub rejected: usize,
    pub per_rule: std::collections::BTreeMap<String, usize>,
}

/// One backend on one diagram: returns (accepted list, try events, rejected count, bad list)
fn run_backend<G: GraphLike + PartialEq>(a: &Value, be: &str, st: &mut RuleStats) -> (Vec<Value>, Vec<Value>, usize, Vec<Value>) {
    let g0: G = build(a);
    let mut names: Vec<V> = g0.vertices().collect();
    names.sort();
    let top = names.last().copied().unwrap_or(0);
    names.push(top + 1);
    names.push(top + 6);
    let mut tuples: Vec<(&str, Vec<V>)> = vec![];
    for r in RULES1 {
        for &x in &names {
            tuples.push((r, vec![x]));
        }
    }
    for r in RULES2 {
        for &x in &names {
            for &y in &names {
                tuples.push((r, vec![x, y]));
            }
        }
    }
    let mut acc = vec![];
    let mut tries = vec![];
    let mut bad = vec![];
    let mut nrej = 0;
    for (r, args) in tuples {
        st.tuples += 1;
        match guarded(|| check(r, &g0, &args)) {
            Err(msg) => {
                tries.push(json!({"k": "try", "be": be, "rule": r, "args": args, "res": "check_panic", "msg": msg}));
            }
            Ok(true) => {
                st.accepted += 1;
                *st.per_rule.entry(r.to_string()).or_insert(0) += 1;
                acc.push(json!([r, args]));
                let mut g1 = g0.clone();
                match guarded(|| unchecked(r, &mut g1, &args)) {
                    Err(msg) => tries.push(json!({"k": "try", "be": be, "rule": r, "args": args, "res": "panic", "msg": msg})),
                    Ok(()) => {
                        let post = abs(&g1);
                        // the checked form must agree with check + unchecked
                        let mut g2 = g0.clone();
                        if let Some(res) = guarded(|| checked(r, &mut g2, &args)).ok().flatten() {
                            if !res || abs(&g2) != post {
                                bad.push(json!([r, args, "checked form disagrees with check+unchecked"]));
                            }
                        }
                        tries.push(json!({"k": "try", "be": be, "rule": r, "args": args, "res": "ok", "post": post}));
                    }
                }
            }
            Ok(false) => {
                st.rejected += 1;
                nrej += 1;
                let mut g2 = g0.clone();
                match guarded(|| checked(r, &mut g2, &args)) {
                    Err(_) => bad.push(json!([r, args, "checked form panicked on rejected arguments"])),
                    Ok(Some(true)) => bad.push(json!([r, args, "checked form returned true after check rejected"])),
                    Ok(Some(false)) => {
                        // PartialEq of the backend compares every stored field: bit-for-bit unchanged
                        if g2 != g0 {
                            bad.push(json!([r, args, "graph changed by rejected rule"]));
                        }
                    }
                    Ok(None) => {}
                }
            }
        }
    }
    (acc, tries, nrej, bad)
}

/// Record one diagram under both backends. Events of the hash backend are only written where
/// they differ from the vector backend's (then both are validated).
pub fn record_diagram(a: &Value, tr: &mut Tr, st: &mut RuleStats) {
    tr.group();
    tr.emit(json!({"k": "reset", "pre": a}));
    let (acc_v, tries_v, rej_v, bad_v) = run_backend::<quizx::vec_graph::Graph>(a, "vec", st);
    let (acc_h, tries_h, rej_h, bad_h) = run_backend::<quizx::hash_graph::Graph>(a, "hash", st);
    tr.emit(json!({"k": "acc", "be": "vec", "set": acc_v}));
    if acc_h != acc_v {
        tr.emit(json!({"k": "acc", "be": "hash", "set": acc_h}));
    }
    let strip = |v: &Value| {
        let mut v = v.clone();
        v["be"] = json!("");
        if v.get("msg").is_some() {
            v["msg"] = json!("");
        }
        v
    };
    let same = tries_v.len() == tries_h.len() && tries_v.iter().zip(tries_h.iter()).all(|(x, y)| strip(x) == strip(y));
    for mut t in tries_v {
        if same {
            t["be"] = json!("both");
        }
        tr.emit(t);
    }
    if !same {
        for t in tries_h {
            tr.emit(t);
        }
    }
    let bad: Vec<Value> = [bad_v, bad_h].concat();
    tr.emit(json!({"k": "rej", "n": rej_v + rej_h, "bad": bad}));
}

// ---------------------------------------------------------------------------------------------
// GENERIC-PHASE tier (`--generic N`, C04 "to floating-point tolerance"): every rule x every argument tuple on diagrams whose
// phases are not multiples of pi/4.  Accepted: the unchecked rule runs on a clone and the harness compares pre and post with
// the float reference evaluator (refeval.rs; 1e-9) and logs the boolean `close` -> Trace_Rules SoundFloat / NoPanic.
// Rejected: the checked form must return false and leave the graph unchanged (PartialEq of the backend AND equality of the
// abs JSON), reported per diagram in `rejf` -> RejectIsNoopFloat.
//   begin {what: "generic", pre}
//   rulef {rule, args, be, res: ok|panic|check_panic, close, approx, changed}
//   rejf  {n, bad: [[rule, args, what], ..]}
// ---------------------------------------------------------------------------------------------

fn run_backend_f<G: GraphLike + PartialEq>(a: &Value, be: &str, pre: &[crate::refeval::C], st: &mut RuleStats) -> (Vec<Value>, usize, Vec<Value>) {
    use crate::refeval::{abs_f, close, den_bits, ref_den};
    let g0: G = crate::refeval::build_f(a);
    let a0 = abs(&g0);
    let mut names: Vec<V> = g0.vertices().collect();
    names.sort();
    let top = names.last().copied().unwrap_or(0);
    names.push(top + 1);
    names.push(top + 6);
    let mut tuples: Vec<(&str, Vec<V>)> = vec![];
    for r in RULES1 {
        for &x in &names {
            tuples.push((r, vec![x]));
        }
    }
    for r in RULES2 {
        for &x in &names {
            for &y in &names {
                tuples.push((r, vec![x, y]));
            }
        }
    }
    let (mut evs, mut bad, mut nrej) = (vec![], vec![], 0usize);
    for (r, args) in tuples {
        st.tuples += 1;
        match guarded(|| check(r, &g0, &args)) {
            Err(msg) => evs.push(json!({"k": "rulef", "be": be, "rule": r, "args": args, "res": "check_panic", "msg": msg})),
            Ok(true) => {
                st.accepted += 1;
                *st.per_rule.entry(r.to_string()).or_insert(0) += 1;
                let mut g1 = g0.clone();
                match guarded(|| unchecked(r, &mut g1, &args)) {
                    Err(msg) => evs.push(json!({"k": "rulef", "be": be, "rule": r, "args": args, "res": "panic", "msg": msg})),
                    Ok(()) => {
                        let post = abs_f(&g1);
                        if den_bits(&post) > crate::refeval::MAX_BITS {
                            evs.push(json!({"k": "rulef", "be": be, "rule": r, "args": args, "res": "toobig"}));
                            continue;
                        }
                        let ok = close(&ref_den(&post), pre, 1e-9);
                        // the checked form must accept too and produce the same diagram (scalar compared as a float)
                        let mut g2 = g0.clone();
                        if let Some(res) = guarded(|| checked(r, &mut g2, &args)).ok().flatten() {
                            if !res || abs(&g2) != abs(&g1) {
                                bad.push(json!([r, args, "checked form disagrees with check+unchecked"]));
                            }
                        }
                        evs.push(json!({"k": "rulef", "be": be, "rule": r, "args": args, "res": "ok", "close": ok,
                                        "approx": crate::absg::sc_is_approx(g1.scalar()), "changed": abs(&g1) != a0}));
                    }
                }
            }
            Ok(false) => {
                st.rejected += 1;
                nrej += 1;
                let mut g2 = g0.clone();
                match guarded(|| checked(r, &mut g2, &args)) {
                    Err(_) => bad.push(json!([r, args, "checked form panicked on rejected arguments"])),
                    Ok(Some(true)) => bad.push(json!([r, args, "checked form returned true after check rejected"])),
                    Ok(Some(false)) => {
                        if g2 != g0 || abs(&g2) != a0 {
                            bad.push(json!([r, args, "graph changed by rejected rule"]));
                        }
                    }
                    Ok(None) => {}
                }
            }
        }
    }
    (evs, nrej, bad)
}

pub fn record_generic_diagram(a: &Value, tr: &mut Tr, st: &mut RuleStats) {
    tr.group();
    tr.emit(json!({"k": "begin", "what": "generic", "pre": a}));
    let pre = crate::refeval::ref_den(a);
    let (ev, rej_v, bad_v) = run_backend_f::<quizx::vec_graph::Graph>(a, "vec", &pre, st);
    let (eh, rej_h, bad_h) = run_backend_f::<quizx::hash_graph::Graph>(a, "hash", &pre, st);
    let strip = |v: &Value| {
        let mut v = v.clone();
        v["be"] = json!("");
        if v.get("msg").is_some() {
            v["msg"] = json!("");
        }
        v
    };
    let same = ev.len() == eh.len() && ev.iter().zip(eh.iter()).all(|(x, y)| strip(x) == strip(y));
    for mut t in ev {
        if same {
            t["be"] = json!("both");
        }
        tr.emit(t);
    }
    if !same {
        for t in eh {
            tr.emit(t);
        }
    }
    let bad: Vec<Value> = [bad_v, bad_h].concat();
    tr.emit(json!({"k": "rejf", "n": rej_v + rej_h, "bad": bad}));
}

pub fn record_generic(n: usize, seed: u64, tr: &mut Tr, st: &mut RuleStats) -> usize {
    let mut r = crate::gens::rng(seed ^ 0x6e7e);
    for i in 0..n {
        let a = crate::gens::generic_diagram(&mut r, i);
        record_generic_diagram(&a, tr, st);
    }
    n
}
