//! qxv — conformance harness binding the TLA+ specification in /verif/spec to zxcalc/quizx.
//!
//!   qxv record <engine> --out <prefix> --shards <n> [engine options]
//!
//! drives the real code (built from /repo's working tree with --cfg zxcalc_quizx_verif) and
//! writes ndjson traces that the trace specifications in /verif/mc validate with TLC.
//! A summary (JSON, one line, prefixed SUMMARY) is printed for the evidence file.

mod absg;
mod eng_rules;
mod gens;
mod util;

use serde_json::json;
use util::*;

fn parse_family(s: &str) -> gens::Family {
    let mut f = gens::Family { k: 2, tys: vec!["Z"], phs: vec![0], ets: vec!["H"], nb: 0, vars: vec![], bb: false };
    for kv in s.split(',') {
        let (k, v) = kv.split_once('=').expect("k=v");
        match k {
            "k" => f.k = v.parse().unwrap(),
            "tys" => f.tys = v.chars().map(|c| if c == 'Z' { "Z" } else { "X" }).collect(),
            "phs" => f.phs = v.chars().map(|c| c.to_digit(10).unwrap() as i64).collect(),
            "ets" => f.ets = v.chars().map(|c| if c == 'N' { "N" } else { "H" }).collect(),
            "nb" => f.nb = v.parse().unwrap(),
            "vars" => f.vars = v.chars().map(|c| c.to_digit(10).unwrap()).collect(),
            "bb" => f.bb = v == "1",
            _ => panic!("family key {k}"),
        }
    }
    f
}

fn parse_rand(s: &str) -> gens::RandCfg {
    let mut c = gens::RandCfg::any_zx();
    for kv in s.split(',') {
        if kv.is_empty() {
            continue;
        }
        let (k, v) = kv.split_once('=').expect("k=v");
        match k {
            "kind" => {
                if v == "gl" {
                    c = gens::RandCfg::graph_like()
                }
            }
            "minsp" => c.min_sp = v.parse().unwrap(),
            "maxsp" => c.max_sp = v.parse().unwrap(),
            "maxb" => c.max_b = v.parse().unwrap(),
            "phs" => c.phs = v.chars().map(|c| c.to_digit(10).unwrap() as i64).collect(),
            "vars" => c.vars = v.chars().map(|c| c.to_digit(10).unwrap()).collect(),
            "pvar" => c.pvar = v.parse().unwrap(),
            "pedge" => c.pedge = v.parse().unwrap(),
            "scalars" => c.scalars = v == "1",
            "gadgets" => c.gadgets = v.parse().unwrap(),
            _ => panic!("rand key {k}"),
        }
    }
    c
}

fn main() {
    let args: Vec<String> = std::env::args().collect();
    install_quiet_panic_hook();
    if args.len() < 3 || args[1] != "record" {
        eprintln!("usage: qxv record <engine> --out <prefix> --shards <n> ...");
        std::process::exit(2);
    }
    let engine = args[2].as_str();
    let out = arg_val(&args, "--out").expect("--out");
    let shards: usize = arg_num(&args, "--shards", 1);
    let seed: u64 = arg_num(&args, "--seed", 1);
    let mut tr = Tr::new(&out, shards);
    let summary = match engine {
        "rules" => {
            let mut st = eng_rules::RuleStats { tuples: 0, accepted: 0, rejected: 0, per_rule: Default::default() };
            let mut diagrams = 0usize;
            let stride: usize = arg_num(&args, "--stride", 1);
            let offset: usize = seed as usize % stride.max(1);
            for fam in args.iter().enumerate().filter(|(_, a)| *a == "--fam").map(|(i, _)| args[i + 1].clone()) {
                let f = parse_family(&fam);
                let mut idx = 0usize;
                gens::enum_family(&f, |a| {
                    if idx % stride == offset {
                        eng_rules::record_diagram(&a, &mut tr, &mut st);
                        diagrams += 1;
                    }
                    idx += 1;
                });
            }
            let nrand: usize = arg_num(&args, "--random", 0);
            if nrand > 0 {
                let cfg = parse_rand(&arg_val(&args, "--rand").unwrap_or_default());
                let mut r = gens::rng(seed);
                for _ in 0..nrand {
                    let a = gens::random_diagram(&mut r, &cfg);
                    eng_rules::record_diagram(&a, &mut tr, &mut st);
                    diagrams += 1;
                }
            }
            json!({"diagrams": diagrams, "tuples": st.tuples, "accepted": st.accepted, "rejected": st.rejected, "per_rule": st.per_rule})
        }
        _ => {
            eprintln!("unknown engine {engine}");
            std::process::exit(2);
        }
    };
    let (groups, lines) = tr.finish();
    println!("SUMMARY {}", json!({"engine": engine, "groups": groups, "lines": lines, "detail": summary}));
}
