fn main() { println!("{:?}", quizx::scalar::Scalar4::one_plus_phase(num::Rational64::new(1,4)).verif_coeffs().map(|d| d.verif_raw())); }
