//! qxv — conformance harness binding the TLA+ specification in /verif/spec to zxcalc/quizx.
//!
//!   qxv record <engine> --out <prefix> --shards <n> [engine options]
//!
//! drives the real code (built from /repo's working tree with --cfg zxcalc_quizx_verif) and
//! writes ndjson traces that the trace specifications in /verif/mc validate with TLC.
//! A summary (JSON, one line, prefixed SUMMARY) is printed for the evidence file.

mod absg;
mod circ;
mod eng_circ;
mod eng_compose;
mod eng_phase;
mod eng_f2;
mod eng_ranktree;
mod eng_webs;
mod eng_backends;
mod eng_scalar;
mod eng_json;
mod eng_qasm;
mod eng_gen;
mod eng_decomp;
mod eng_sim;
mod eng_rules;
mod eng_simp;
mod eng_tensor;
mod gens;
mod refeval;
mod util;

use serde_json::json;
use util::*;

fn parse_family(s: &str) -> gens::Family {
    let mut f = gens::Family { k: 2, tys: vec!["Z"], phs: vec![0], ets: vec!["H"], nb: 0, vars: vec![], bb: false };
    for kv in s.split(',') {
        let (k, v) = kv.split_once('=').expect("k=v");
        match k {
            "k" => f.k = v.parse().unwrap(),
            "tys" => f.tys = v.chars().map(|c| if c == 'Z' { "Z" } else { "X" }).collect(),
            "phs" => f.phs = v.chars().map(|c| c.to_digit(10).unwrap() as i64).collect(),
            "ets" => f.ets = v.chars().map(|c| if c == 'N' { "N" } else { "H" }).collect(),
            "nb" => f.nb = v.parse().unwrap(),
            "vars" => f.vars = v.chars().map(|c| c.to_digit(10).unwrap()).collect(),
            "bb" => f.bb = v == "1",
            _ => panic!("family key {k}"),
        }
    }
    f
}

fn parse_rand(s: &str) -> gens::RandCfg {
    let mut c = gens::RandCfg::any_zx();
    for kv in s.split(',') {
        if kv.is_empty() {
            continue;
        }
        let (k, v) = kv.split_once('=').expect("k=v");
        match k {
            "kind" => {
                if v == "gl" {
                    c = gens::RandCfg::graph_like()
                }
            }
            "minsp" => c.min_sp = v.parse().unwrap(),
            "maxsp" => c.max_sp = v.parse().unwrap(),
            "maxb" => c.max_b = v.parse().unwrap(),
            "phs" => c.phs = v.chars().map(|c| c.to_digit(10).unwrap() as i64).collect(),
            "vars" => c.vars = v.chars().map(|c| c.to_digit(10).unwrap()).collect(),
            "pvar" => c.pvar = v.parse().unwrap(),
            "pedge" => c.pedge = v.parse().unwrap(),
            "scalars" => c.scalars = v == "1",
            "gadgets" => c.gadgets = v.parse().unwrap(),
            _ => panic!("rand key {k}"),
        }
    }
    c
}

fn main() {
    let args: Vec<String> = std::env::args().collect();
    install_quiet_panic_hook();
    if args.len() < 3 || args[1] != "record" {
        eprintln!("usage: qxv record <engine> --out <prefix> --shards <n> ...");
        std::process::exit(2);
    }
    let engine = args[2].as_str();
    let out = arg_val(&args, "--out").expect("--out");
    let shards: usize = arg_num(&args, "--shards", 1);
    let seed: u64 = arg_num(&args, "--seed", 1);
    let mut tr = Tr::new(&out, shards);
    let summary = match engine {
        "rules" => {
            let mut st = eng_rules::RuleStats { tuples: 0, accepted: 0, rejected: 0, per_rule: Default::default() };
            let mut diagrams = 0usize;
            let stride: usize = arg_num(&args, "--stride", 1);
            let offset: usize = seed as usize % stride.max(1);
            for fam in args.iter().enumerate().filter(|(_, a)| *a == "--fam").map(|(i, _)| args[i + 1].clone()) {
                let f = parse_family(&fam);
                let mut idx = 0usize;
                gens::enum_family(&f, |a| {
                    if idx % stride == offset {
                        eng_rules::record_diagram(&a, &mut tr, &mut st);
                        diagrams += 1;
                    }
                    idx += 1;
                });
            }
            let nrand: usize = arg_num(&args, "--random", 0);
            if nrand > 0 {
                let cfg = parse_rand(&arg_val(&args, "--rand").unwrap_or_default());
                let mut r = gens::rng(seed);
                for _ in 0..nrand {
                    let a = gens::random_diagram(&mut r, &cfg);
                    eng_rules::record_diagram(&a, &mut tr, &mut st);
                    diagrams += 1;
                }
            }
            // --generic N: phases that are not multiples of pi/4 (float reference evaluator, events rulef / rejf)
            let generic = eng_rules::record_generic(arg_num(&args, "--generic", 0), seed, &mut tr, &mut st);
            json!({"diagrams": diagrams, "generic": generic, "tuples": st.tuples, "accepted": st.accepted, "rejected": st.rejected, "per_rule": st.per_rule})
        }
        "tensor" => {
            // --ref: headers carry the float reference evaluator's tensor (Trace_Tensor!RefEvalOK); --generic N: generic phases
            eng_tensor::set_ref(arg_flag(&args, "--ref"));
            let mut diagrams = 0usize;
            let stride: usize = arg_num(&args, "--stride", 1);
            let offset: usize = seed as usize % stride.max(1);
            for fam in args.iter().enumerate().filter(|(_, a)| *a == "--fam").map(|(i, _)| args[i + 1].clone()) {
                let f = parse_family(&fam);
                let mut idx = 0usize;
                gens::enum_family(&f, |a| {
                    if idx % stride == offset {
                        eng_tensor::record_diagram(&a, &mut tr);
                        diagrams += 1;
                    }
                    idx += 1;
                });
            }
            let nrand: usize = arg_num(&args, "--random", 0);
            if nrand > 0 {
                let cfg = parse_rand(&arg_val(&args, "--rand").unwrap_or_default());
                let mut r = gens::rng(seed);
                for _ in 0..nrand {
                    let a = gens::random_diagram(&mut r, &cfg);
                    eng_tensor::record_diagram(&a, &mut tr);
                    diagrams += 1;
                }
            }
            // circuits the circuit evaluator supports
            let mut ncirc = 0usize;
            let al = circ::Alphabet { pp: false, ..circ::Alphabet::unitary() };
            for e in args.iter().enumerate().filter(|(_, a)| *a == "--enum").map(|(i, _)| args[i + 1].clone()) {
                let p: Vec<&str> = e.split(',').collect();
                let (n, maxlen) = (p[0].parse::<usize>().unwrap(), p[1].parse::<usize>().unwrap());
                let mut al2 = al.clone();
                if p.len() > 2 && p[2] == "small" {
                    al2.oneq = vec!["S", "T", "NOT", "HAD"];
                    al2.phs = vec![3];
                }
                let mut idx = 0usize;
                circ::enum_circuits(n, maxlen, &al2, &mut |gs| {
                    if idx % stride == offset {
                        eng_tensor::record_circuit(&circ::ag_json(n, gs), &mut tr);
                        ncirc += 1;
                    }
                    idx += 1;
                });
            }
            let nrc: usize = arg_num(&args, "--random-circuits", 0);
            let mut r = gens::rng(seed ^ 0xc1c);
            use rand::Rng;
            for _ in 0..nrc {
                let n = r.random_range(1..=3usize);
                let len = r.random_range(0..=8usize);
                let mut al2 = al.clone();
                if n < 3 { al2.threeq = vec![]; }
                if n < 2 { al2.twoq = vec![]; }
                let gs = circ::random_circuit(&mut r, n, len, &al2);
                eng_tensor::record_circuit(&circ::ag_json(n, &gs), &mut tr);
                ncirc += 1;
            }
            let ncmp = if arg_flag(&args, "--compare") { eng_tensor::record_compare(&mut tr) } else { 0 };
            let extra = eng_tensor::record_extra(&args, seed, &mut tr);
            let generic = eng_tensor::record_generic(arg_num(&args, "--generic", 0), seed, &mut tr);
            json!({"diagrams": diagrams, "circuits": ncirc, "comparisons": ncmp, "extra": extra, "generic": generic})
        }
        "compose" => {
            // pairs (g, h) drawn from the union of: the listed families, the wire-only diagrams, random diagrams
            let mut pool: Vec<serde_json::Value> = vec![];
            if arg_flag(&args, "--wires") {
                pool.extend(eng_compose::wire_diagrams());
            }
            for fam in args.iter().enumerate().filter(|(_, a)| *a == "--fam").map(|(i, _)| args[i + 1].clone()) {
                gens::enum_family(&parse_family(&fam), |a| pool.push(a));
            }
            let nrand: usize = arg_num(&args, "--random", 0);
            let cfg = parse_rand(&arg_val(&args, "--rand").unwrap_or_default());
            let mut r = gens::rng(seed);
            for _ in 0..nrand {
                pool.push(gens::random_diagram(&mut r, &cfg));
            }
            if arg_flag(&args, "--sf") {
                // conditional scalar factors over the variables of the --rand configuration (default 0,1,2) on every pool diagram
                let vars = if cfg.vars.is_empty() { vec![0, 1, 2] } else { cfg.vars.clone() };
                for a in pool.iter_mut() {
                    eng_compose::decorate_sf(a, &mut r, &vars);
                }
            }
            let npairs: usize = arg_num(&args, "--pairs", 100);
            use rand::Rng;
            let mut done = 0usize;
            if arg_flag(&args, "--allpairs") {
                for g in &pool {
                    for h in &pool {
                        if g["outs"].as_array().unwrap().len() == h["ins"].as_array().unwrap().len() {
                            eng_compose::record_pair(g, h, &mut tr, seed + done as u64);
                            done += 1;
                        }
                    }
                }
            } else {
                let mut tries = 0;
                while done < npairs && tries < 200 * npairs {
                    tries += 1;
                    let g = &pool[r.random_range(0..pool.len())];
                    let h = &pool[r.random_range(0..pool.len())];
                    // composable pairs preferred; one in five arbitrary (append / single-diagram operations only)
                    if g["outs"].as_array().unwrap().len() == h["ins"].as_array().unwrap().len() || tries % 5 == 0 {
                        eng_compose::record_pair(g, h, &mut tr, seed + done as u64);
                        done += 1;
                    }
                }
            }
            json!({"pool": pool.len(), "pairs": done})
        }
        "simp" => {
            // --steps: hook H3, one event per rule application (mc/Trace_Simp.tla, rbegin / rstep / rend)
            let steps = arg_flag(&args, "--steps");
            let mut counts = Default::default();
            let mut diagrams = 0usize;
            let stride: usize = arg_num(&args, "--stride", 1);
            let offset: usize = seed as usize % stride.max(1);
            let fns: Vec<&'static str> = match arg_val(&args, "--fns") {
                Some(l) => eng_simp::SIMPS.iter().copied().filter(|s| l.split(',').any(|x| x == *s)).collect(),
                None => eng_simp::SIMPS.to_vec(),
            };
            for fam in args.iter().enumerate().filter(|(_, a)| *a == "--fam").map(|(i, _)| args[i + 1].clone()) {
                let f = parse_family(&fam);
                let mut idx = 0usize;
                gens::enum_family(&f, |a| {
                    if idx % stride == offset {
                        if steps {
                            eng_simp::record_steps(&a, &mut tr, &fns, idx);
                        } else {
                            eng_simp::record_diagram(&a, &mut tr, &fns, &mut counts);
                        }
                        diagrams += 1;
                    }
                    idx += 1;
                });
            }
            let nrand: usize = arg_num(&args, "--random", 0);
            if nrand > 0 {
                let cfg = parse_rand(&arg_val(&args, "--rand").unwrap_or_default());
                let mut r = gens::rng(seed);
                for i in 0..nrand {
                    let a = gens::random_diagram(&mut r, &cfg);
                    if steps {
                        eng_simp::record_steps(&a, &mut tr, &fns, i);
                    } else {
                        eng_simp::record_diagram(&a, &mut tr, &fns, &mut counts);
                    }
                    diagrams += 1;
                }
            }
            // --generic N: phases that are not multiples of pi/4 (float reference evaluator, event simpf)
            let generic = eng_simp::record_generic(arg_num(&args, "--generic", 0), seed, &mut tr, &fns);
            json!({"diagrams": diagrams, "generic": generic, "changed_by": counts})
        }
        "tograph" | "circops" | "eqcheck" | "extract" | "xsteps" => {
            // --enum n,maxlen,<alphabet>   exhaustive;  --random N --nq a..b --len a..b   seeded random
            let mut ncirc = 0usize;
            let modes: Vec<&str> = vec!["plain", "simp", "postsel", "simp_postsel"];
            let al_of = |s: &str| match s {
                "all" => circ::Alphabet::all(),
                "unitary" => circ::Alphabet::unitary(),
                "small" => circ::Alphabet { oneq: vec!["S", "T", "NOT", "HAD"], phs: vec![3], threeq: vec![], ..circ::Alphabet::all() },
                "small_unitary" => circ::Alphabet { oneq: vec!["S", "T", "NOT", "HAD"], phs: vec![3], ..circ::Alphabet::unitary() },
                "ct" => circ::Alphabet { oneq: vec!["T", "HAD", "S"], twoq: vec!["CNOT", "CZ"], special: vec![], threeq: vec![], phs: vec![], pp: false },
                "cth" => circ::Alphabet { oneq: vec!["T", "HAD"], twoq: vec!["CNOT"], special: vec![], threeq: vec![], phs: vec![], pp: false },
                "ccz" => circ::Alphabet { oneq: vec!["T", "HAD"], twoq: vec!["CNOT", "SWAP"], phs: vec![], pp: false, special: vec!["PostSelect"], threeq: vec!["CCZ", "TOFF"] },
                _ => panic!("alphabet"),
            };
            let stride: usize = arg_num(&args, "--stride", 1);
            let offset: usize = seed as usize % stride.max(1);
            let mut r = gens::rng(seed ^ 0x5eed);
            let mut prev = circ::ag_json(1, &[]);
            let mut r2 = gens::rng(seed ^ 0xe9);
            let al_eq = circ::Alphabet { pp: false, ..circ::Alphabet::unitary() };
            let clidir = format!("{out}_cli");
            if engine == "extract" {
                std::fs::create_dir_all(&clidir).unwrap();
            }
            let qbin = arg_val(&args, "--quizx-bin").unwrap_or_default();
            let cli_every: usize = arg_num(&args, "--cli-every", 0);
            let thorough = arg_flag(&args, "--thorough");
            // tograph: --vars (explicit outcome variables on measure / measure-reset, also through QASM `measure` statements),
            //          --meas-boost (1..3 further measurements in every random circuit),
            //          --direct-every K (Gate::add_to_graph driven by the caller), --unknown-every K (UnknownGate inside a circuit)
            let with_vars = arg_flag(&args, "--vars");
            let meas_boost = arg_flag(&args, "--meas-boost");
            let direct_every: usize = arg_num(&args, "--direct-every", 0);
            let unknown_every: usize = arg_num(&args, "--unknown-every", 0);
            // eqcheck: --graphs-every K (graph entry points on diagrams not produced by to_graph)
            let graphs_every: usize = arg_num(&args, "--graphs-every", 0);
            let mut r3 = gens::rng(seed ^ 0x7a9);
            let mut count = 0usize;
            let mut handle = |cj: serde_json::Value, tr: &mut Tr| {
                count += 1;
                if engine == "tograph" {
                    use rand::Rng;
                    eng_circ::record_tograph(&cj, tr, &modes);
                    if with_vars {
                        if let Some(cv) = circ::with_measure_vars(&cj, circ::VAR_SCHEMES[count % circ::VAR_SCHEMES.len()], &mut r3) {
                            eng_circ::record_tograph(&cv, tr, &modes);
                            if direct_every > 0 && count % direct_every == 0 {
                                eng_circ::record_tograph_direct(&cv, tr, &mut r3);
                            }
                        }
                        // the same through QASM text: every measurement a `measure q[i] -> c[j];` statement
                        if let Some(cq) = circ::with_measure_vars(&cj, ["same", "distinct"][count % 2], &mut r3) {
                            eng_circ::record_tograph_qasm(&cq, tr, &modes);
                        }
                    }
                    if direct_every > 0 && count % direct_every == 0 {
                        eng_circ::record_tograph_direct(&cj, tr, &mut r3);
                    }
                    if unknown_every > 0 && count % unknown_every == 0 {
                        let mut cu = cj.clone();
                        let n = cu["n"].as_u64().unwrap() as usize;
                        let gs = cu["gates"].as_array_mut().unwrap();
                        let at = r3.random_range(0..=gs.len());
                        let qs: Vec<usize> = if count % 3 == 0 { vec![] } else { vec![r3.random_range(0..n)] };
                        gs.insert(at, json!({"t": "UnknownGate", "qs": qs, "ph": [1, 4], "vars": []}));
                        eng_circ::record_tograph(&cu, tr, &modes);
                    }
                } else if engine == "xsteps" {
                    eng_circ::record_xsteps(&cj, tr, thorough, count);
                } else if engine == "extract" {
                    eng_circ::record_extract(&cj, tr, thorough);
                    // the CLI reads QASM, and the QASM front end does not declare the pyzx-specific `pp` gate
                    let has_pp = cj["gates"].as_array().unwrap().iter().any(|g| g["t"] == "ParityPhase");
                    if cli_every > 0 && count % cli_every == 0 && !qbin.is_empty() && !has_pp {
                        eng_circ::record_cli_opt(&cj, tr, &qbin, &clidir, count);
                    }
                } else if engine == "eqcheck" {
                    let n = cj["n"].as_u64().unwrap() as usize;
                    let gs: Vec<circ::AG> = cj["gates"].as_array().unwrap().iter().map(|g| circ::AG {
                        t: circ::Alphabet::all().gates(3).iter().map(|x| x.t).chain(["ParityPhase"]).find(|t| *t == g["t"].as_str().unwrap()).unwrap(),
                        qs: g["qs"].as_array().unwrap().iter().map(|x| x.as_u64().unwrap() as usize).collect(),
                        ph: { let p = &g["ph"]; (p[0].as_i64().unwrap() * 4 / p[1].as_i64().unwrap()).rem_euclid(8) },
                    }).collect();
                    // independent pair with the previous circuit, then the constructed variants
                    if prev["n"] == cj["n"] {
                        eng_circ::record_eq_pair(&prev, &cj, "independent", tr);
                    }
                    for (vi, (n2, gs2, how)) in eng_circ::eq_variants(n, &gs, &mut r2, &al_eq).into_iter().enumerate() {
                        let c2j = circ::ag_json(n2, &gs2);
                        eng_circ::record_eq_pair(&cj, &c2j, how, tr);
                        if graphs_every > 0 && (count + vi) % graphs_every == 0 {
                            let k = count + 3 * vi;
                            eng_circ::record_eq_graphs(&cj, &c2j, how, eng_circ::EQ_ROUTES[k % 8], eng_circ::EQ_ROUTES[(k / 8 + vi) % 8], tr);
                        }
                    }
                    if let Some(c2) = eng_circ::reextract(&cj) {
                        eng_circ::record_eq_pair(&cj, &c2, "reextract", tr);
                    }
                    // global phases e^{i pi n/d} that are not multiples of pi/4 (float scalars), both argument orders
                    if n >= 1 && count % 3 == 0 {
                        const GP: [(i64, i64); 10] = [(1, 3), (-1, 3), (2, 3), (-2, 3), (1, 5), (-3, 5), (3, 8), (-5, 8), (1, 7), (-6, 7)];
                        for j in 0..2 {
                            let (pn, pd) = GP[(count / 3 * 2 + j) % GP.len()];
                            eng_circ::record_eq_generic(&cj, (count + j) % n, pn, pd, j == 0, tr);
                            eng_circ::record_eq_generic(&cj, (count + j) % n, pn, pd, j != 0, tr);
                        }
                    }
                    prev = cj;
                } else {
                    let rhs = if prev["n"] == cj["n"] { prev.clone() } else { cj.clone() };
                    eng_circ::record_ops(&cj, &rhs, tr);
                    prev = cj;
                }
            };
            // eqcheck --nonunitary N: N circuits with ancilla initialisation / post-selection (maps n -> m, m != n in general), each paired
            // with itself, with a copy extended by a cancelling pair on a qubit that is still open, and with the previous such circuit
            let nonunitary: usize = arg_num(&args, "--nonunitary", 0);
            if engine == "eqcheck" && nonunitary > 0 {
                use rand::Rng;
                let mut rn = gens::rng(seed ^ 0x2017);
                let al_n = circ::Alphabet { special: vec!["InitAncilla", "PostSelect"], pp: false, threeq: vec![], ..circ::Alphabet::unitary() };
                let mut prevn: Option<serde_json::Value> = None;
                let mut made = 0usize;
                while made < nonunitary {
                    let n = rn.random_range(1..=3usize);
                    let len = rn.random_range(1..=6usize);
                    let gs = circ::random_circuit(&mut rn, n, len, &al_n);
                    if !gs.iter().any(|g| g.t == "InitAncilla" || g.t == "PostSelect") {
                        continue;
                    }
                    made += 1;
                    ncirc += 1;
                    let cj = circ::ag_json(n, &gs);
                    eng_circ::record_eq_pair_n(&cj, &cj.clone(), "same", &mut tr);
                    // a cancelling pair appended on a qubit that no post-selection has removed
                    let open: Vec<usize> = (0..n).filter(|q| !gs.iter().any(|g| g.t == "PostSelect" && g.qs[0] == *q)).collect();
                    if !open.is_empty() {
                        let q = open[rn.random_range(0..open.len())];
                        let mut gs2 = gs.clone();
                        let (a, b) = [("S", "Sdg"), ("HAD", "HAD"), ("T", "Tdg"), ("NOT", "NOT")][rn.random_range(0..4)];
                        gs2.push(circ::AG { t: a, qs: vec![q], ph: 0 });
                        gs2.push(circ::AG { t: b, qs: vec![q], ph: 0 });
                        eng_circ::record_eq_pair_n(&cj, &circ::ag_json(n, &gs2), "cancelling", &mut tr);
                        let mut gs3 = gs.clone();
                        gs3.push(circ::AG { t: "T", qs: vec![q], ph: 0 });
                        eng_circ::record_eq_pair_n(&circ::ag_json(n, &gs3), &cj, "one_more_gate", &mut tr);
                    }
                    if let Some(p) = &prevn {
                        eng_circ::record_eq_pair_n(p, &cj, "independent", &mut tr);
                    }
                    prevn = Some(cj);
                }
            }
            for e in args.iter().enumerate().filter(|(_, a)| *a == "--enum").map(|(i, _)| args[i + 1].clone()) {
                let p: Vec<&str> = e.split(',').collect();
                let (n, maxlen, al) = (p[0].parse::<usize>().unwrap(), p[1].parse::<usize>().unwrap(), al_of(p[2]));
                let mut idx = 0usize;
                circ::enum_circuits(n, maxlen, &al, &mut |gs| {
                    if idx % stride == offset {
                        handle(circ::ag_json(n, gs), &mut tr);
                        ncirc += 1;
                    }
                    idx += 1;
                });
            }
            let nrand: usize = arg_num(&args, "--random", 0);
            let al = al_of(&arg_val(&args, "--alphabet").unwrap_or("all".into()));
            let maxq: usize = arg_num(&args, "--maxq", 3);
            let maxlen: usize = arg_num(&args, "--maxlen", 8);
            let minlen: usize = arg_num(&args, "--minlen", 0);
            let minq: usize = arg_num(&args, "--minq", 1);
            use rand::Rng;
            for _ in 0..nrand {
                let n = r.random_range(minq..=maxq);
                let len = r.random_range(minlen..=maxlen);
                let mut al2 = al.clone();
                if n < 3 {
                    al2.threeq = vec![];
                }
                if n < 2 {
                    al2.twoq = vec![];
                    al2.pp = false;
                }
                let mut gs = circ::random_circuit(&mut r, n, len, &al2);
                if meas_boost {
                    circ::add_measurements(&mut gs, n, &mut r);
                }
                handle(circ::ag_json(n, &gs), &mut tr);
                ncirc += 1;
            }
            // --anc-layouts K (seed C02_e): K circuits on 3..=maxq(>=3) qubits that START with ancilla initialisations on a random
            // non-empty proper subset of the qubits in a random order (so that an ancilla sits in front of several still-open inputs),
            // continue with a unitary body and END with post-selections on a random subset in a random order: the order of the
            // remaining inputs / outputs of the diagram is then observable in the denoted map
            let nanc: usize = arg_num(&args, "--anc-layouts", 0);
            for _ in 0..nanc {
                let n = r.random_range(3..=maxq.max(3));
                let mut qs: Vec<usize> = (0..n).collect();
                for i in (1..qs.len()).rev() {
                    qs.swap(i, r.random_range(0..=i));
                }
                let k = r.random_range(1..n);
                let mut gs: Vec<circ::AG> = qs[..k].iter().map(|&q| circ::AG { t: "InitAncilla", qs: vec![q], ph: 0 }).collect();
                let blen = r.random_range(2..=6usize);
                let body = circ::random_circuit(&mut r, n, blen, &circ::Alphabet { pp: false, threeq: vec![], ..circ::Alphabet::unitary() });
                gs.extend(body);
                for i in (1..qs.len()).rev() {
                    qs.swap(i, r.random_range(0..=i));
                }
                let kp = r.random_range(0..n);
                gs.extend(qs[..kp].iter().map(|&q| circ::AG { t: "PostSelect", qs: vec![q], ph: 0 }));
                handle(circ::ag_json(n, &gs), &mut tr);
                ncirc += 1;
            }
            // --generic N (tograph, extract): circuits with rz / rx / parity-phase angles that are not multiples of pi/4
            let ngen: usize = arg_num(&args, "--generic", 0);
            let generic = if ngen > 0 && (engine == "tograph" || engine == "extract") { eng_circ::record_generic(engine, ngen, seed, &mut tr) } else { 0 };
            json!({"circuits": ncirc, "generic": generic})
        }
        // the harness's enumeration of a diagram family, one `member` event each (bin/vlib.py family_agreement compares the
        // set with the one TLC prints from mc/MC_Family.tla)
        "family" => {
            let mut n = 0usize;
            for fam in args.iter().enumerate().filter(|(_, a)| *a == "--fam").map(|(i, _)| args[i + 1].clone()) {
                let f = parse_family(&fam);
                gens::enum_family(&f, |a| {
                    tr.group();
                    tr.emit(json!({"k": "member", "g": a}));
                    n += 1;
                });
            }
            json!({"members": n})
        }
        // the harness's enumeration of a circuit family (bin/vlib.py circuit_family_agreement compares it with mc/MC_CircFamily.tla)
        "circfamily" => {
            let mut n = 0usize;
            for e in args.iter().enumerate().filter(|(_, a)| *a == "--enum").map(|(i, _)| args[i + 1].clone()) {
                let p: Vec<&str> = e.split(',').collect();
                let (nq, maxlen) = (p[0].parse::<usize>().unwrap(), p[1].parse::<usize>().unwrap());
                let al = match p[2] {
                    "all" => circ::Alphabet::all(),
                    "unitary" => circ::Alphabet::unitary(),
                    "small" => circ::Alphabet { oneq: vec!["S", "T", "NOT", "HAD"], phs: vec![3], threeq: vec![], ..circ::Alphabet::all() },
                    _ => panic!("alphabet"),
                };
                circ::enum_circuits(nq, maxlen, &al, &mut |gs| {
                    tr.group();
                    tr.emit(json!({"k": "member", "c": circ::ag_json(nq, gs)}));
                    n += 1;
                });
            }
            json!({"members": n})
        }
        "phase" => eng_phase::record(&args, seed, &mut tr),
        "f2" => eng_f2::record(&args, seed, &mut tr),
        "ranktree" => eng_ranktree::record(&args, seed, &mut tr),
        "webs" => eng_webs::record(&args, seed, &mut tr),
        "backends" => eng_backends::record(&args, seed, &mut tr),
        "scalar" => eng_scalar::record(&args, seed, &mut tr),
        "json" => eng_json::record(&args, seed, &mut tr),
        "qasm" => eng_qasm::record(&args, seed, &mut tr),
        "gen" => eng_gen::record(&args, seed, &mut tr),
        "decomp" => eng_decomp::record(&args, seed, &mut tr),
        "sim" => eng_sim::record(&args, seed, &mut tr),
        _ => {
            eprintln!("unknown engine {engine}");
            std::process::exit(2);
        }
    };
    let (groups, lines) = tr.finish();
    println!("SUMMARY {}", json!({"engine": engine, "groups": groups, "lines": lines, "detail": summary}));
}
