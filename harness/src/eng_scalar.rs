//! C07: seeded random expression histories on registers of Dyadic and Scalar4 values; every
//! operation is logged with the raw stored parts (sign, 64-bit mantissa as base-2^15 limbs,
//! exponent, approx flag) of its result.  TLC (mc/Trace_Scalar) recomputes the exact value of
//! every register with arbitrary-precision arithmetic written in TLA+ (spec/BigNat, spec/Dyadic)
//! and evaluates the property's predicates.
//!
//! API forms: every binary operation is computed through one of its overloads in turn (`form`: owned / reference
//! operands, `+=`-style assign forms, `Sum` / `Product`) AND through the owned form (`own`); TLC demands the two to be
//! equal bit for bit (VariantOK) on top of the exact-ghost predicates.  The approx flag is also read / written through
//! the public accessors (`approx()`, `set_approx()`), complex conversion runs through both `TryFrom` impls, and
//! every sixth history works at the edge of the exponent range in which doubles exist (|log2| around 820).

use crate::util::{arg_num, guarded, Tr};
use approx::AbsDiffEq;
use num::complex::Complex;
use num::{Float, One, Rational64, Zero};
use quizx::phase::Phase;
use quizx::scalar::{Dyadic, FromPhase, Scalar4, Sqrt2};
use rand::rngs::StdRng;
use rand::Rng;
use serde_json::{json, Value};
use std::cmp::Ordering;

fn limbs(mut m: u64) -> Vec<u64> {
    let mut out = vec![];
    while m > 0 {
        out.push(m & 0x7fff);
        m >>= 15;
    }
    out
}
fn raw(d: &Dyadic) -> Value {
    let (neg, m, e, ap) = d.verif_raw();
    json!({"neg": neg, "m": limbs(m), "e": e, "ap": ap})
}
fn raw4(s: &Scalar4) -> Value {
    Value::Array(s.verif_coeffs().iter().map(raw).collect())
}
fn int_json(v: i64) -> Value {
    json!({"neg": v < 0, "m": limbs(v.unsigned_abs())})
}
/// a finite double as exact sign / mantissa / exponent; "fin": false for NaN and infinities
fn f64_json(f: f64) -> Value {
    if !f.is_finite() {
        return json!({"fin": false, "neg": false, "m": [], "e": 0});
    }
    let (m, e, s) = f.integer_decode();
    json!({"fin": true, "neg": s < 0, "m": limbs(m), "e": e})
}

fn interesting_i64(r: &mut StdRng) -> i64 {
    match r.random_range(0..10) {
        0 => 0,
        1 => 1,
        2 => -1,
        3 => i64::MAX,
        4 => (1i64 << 32) - 1,
        5 => (1i64 << 32) + 1,
        6 => -((1i64 << 62) + 1),
        7 => r.random_range(-1000..1000),
        8 => 1i64 << r.random_range(0..62),
        _ => r.random::<i64>() >> r.random_range(0..40),
    }
}
thread_local! {
    /// set when interesting_f64 handed out a constant from the ends of the format: the register that receives it must not
    /// be multiplied further (exact ghosts of products of 2^+-1000 values take TLC minutes), sums and comparisons are fine
    static WIDE: std::cell::Cell<bool> = const { std::cell::Cell::new(false) };
}
fn wide_taken() -> bool {
    WIDE.with(|w| w.replace(false))
}
fn interesting_f64(r: &mut StdRng) -> f64 {
    let f = interesting_f64_inner(r);
    if f != 0.0 && !(1e-200..1e200).contains(&f.abs()) {
        WIDE.with(|w| w.set(true));
    }
    f
}
fn interesting_f64_inner(r: &mut StdRng) -> f64 {
    // "arbitrary f64 constants ... exponents spanning the whole supported range": the ends of the format too (seed C07_e:
    // subnormal doubles carry their leading one anywhere in the 52-bit field), any finite bit pattern, signed zero
    match r.random_range(0..12) {
        9 => {
            let m = f64::from_bits(r.random_range(1..(1u64 << 52)) >> r.random_range(0..52));
            if r.random_bool(0.5) { -m } else { m }
        }
        10 => [f64::MIN_POSITIVE, f64::MAX, -0.0, f64::EPSILON, f64::from_bits(1), 1e-322, f64::MIN_POSITIVE * 1.5, -f64::MIN_POSITIVE / 2.0, f64::MIN][r.random_range(0..9)],
        11 => {
            let f = f64::from_bits(r.random::<u64>());
            if f.is_finite() { f } else { 1.0 }
        }
        0 => 0.7,
        1 => 0.9,
        2 => 0.0,
        3 => -55.13,
        4 => 13e-60,
        5 => 1.0 / 3.0,
        6 => (r.random::<f64>() - 0.5) * 2f64.powi(r.random_range(-60..60)),
        7 => -(r.random::<f64>()),
        _ => r.random::<f64>(),
    }
}

fn dyadic_history(r: &mut StdRng, tr: &mut Tr, len: usize, extreme: Option<i32>) -> usize {
    const NR: usize = 6;
    // products of values near 2^+-820 leave the range of doubles after one step and make the exact ghosts wide: in
    // such histories at most two multiplications lie behind a register
    let maxdepth = if extreme.is_some() { 2 } else { 6 };
    let mut regs: Vec<Dyadic> = vec![Dyadic::zero(); NR];
    // number of multiplications behind each register: the exact ghost value TLC carries grows by 64 bits per
    // multiplication, so deep products are replaced by sums to keep validation linear
    let mut depth: Vec<usize> = vec![0; NR];
    tr.group();
    tr.emit(json!({"k": "begin", "machine": "dyadic", "regs": NR, "extreme": extreme.unwrap_or(0)}));
    let mut n = 0;
    // every third history starts with full-width mantissas: (2^32 - 1)(2^32 + 1) = 2^64 - 1 in register 1,
    // small exact integers next to it, so that additions carry out of the 64-bit mantissa
    let directed = r.random_range(0..3) == 0;
    let mut last_t = 0usize;
    wide_taken();
    for step in 0..len {
        let (mut a, mut b, mut t) = (r.random_range(0..NR), r.random_range(0..NR), r.random_range(0..NR));
        let mut c = if step < NR { 0 } else { r.random_range(0..116) };
        let mut forced: Option<(i64, i32)> = None;
        if directed {
            match step {
                0 => forced = Some(((1i64 << 32) - 1, 0)),
                1 => forced = Some(((1i64 << 32) + 1, 0)),
                2 => forced = Some((1, r.random_range(-2..3))),
                3 => {
                    (a, b, t, c) = (0, 1, 0, 50);
                }
                4 | 5 => {
                    (a, b, t, c) = (0, 2, step - 1, 50);
                }
                _ => {}
            }
            if forced.is_some() {
                (t, c) = (step, 0);
            }
        }
        if wide_taken() {
            depth[last_t] = maxdepth;
        }
        last_t = t;
        let ev = if c < 14 {
            let (v, e) = forced.unwrap_or((interesting_i64(r), match extreme {
                Some(x) => x + r.random_range(-20..20),
                None if r.random_bool(0.15) => 0,
                None => r.random_range(-90..90),
            }));
            // From<i64> is Dyadic::new(v, 0)
            let via = if e == 0 && r.random_bool(0.5) { "from_i64" } else { "new" };
            match guarded(|| if via == "new" { Dyadic::new(v, e) } else { Dyadic::from(v) }) {
                Ok(d) => {
                    regs[t] = d;
                    depth[t] = 0;
                    json!({"k": "d", "op": "new", "via": via, "v": int_json(v), "exp": e, "r": t + 1, "res": "ok", "out": raw(&d)})
                }
                Err(m) => json!({"k": "d", "op": "new", "via": via, "v": int_json(v), "exp": e, "r": t + 1, "res": "panic", "msg": m}),
            }
        } else if c < 22 {
            let f = interesting_f64(r);
            let d = Dyadic::from(f);
            regs[t] = d;
            depth[t] = 0;
            json!({"k": "d", "op": "from_f64", "f": f64_json(f), "r": t + 1, "res": "ok", "out": raw(&d)})
        } else if c < 62 {
            let mut op = if directed && step == 3 { "mul" } else if directed && (step == 4 || step == 5) { "add" } else { ["add", "sub", "mul"][r.random_range(0..3)] };
            if op == "mul" && depth[a] + depth[b] + 1 > maxdepth {
                op = "add";
            }
            depth[t] = if op == "mul" { depth[a] + depth[b] + 1 } else { depth[a].max(depth[b]) };
            let (x, y) = (regs[a], regs[b]);
            // the operator itself or its assign form (+=, -=, *=); `own` is always the operator's result
            let form = if r.random_bool(0.5) { "own" } else { "assign" };
            match guarded(|| {
                let own = match op {
                    "add" => x + y,
                    "sub" => x - y,
                    _ => x * y,
                };
                let mut z = x;
                match (form, op) {
                    ("own", _) => z = own,
                    (_, "add") => z += y,
                    (_, "sub") => z -= y,
                    _ => z *= y,
                }
                (z, own)
            }) {
                Ok((d, own)) => {
                    regs[t] = d;
                    json!({"k": "d", "op": op, "form": form, "a": a + 1, "b": b + 1, "r": t + 1, "res": "ok", "out": raw(&d), "own": raw(&own)})
                }
                Err(m) => json!({"k": "d", "op": op, "form": form, "a": a + 1, "b": b + 1, "r": t + 1, "res": "panic", "msg": m}),
            }
        } else if c >= 100 && c < 104 {
            let d = regs[a].abs();
            regs[t] = d;
            depth[t] = depth[a];
            json!({"k": "d", "op": "abs", "a": a + 1, "r": t + 1, "res": "ok", "out": raw(&d)})
        } else if c >= 104 && c < 110 {
            // the public accessors of the approx flag: set_approx(flag), then approx()
            let flag = r.random_bool(0.5);
            let mut d = regs[a];
            d.set_approx(flag);
            regs[t] = d;
            depth[t] = depth[a];
            json!({"k": "d", "op": "set_approx", "a": a + 1, "r": t + 1, "flag": flag, "res": "ok", "out": raw(&d), "pub_ap": d.approx()})
        } else if c >= 110 && c < 113 {
            json!({"k": "d", "op": "flags", "a": a + 1, "res": "ok", "approx": regs[a].approx(), "sign": regs[a].sign()})
        } else if c >= 113 {
            // Display / Debug: observation only (the property fixes no text format)
            match guarded(|| format!("{} {:?}", regs[a], regs[a]).len()) {
                Ok(_) => json!({"k": "d", "op": "display", "a": a + 1, "res": "ok"}),
                Err(m) => json!({"k": "d", "op": "display", "a": a + 1, "res": "panic", "msg": m}),
            }
        } else if c < 67 {
            let d = -regs[a];
            regs[t] = d;
            depth[t] = depth[a];
            json!({"k": "d", "op": "neg", "a": a + 1, "r": t + 1, "res": "ok", "out": raw(&d)})
        } else if c < 77 {
            let ord = |o: Ordering| match o {
                Ordering::Less => -1,
                Ordering::Equal => 0,
                Ordering::Greater => 1,
            };
            let (x, y) = (regs[a], regs[b]);
            // Ord::cmp, and PartialOrd: partial_cmp and the four comparison operators
            json!({"k": "d", "op": "cmp", "a": a + 1, "b": b + 1, "res": "ok", "ret": ord(x.cmp(&y)), "eq": x == y,
                   "partial": x.partial_cmp(&y).map(ord).unwrap_or(2), "lt": x < y, "le": x <= y, "gt": x > y, "ge": x >= y})
        } else if c < 83 {
            match guarded(|| regs[a].abs_diff_eq(&regs[b], Dyadic::default_epsilon())) {
                Ok(x) => json!({"k": "d", "op": "abs_diff_eq", "a": a + 1, "b": b + 1, "res": "ok", "ret": x}),
                Err(m) => json!({"k": "d", "op": "abs_diff_eq", "a": a + 1, "b": b + 1, "res": "panic", "msg": m}),
            }
        } else if c < 87 {
            json!({"k": "d", "op": "is_zero", "a": a + 1, "res": "ok", "ret": regs[a].is_zero()})
        } else if c < 94 {
            match guarded(|| f64::try_from(regs[a])) {
                Ok(Ok(f)) => json!({"k": "d", "op": "to_f64", "a": a + 1, "res": "ok", "f": f64_json(f)}),
                Ok(Err(_)) => json!({"k": "d", "op": "to_f64", "a": a + 1, "res": "range", "f": f64_json(0.0)}),
                Err(m) => json!({"k": "d", "op": "to_f64", "a": a + 1, "res": "panic", "msg": m}),
            }
        } else {
            match guarded(|| (regs[a].val_and_exp(), regs[a].val(), regs[a].exp())) {
                Ok(((v, e), v2, e2)) => json!({"k": "d", "op": "val_and_exp", "a": a + 1, "res": "ok", "val": int_json(v), "exp": e, "consistent": v == v2 && e == e2}),
                Err(m) => json!({"k": "d", "op": "val_and_exp", "a": a + 1, "res": "panic", "msg": m}),
            }
        };
        tr.emit(ev);
        n += 1;
    }
    n
}

/// a phase as a REDUCED fraction (what Rational64::new makes of it)
fn phase_of(r: &mut StdRng) -> (i64, i64) {
    let (n, d) = if r.random_bool(0.75) {
        (r.random_range(-8..9), 4)
    } else {
        let d = [3, 5, 6, 7, 12, 16][r.random_range(0..6)];
        (r.random_range(-2 * d..2 * d), d)
    };
    let q = Rational64::new(n, d);
    (*q.numer(), *q.denom())
}

/// the six ways a binary Scalar4 operation can be written
const FORMS: [&str; 6] = ["own_own", "ref_own", "own_ref", "ref_ref", "assign", "assign_ref"];

fn binary(op: &str, form: &str, x: Scalar4, y: Scalar4) -> Scalar4 {
    let mut z = x;
    match (op, form) {
        ("add", "own_own") => x + y,
        ("add", "ref_own") => &x + y,
        ("add", "own_ref") => x + &y,
        ("add", "ref_ref") => &x + &y,
        ("add", "assign") => {
            z += y;
            z
        }
        ("add", _) => {
            z += &y;
            z
        }
        ("sub", "own_own") => x - y,
        ("sub", "ref_own") => &x - y,
        ("sub", "own_ref") => x - &y,
        ("sub", "ref_ref") => &x - &y,
        ("sub", "assign") => {
            z -= y;
            z
        }
        ("sub", _) => {
            z -= &y;
            z
        }
        (_, "own_own") => x * y,
        (_, "ref_own") => &x * y,
        (_, "own_ref") => x * &y,
        (_, "ref_ref") => &x * &y,
        (_, "assign") => {
            z *= y;
            z
        }
        _ => {
            z *= &y;
            z
        }
    }
}

fn scalar_history(r: &mut StdRng, tr: &mut Tr, len: usize, extreme: Option<i32>) -> usize {
    const NR: usize = 5;
    let maxdepth = if extreme.is_some() { 2 } else { 5 };
    let mut regs: Vec<Scalar4> = vec![Scalar4::zero(); NR];
    let mut depth: Vec<usize> = vec![0; NR];
    tr.group();
    tr.emit(json!({"k": "begin", "machine": "scalar", "regs": NR, "extreme": extreme.unwrap_or(0)}));
    let mut n = 0;
    let mut last_t = 0usize;
    wide_taken();
    for step in 0..len {
        let (a, b, t) = (r.random_range(0..NR), r.random_range(0..NR), r.random_range(0..NR));
        if wide_taken() {
            depth[last_t] = maxdepth;
        }
        last_t = t;
        let c = if step < NR {
            if r.random_bool(0.3) { r.random_range(100..106) } else { r.random_range(0..20) }
        } else {
            r.random_range(0..136)
        };
        let put = |regs: &mut Vec<Scalar4>, t: usize, res: Result<Scalar4, String>, mut e: Value| -> Value {
            match res {
                Ok(s) => {
                    regs[t] = s;
                    e["res"] = json!("ok");
                    e["out"] = raw4(&s);
                }
                Err(m) => {
                    e["res"] = json!("panic");
                    e["msg"] = json!(m);
                }
            }
            e
        };
        // a result computed through an overload (`out`) and through the owned operators (`own`)
        let put2 = |regs: &mut Vec<Scalar4>, t: usize, res: Result<(Scalar4, Scalar4), String>, mut e: Value| -> Value {
            match res {
                Ok((s, own)) => {
                    regs[t] = s;
                    e["res"] = json!("ok");
                    e["out"] = raw4(&s);
                    e["own"] = raw4(&own);
                }
                Err(m) => {
                    e["res"] = json!("panic");
                    e["msg"] = json!(m);
                }
            }
            e
        };
        if c < 20 || (100..106).contains(&c) {
            depth[t] = 0;
        }
        let pow = |r: &mut StdRng| match extreme {
            Some(x) => x + r.random_range(-20..20),
            None => r.random_range(-70..70),
        };
        let ev = if c < 10 {
            let co = [interesting_i64(r) >> 34, interesting_i64(r) >> 34, r.random_range(-3..4), r.random_range(-3..4)];
            let co = if r.random_bool(0.2) { [interesting_i64(r), 0, interesting_i64(r), 0] } else { co };
            let p = pow(r);
            put(&mut regs, t, guarded(|| Scalar4::new(co, p)), json!({"k": "s", "op": "new", "coeffs": co.iter().map(|x| int_json(*x)).collect::<Vec<_>>(), "pow": p, "r": t + 1}))
        } else if c < 16 {
            let (pn, pd) = phase_of(r);
            put(&mut regs, t, guarded(|| Scalar4::from_phase(Rational64::new(pn, pd))), json!({"k": "s", "op": "from_phase", "ph": [pn, pd], "r": t + 1}))
        } else if c < 20 {
            let (f, g) = (interesting_f64(r), interesting_f64(r));
            if r.random_bool(0.5) {
                put(&mut regs, t, guarded(|| Scalar4::real(f)), json!({"k": "s", "op": "real", "f": [f64_json(f)], "r": t + 1}))
            } else {
                put(&mut regs, t, guarded(|| Scalar4::complex(f, g)), json!({"k": "s", "op": "complex", "f": [f64_json(f), f64_json(g)], "r": t + 1}))
            }
        } else if c < 55 {
            let mut op = ["add", "sub", "mul", "mul"][r.random_range(0..4)];
            if op == "mul" && depth[a] + depth[b] + 1 > maxdepth {
                op = "sub";
            }
            depth[t] = if op == "mul" { depth[a] + depth[b] + 1 } else { depth[a].max(depth[b]) };
            let (x, y) = (regs[a], regs[b]);
            let form = FORMS[r.random_range(0..FORMS.len())];
            put2(&mut regs, t, guarded(|| (binary(op, form, x, y), binary(op, "own_own", x, y))),
                 json!({"k": "s", "op": op, "form": form, "a": a + 1, "b": b + 1, "r": t + 1}))
        } else if c < 60 {
            let x = regs[a];
            depth[t] = depth[a];
            put(&mut regs, t, guarded(|| x.conj()), json!({"k": "s", "op": "conj", "a": a + 1, "r": t + 1}))
        } else if c < 68 {
            let p = r.random_range(-9..10);
            let x = regs[a];
            depth[t] = depth[a];
            put(&mut regs, t, guarded(|| {
                let mut y = x;
                y.mul_sqrt2_pow(p);
                y
            }), json!({"k": "s", "op": "mul_sqrt2_pow", "a": a + 1, "p": p, "r": t + 1}))
        } else if c < 76 {
            let (pn, pd) = phase_of(r);
            let x = regs[a];
            if r.random_bool(0.6) {
                depth[t] = depth[a];
                put(&mut regs, t, guarded(|| {
                    let mut y = x;
                    y.mul_phase(Rational64::new(pn, pd));
                    y
                }), json!({"k": "s", "op": "mul_phase", "a": a + 1, "ph": [pn, pd], "r": t + 1}))
            } else {
                depth[t] = 0;
                put(&mut regs, t, guarded(|| Scalar4::one_plus_phase(Rational64::new(pn, pd))), json!({"k": "s", "op": "one_plus_phase", "ph": [pn, pd], "r": t + 1}))
            }
        } else if c < 84 {
            // approx: the PUBLIC accessor (the raw flags TLC holds come from the hook)
            json!({"k": "s", "op": "tests", "a": a + 1, "b": b + 1, "res": "ok", "is_zero": regs[a].is_zero(), "is_one": regs[a].is_one(), "eq": regs[a] == regs[b],
                   "approx": regs[a].approx()})
        } else if c < 92 {
            match guarded(|| regs[a].exact_phase_and_sqrt2_pow()) {
                Ok(Some((p, k))) => {
                    let pr: Rational64 = p.to_rational();
                    let units = (pr * 4).to_integer().rem_euclid(8);
                    json!({"k": "s", "op": "exact_phase", "a": a + 1, "res": "ok", "ret": "some", "kk": units, "pp": k, "whole": (pr * 4).is_integer()})
                }
                Ok(None) => json!({"k": "s", "op": "exact_phase", "a": a + 1, "res": "ok", "ret": "none", "kk": 0, "pp": 0, "whole": true}),
                Err(m) => json!({"k": "s", "op": "exact_phase", "a": a + 1, "res": "panic", "msg": m}),
            }
        } else if c < 100 {
            // conversion to Complex<f64>: complex_value() (= TryFrom<&Scalar4>, unwrapped) and the owned TryFrom<Scalar4>;
            // outside the range of doubles the first panics and the second returns Err: TLC decides whether that was allowed
            let x = regs[a];
            let mut e = json!({"k": "s", "op": "complex_value", "a": a + 1});
            let zero = f64_json(0.0);
            match guarded(|| x.complex_value()) {
                Ok(z) => {
                    // from-float round trip: Scalar4::from(complex) converted back must be the same doubles
                    let back: Result<Complex<f64>, _> = Complex::<f64>::try_from(&Scalar4::from(z));
                    e["res"] = json!("ok");
                    e["re"] = f64_json(z.re);
                    e["im"] = f64_json(z.im);
                    e["roundtrip"] = json!(back == Ok(z) || (z.re.is_nan() || z.im.is_nan()));
                }
                Err(m) => {
                    e["res"] = json!("panic");
                    e["msg"] = json!(m);
                    e["re"] = zero.clone();
                    e["im"] = zero.clone();
                    e["roundtrip"] = json!(false);
                }
            }
            match guarded(|| Complex::<f64>::try_from(x)) {
                Ok(Ok(z)) => {
                    e["owned"] = json!("ok");
                    e["re2"] = f64_json(z.re);
                    e["im2"] = f64_json(z.im);
                }
                Ok(Err(_)) => {
                    e["owned"] = json!("range");
                    e["re2"] = zero.clone();
                    e["im2"] = zero.clone();
                }
                Err(_) => {
                    e["owned"] = json!("panic");
                    e["re2"] = zero.clone();
                    e["im2"] = zero.clone();
                }
            }
            e
        } else if c < 106 {
            // the remaining constructors with caller-chosen values
            match r.random_range(0..9) {
                0 => {
                    let v = interesting_i64(r);
                    put(&mut regs, t, guarded(|| Scalar4::from(v)), json!({"k": "s", "op": "from_i64", "coeffs": [int_json(v)], "r": t + 1}))
                }
                1 => {
                    let co = [interesting_i64(r), r.random_range(-3..4), interesting_i64(r) >> 20, interesting_i64(r) >> 40];
                    put(&mut regs, t, guarded(|| Scalar4::from(co)), json!({"k": "s", "op": "from_i64x4", "coeffs": co.iter().map(|x| int_json(*x)).collect::<Vec<_>>(), "r": t + 1}))
                }
                2 => {
                    let f = interesting_f64(r);
                    put(&mut regs, t, guarded(|| Scalar4::from(f)), json!({"k": "s", "op": "from_f64", "f": [f64_json(f)], "r": t + 1}))
                }
                3 => {
                    let fs = [interesting_f64(r), interesting_f64(r), interesting_f64(r), interesting_f64(r)];
                    put(&mut regs, t, guarded(|| Scalar4::from(fs)), json!({"k": "s", "op": "from_f64x4", "f": fs.iter().map(|x| f64_json(*x)).collect::<Vec<_>>(), "r": t + 1}))
                }
                4 => put(&mut regs, t, guarded(Scalar4::default), json!({"k": "s", "op": "default", "r": t + 1})),
                5 => put(&mut regs, t, guarded(Scalar4::minus_one), json!({"k": "s", "op": "minus_one", "r": t + 1})),
                6 => put(&mut regs, t, guarded(Scalar4::sqrt2), json!({"k": "s", "op": "sqrt2_pow", "via": "sqrt2", "p": 1, "r": t + 1})),
                7 => put(&mut regs, t, guarded(Scalar4::one_over_sqrt2), json!({"k": "s", "op": "sqrt2_pow", "via": "one_over_sqrt2", "p": -1, "r": t + 1})),
                _ => {
                    let p = if extreme.is_some() { 2 * pow(r) + r.random_range(0..2) } else { r.random_range(-140..140) };
                    put(&mut regs, t, guarded(|| Scalar4::sqrt2_pow(p)), json!({"k": "s", "op": "sqrt2_pow", "via": "sqrt2_pow", "p": p, "r": t + 1}))
                }
            }
        } else if c < 112 {
            // Sum / Product over 0..=4 registers; `own`: the same fold written with the owned operators
            let k = r.random_range(0..5usize);
            let ids: Vec<usize> = (0..k).map(|_| r.random_range(0..NR)).collect();
            let dsum: usize = ids.iter().map(|i| depth[*i]).sum::<usize>() + k.saturating_sub(1);
            let op = if r.random_bool(0.5) && dsum <= maxdepth { "product" } else { "sum" };
            depth[t] = if op == "product" { dsum } else { ids.iter().map(|i| depth[*i]).max().unwrap_or(0) };
            let xs: Vec<Scalar4> = ids.iter().map(|i| regs[*i]).collect();
            put2(&mut regs, t, guarded(|| {
                if op == "sum" {
                    let mut acc = Scalar4::zero();
                    for x in &xs {
                        acc = acc + *x;
                    }
                    (xs.iter().copied().sum::<Scalar4>(), acc)
                } else {
                    let mut acc = Scalar4::one();
                    for x in &xs {
                        acc = acc * *x;
                    }
                    (xs.iter().copied().product::<Scalar4>(), acc)
                }
            }), json!({"k": "s", "op": op, "ids": ids.iter().map(|i| i + 1).collect::<Vec<_>>(), "r": t + 1}))
        } else if c < 116 {
            let (pn, pd) = phase_of(r);
            let x = regs[a];
            depth[t] = depth[a];
            put(&mut regs, t, guarded(|| {
                let mut y = x;
                y.mul_one_plus_phase(Rational64::new(pn, pd));
                y
            }), json!({"k": "s", "op": "mul_one_plus_phase", "a": a + 1, "ph": [pn, pd], "r": t + 1}))
        } else if c < 122 {
            // the public accessors of the approx flag: set_approx(flag), then approx()
            let flag = r.random_bool(0.5);
            let mut y = regs[a];
            y.set_approx(flag);
            regs[t] = y;
            depth[t] = if flag { depth[a] } else { 0 };
            json!({"k": "s", "op": "set_approx", "a": a + 1, "r": t + 1, "flag": flag, "res": "ok", "out": raw4(&y), "pub_ap": y.approx()})
        } else if c < 131 {
            // AbsDiffEq for Scalar4 (epsilon 1e-10 on the complex values); the operands travel in the event: x is a
            // register or a small scalar, y is x itself, x moved by something around the epsilon, x through floats, or
            // another register
            let x = if r.random_bool(0.4) { regs[a] } else { Scalar4::new([r.random_range(-2..3), r.random_range(-2..3), r.random_range(-2..3), r.random_range(-2..3)], r.random_range(-4..2)) };
            let y = match r.random_range(0..6) {
                0 => x,
                1 => regs[b],
                2 => match guarded(|| Scalar4::from(x.complex_value())) {
                    Ok(z) => z,
                    Err(_) => x,
                },
                _ => {
                    let co = [r.random_range(-2..3), r.random_range(-2..3), r.random_range(-2..3), r.random_range(-2..3)];
                    x + Scalar4::new(co, -r.random_range(28..40))
                }
            };
            match guarded(|| (x.abs_diff_eq(&y, Scalar4::default_epsilon()), y.abs_diff_eq(&x, Scalar4::default_epsilon()))) {
                Ok((ret, rev)) => json!({"k": "s", "op": "abs_diff_eq4", "x": raw4(&x), "y": raw4(&y), "res": "ok", "ret": ret, "rev": rev}),
                Err(m) => json!({"k": "s", "op": "abs_diff_eq4", "x": raw4(&x), "y": raw4(&y), "res": "panic", "msg": m}),
            }
        } else {
            // Display / Debug: observation only (the property fixes no text format)
            match guarded(|| format!("{} {:?}", regs[a], regs[a]).len()) {
                Ok(_) => json!({"k": "s", "op": "display", "a": a + 1, "res": "ok"}),
                Err(m) => json!({"k": "s", "op": "display", "a": a + 1, "res": "panic", "msg": m}),
            }
        };
        tr.emit(ev);
        n += 1;
    }
    let _ = (Scalar4::one(), Scalar4::sqrt2_pow(0), Phase::zero());
    n
}

/// Directed history: a coefficient that is an APPROXIMATE ZERO whose true value is not zero (a unit was lost when it was
/// added to 2^70, then the stored mantissas cancelled exactly), used as left AND right operand of every binary operation in
/// every written form. Only ordinary events (new / add / sub / mul), so the exact ghosts of Trace_Scalar judge it (Honest).
fn cancel_history(r: &mut StdRng, tr: &mut Tr) -> usize {
    tr.group();
    tr.emit(json!({"k": "begin", "machine": "scalar", "regs": 5, "extreme": 0}));
    let mut regs: Vec<Scalar4> = vec![Scalar4::zero(); 5];
    let mut n = 0;
    let k = r.random_range(0..4usize);
    let mut newev = |regs: &mut Vec<Scalar4>, t: usize, co: [i64; 4], p: i32, tr: &mut Tr| {
        let mut e = json!({"k": "s", "op": "new", "coeffs": co.iter().map(|x| int_json(*x)).collect::<Vec<_>>(), "pow": p, "r": t + 1});
        match guarded(|| Scalar4::new(co, p)) {
            Ok(s) => {
                regs[t] = s;
                e["res"] = json!("ok");
                e["out"] = raw4(&s);
            }
            Err(m) => {
                e["res"] = json!("panic");
                e["msg"] = json!(m);
            }
        }
        tr.emit(e);
    };
    let mut unit = [0i64; 4];
    unit[k] = if r.random_bool(0.5) { 1 } else { -1 };
    let mut big = [0i64; 4];
    big[k] = 1;
    newev(&mut regs, 0, big, 66 + r.random_range(0..12), tr);
    newev(&mut regs, 1, unit, r.random_range(-1..2), tr);
    let mut bin = |regs: &mut Vec<Scalar4>, op: &str, form: &str, a: usize, b: usize, t: usize, tr: &mut Tr| {
        let (x, y) = (regs[a], regs[b]);
        let mut e = json!({"k": "s", "op": op, "form": form, "a": a + 1, "b": b + 1, "r": t + 1});
        match guarded(|| (binary(op, form, x, y), binary(op, "own_own", x, y))) {
            Ok((s, own)) => {
                regs[t] = s;
                e["res"] = json!("ok");
                e["out"] = raw4(&s);
                e["own"] = raw4(&own);
            }
            Err(m) => {
                e["res"] = json!("panic");
                e["msg"] = json!(m);
            }
        }
        tr.emit(e);
    };
    bin(&mut regs, "add", "own_own", 0, 1, 2, tr); // 2^70 + unit: the unit is lost, flagged
    bin(&mut regs, "sub", "own_own", 2, 0, 3, tr); // minus 2^70: stored 0, flagged, true value = unit
    n += 4;
    let co = [r.random_range(-3..4), r.random_range(-3..4), r.random_range(-3..4), r.random_range(1..4)];
    newev(&mut regs, 4, co, r.random_range(-3..4), tr);
    n += 1;
    for _ in 0..10 {
        let op = ["mul", "mul", "add", "sub"][r.random_range(0..4)];
        let form = FORMS[r.random_range(0..FORMS.len())];
        let (a, b) = if r.random_bool(0.5) { (4, 3) } else { (3, 4) };
        bin(&mut regs, op, form, a, b, 2, tr);
        n += 1;
    }
    n
}

pub fn record(args: &[String], seed: u64, tr: &mut Tr) -> Value {
    let nd: usize = arg_num(args, "--dyadic", 20);
    let ns: usize = arg_num(args, "--scalar", 20);
    let len: usize = arg_num(args, "--len", 60);
    let mut r = crate::gens::rng(seed);
    let (mut od, mut os) = (0, 0);
    // every sixth history works near the edge of the exponent range in which doubles exist
    let extreme = |i: usize| if i % 6 == 5 { Some(if i % 12 == 5 { 820 } else { -820 }) } else { None };
    for i in 0..nd {
        od += dyadic_history(&mut r, tr, len, extreme(i));
    }
    for i in 0..ns {
        os += scalar_history(&mut r, tr, len, extreme(i));
    }
    // directed: approximate zeros with a non-zero true value as operands (one per three scalar histories)
    for _ in 0..ns.div_ceil(3) {
        os += cancel_history(&mut r, tr);
    }
    json!({"dyadic_histories": nd, "dyadic_ops": od, "scalar_histories": ns, "scalar_ops": os, "extreme_histories": (0..nd).chain(0..ns).filter(|i| i % 6 == 5).count()})
}
