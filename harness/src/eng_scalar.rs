//! C07: seeded random expression histories on registers of Dyadic and Scalar4 values; every
//! operation is logged with the raw stored parts (sign, 64-bit mantissa as base-2^15 limbs,
//! exponent, approx flag) of its result.  TLC (mc/Trace_Scalar) recomputes the exact value of
//! every register with arbitrary-precision arithmetic written in TLA+ (spec/BigNat, spec/Dyadic)
//! and evaluates the property's predicates.

use crate::util::{arg_num, guarded, Tr};
use approx::AbsDiffEq;
use num::complex::Complex;
use num::{Float, One, Rational64, Zero};
use quizx::phase::Phase;
use quizx::scalar::{Dyadic, FromPhase, Scalar4, Sqrt2};
use rand::rngs::StdRng;
use rand::Rng;
use serde_json::{json, Value};
use std::cmp::Ordering;

fn limbs(mut m: u64) -> Vec<u64> {
    let mut out = vec![];
    while m > 0 {
        out.push(m & 0x7fff);
        m >>= 15;
    }
    out
}
fn raw(d: &Dyadic) -> Value {
    let (neg, m, e, ap) = d.verif_raw();
    json!({"neg": neg, "m": limbs(m), "e": e, "ap": ap})
}
fn raw4(s: &Scalar4) -> Value {
    Value::Array(s.verif_coeffs().iter().map(raw).collect())
}
fn int_json(v: i64) -> Value {
    json!({"neg": v < 0, "m": limbs(v.unsigned_abs())})
}
/// a finite double as exact sign / mantissa / exponent; "fin": false for NaN and infinities
fn f64_json(f: f64) -> Value {
    if !f.is_finite() {
        return json!({"fin": false, "neg": false, "m": [], "e": 0});
    }
    let (m, e, s) = f.integer_decode();
    json!({"fin": true, "neg": s < 0, "m": limbs(m), "e": e})
}

fn interesting_i64(r: &mut StdRng) -> i64 {
    match r.random_range(0..10) {
        0 => 0,
        1 => 1,
        2 => -1,
        3 => i64::MAX,
        4 => (1i64 << 32) - 1,
        5 => (1i64 << 32) + 1,
        6 => -((1i64 << 62) + 1),
        7 => r.random_range(-1000..1000),
        8 => 1i64 << r.random_range(0..62),
        _ => r.random::<i64>() >> r.random_range(0..40),
    }
}
fn interesting_f64(r: &mut StdRng) -> f64 {
    match r.random_range(0..9) {
        0 => 0.7,
        1 => 0.9,
        2 => 0.0,
        3 => -55.13,
        4 => 13e-60,
        5 => 1.0 / 3.0,
        6 => (r.random::<f64>() - 0.5) * 2f64.powi(r.random_range(-60..60)),
        7 => -(r.random::<f64>()),
        _ => r.random::<f64>(),
    }
}

fn dyadic_history(r: &mut StdRng, tr: &mut Tr, len: usize) -> usize {
    const NR: usize = 6;
    let mut regs: Vec<Dyadic> = vec![Dyadic::zero(); NR];
    // number of multiplications behind each register: the exact ghost value TLC carries grows by 64 bits per
    // multiplication, so deep products are replaced by sums to keep validation linear
    let mut depth: Vec<usize> = vec![0; NR];
    tr.group();
    tr.emit(json!({"k": "begin", "machine": "dyadic", "regs": NR}));
    let mut n = 0;
    // every third history starts with full-width mantissas: (2^32 - 1)(2^32 + 1) = 2^64 - 1 in register 1,
    // small exact integers next to it, so that additions carry out of the 64-bit mantissa
    let directed = r.random_range(0..3) == 0;
    for step in 0..len {
        let (mut a, mut b, mut t) = (r.random_range(0..NR), r.random_range(0..NR), r.random_range(0..NR));
        let mut c = if step < NR { 0 } else { r.random_range(0..100) };
        let mut forced: Option<(i64, i32)> = None;
        if directed {
            match step {
                0 => forced = Some(((1i64 << 32) - 1, 0)),
                1 => forced = Some(((1i64 << 32) + 1, 0)),
                2 => forced = Some((1, r.random_range(-2..3))),
                3 => {
                    (a, b, t, c) = (0, 1, 0, 50);
                }
                4 | 5 => {
                    (a, b, t, c) = (0, 2, step - 1, 50);
                }
                _ => {}
            }
            if forced.is_some() {
                (t, c) = (step, 0);
            }
        }
        let ev = if c < 14 {
            let (v, e) = forced.unwrap_or((interesting_i64(r), r.random_range(-90..90)));
            match guarded(|| Dyadic::new(v, e)) {
                Ok(d) => {
                    regs[t] = d;
                    depth[t] = 0;
                    json!({"k": "d", "op": "new", "v": int_json(v), "exp": e, "r": t + 1, "res": "ok", "out": raw(&d)})
                }
                Err(m) => json!({"k": "d", "op": "new", "v": int_json(v), "exp": e, "r": t + 1, "res": "panic", "msg": m}),
            }
        } else if c < 22 {
            let f = interesting_f64(r);
            let d = Dyadic::from(f);
            regs[t] = d;
            depth[t] = 0;
            json!({"k": "d", "op": "from_f64", "f": f64_json(f), "r": t + 1, "res": "ok", "out": raw(&d)})
        } else if c < 62 {
            let mut op = if directed && step == 3 { "mul" } else if directed && (step == 4 || step == 5) { "add" } else { ["add", "sub", "mul"][r.random_range(0..3)] };
            if op == "mul" && depth[a] + depth[b] + 1 > 6 {
                op = "add";
            }
            depth[t] = if op == "mul" { depth[a] + depth[b] + 1 } else { depth[a].max(depth[b]) };
            let (x, y) = (regs[a], regs[b]);
            match guarded(|| match op {
                "add" => x + y,
                "sub" => x - y,
                _ => x * y,
            }) {
                Ok(d) => {
                    regs[t] = d;
                    json!({"k": "d", "op": op, "a": a + 1, "b": b + 1, "r": t + 1, "res": "ok", "out": raw(&d)})
                }
                Err(m) => json!({"k": "d", "op": op, "a": a + 1, "b": b + 1, "r": t + 1, "res": "panic", "msg": m}),
            }
        } else if c < 67 {
            let d = -regs[a];
            regs[t] = d;
            depth[t] = depth[a];
            json!({"k": "d", "op": "neg", "a": a + 1, "r": t + 1, "res": "ok", "out": raw(&d)})
        } else if c < 77 {
            let o = match regs[a].cmp(&regs[b]) {
                Ordering::Less => -1,
                Ordering::Equal => 0,
                Ordering::Greater => 1,
            };
            json!({"k": "d", "op": "cmp", "a": a + 1, "b": b + 1, "res": "ok", "ret": o, "eq": regs[a] == regs[b]})
        } else if c < 83 {
            match guarded(|| regs[a].abs_diff_eq(&regs[b], Dyadic::default_epsilon())) {
                Ok(x) => json!({"k": "d", "op": "abs_diff_eq", "a": a + 1, "b": b + 1, "res": "ok", "ret": x}),
                Err(m) => json!({"k": "d", "op": "abs_diff_eq", "a": a + 1, "b": b + 1, "res": "panic", "msg": m}),
            }
        } else if c < 87 {
            json!({"k": "d", "op": "is_zero", "a": a + 1, "res": "ok", "ret": regs[a].is_zero()})
        } else if c < 94 {
            match guarded(|| f64::try_from(regs[a])) {
                Ok(Ok(f)) => json!({"k": "d", "op": "to_f64", "a": a + 1, "res": "ok", "f": f64_json(f)}),
                Ok(Err(_)) => json!({"k": "d", "op": "to_f64", "a": a + 1, "res": "range", "f": f64_json(0.0)}),
                Err(m) => json!({"k": "d", "op": "to_f64", "a": a + 1, "res": "panic", "msg": m}),
            }
        } else {
            match guarded(|| (regs[a].val_and_exp(), regs[a].val(), regs[a].exp())) {
                Ok(((v, e), v2, e2)) => json!({"k": "d", "op": "val_and_exp", "a": a + 1, "res": "ok", "val": int_json(v), "exp": e, "consistent": v == v2 && e == e2}),
                Err(m) => json!({"k": "d", "op": "val_and_exp", "a": a + 1, "res": "panic", "msg": m}),
            }
        };
        tr.emit(ev);
        n += 1;
    }
    n
}

/// a phase as a REDUCED fraction (what Rational64::new makes of it)
fn phase_of(r: &mut StdRng) -> (i64, i64) {
    let (n, d) = if r.random_bool(0.75) {
        (r.random_range(-8..9), 4)
    } else {
        let d = [3, 5, 6, 7, 12, 16][r.random_range(0..6)];
        (r.random_range(-2 * d..2 * d), d)
    };
    let q = Rational64::new(n, d);
    (*q.numer(), *q.denom())
}

fn scalar_history(r: &mut StdRng, tr: &mut Tr, len: usize) -> usize {
    const NR: usize = 5;
    let mut regs: Vec<Scalar4> = vec![Scalar4::zero(); NR];
    let mut depth: Vec<usize> = vec![0; NR];
    tr.group();
    tr.emit(json!({"k": "begin", "machine": "scalar", "regs": NR}));
    let mut n = 0;
    for step in 0..len {
        let (a, b, t) = (r.random_range(0..NR), r.random_range(0..NR), r.random_range(0..NR));
        let c = if step < NR { r.random_range(0..20) } else { r.random_range(0..100) };
        let put = |regs: &mut Vec<Scalar4>, t: usize, res: Result<Scalar4, String>, mut e: Value| -> Value {
            match res {
                Ok(s) => {
                    regs[t] = s;
                    e["res"] = json!("ok");
                    e["out"] = raw4(&s);
                }
                Err(m) => {
                    e["res"] = json!("panic");
                    e["msg"] = json!(m);
                }
            }
            e
        };
        if c < 20 {
            depth[t] = 0;
        }
        let ev = if c < 10 {
            let co = [interesting_i64(r) >> 34, interesting_i64(r) >> 34, r.random_range(-3..4), r.random_range(-3..4)];
            let co = if r.random_bool(0.2) { [interesting_i64(r), 0, interesting_i64(r), 0] } else { co };
            let p = r.random_range(-70..70);
            put(&mut regs, t, guarded(|| Scalar4::new(co, p)), json!({"k": "s", "op": "new", "coeffs": co.iter().map(|x| int_json(*x)).collect::<Vec<_>>(), "pow": p, "r": t + 1}))
        } else if c < 16 {
            let (pn, pd) = phase_of(r);
            put(&mut regs, t, guarded(|| Scalar4::from_phase(Rational64::new(pn, pd))), json!({"k": "s", "op": "from_phase", "ph": [pn, pd], "r": t + 1}))
        } else if c < 20 {
            let (f, g) = (interesting_f64(r), interesting_f64(r));
            if r.random_bool(0.5) {
                put(&mut regs, t, guarded(|| Scalar4::real(f)), json!({"k": "s", "op": "real", "f": [f64_json(f)], "r": t + 1}))
            } else {
                put(&mut regs, t, guarded(|| Scalar4::complex(f, g)), json!({"k": "s", "op": "complex", "f": [f64_json(f), f64_json(g)], "r": t + 1}))
            }
        } else if c < 55 {
            let mut op = ["add", "sub", "mul", "mul"][r.random_range(0..4)];
            if op == "mul" && depth[a] + depth[b] + 1 > 5 {
                op = "sub";
            }
            depth[t] = if op == "mul" { depth[a] + depth[b] + 1 } else { depth[a].max(depth[b]) };
            let (x, y) = (regs[a], regs[b]);
            put(&mut regs, t, guarded(|| match op {
                "add" => x + y,
                "sub" => x - y,
                _ => x * y,
            }), json!({"k": "s", "op": op, "a": a + 1, "b": b + 1, "r": t + 1}))
        } else if c < 60 {
            let x = regs[a];
            depth[t] = depth[a];
            put(&mut regs, t, guarded(|| x.conj()), json!({"k": "s", "op": "conj", "a": a + 1, "r": t + 1}))
        } else if c < 68 {
            let p = r.random_range(-9..10);
            let x = regs[a];
            depth[t] = depth[a];
            put(&mut regs, t, guarded(|| {
                let mut y = x;
                y.mul_sqrt2_pow(p);
                y
            }), json!({"k": "s", "op": "mul_sqrt2_pow", "a": a + 1, "p": p, "r": t + 1}))
        } else if c < 76 {
            let (pn, pd) = phase_of(r);
            let x = regs[a];
            if r.random_bool(0.6) {
                depth[t] = depth[a];
                put(&mut regs, t, guarded(|| {
                    let mut y = x;
                    y.mul_phase(Rational64::new(pn, pd));
                    y
                }), json!({"k": "s", "op": "mul_phase", "a": a + 1, "ph": [pn, pd], "r": t + 1}))
            } else {
                depth[t] = 0;
                put(&mut regs, t, guarded(|| Scalar4::one_plus_phase(Rational64::new(pn, pd))), json!({"k": "s", "op": "one_plus_phase", "ph": [pn, pd], "r": t + 1}))
            }
        } else if c < 84 {
            json!({"k": "s", "op": "tests", "a": a + 1, "b": b + 1, "res": "ok", "is_zero": regs[a].is_zero(), "is_one": regs[a].is_one(), "eq": regs[a] == regs[b]})
        } else if c < 92 {
            match guarded(|| regs[a].exact_phase_and_sqrt2_pow()) {
                Ok(Some((p, k))) => {
                    let pr: Rational64 = p.to_rational();
                    let units = (pr * 4).to_integer().rem_euclid(8);
                    json!({"k": "s", "op": "exact_phase", "a": a + 1, "res": "ok", "ret": "some", "kk": units, "pp": k, "whole": (pr * 4).is_integer()})
                }
                Ok(None) => json!({"k": "s", "op": "exact_phase", "a": a + 1, "res": "ok", "ret": "none", "kk": 0, "pp": 0, "whole": true}),
                Err(m) => json!({"k": "s", "op": "exact_phase", "a": a + 1, "res": "panic", "msg": m}),
            }
        } else {
            match guarded(|| regs[a].complex_value()) {
                Ok(z) => {
                    // from-float round trip: Scalar4::from(complex) converted back must be the same doubles
                    let back: Complex<f64> = Scalar4::from(z).complex_value();
                    json!({"k": "s", "op": "complex_value", "a": a + 1, "res": "ok", "re": f64_json(z.re), "im": f64_json(z.im), "roundtrip": back == z || (z.re.is_nan() || z.im.is_nan())})
                }
                Err(m) => json!({"k": "s", "op": "complex_value", "a": a + 1, "res": "panic", "msg": m}),
            }
        };
        tr.emit(ev);
        n += 1;
    }
    let _ = (Scalar4::one(), Scalar4::sqrt2_pow(0), Phase::zero());
    n
}

pub fn record(args: &[String], seed: u64, tr: &mut Tr) -> Value {
    let nd: usize = arg_num(args, "--dyadic", 20);
    let ns: usize = arg_num(args, "--scalar", 20);
    let len: usize = arg_num(args, "--len", 60);
    let mut r = crate::gens::rng(seed);
    let (mut od, mut os) = (0, 0);
    for _ in 0..nd {
        od += dyadic_history(&mut r, tr, len);
    }
    for _ in 0..ns {
        os += scalar_history(&mut r, tr, len);
    }
    json!({"dyadic_histories": nd, "dyadic_ops": od, "scalar_histories": ns, "scalar_ops": os})
}
