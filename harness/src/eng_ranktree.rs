//! engine `ranktree` (stub: to be filled in)
use crate::util::Tr;
use serde_json::{json, Value};

#[allow(unused_variables)]
pub fn record(args: &[String], seed: u64, tr: &mut Tr) -> Value {
    json!({"stub": true})
}
