//! C18: rank-decomposition trees (quizx::rankwidth).  One group = one graph and one history:
//! `random_decomp`, then the annealer's three random moves interleaved with
//! rankwidth()/rankwidth_score() (so that the cut-rank cache is partially filled when a move
//! happens), optionally ending in an annealer run.  After EVERY call the full node array and the
//! full cache are logged; TLC (mc/Trace_RankTree.tla) decides ValidTree / CacheCoherent /
//! WidthOK on them with the definitions of spec/RankTree.tla.
//!
//! What is readable from outside: `DecompTree.nodes`, `.leaves`, `.interior` are pub; the cache
//! `ranks` is private, but `rank((i, j))` is pub, normalises the key like every other cache
//! operation and returns the cached Option WITHOUT computing anything, so the whole cache is
//! read by asking for every index pair i <= j.  No hook in /repo is needed.
//!
//! Indices are shifted by one in the log (node index, vertex name: code k = spec k + 1).
//!
//!   --fixed                 the fixed small graphs (each: one history, and with --anneal the whole grid)
//!   --histories K --moves M K histories on seeded random graphs (2..=maxn vertices), M calls each
//!   --anneal K              K annealer runs on random graphs, parameters cycling through the grid
//!   --maxn N                largest random graph (default 8)
//!   --annealbig K           K SHORT annealer runs (10 / 20 / 50 iterations, the library's default temperatures and
//!                           cooling, RankwidthAnnealer::new) on random graphs with --bigmin..--bigmax (14..32) vertices:
//!                           the regime in which a run ends while the accepted tree is still worse than the best one
//!                           seen, so that "the returned tree is the best-WIDTH tree, not the last / best-score one" and
//!                           "no wider than the starting tree" are observable (AnnealNoWorse, AnnealValid, WidthOK)
//!   --api K                 audit item #16: K histories (graphs as above, with --fixed also the fixed graphs) made of
//!                           DIRECT calls with caller-chosen arguments, interleaved with the random moves and width
//!                           queries above:
//!                             hand     the starting tree built with DecompTree::new / add_leaf / add_interior (a
//!                                      caterpillar) instead of random_decomp, every other history
//!                             swapd    swap_subtrees((p1, c1), (p2, c2)) for ANY two disjoint subtrees (not only the
//!                                      leaf pairs / adjacent pairs the random moves pick); the caller follows the
//!                                      library's own protocol: path(c1, c2), clear_rank on each of its edges, swap
//!                             moved    move_subtree(path(a, b)) for any a, b at distance >= 3; cache emptied with
//!                                      clear_ranks() or selectively (path edges + the edge a1-ao that disappears)
//!                             setrank  set_rank / rank / clear_rank with either key order
//!                             compute  compute_ranks() alone
//!                             query    partition() of every tree edge in both orientations, path() between random
//!                                      nodes, edges(), num_edges()
//!                             sort     sort_nhds()
//!                           then an annealer whose starting tree is installed with set_init_decomp (all setters read
//!                           back through the getters), and one call of the top-level rankwidth::rank_decomp.
//!                           Every event logs the FULL node array and cache after the call (and before it where the
//!                           arguments have to be judged), so TLC decides ValidTree / CacheCoherent / WidthOK on them.
//!   Backends: histories and annealer runs alternate between vec_graph::Graph and hash_graph::Graph (field `be`);
//!   the code under test only asks vertices() and connected().

use crate::eng_simp::with_watchdog;
use crate::util::{arg_flag, arg_num, guarded, Tr};
use quizx::graph::{EType, GraphLike, VType};
use quizx::rankwidth::annealer::RankwidthAnnealer;
use quizx::rankwidth::decomp_tree::{DecompNode, DecompTree};
use quizx::vec_graph::Graph;
type HashGraph = quizx::hash_graph::Graph;
use rand::rngs::SmallRng;
use rand::{Rng, SeedableRng};
use serde_json::{json, Value};

#[derive(Clone)]
struct AG {
    name: String,
    n: usize,
    edges: Vec<(usize, usize)>,
    /// backend the graph is built in (set by `on`)
    be: &'static str,
}

fn ag(name: &str, n: usize, edges: &[(usize, usize)]) -> AG {
    AG { name: name.to_string(), n, edges: edges.to_vec(), be: "vec" }
}

fn on(a: &AG, be: &'static str) -> AG {
    AG { be, ..a.clone() }
}

fn fixed_graphs() -> Vec<AG> {
    let k = |n: usize| -> Vec<(usize, usize)> { (0..n).flat_map(|i| (i + 1..n).map(move |j| (i, j))).collect() };
    let cyc = |n: usize| -> Vec<(usize, usize)> { (0..n).map(|i| (i, (i + 1) % n)).collect() };
    let path = |n: usize| -> Vec<(usize, usize)> { (0..n - 1).map(|i| (i, i + 1)).collect() };
    let mut k4p = k(4);
    k4p.push((3, 4));
    let mut v = vec![
        ag("E2", 2, &[]),
        ag("K2", 2, &[(0, 1)]),
        ag("E3", 3, &[]),
        ag("P3", 3, &path(3)),
        ag("K3", 3, &k(3)),
        ag("E4", 4, &[]),
        ag("P4", 4, &path(4)),
        ag("C4", 4, &cyc(4)),
        ag("Star4", 4, &[(0, 1), (0, 2), (0, 3)]),
        ag("K4", 4, &k(4)),
        ag("E5", 5, &[]),
        ag("C5", 5, &cyc(5)),
        ag("P5", 5, &path(5)),
        ag("K4P", 5, &k4p),
        ag("C6", 6, &cyc(6)),
        ag("E6", 6, &[]),
        ag("K33", 6, &[(0, 3), (0, 4), (0, 5), (1, 3), (1, 4), (1, 5), (2, 3), (2, 4), (2, 5)]),
        ag("Prism", 6, &[(0, 1), (1, 2), (2, 0), (3, 4), (4, 5), (5, 3), (0, 3), (1, 4), (2, 5)]),
        ag("P7", 7, &path(7)),
        ag("C8", 8, &cyc(8)),
        ag("E8", 8, &[]),
    ];
    // 3-cube: rank-width 2
    let cube: Vec<(usize, usize)> = (0..8usize)
        .flat_map(|i| [1usize, 2, 4].into_iter().filter(move |b| i & b == 0).map(move |b| (i, i | b)))
        .collect();
    v.push(ag("Q3", 8, &cube));
    v
}

fn random_graph(r: &mut impl Rng, maxn: usize, idx: usize) -> AG {
    random_graph_between(r, 2, maxn.max(2), idx)
}

fn random_graph_between(r: &mut impl Rng, minn: usize, maxn: usize, idx: usize) -> AG {
    let n = r.random_range(minn..=maxn.max(minn));
    // one in twelve edgeless, otherwise a density class
    let p = match r.random_range(0..12) {
        0 => 0.0,
        1..=3 => 0.25,
        4..=8 => 0.5,
        _ => 0.8,
    };
    let mut edges = vec![];
    for i in 0..n {
        for j in i + 1..n {
            if p > 0.0 && r.random_bool(p) {
                edges.push((i, j));
            }
        }
    }
    AG { name: format!("R{idx}"), n, edges, be: "vec" }
}

/// all vertices Z; vec_graph numbers them 0..n-1 in creation order; edge types alternate (the
/// code under test only asks `connected`)
fn build<G: GraphLike>(a: &AG) -> G {
    let mut g = G::new();
    for i in 0..a.n {
        let v = g.add_vertex(VType::Z);
        assert_eq!(v, i, "vertex numbering of the backend");
    }
    for (k, &(u, v)) in a.edges.iter().enumerate() {
        g.add_edge_with_type(u, v, if k % 2 == 0 { EType::H } else { EType::N });
    }
    g
}

fn nodes_json(t: &DecompTree) -> Value {
    Value::Array(
        t.nodes
            .iter()
            .map(|nd| match nd {
                DecompNode::Leaf([p], v) => json!({"kind": "leaf", "nhd": [p + 1], "v": v + 1}),
                DecompNode::Interior(nh) => json!({"kind": "int", "nhd": [nh[0] + 1, nh[1] + 1, nh[2] + 1], "v": 0}),
            })
            .collect(),
    )
}

/// the whole cache: every key the code can ever have inserted is a normalised pair of node indices
fn cache_json(t: &mut DecompTree) -> Value {
    let n = t.nodes.len();
    let mut out = vec![];
    for i in 0..n {
        for j in i..n {
            if let Some(r) = t.rank((i, j)) {
                out.push(json!([i + 1, j + 1, r]));
            }
        }
    }
    Value::Array(out)
}

/// stop condition only (never the verdict): is the array still a tree the moves can work on?
/// (move_random_subtree re-draws for ever on an array without a long path.)
fn structurally_sound(t: &DecompTree) -> bool {
    let n = t.nodes.len();
    let mut deg = 0usize;
    for (i, nd) in t.nodes.iter().enumerate() {
        for &j in nd.nhd() {
            if j >= n || j == i || !t.nodes[j].nhd().contains(&i) {
                return false;
            }
            deg += 1;
        }
        let mut nh = nd.nhd().to_vec();
        nh.sort();
        nh.dedup();
        if nh.len() != nd.nhd().len() {
            return false;
        }
    }
    if n == 0 || deg != 2 * (n - 1) {
        return false;
    }
    let mut seen = vec![false; n];
    let mut stack = vec![0usize];
    seen[0] = true;
    while let Some(x) = stack.pop() {
        for &j in t.nodes[x].nhd() {
            if !seen[j] {
                seen[j] = true;
                stack.push(j);
            }
        }
    }
    seen.iter().all(|&b| b)
}

fn gtags(a: &AG) -> Vec<String> {
    let mut t = vec![];
    if a.edges.is_empty() {
        t.push("edgeless".to_string());
    }
    if a.n == 2 {
        t.push("n2".to_string());
    }
    if a.be == "hash" {
        t.push("be=hash".to_string());
    }
    t
}

/// run `f` on the tree on a watchdog thread; the tree comes back even after a panic (in the
/// state the code left it in); None = no answer within 20 s
fn call<T: Send + 'static>(tree: DecompTree, f: impl FnOnce(&mut DecompTree) -> T + Send + 'static) -> Option<(DecompTree, Result<T, String>)> {
    with_watchdog(20, move || {
        let mut t = tree;
        let r = guarded(|| f(&mut t));
        (t, r)
    })
}

#[derive(Default)]
struct Counts {
    graphs: usize,
    histories: usize,
    moves: usize,
    widths: usize,
    anneals: usize,
    panics: usize,
    timeouts: usize,
    unsound_stops: usize,
    api_histories: usize,
    direct_calls: usize,
    direct_skipped: usize,
    hash_groups: usize,
}

const KINDS: [&str; 3] = ["swap_leaves", "local_swap", "move_subtree"];

fn begin_event(a: &AG, tree: &mut DecompTree, res: &str, msg: &str, how: &str) -> Value {
    json!({"k": "begin", "name": a.name, "n": a.n, "how": how, "res": res, "msg": msg, "be": a.be,
           "adj": a.edges.iter().map(|&(u, v)| json!([u + 1, v + 1])).collect::<Vec<_>>(),
           "nodes": nodes_json(tree), "cache": cache_json(tree),
           "leaves": tree.leaves.iter().map(|x| x + 1).collect::<Vec<_>>(),
           "interior": tree.interior.iter().map(|x| x + 1).collect::<Vec<_>>(),
           "tags": gtags(a)})
}

/// the outcome of one logged call: Some(tree) = go on, None = the history stops here
fn finish<T>(r: Option<(DecompTree, Result<T, String>)>, kind: &str, extra: Value, tags: &[String], tr: &mut Tr, c: &mut Counts,
             ok: impl FnOnce(&mut DecompTree, T) -> Option<Value>) -> Option<DecompTree> {
    let with = |mut e: Value| {
        for (k, v) in extra.as_object().unwrap() {
            e[k.as_str()] = v.clone();
        }
        e
    };
    match r {
        None => {
            c.timeouts += 1;
            tr.emit(with(json!({"k": kind, "res": "timeout", "tags": tags})));
            None
        }
        Some((mut t, Err(msg))) => {
            c.panics += 1;
            tr.emit(with(json!({"k": kind, "res": "panic", "msg": msg, "nodes": nodes_json(&t), "cache": cache_json(&mut t), "tags": tags})));
            None
        }
        Some((mut t, Ok(x))) => match ok(&mut t, x) {
            // the closure declined (no admissible argument found): nothing was called, nothing is logged
            None => {
                c.direct_skipped += 1;
                Some(t)
            }
            Some(mut e) => {
                e["k"] = json!(kind);
                e["res"] = json!("ok");
                e["nodes"] = nodes_json(&t);
                e["cache"] = cache_json(&mut t);
                e["tags"] = json!(tags);
                tr.emit(with(e));
                if !structurally_sound(&t) {
                    c.unsound_stops += 1;
                    return None;
                }
                Some(t)
            }
        },
    }
}

/// rankwidth() + rankwidth_score(), and the same on a copy whose cache was emptied
fn width_step<G: GraphLike + 'static>(a: &AG, g: &G, tree: DecompTree, tr: &mut Tr, c: &mut Counts) -> Option<DecompTree> {
    let g2 = g.clone();
    let r = call(tree, move |t| {
        let w = t.rankwidth(&g2);
        let sc = t.rankwidth_score(&g2);
        let mut fresh = t.clone();
        fresh.clear_ranks();
        (w, sc, fresh.rankwidth(&g2), fresh.rankwidth_score(&g2))
    });
    let r2 = finish(r, "width", json!({}), &gtags(a), tr, c, |_, (w, sc, fw, fsc)| {
        // `nodes` (unchanged by the query) makes the event self-contained for --replay
        Some(json!({"rankwidth": w, "score": sc, "fresh_rankwidth": fw, "fresh_score": fsc}))
    });
    if r2.is_some() {
        c.widths += 1;
    }
    r2
}

/// one of the annealer's three random moves
fn move_step<G: GraphLike + 'static>(a: &AG, g: &G, tree: DecompTree, kind: usize, seed2: u64, tr: &mut Tr, c: &mut Counts) -> Option<DecompTree> {
    let mut tags = gtags(a);
    tags.push(KINDS[kind].to_string());
    let r = call(tree, move |t| {
        let mut r = SmallRng::seed_from_u64(seed2);
        match kind {
            0 => t.swap_random_leaves(&mut r),
            1 => t.random_local_swap(&mut r),
            _ => t.move_random_subtree(&mut r),
        }
    });
    let g2 = g.clone();
    let r2 = finish(r, "move", json!({"kind": KINDS[kind]}), &tags, tr, c, |t, ()| {
        Some(json!({"valid": guarded(|| t.is_valid_for_graph(&g2)).unwrap_or(false)}))
    });
    if r2.is_some() {
        c.moves += 1;
    }
    r2
}

/// random_decomp, then `m` calls; returns the tree (None if the history had to stop)
fn history<G: GraphLike + 'static>(a: &AG, g: &G, s: u64, m: usize, tr: &mut Tr, c: &mut Counts) -> Option<DecompTree> {
    let mut code_rng = SmallRng::seed_from_u64(s);
    let mut pick = SmallRng::seed_from_u64(s ^ 0x9e3779b97f4a7c15);
    tr.group();
    c.histories += 1;
    if a.be == "hash" {
        c.hash_groups += 1;
    }
    let mut tree = match guarded(|| DecompTree::random_decomp(g, &mut code_rng)) {
        Ok(t) => t,
        Err(msg) => {
            c.panics += 1;
            tr.emit(begin_event(a, &mut DecompTree::new(), "panic", &msg, "history"));
            return None;
        }
    };
    tr.emit(begin_event(a, &mut tree, "ok", "", "history"));
    // the share of width queries differs between histories: from "cache almost always full" to "almost never"
    let wshare = [1, 3, 5][pick.random_range(0..3)];
    for _ in 0..m {
        if pick.random_range(0..10) < wshare {
            tree = width_step(a, g, tree, tr, c)?;
        } else {
            // weights close to the annealer's (1 : 4 : 5), leaf swaps a bit more often
            let kind = match pick.random_range(0..10) {
                0..=1 => 0,
                2..=5 => 1,
                _ => 2,
            };
            let seed2: u64 = code_rng.random();
            tree = move_step(a, g, tree, kind, seed2, tr, c)?;
        }
    }
    Some(tree)
}

// ---------------------------------------------------------------------------------------------
// direct calls with caller-chosen arguments (--api)
// ---------------------------------------------------------------------------------------------

fn idx1(v: &[usize]) -> Vec<usize> {
    v.iter().map(|x| x + 1).collect()
}

/// a caterpillar over the vertices in the order `perm`, through new / add_leaf / add_interior only: leaves 0..n-1,
/// spine n..2n-3 (spec/RankTree.tla Caterpillar with the leaf vertices permuted); bool: every returned index was the
/// next free one
fn hand_built(perm: &[usize]) -> (DecompTree, bool) {
    let n = perm.len();
    let mut t = DecompTree::new();
    let mut idx_ok = true;
    if n == 2 {
        idx_ok &= t.add_leaf(1, perm[0]) == 0;
        idx_ok &= t.add_leaf(0, perm[1]) == 1;
        return (t, idx_ok);
    }
    let m = n - 2;
    let sp = |k: usize| n + k - 1; // spine node k = 1..m, 0-based index
    for i in 1..=n {
        let par = if i == 1 { sp(1) } else if i == n { sp(m) } else { sp(i - 1) };
        idx_ok &= t.add_leaf(par, perm[i - 1]) == i - 1;
    }
    for k in 1..=m {
        let l = if k == 1 { 0 } else { sp(k - 1) };
        let r = if k == m { n - 1 } else { sp(k + 1) };
        idx_ok &= t.add_interior([l, k, r]) == sp(k);
    }
    (t, idx_ok)
}

fn api_history<G: GraphLike + 'static>(a: &AG, g: &G, s: u64, m: usize, tr: &mut Tr, c: &mut Counts) -> Option<DecompTree> {
    let mut code_rng = SmallRng::seed_from_u64(s);
    let mut pick = SmallRng::seed_from_u64(s ^ 0x51ed_270b_9e37_79b9);
    tr.group();
    c.histories += 1;
    c.api_histories += 1;
    if a.be == "hash" {
        c.hash_groups += 1;
    }
    let by_hand = pick.random_bool(0.5);
    let mut tree = if by_hand {
        let mut perm: Vec<usize> = (0..a.n).collect();
        for i in (1..perm.len()).rev() {
            perm.swap(i, pick.random_range(0..=i));
        }
        match guarded(|| hand_built(&perm)) {
            Ok((mut t, idx_ok)) => {
                let mut e = begin_event(a, &mut t, "ok", "", "api_hand");
                e["perm"] = json!(idx1(&perm));
                e["idx_ok"] = json!(idx_ok);
                tr.emit(e);
                t
            }
            Err(msg) => {
                c.panics += 1;
                tr.emit(begin_event(a, &mut DecompTree::new(), "panic", &msg, "api_hand"));
                return None;
            }
        }
    } else {
        match guarded(|| DecompTree::random_decomp(g, &mut code_rng)) {
            Ok(mut t) => {
                tr.emit(begin_event(a, &mut t, "ok", "", "api"));
                t
            }
            Err(msg) => {
                c.panics += 1;
                tr.emit(begin_event(a, &mut DecompTree::new(), "panic", &msg, "api"));
                return None;
            }
        }
    };
    let tags = gtags(a);
    for _ in 0..m {
        let kind = pick.random_range(0..100);
        let seed2: u64 = pick.random();
        let pre = nodes_json(&tree);
        let pre_cache = cache_json(&mut tree);
        c.direct_calls += 1;
        tree = match kind {
            // ---- swap_subtrees, any two disjoint subtrees; protocol of swap_random_leaves / random_local_swap
            0..=24 => {
                let r = call(tree, move |t| {
                    let mut r = SmallRng::seed_from_u64(seed2);
                    let n = t.nodes.len();
                    for _ in 0..30 {
                        let (c1, c2) = (r.random_range(0..n), r.random_range(0..n));
                        let path = t.path(c1, c2);
                        // c1 .. p1 .. p2 .. c2 with c1 # c2; p1 = p2 (siblings) is allowed, a tree edge itself (length 2) is not
                        if path.len() >= 3 && path[path.len() - 1] == c2 {
                            let (p1, p2) = (path[1], path[path.len() - 2]);
                            for w in path.windows(2) {
                                t.clear_rank((w[0], w[1]));
                            }
                            t.swap_subtrees((p1, c1), (p2, c2));
                            return Some((vec![p1, c1, p2, c2], path));
                        }
                    }
                    None
                });
                let g2 = g.clone();
                finish(r, "swapd", json!({"pre": pre, "pre_cache": pre_cache}), &tags, tr, c, |t, x| {
                    x.map(|(args, path)| json!({"args": idx1(&args), "path": idx1(&path), "valid": guarded(|| t.is_valid_for_graph(&g2)).unwrap_or(false)}))
                })?
            }
            // ---- move_subtree(path(a, b)), any a, b at distance >= 3
            25..=44 => {
                let r = call(tree, move |t| {
                    let mut r = SmallRng::seed_from_u64(seed2);
                    let n = t.nodes.len();
                    let selective = r.random_bool(0.5);
                    for _ in 0..30 {
                        let (x, y) = (r.random_range(0..n), r.random_range(0..n));
                        let path = t.path(x, y);
                        if path.len() >= 4 && path[path.len() - 1] == y {
                            let ao = t.nodes[path[1]].other_neighbor(&[path[0], path[2]]);
                            if selective {
                                // the edges whose partition changes, and the tree edges that disappear
                                for w in path.windows(2) {
                                    t.clear_rank((w[1], w[0]));
                                }
                                t.clear_rank((ao, path[1]));
                            } else {
                                t.clear_ranks();
                            }
                            t.move_subtree(&path);
                            return Some((path, ao, selective));
                        }
                    }
                    None
                });
                let g2 = g.clone();
                finish(r, "moved", json!({"pre": pre, "pre_cache": pre_cache}), &tags, tr, c, |t, x| {
                    x.map(|(path, ao, sel)| json!({"path": idx1(&path), "ao": ao + 1, "clear": if sel { "selective" } else { "all" },
                                                   "valid": guarded(|| t.is_valid_for_graph(&g2)).unwrap_or(false)}))
                })?
            }
            // ---- set_rank / rank / clear_rank, either key order
            45..=56 => {
                let g2 = g.clone();
                let r = call(tree, move |t| {
                    let mut r = SmallRng::seed_from_u64(seed2);
                    let es = t.edges();
                    if es.is_empty() {
                        return None;
                    }
                    let e = es[r.random_range(0..es.len())];
                    let rev = (e.1, e.0);
                    // the value: what the code itself computes for this edge on an emptied copy (TLC re-derives it)
                    let val = {
                        let mut f = t.clone();
                        f.clear_ranks();
                        f.compute_ranks(&g2);
                        f.rank(e)
                    }?;
                    let set_clear = r.random_bool(0.4);
                    let (k1, k2) = if r.random_bool(0.5) { (e, rev) } else { (rev, e) };
                    if set_clear {
                        t.set_rank(k1, val + 1); // a wrong value ...
                        t.clear_rank(k2); // ... removed through the other spelling of the key
                    } else {
                        t.set_rank(k1, val);
                    }
                    let got = [t.rank(e), t.rank(rev)];
                    Some((e, k1, val, set_clear, got))
                });
                finish(r, "setrank", json!({"pre_cache": pre_cache}), &tags, tr, c, |_, x| {
                    x.map(|(e, k1, val, sc, got)| {
                        json!({"edge": [e.0 + 1, e.1 + 1], "key": [k1.0 + 1, k1.1 + 1], "val": val, "variant": if sc { "set_clear" } else { "set" },
                               "got": got.iter().map(|o| o.map(|x| x as i64).unwrap_or(-1)).collect::<Vec<_>>()})
                    })
                })?
            }
            // ---- compute_ranks alone
            57..=66 => {
                let g2 = g.clone();
                let r = call(tree, move |t| t.compute_ranks(&g2));
                finish(r, "compute", json!({"pre_cache": pre_cache}), &tags, tr, c, |_, ()| Some(json!({})))?
            }
            // ---- the read-only queries
            67..=78 => {
                let r = call(tree, move |t| {
                    let mut r = SmallRng::seed_from_u64(seed2);
                    let n = t.nodes.len();
                    let es = t.edges();
                    let mut parts = vec![];
                    for &e in &es {
                        for key in [e, (e.1, e.0)] {
                            let (p1, p2) = t.partition(key);
                            parts.push(json!({"e": [key.0 + 1, key.1 + 1], "p1": idx1(&p1), "p2": idx1(&p2)}));
                        }
                    }
                    let mut paths = vec![];
                    for _ in 0..4 {
                        let (x, y) = (r.random_range(0..n), r.random_range(0..n));
                        paths.push(json!({"a": x + 1, "b": y + 1, "p": idx1(&t.path(x, y))}));
                    }
                    json!({"parts": parts, "paths": paths, "edges": es.iter().map(|e| json!([e.0 + 1, e.1 + 1])).collect::<Vec<_>>(),
                           "num_edges": t.num_edges()})
                });
                finish(r, "query", json!({}), &tags, tr, c, |_, e| Some(e))?
            }
            // ---- sort_nhds
            79..=83 => {
                let r = call(tree, move |t| t.sort_nhds());
                finish(r, "sort", json!({"pre": pre}), &tags, tr, c, |_, ()| Some(json!({})))?
            }
            84..=91 => {
                c.direct_calls -= 1;
                width_step(a, g, tree, tr, c)?
            }
            _ => {
                c.direct_calls -= 1;
                move_step(a, g, tree, pick.random_range(0..3), seed2, tr, c)?
            }
        };
    }
    Some(tree)
}

/// the top-level entry point rankwidth::rank_decomp (own annealer, thread_rng: not reproducible, judged on its result)
fn rank_decomp_event<G: GraphLike + 'static>(a: &AG, g: &G, tr: &mut Tr, c: &mut Counts) {
    let g2 = g.clone();
    let r = with_watchdog(120, move || {
        guarded(move || {
            let mut out = quizx::rankwidth::rank_decomp(&g2);
            let valid = out.is_valid_for_graph(&g2);
            let nodes = nodes_json(&out);
            let cache = cache_json(&mut out);
            let w = out.rankwidth(&g2);
            let sc = out.rankwidth_score(&g2);
            (valid, nodes, cache, w, sc)
        })
    });
    let tags = gtags(a);
    match r {
        None => {
            c.timeouts += 1;
            tr.emit(json!({"k": "rank_decomp", "res": "timeout", "tags": tags}));
        }
        Some(Err(msg)) => {
            c.panics += 1;
            tr.emit(json!({"k": "rank_decomp", "res": "panic", "msg": msg, "tags": tags}));
        }
        Some(Ok((valid, nodes, cache, w, sc))) => {
            tr.emit(json!({"k": "rank_decomp", "res": "ok", "valid": valid, "nodes": nodes, "cache": cache, "width": w, "score": sc, "tags": tags}));
        }
    }
}

#[derive(Clone, Copy)]
struct Params {
    iters: usize,
    init_temp: f64,
    min_temp: f64,
    cooling: f64,
    adaptive: bool,
}

fn grid() -> Vec<Params> {
    let mut v = vec![];
    for &iters in &[0usize, 30, 250] {
        for &(init_temp, min_temp, cooling) in &[(5.0, 0.01, 0.95), (0.5, 0.05, 0.8), (50.0, 0.01, 0.99)] {
            for &adaptive in &[true, false] {
                v.push(Params { iters, init_temp, min_temp, cooling, adaptive });
            }
        }
    }
    v
}

fn milli(x: f64) -> i64 {
    (x * 1000.0).round() as i64
}

/// one annealer run.  ctor 0: RankwidthAnnealer::new (its own random_decomp; the group starts with the annealer's
/// initial tree).  ctor 1: new_with_decomp on `start` (the tree a history left behind, cache included).  ctor 2:
/// new (own random tree) and then set_init_decomp(start): the starting tree is the one the caller installed.
fn anneal<G: GraphLike + 'static>(a: &AG, g: &G, s: u64, p: Params, ctor: u8, start: Option<DecompTree>, tr: &mut Tr, c: &mut Counts) {
    let rng = SmallRng::seed_from_u64(s ^ 0xa11ea1);
    let mut tags = gtags(a);
    if p.adaptive {
        tags.push("adaptive".to_string());
    }
    let cname = ["new", "new_with_decomp", "set_init_decomp"][ctor as usize];
    let pj = json!({"iters": p.iters, "init_temp_milli": milli(p.init_temp), "min_temp_milli": milli(p.min_temp),
                    "cooling_milli": milli(p.cooling), "adaptive": p.adaptive, "ctor": cname});
    let g2 = g.clone();
    let mut an = match (ctor, start.clone()) {
        (1, Some(tree)) => RankwidthAnnealer::new_with_decomp(g2, tree, rng),
        (2, Some(tree)) => match guarded(move || {
            let mut an = RankwidthAnnealer::new(g2, rng);
            an.set_init_decomp(tree);
            an
        }) {
            Ok(an) => an,
            Err(msg) => {
                c.panics += 1;
                tr.emit(json!({"k": "anneal", "params": pj, "res": "panic", "msg": msg, "tags": tags}));
                return;
            }
        },
        _ => {
            tr.group();
            if a.be == "hash" {
                c.hash_groups += 1;
            }
            match guarded(move || RankwidthAnnealer::new(g2, rng)) {
                Ok(an) => {
                    let mut init = an.init_decomp().clone();
                    tr.emit(begin_event(a, &mut init, "ok", "", "anneal"));
                    an
                }
                Err(msg) => {
                    c.panics += 1;
                    tr.emit(begin_event(a, &mut DecompTree::new(), "panic", &msg, "anneal"));
                    return;
                }
            }
        }
    };
    an.set_iterations(p.iters).set_init_temp(p.init_temp).set_min_temp(p.min_temp).set_cooling_rate(p.cooling).set_adaptive_cooling(p.adaptive);
    // the getters (drift only: the property is about the trees, not about the accessors)
    let get = json!({"iters": an.iterations(), "init_temp_milli": milli(an.init_temp()), "min_temp_milli": milli(an.min_temp()),
                     "cooling_milli": milli(an.cooling_rate()), "adaptive": an.adaptive_cooling()});
    // the STARTING TREE of the property: the one the caller handed over, where there is one (not a read-back)
    let start_tree = start.unwrap_or_else(|| an.init_decomp().clone());
    let readback_same = nodes_json(an.init_decomp()) == nodes_json(&start_tree);
    // what the annealer itself will take as the width of its starting tree (cache as it stands)
    let g2 = g.clone();
    let init_width = {
        let mut i2 = start_tree.clone();
        guarded(|| i2.rankwidth(&g2)).ok()
    };
    c.anneals += 1;
    let init_nodes = nodes_json(&start_tree);
    let g3 = g.clone();
    // RE-USE of the annealer object (seed C18_f): run() takes &mut self, so a second run() - here after shortening the run
    // through the setter - is ordinary use and must again return a valid tree no wider than the starting tree. It is
    // logged as a second `anneal` event (field rerun) with the same starting tree and judged by the same predicates.
    let rerun_iters = p.iters.min(40);
    let r = with_watchdog(90, move || {
        let one = |an: &mut RankwidthAnnealer<SmallRng, G>| {
            let mut out = an.run();
            let valid = out.is_valid_for_graph(&g3);
            let nodes = nodes_json(&out);
            let cache = cache_json(&mut out); // as returned, before any further query
            let w = out.rankwidth(&g3);
            let sc = out.rankwidth_score(&g3);
            (valid, nodes, cache, w, sc)
        };
        let first = guarded(|| one(&mut an));
        let second = if first.is_ok() {
            an.set_iterations(rerun_iters);
            Some(guarded(|| one(&mut an)))
        } else {
            None
        };
        (first, second)
    });
    let mut emit_one = |res: Result<(bool, Value, Value, usize, usize), String>, pj: &Value, rerun: bool, tr: &mut Tr, c: &mut Counts| match res {
        Err(msg) => {
            c.panics += 1;
            tr.emit(json!({"k": "anneal", "params": pj, "res": "panic", "msg": msg, "tags": tags, "rerun": rerun}));
        }
        Ok((valid, nodes, cache, w, sc)) => {
            let mut e = json!({"k": "anneal", "params": pj, "init_readback_same": readback_same, "res": "ok", "valid": valid,
                               "init_width": init_width.map(|x| x as i64).unwrap_or(-1),
                               "final_width": w, "final_score": sc, "init_nodes": init_nodes, "nodes": nodes, "cache": cache, "tags": tags, "rerun": rerun});
            if !rerun {
                e["get"] = get.clone();
            }
            tr.emit(e);
        }
    };
    match r {
        None => {
            c.timeouts += 1;
            tr.emit(json!({"k": "anneal", "params": pj, "res": "timeout", "tags": tags}));
        }
        Some((first, second)) => {
            emit_one(first, &pj, false, tr, c);
            if let Some(sec) = second {
                let mut pj2 = pj.clone();
                pj2["iters"] = json!(rerun_iters);
                c.anneals += 1;
                emit_one(sec, &pj2, true, tr, c);
            }
        }
    }
}

/// what: 0 = history, 1 = annealer run (ctor as given; 1 and 2 after a short history), 2 = direct-call history,
/// then an annealer started with set_init_decomp and one rank_decomp
fn run<G: GraphLike + 'static>(a: &AG, what: u8, s: u64, m: usize, p: Params, ctor: u8, tr: &mut Tr, c: &mut Counts) {
    let g: G = build(a);
    match what {
        0 => {
            history(a, &g, s, m, tr, c);
        }
        1 => {
            if ctor == 0 {
                anneal(a, &g, s, p, 0, None, tr, c);
            } else if let Some(tree) = history(a, &g, s, 6, tr, c) {
                anneal(a, &g, s, p, ctor, Some(tree), tr, c);
            }
        }
        _ => {
            if let Some(tree) = api_history(a, &g, s, m, tr, c) {
                // a good tree to install: the best of a longer run from this tree (so that an annealer that ignored
                // set_init_decomp and kept its own random tree would usually return something wider)
                let good = {
                    let g2 = g.clone();
                    let t2 = tree.clone();
                    with_watchdog(60, move || {
                        guarded(move || {
                            let mut an = RankwidthAnnealer::new_with_decomp(g2, t2, SmallRng::seed_from_u64(s ^ 0x600d));
                            an.set_iterations(400);
                            an.run()
                        })
                    })
                    .and_then(|r| r.ok())
                    .unwrap_or(tree)
                };
                anneal(a, &g, s, p, 2, Some(good), tr, c);
                rank_decomp_event(a, &g, tr, c);
            }
        }
    }
}

fn dispatch(a: &AG, hash: bool, what: u8, s: u64, m: usize, p: Params, ctor: u8, tr: &mut Tr, c: &mut Counts) {
    if hash {
        run::<HashGraph>(&on(a, "hash"), what, s, m, p, ctor, tr, c)
    } else {
        run::<Graph>(&on(a, "vec"), what, s, m, p, ctor, tr, c)
    }
}

pub fn record(args: &[String], seed: u64, tr: &mut Tr) -> Value {
    let nhist: usize = arg_num(args, "--histories", 0);
    let nmoves: usize = arg_num(args, "--moves", 30);
    let nanneal: usize = arg_num(args, "--anneal", 0);
    let napi: usize = arg_num(args, "--api", 0);
    let maxn: usize = arg_num(args, "--maxn", 8);
    let fixed = arg_flag(args, "--fixed");
    let mut c = Counts::default();
    let mut r = crate::gens::rng(seed ^ 0xc18);
    let grid = grid();
    if fixed {
        for (i, a) in fixed_graphs().iter().enumerate() {
            c.graphs += 1;
            if nhist > 0 {
                for rep in 0..2u64 {
                    // the second history of every graph runs on the hash backend
                    dispatch(a, rep == 1, 0, seed.wrapping_mul(1000003) + 17 * i as u64 + rep, nmoves, grid[0], 0, tr, &mut c);
                }
            }
            if nanneal > 0 {
                for (j, p) in grid.iter().enumerate() {
                    dispatch(a, j % 4 == 1, 1, seed.wrapping_mul(7919) + (i * 100 + j) as u64, 0, *p, (j % 3 == 2) as u8, tr, &mut c);
                }
            }
            if napi > 0 {
                for rep in 0..2u64 {
                    let p = grid[(i + 5 * rep as usize + seed as usize) % grid.len()];
                    dispatch(a, rep == 1, 2, seed.wrapping_mul(104729) + 31 * i as u64 + rep, nmoves, p, 2, tr, &mut c);
                }
            }
        }
    }
    for i in 0..nhist {
        let a = random_graph(&mut r, maxn, i);
        c.graphs += 1;
        dispatch(&a, i % 3 == 2, 0, r.random(), nmoves, grid[0], 0, tr, &mut c);
    }
    for i in 0..nanneal {
        let a = random_graph(&mut r, maxn, nhist + i);
        c.graphs += 1;
        let p = grid[(i + seed as usize) % grid.len()];
        dispatch(&a, i % 4 == 1, 1, r.random(), 0, p, (i % 3 == 2) as u8, tr, &mut c);
    }
    // short runs on larger graphs (generator of its own, see above)
    let nbig: usize = arg_num(args, "--annealbig", 0);
    let (bigmin, bigmax): (usize, usize) = (arg_num(args, "--bigmin", 14), arg_num(args, "--bigmax", 32));
    let mut r3 = crate::gens::rng(seed ^ 0xc18b);
    for i in 0..nbig {
        let a = random_graph_between(&mut r3, bigmin, bigmax, nhist + nanneal + napi + i);
        c.graphs += 1;
        // the library's defaults (RankwidthAnnealer::new: 5.0 / 0.01 / 0.95), adaptive cooling on three times out of four
        let p = Params { iters: [10, 20, 50][i % 3], init_temp: 5.0, min_temp: 0.01, cooling: 0.95, adaptive: i % 4 != 3 };
        dispatch(&a, i % 5 == 4, 1, r3.random(), 0, p, 0, tr, &mut c);
    }
    // a generator of its own: adding --api to a plan leaves the graphs of the histories above unchanged
    let mut r2 = crate::gens::rng(seed ^ 0xc18a);
    for i in 0..napi {
        let a = random_graph(&mut r2, maxn, nhist + nanneal + i);
        c.graphs += 1;
        let p = grid[(i + 7 * seed as usize) % grid.len()];
        dispatch(&a, i % 2 == 1, 2, r2.random(), nmoves, p, 2, tr, &mut c);
    }
    json!({"graphs": c.graphs, "histories": c.histories, "moves": c.moves, "width_queries": c.widths, "annealer_runs": c.anneals,
           "panics": c.panics, "timeouts": c.timeouts, "stopped_on_unsound_tree": c.unsound_stops,
           "api_histories": c.api_histories, "direct_calls": c.direct_calls, "direct_calls_skipped": c.direct_skipped,
           "groups_on_hash_backend": c.hash_groups})
}
