//! C18: rank-decomposition trees (quizx::rankwidth).  One group = one graph and one history:
//! `random_decomp`, then the annealer's three random moves interleaved with
//! rankwidth()/rankwidth_score() (so that the cut-rank cache is partially filled when a move
//! happens), optionally ending in an annealer run.  After EVERY call the full node array and the
//! full cache are logged; TLC (mc/Trace_RankTree.tla) decides ValidTree / CacheCoherent /
//! WidthOK on them with the definitions of spec/RankTree.tla.
//!
//! What is readable from outside: `DecompTree.nodes`, `.leaves`, `.interior` are pub; the cache
//! `ranks` is private, but `rank((i, j))` is pub, normalises the key like every other cache
//! operation and returns the cached Option WITHOUT computing anything, so the whole cache is
//! read by asking for every index pair i <= j.  No hook in /repo is needed.
//!
//! Indices are shifted by one in the log (node index, vertex name: code k = spec k + 1).
//!
//!   --fixed                 the fixed small graphs (each: one history, and with --anneal the whole grid)
//!   --histories K --moves M K histories on seeded random graphs (2..=maxn vertices), M calls each
//!   --anneal K              K annealer runs on random graphs, parameters cycling through the grid
//!   --maxn N                largest random graph (default 8)

use crate::eng_simp::with_watchdog;
use crate::util::{arg_flag, arg_num, guarded, Tr};
use quizx::graph::{EType, GraphLike, VType};
use quizx::rankwidth::annealer::RankwidthAnnealer;
use quizx::rankwidth::decomp_tree::{DecompNode, DecompTree};
use quizx::vec_graph::Graph;
use rand::rngs::SmallRng;
use rand::{Rng, SeedableRng};
use serde_json::{json, Value};

#[derive(Clone)]
struct AG {
    name: String,
    n: usize,
    edges: Vec<(usize, usize)>,
}

fn ag(name: &str, n: usize, edges: &[(usize, usize)]) -> AG {
    AG { name: name.to_string(), n, edges: edges.to_vec() }
}

fn fixed_graphs() -> Vec<AG> {
    let k = |n: usize| -> Vec<(usize, usize)> { (0..n).flat_map(|i| (i + 1..n).map(move |j| (i, j))).collect() };
    let cyc = |n: usize| -> Vec<(usize, usize)> { (0..n).map(|i| (i, (i + 1) % n)).collect() };
    let path = |n: usize| -> Vec<(usize, usize)> { (0..n - 1).map(|i| (i, i + 1)).collect() };
    let mut k4p = k(4);
    k4p.push((3, 4));
    let mut v = vec![
        ag("E2", 2, &[]),
        ag("K2", 2, &[(0, 1)]),
        ag("E3", 3, &[]),
        ag("P3", 3, &path(3)),
        ag("K3", 3, &k(3)),
        ag("E4", 4, &[]),
        ag("P4", 4, &path(4)),
        ag("C4", 4, &cyc(4)),
        ag("Star4", 4, &[(0, 1), (0, 2), (0, 3)]),
        ag("K4", 4, &k(4)),
        ag("E5", 5, &[]),
        ag("C5", 5, &cyc(5)),
        ag("P5", 5, &path(5)),
        ag("K4P", 5, &k4p),
        ag("C6", 6, &cyc(6)),
        ag("E6", 6, &[]),
        ag("K33", 6, &[(0, 3), (0, 4), (0, 5), (1, 3), (1, 4), (1, 5), (2, 3), (2, 4), (2, 5)]),
        ag("Prism", 6, &[(0, 1), (1, 2), (2, 0), (3, 4), (4, 5), (5, 3), (0, 3), (1, 4), (2, 5)]),
        ag("P7", 7, &path(7)),
        ag("C8", 8, &cyc(8)),
        ag("E8", 8, &[]),
    ];
    // 3-cube: rank-width 2
    let cube: Vec<(usize, usize)> = (0..8usize)
        .flat_map(|i| [1usize, 2, 4].into_iter().filter(move |b| i & b == 0).map(move |b| (i, i | b)))
        .collect();
    v.push(ag("Q3", 8, &cube));
    v
}

fn random_graph(r: &mut impl Rng, maxn: usize, idx: usize) -> AG {
    let n = r.random_range(2..=maxn.max(2));
    // one in twelve edgeless, otherwise a density class
    let p = match r.random_range(0..12) {
        0 => 0.0,
        1..=3 => 0.25,
        4..=8 => 0.5,
        _ => 0.8,
    };
    let mut edges = vec![];
    for i in 0..n {
        for j in i + 1..n {
            if p > 0.0 && r.random_bool(p) {
                edges.push((i, j));
            }
        }
    }
    AG { name: format!("R{idx}"), n, edges }
}

/// all vertices Z; vec_graph numbers them 0..n-1 in creation order; edge types alternate (the
/// code under test only asks `connected`)
fn build(a: &AG) -> Graph {
    let mut g = Graph::new();
    for i in 0..a.n {
        let v = g.add_vertex(VType::Z);
        assert_eq!(v, i, "vec_graph vertex numbering");
    }
    for (k, &(u, v)) in a.edges.iter().enumerate() {
        g.add_edge_with_type(u, v, if k % 2 == 0 { EType::H } else { EType::N });
    }
    g
}

fn nodes_json(t: &DecompTree) -> Value {
    Value::Array(
        t.nodes
            .iter()
            .map(|nd| match nd {
                DecompNode::Leaf([p], v) => json!({"kind": "leaf", "nhd": [p + 1], "v": v + 1}),
                DecompNode::Interior(nh) => json!({"kind": "int", "nhd": [nh[0] + 1, nh[1] + 1, nh[2] + 1], "v": 0}),
            })
            .collect(),
    )
}

/// the whole cache: every key the code can ever have inserted is a normalised pair of node indices
fn cache_json(t: &mut DecompTree) -> Value {
    let n = t.nodes.len();
    let mut out = vec![];
    for i in 0..n {
        for j in i..n {
            if let Some(r) = t.rank((i, j)) {
                out.push(json!([i + 1, j + 1, r]));
            }
        }
    }
    Value::Array(out)
}

/// stop condition only (never the verdict): is the array still a tree the moves can work on?
/// (move_random_subtree re-draws for ever on an array without a long path.)
fn structurally_sound(t: &DecompTree) -> bool {
    let n = t.nodes.len();
    let mut deg = 0usize;
    for (i, nd) in t.nodes.iter().enumerate() {
        for &j in nd.nhd() {
            if j >= n || j == i || !t.nodes[j].nhd().contains(&i) {
                return false;
            }
            deg += 1;
        }
        let mut nh = nd.nhd().to_vec();
        nh.sort();
        nh.dedup();
        if nh.len() != nd.nhd().len() {
            return false;
        }
    }
    if n == 0 || deg != 2 * (n - 1) {
        return false;
    }
    let mut seen = vec![false; n];
    let mut stack = vec![0usize];
    seen[0] = true;
    while let Some(x) = stack.pop() {
        for &j in t.nodes[x].nhd() {
            if !seen[j] {
                seen[j] = true;
                stack.push(j);
            }
        }
    }
    seen.iter().all(|&b| b)
}

fn gtags(a: &AG) -> Vec<String> {
    let mut t = vec![];
    if a.edges.is_empty() {
        t.push("edgeless".to_string());
    }
    if a.n == 2 {
        t.push("n2".to_string());
    }
    t
}

/// run `f` on the tree on a watchdog thread; the tree comes back even after a panic (in the
/// state the code left it in); None = no answer within 20 s
fn call<T: Send + 'static>(tree: DecompTree, f: impl FnOnce(&mut DecompTree) -> T + Send + 'static) -> Option<(DecompTree, Result<T, String>)> {
    with_watchdog(20, move || {
        let mut t = tree;
        let r = guarded(|| f(&mut t));
        (t, r)
    })
}

#[derive(Default)]
struct Counts {
    graphs: usize,
    histories: usize,
    moves: usize,
    widths: usize,
    anneals: usize,
    panics: usize,
    timeouts: usize,
    unsound_stops: usize,
}

const KINDS: [&str; 3] = ["swap_leaves", "local_swap", "move_subtree"];

fn begin_event(a: &AG, tree: &mut DecompTree, res: &str, msg: &str, how: &str) -> Value {
    json!({"k": "begin", "name": a.name, "n": a.n, "how": how, "res": res, "msg": msg,
           "adj": a.edges.iter().map(|&(u, v)| json!([u + 1, v + 1])).collect::<Vec<_>>(),
           "nodes": nodes_json(tree), "cache": cache_json(tree),
           "leaves": tree.leaves.iter().map(|x| x + 1).collect::<Vec<_>>(),
           "interior": tree.interior.iter().map(|x| x + 1).collect::<Vec<_>>(),
           "tags": gtags(a)})
}

/// random_decomp, then `m` calls; returns the tree (None if the history had to stop)
fn history(a: &AG, g: &Graph, s: u64, m: usize, tr: &mut Tr, c: &mut Counts) -> Option<DecompTree> {
    let mut code_rng = SmallRng::seed_from_u64(s);
    let mut pick = SmallRng::seed_from_u64(s ^ 0x9e3779b97f4a7c15);
    tr.group();
    c.histories += 1;
    let mut tree = match guarded(|| DecompTree::random_decomp(g, &mut code_rng)) {
        Ok(t) => t,
        Err(msg) => {
            c.panics += 1;
            tr.emit(begin_event(a, &mut DecompTree::new(), "panic", &msg, "history"));
            return None;
        }
    };
    tr.emit(begin_event(a, &mut tree, "ok", "", "history"));
    // the share of width queries differs between histories: from "cache almost always full" to "almost never"
    let wshare = [1, 3, 5][pick.random_range(0..3)];
    for _ in 0..m {
        if pick.random_range(0..10) < wshare {
            let g2 = g.clone();
            match call(tree, move |t| {
                let w = t.rankwidth(&g2);
                let sc = t.rankwidth_score(&g2);
                // the same on a copy whose cache was emptied
                let mut fresh = t.clone();
                fresh.clear_ranks();
                (w, sc, fresh.rankwidth(&g2), fresh.rankwidth_score(&g2))
            }) {
                None => {
                    c.timeouts += 1;
                    tr.emit(json!({"k": "width", "res": "timeout", "tags": gtags(a)}));
                    return None;
                }
                Some((mut t, Err(msg))) => {
                    c.panics += 1;
                    tr.emit(json!({"k": "width", "res": "panic", "msg": msg, "cache": cache_json(&mut t), "tags": gtags(a)}));
                    return None;
                }
                Some((mut t, Ok((w, sc, fw, fsc)))) => {
                    c.widths += 1;
                    // `nodes` (unchanged by the query) makes the event self-contained for --replay
                    tr.emit(json!({"k": "width", "res": "ok", "rankwidth": w, "score": sc, "fresh_rankwidth": fw, "fresh_score": fsc,
                                   "nodes": nodes_json(&t), "cache": cache_json(&mut t), "tags": gtags(a)}));
                    tree = t;
                }
            }
        } else {
            // weights close to the annealer's (1 : 4 : 5), leaf swaps a bit more often
            let kind = match pick.random_range(0..10) {
                0..=1 => 0,
                2..=5 => 1,
                _ => 2,
            };
            let seed2: u64 = code_rng.random();
            let mut tags = gtags(a);
            tags.push(KINDS[kind].to_string());
            match call(tree, move |t| {
                let mut r = SmallRng::seed_from_u64(seed2);
                match kind {
                    0 => t.swap_random_leaves(&mut r),
                    1 => t.random_local_swap(&mut r),
                    _ => t.move_random_subtree(&mut r),
                }
            }) {
                None => {
                    c.timeouts += 1;
                    tr.emit(json!({"k": "move", "kind": KINDS[kind], "res": "timeout", "tags": tags}));
                    return None;
                }
                Some((mut t, Err(msg))) => {
                    c.panics += 1;
                    tr.emit(json!({"k": "move", "kind": KINDS[kind], "res": "panic", "msg": msg,
                                   "nodes": nodes_json(&t), "cache": cache_json(&mut t), "tags": tags}));
                    return None;
                }
                Some((mut t, Ok(()))) => {
                    c.moves += 1;
                    let valid = guarded(|| t.is_valid_for_graph(g)).unwrap_or(false);
                    tr.emit(json!({"k": "move", "kind": KINDS[kind], "res": "ok", "valid": valid,
                                   "nodes": nodes_json(&t), "cache": cache_json(&mut t), "tags": tags}));
                    if !structurally_sound(&t) {
                        c.unsound_stops += 1;
                        return None;
                    }
                    tree = t;
                }
            }
        }
    }
    Some(tree)
}

#[derive(Clone, Copy)]
struct Params {
    iters: usize,
    init_temp: f64,
    min_temp: f64,
    cooling: f64,
    adaptive: bool,
}

fn grid() -> Vec<Params> {
    let mut v = vec![];
    for &iters in &[0usize, 30, 250] {
        for &(init_temp, min_temp, cooling) in &[(5.0, 0.01, 0.95), (0.5, 0.05, 0.8), (50.0, 0.01, 0.99)] {
            for &adaptive in &[true, false] {
                v.push(Params { iters, init_temp, min_temp, cooling, adaptive });
            }
        }
    }
    v
}

/// one annealer run.  with_decomp = false: RankwidthAnnealer::new (its own random_decomp; the
/// group starts with the annealer's initial tree).  with_decomp = true: a short history first,
/// then new_with_decomp on the tree it left behind, cache included.
fn anneal(a: &AG, g: &Graph, s: u64, p: Params, with_decomp: bool, tr: &mut Tr, c: &mut Counts) {
    let rng = SmallRng::seed_from_u64(s ^ 0xa11ea1);
    let mut tags = gtags(a);
    if p.adaptive {
        tags.push("adaptive".to_string());
    }
    let pj = json!({"iters": p.iters, "init_temp_milli": (p.init_temp * 1000.0).round() as i64,
                    "min_temp_milli": (p.min_temp * 1000.0).round() as i64,
                    "cooling_milli": (p.cooling * 1000.0).round() as i64, "adaptive": p.adaptive,
                    "ctor": if with_decomp { "new_with_decomp" } else { "new" }});
    let mut an = if with_decomp {
        let Some(tree) = history(a, g, s, 6, tr, c) else { return };
        RankwidthAnnealer::new_with_decomp(g.clone(), tree, rng)
    } else {
        tr.group();
        let g2 = g.clone();
        match guarded(move || RankwidthAnnealer::new(g2, rng)) {
            Ok(an) => {
                let mut init = an.init_decomp().clone();
                tr.emit(begin_event(a, &mut init, "ok", "", "anneal"));
                an
            }
            Err(msg) => {
                c.panics += 1;
                tr.emit(begin_event(a, &mut DecompTree::new(), "panic", &msg, "anneal"));
                return;
            }
        }
    };
    an.set_iterations(p.iters).set_init_temp(p.init_temp).set_min_temp(p.min_temp).set_cooling_rate(p.cooling).set_adaptive_cooling(p.adaptive);
    // what the annealer itself will take as the width of its starting tree (cache as it stands)
    let g2 = g.clone();
    let init_width = {
        let mut i2 = an.init_decomp().clone();
        guarded(|| i2.rankwidth(&g2)).ok()
    };
    c.anneals += 1;
    let init_nodes = nodes_json(an.init_decomp());
    let g3 = g.clone();
    let r = with_watchdog(60, move || {
        guarded(move || {
            let mut out = an.run();
            let valid = out.is_valid_for_graph(&g3);
            let nodes = nodes_json(&out);
            let cache = cache_json(&mut out); // as returned, before any further query
            let w = out.rankwidth(&g3);
            let sc = out.rankwidth_score(&g3);
            (valid, nodes, cache, w, sc)
        })
    });
    match r {
        None => {
            c.timeouts += 1;
            tr.emit(json!({"k": "anneal", "params": pj, "res": "timeout", "tags": tags}));
        }
        Some(Err(msg)) => {
            c.panics += 1;
            tr.emit(json!({"k": "anneal", "params": pj, "res": "panic", "msg": msg, "tags": tags}));
        }
        Some(Ok((valid, nodes, cache, w, sc))) => {
            tr.emit(json!({"k": "anneal", "params": pj, "res": "ok", "valid": valid,
                           "init_width": init_width.map(|x| x as i64).unwrap_or(-1),
                           "final_width": w, "final_score": sc, "init_nodes": init_nodes, "nodes": nodes, "cache": cache, "tags": tags}));
        }
    }
}

pub fn record(args: &[String], seed: u64, tr: &mut Tr) -> Value {
    let nhist: usize = arg_num(args, "--histories", 0);
    let nmoves: usize = arg_num(args, "--moves", 30);
    let nanneal: usize = arg_num(args, "--anneal", 0);
    let maxn: usize = arg_num(args, "--maxn", 8);
    let fixed = arg_flag(args, "--fixed");
    let mut c = Counts::default();
    let mut r = crate::gens::rng(seed ^ 0xc18);
    let grid = grid();
    if fixed {
        for (i, a) in fixed_graphs().iter().enumerate() {
            let g = build(a);
            c.graphs += 1;
            if nhist > 0 {
                for rep in 0..2u64 {
                    history(a, &g, seed.wrapping_mul(1000003) + 17 * i as u64 + rep, nmoves, tr, &mut c);
                }
            }
            if nanneal > 0 {
                for (j, p) in grid.iter().enumerate() {
                    anneal(a, &g, seed.wrapping_mul(7919) + (i * 100 + j) as u64, *p, j % 3 == 2, tr, &mut c);
                }
            }
        }
    }
    for i in 0..nhist {
        let a = random_graph(&mut r, maxn, i);
        let g = build(&a);
        c.graphs += 1;
        history(&a, &g, r.random(), nmoves, tr, &mut c);
    }
    for i in 0..nanneal {
        let a = random_graph(&mut r, maxn, nhist + i);
        let g = build(&a);
        c.graphs += 1;
        let p = grid[(i + seed as usize) % grid.len()];
        anneal(&a, &g, r.random(), p, i % 3 == 2, tr, &mut c);
    }
    json!({"graphs": c.graphs, "histories": c.histories, "moves": c.moves, "width_queries": c.widths, "annealer_runs": c.anneals,
           "panics": c.panics, "timeouts": c.timeouts, "stopped_on_unsound_tree": c.unsound_stops})
}
