//! C16: quizx::phase::Phase driven as a register machine; TLC (mc/Trace_Phase.tla) decides every
//! logged result with the definitions of spec/Phase.tla.
//!
//!   qxv record phase --out P --shards S [--seed s]
//!        --exhaustive N,D [--maxm M] [--pairs P]   every n in -N..=N, d in 1..=D: new (both sign
//!                                conventions), preds, neg, cmp with n/d + 2k and n/d + 1, a few integer
//!                                multiples, limit_denominator for every m in 2..=M, P sampled add/sub;
//!                                Div<i64> by a few divisors, normalize(), Display, and per sampled partner
//!                                Mul<Phase> / Div<Phase> (each through the operator AND its assign form)
//!        --raw                   with --exhaustive: also Phase::new(Ratio::new_raw(n, d)) and (-n, -d); observation only
//!        --random K              K seeded histories of ~30 operations on 4 phase registers
//!        --floats K              K extra f64 round trips (from_f64 . to_f64), harness-side 1e-12 test
//!        --big K                 K operations with operands up to 2^40, checked by the harness only
//!                                (canonical range + reducedness, and congruence modulo 2 in i128)
//!
//! Everything TLC sees stays below 2^15 per operand (so its 32-bit products cannot overflow); the
//! guards that ensure it are computed by the harness itself (own gcd / lcm), never from the answer
//! of the code under test.  A result that is not representable that way is logged as
//! `"res":"bad"` with decimal strings and is a violation.
//!
//! A crash that cannot be caught (the double normalisation in Phase::normalize turns many bugs into
//! unbounded recursion = stack overflow = abort) must still be data: before recording, the same
//! workload is run once in a child process (`--dry`) that prints every request before executing
//! it; if the child dies or hangs, the parent logs the last request as a `crash` event instead of
//! running the workload itself.

use crate::util::{arg_flag, arg_num, arg_val, guarded, Tr};
use num::{One, Rational64, Zero};
use quizx::phase::Phase;
use rand::rngs::StdRng;
use rand::{Rng, SeedableRng};
use serde_json::{json, Value};
use std::collections::BTreeMap;
use std::io::{BufRead, BufReader};
use std::process::{Command, Stdio};
use std::sync::{Arc, Mutex};

const SMALL: i64 = 1 << 15;
const NREGS: usize = 4;

fn gcd(a: i64, b: i64) -> i64 {
    let (mut a, mut b) = (a.abs(), b.abs());
    while b != 0 {
        (a, b) = (b, a % b);
    }
    a
}
fn gcd128(a: i128, b: i128) -> i128 {
    let (mut a, mut b) = (a.abs(), b.abs());
    while b != 0 {
        (a, b) = (b, a % b);
    }
    a
}
fn nd(p: &Phase) -> (i64, i64) {
    let r = p.to_rational();
    (*r.numer(), *r.denom())
}
/// can TLC compute with this stored value?
fn sane(p: &Phase) -> bool {
    let (n, d) = nd(p);
    d > 0 && d < SMALL && n.abs() < 2 * SMALL
}

struct M<'a> {
    regs: Vec<Phase>,
    tr: &'a mut Tr,
    dry: bool,
    cnt: BTreeMap<&'static str, usize>,
}

impl M<'_> {
    fn bump(&mut self, k: &'static str) {
        *self.cnt.entry(k).or_insert(0) += 1;
    }
    fn announce(&self, req: &Value) {
        if self.dry {
            println!("{req}");
        }
    }
    fn emit(&mut self, ev: Value) {
        if !self.dry {
            self.tr.emit(ev);
        }
    }
    /// the value the code holds in register a (always small: only such results are stored)
    fn pv(&self, a: usize) -> Value {
        let (n, d) = nd(&self.regs[a]);
        json!([n, d])
    }
    fn begin(&mut self, mode: &str) {
        if !self.dry {
            self.tr.group();
        }
        self.regs = vec![Phase::zero(); NREGS];
        self.emit(json!({"k": "begin", "regs": NREGS, "mode": mode}));
        self.bump("groups");
    }
    /// run a request that produces a phase for register r
    fn op(&mut self, kind: &'static str, mut req: Value, r: usize, f: impl FnOnce(&[Phase]) -> Phase) {
        self.announce(&req);
        self.bump(kind);
        let regs = self.regs.clone();
        match guarded(|| f(&regs)) {
            Err(msg) => {
                req["res"] = json!("panic");
                req["msg"] = json!(msg);
                self.bump("panics");
            }
            Ok(p) if sane(&p) => {
                let (n, d) = nd(&p);
                req["res"] = json!("ok");
                req["out"] = json!([n, d]);
                self.regs[r] = p;
            }
            Ok(p) => {
                let (n, d) = nd(&p);
                req["res"] = json!("bad");
                req["outs"] = json!([n.to_string(), d.to_string()]);
            }
        }
        self.emit(req);
    }
    fn new_phase(&mut self, r: usize, n: i64, d: i64, via: &'static str) {
        assert!(n.abs() < SMALL && d != 0 && d.abs() < SMALL);
        let req = json!({"k": "new", "r": r, "n": n, "d": d, "via": via});
        self.op("new", req, r, move |_| match via {
            "ratio" => Phase::new(Rational64::new(n, d)),
            "tuple" => Phase::from((n, d)),
            "int" => {
                assert!(d == 1);
                Phase::from(n)
            }
            _ => unreachable!(),
        });
    }
    /// Phase::new on a Ratio built with Ratio::new_raw (unreduced and/or negative denominator): such values are
    /// legal num::Ratio values but nothing in quizx produces them; recorded as an observation (no verdict)
    fn new_raw(&mut self, n: i64, d: i64) {
        let mut req = json!({"k": "newraw", "n": n, "d": d});
        self.announce(&req);
        self.bump("newraw");
        match guarded(|| {
            let p = Phase::new(Rational64::new_raw(n, d));
            (p, p.is_clifford(), p.is_t())
        }) {
            Err(msg) => {
                req["res"] = json!("panic");
                req["msg"] = json!(msg);
            }
            Ok((p, cl, t)) => {
                let (pn, pd) = nd(&p);
                req["res"] = json!("ok");
                req["out"] = json!([pn, pd]);
                req["clifford"] = json!(cl);
                req["t"] = json!(t);
            }
        }
        self.emit(req);
    }
    fn lcm_small(&self, a: usize, b: usize) -> bool {
        let (da, db) = (nd(&self.regs[a]).1, nd(&self.regs[b]).1);
        da / gcd(da, db) * db < SMALL
    }
    fn add(&mut self, r: usize, a: usize, b: usize, asg: bool) {
        let asg = asg && r == a;
        let req = json!({"k": "add", "r": r, "a": a, "b": b, "asg": asg, "av": self.pv(a), "bv": self.pv(b)});
        self.op("add", req, r, move |x| {
            if asg {
                let mut y = x[a];
                y += x[b];
                y
            } else {
                x[a] + x[b]
            }
        });
    }
    fn sub(&mut self, r: usize, a: usize, b: usize, asg: bool) {
        let asg = asg && r == a;
        let req = json!({"k": "sub", "r": r, "a": a, "b": b, "asg": asg, "av": self.pv(a), "bv": self.pv(b)});
        self.op("sub", req, r, move |x| {
            if asg {
                let mut y = x[a];
                y -= x[b];
                y
            } else {
                x[a] - x[b]
            }
        });
    }
    fn neg(&mut self, r: usize, a: usize) {
        let req = json!({"k": "neg", "r": r, "a": a, "av": self.pv(a)});
        self.op("neg", req, r, move |x| -x[a]);
    }
    fn mulint(&mut self, r: usize, a: usize, c: i64, asg: bool) {
        assert!(c.abs() < SMALL);
        let asg = asg && r == a;
        let req = json!({"k": "mulint", "r": r, "a": a, "c": c, "asg": asg, "av": self.pv(a)});
        self.op("mulint", req, r, move |x| {
            if asg {
                let mut y = x[a];
                y *= c;
                y
            } else {
                x[a] * c
            }
        });
    }
    /// run a request whose result is computed twice: through the operator and through its assign form
    /// (`*=`, `/=`); both results are logged (`out`, `out2`), TLC compares them
    fn op2(&mut self, kind: &'static str, mut req: Value, r: usize, f: impl FnOnce(&[Phase]) -> (Phase, Phase)) {
        self.announce(&req);
        self.bump(kind);
        let regs = self.regs.clone();
        match guarded(|| f(&regs)) {
            Err(msg) => {
                req["res"] = json!("panic");
                req["msg"] = json!(msg);
                self.bump("panics");
            }
            Ok((p, q)) if sane(&p) && sane(&q) => {
                let ((n, d), (n2, d2)) = (nd(&p), nd(&q));
                req["res"] = json!("ok");
                req["out"] = json!([n, d]);
                req["out2"] = json!([n2, d2]);
                self.regs[r] = p;
            }
            Ok((p, q)) => {
                let ((n, d), (n2, d2)) = (nd(&p), nd(&q));
                req["res"] = json!("bad");
                req["outs"] = json!([n.to_string(), d.to_string(), n2.to_string(), d2.to_string()]);
            }
        }
        self.emit(req);
    }
    /// denominators small enough for the product / quotient of the two representatives to stay below 2^15
    fn prod_small(&self, a: usize, b: usize) -> bool {
        nd(&self.regs[a]).1 * nd(&self.regs[b]).1 < SMALL
    }
    /// Mul<Phase> and MulAssign<Phase>: the product of the two stored representatives (not an operation on classes)
    fn mulph(&mut self, r: usize, a: usize, b: usize) {
        assert!(self.prod_small(a, b));
        let req = json!({"k": "mulph", "r": r, "a": a, "b": b, "av": self.pv(a), "bv": self.pv(b)});
        self.op2("mulph", req, r, move |x| {
            let mut y = x[a];
            y *= x[b];
            (x[a] * x[b], y)
        });
    }
    /// Div<Phase> and DivAssign<Phase>; a zero divisor is sent too (the panic of num::Ratio is then expected, not judged)
    fn divph(&mut self, r: usize, a: usize, b: usize) {
        assert!(self.prod_small(a, b));
        let req = json!({"k": "divph", "r": r, "a": a, "b": b, "av": self.pv(a), "bv": self.pv(b)});
        self.op2("divph", req, r, move |x| {
            let mut y = x[a];
            y /= x[b];
            (x[a] / x[b], y)
        });
    }
    /// Div<i64> and DivAssign<i64>
    fn divint(&mut self, r: usize, a: usize, c: i64) {
        assert!(nd(&self.regs[a]).1 * c.abs() < SMALL);
        let req = json!({"k": "divint", "r": r, "a": a, "c": c, "av": self.pv(a)});
        self.op2("divint", req, r, move |x| {
            let mut y = x[a];
            y /= c;
            (x[a] / c, y)
        });
    }
    /// Phase::normalize called on a stored value
    fn normalize(&mut self, r: usize, a: usize) {
        let req = json!({"k": "normalize", "r": r, "a": a, "av": self.pv(a)});
        self.op("normalize", req, r, move |x| x[a].normalize());
    }
    /// Display (observation: the property does not fix a text format; compared with num::Ratio's as L1)
    fn display(&mut self, a: usize) {
        let mut req = json!({"k": "display", "a": a, "av": self.pv(a)});
        self.announce(&req);
        self.bump("display");
        let p = self.regs[a];
        match guarded(|| format!("{p}")) {
            Err(msg) => {
                req["res"] = json!("panic");
                req["msg"] = json!(msg);
            }
            Ok(s) => {
                req["res"] = json!("ok");
                req["s"] = json!(s.chars().filter(|c| c.is_ascii_graphic()).take(60).collect::<String>());
            }
        }
        self.emit(req);
    }
    fn limit(&mut self, r: usize, a: usize, m: i64) {
        assert!((2..SMALL).contains(&m));
        let req = json!({"k": "limit", "r": r, "a": a, "m": m, "av": self.pv(a)});
        self.op("limit", req, r, move |x| x[a].limit_denominator(m));
    }
    fn preds(&mut self, a: usize) {
        let mut req = json!({"k": "preds", "a": a, "av": self.pv(a)});
        self.announce(&req);
        self.bump("preds");
        let p = self.regs[a];
        match guarded(|| (p.is_pauli(), p.is_clifford(), p.is_proper_clifford(), p.is_t(), p.is_zero(), p.is_one())) {
            Err(msg) => {
                req["res"] = json!("panic");
                req["msg"] = json!(msg);
            }
            Ok((pa, cl, pc, t, z, o)) => {
                req["res"] = json!("ok");
                req["pauli"] = json!(pa);
                req["clifford"] = json!(cl);
                req["proper"] = json!(pc);
                req["t"] = json!(t);
                req["zero"] = json!(z);
                req["one"] = json!(o);
            }
        }
        self.emit(req);
    }
    fn cmp(&mut self, a: usize, b: usize) {
        let mut req = json!({"k": "cmp", "a": a, "b": b, "av": self.pv(a), "bv": self.pv(b)});
        self.announce(&req);
        self.bump("cmp");
        let (p, q) = (self.regs[a], self.regs[b]);
        match guarded(|| (p == q, !(p != q))) {
            Err(msg) => {
                req["res"] = json!("panic");
                req["msg"] = json!(msg);
            }
            Ok((eq, eq2)) => {
                req["res"] = json!("ok");
                req["eq"] = json!(eq);
                req["ne_consistent"] = json!(eq == eq2);
            }
        }
        self.emit(req);
    }
    /// from_f64 / to_f64 round trip of the double `f`; (n, d, exact): f was computed as n/d, exactly if `exact`
    fn f64rt(&mut self, r: usize, f: f64, n: i64, d: i64, src: &'static str) {
        let exact = src == "dyadic";
        let mut req = json!({"k": "f64", "r": r, "n": n, "d": d, "exact": exact, "src": src, "fs": format!("{f:e}")});
        self.announce(&req);
        self.bump("f64");
        match guarded(|| {
            let p = Phase::from_f64(f);
            let p2: Phase = f.into();
            let back = p.to_f64();
            let back2: f64 = p.into();
            (p, back, p == p2 && back == back2)
        }) {
            Err(msg) => {
                req["res"] = json!("panic");
                req["msg"] = json!(msg);
            }
            Ok((p, back, same)) => {
                // distance of back and f modulo 2 (both are doubles of moderate size: the subtraction and
                // the remainder are exact or off by one ulp of |f|)
                let mut diff = (back - f) % 2.0;
                if diff > 1.0 {
                    diff -= 2.0;
                }
                if diff < -1.0 {
                    diff += 2.0;
                }
                let in_range = back > -1.0 && back <= 1.0;
                req["res"] = json!("ok");
                req["fok"] = json!(diff.abs() <= 1e-12 && in_range && same);
                let small = sane(&p);
                req["small"] = json!(small);
                if small {
                    let (pn, pd) = nd(&p);
                    req["out"] = json!([pn, pd]);
                    self.regs[r] = p;
                } else {
                    // too big for TLC: canonical range + reducedness decided here
                    let (pn, pd) = nd(&p);
                    req["out"] = json!([0, 1]);
                    req["outs"] = json!([pn.to_string(), pd.to_string()]);
                    req["bigok"] = json!(pd > 0 && -pd < pn && pn <= pd && gcd(pn, pd) == 1);
                }
            }
        }
        self.emit(req);
    }
    /// operands up to 2^40: harness-side checks only
    fn big(&mut self, rng: &mut StdRng) {
        let bits = |rng: &mut StdRng, max: u32| -> i64 {
            let b = rng.random_range(1..=max);
            rng.random_range((1i64 << (b - 1))..(1i64 << b))
        };
        let sign = |rng: &mut StdRng| if rng.random_bool(0.5) { -1 } else { 1 };
        let op = ["new", "neg", "add", "sub", "mulint", "edge"][rng.random_range(0..6usize)];
        // operands (raw pairs), exact result as an i128 pair
        let (x, y, c): ((i64, i64), (i64, i64), i64) = match op {
            "add" | "sub" => {
                let a = bits(rng, 20);
                let (b, c2) = (bits(rng, 10), bits(rng, 10));
                let (d1, d2) = (a * b, a * c2);
                ((sign(rng) * rng.random_range(0..=d1), d1), (sign(rng) * rng.random_range(0..=d2), d2), 0)
            }
            "edge" => {
                // numerators just outside / on the boundary of the interval, big denominators
                let d = bits(rng, 40);
                let t = rng.random_range(-3..=3i64);
                let e = rng.random_range(-1..=1i64);
                (((2 * t + 1) * d + e, d), (0, 1), 0)
            }
            "mulint" => ((sign(rng) * bits(rng, 40), bits(rng, 40)), (0, 1), sign(rng) * bits(rng, 20)),
            _ => ((sign(rng) * bits(rng, 40), sign(rng) * bits(rng, 40)), (0, 1), 0),
        };
        let mut req = json!({"k": "big", "op": op, "x": [x.0.to_string(), x.1.to_string()], "y": [y.0.to_string(), y.1.to_string()], "c": c.to_string()});
        self.announce(&req);
        self.bump("big");
        let res = guarded(|| {
            let px = Phase::new(Rational64::new(x.0, x.1));
            let py = Phase::new(Rational64::new(y.0, y.1));
            match op {
                "new" | "edge" => (px, px),
                "neg" => (px, -px),
                "add" => (px, px + py),
                "sub" => (px, px - py),
                "mulint" => (px, px * c),
                _ => unreachable!(),
            }
        });
        match res {
            Err(msg) => {
                req["res"] = json!("panic");
                req["msg"] = json!(msg);
            }
            Ok((px, out)) => {
                let (xn, xd) = (x.0 as i128, x.1 as i128);
                let (yn, yd) = (y.0 as i128, y.1 as i128);
                let (en, ed): (i128, i128) = match op {
                    "new" | "edge" => (xn, xd),
                    "neg" => (-xn, xd),
                    "add" => (xn * yd + yn * xd, xd * yd),
                    "sub" => (xn * yd - yn * xd, xd * yd),
                    "mulint" => (xn * c as i128, xd),
                    _ => unreachable!(),
                };
                let canon = |p: &Phase| {
                    let (n, d) = nd(p);
                    d > 0 && -d < n && n <= d && gcd(n, d) == 1
                };
                // out - en/ed is an even integer  <=>  on*ed - en*od = 0 mod 2*od*ed
                let (on, od) = nd(&out);
                let (on, od) = (on as i128, od as i128);
                let g = gcd128(en, ed).max(1);
                let (en, ed) = (en / g, ed / g);
                let cong = od != 0 && (on * ed - en * od) % (2 * od * ed) == 0;
                req["res"] = json!("ok");
                req["outs"] = json!([on.to_string(), od.to_string()]);
                req["bigok"] = json!(canon(&out) && canon(&px));
                req["cong"] = json!(cong);
            }
        }
        self.emit(req);
    }
    /// Mul<Phase>, Div<Phase>, Div<i64> (and their assign forms) with operands up to 2^30 / 2^40: harness-side checks only
    /// (canonical range + reducedness; operator = assign form; `rep`: equal to the normalised product / quotient of
    /// the two stored representatives computed in i128, which is what the code is written to do: L1 only)
    fn bigring(&mut self, rng: &mut StdRng) {
        let bits = |rng: &mut StdRng, max: u32| -> i64 {
            let b = rng.random_range(1..=max);
            rng.random_range((1i64 << (b - 1))..(1i64 << b))
        };
        let sign = |rng: &mut StdRng| if rng.random_bool(0.5) { -1 } else { 1 };
        let op = ["mulph", "divph", "divint"][rng.random_range(0..3usize)];
        let (x, y, c): ((i64, i64), (i64, i64), i64) = match op {
            "divint" => ((sign(rng) * bits(rng, 40), bits(rng, 40)), (1, 1), sign(rng) * bits(rng, 20)),
            _ => ((sign(rng) * bits(rng, 30), bits(rng, 30)), (sign(rng) * bits(rng, 30), bits(rng, 30)), 1),
        };
        // the divisor must not be the zero phase (an even integer)
        let y = if op == "divph" && y.0.rem_euclid(2 * y.1) == 0 { (y.0 + 1, y.1) } else { y };
        let mut req = json!({"k": "bigring", "op": op, "x": [x.0.to_string(), x.1.to_string()], "y": [y.0.to_string(), y.1.to_string()], "c": c.to_string()});
        self.announce(&req);
        self.bump("bigring");
        let res = guarded(|| {
            let px = Phase::new(Rational64::new(x.0, x.1));
            let py = Phase::new(Rational64::new(y.0, y.1));
            let mut asg = px;
            match op {
                "mulph" => {
                    asg *= py;
                    (px, py, px * py, asg)
                }
                "divph" => {
                    asg /= py;
                    (px, py, px / py, asg)
                }
                _ => {
                    asg /= c;
                    (px, py, px / c, asg)
                }
            }
        });
        match res {
            Err(msg) => {
                req["res"] = json!("panic");
                req["msg"] = json!(msg);
            }
            Ok((px, py, out, asg)) => {
                let canon = |p: &Phase| {
                    let (n, d) = nd(p);
                    d > 0 && -d < n && n <= d && gcd(n, d) == 1
                };
                let ((xn, xd), (yn, yd)) = (nd(&px), nd(&py));
                let ((xn, xd), (yn, yd)) = ((xn as i128, xd as i128), (yn as i128, yd as i128));
                let (mut en, mut ed): (i128, i128) = match op {
                    "mulph" => (xn * yn, xd * yd),
                    "divph" => (xn * yd, xd * yn),
                    _ => (xn, xd * c as i128),
                };
                // the representative in (-1, 1] of en/ed (ed != 0: py and c are non-zero by construction)
                if ed < 0 {
                    (en, ed) = (-en, -ed);
                }
                let g = gcd128(en, ed).max(1);
                (en, ed) = (en / g, ed / g);
                en = en.rem_euclid(2 * ed);
                if en > ed {
                    en -= 2 * ed;
                }
                let (on, od) = nd(&out);
                req["res"] = json!("ok");
                req["outs"] = json!([on.to_string(), od.to_string()]);
                req["bigok"] = json!(canon(&out) && canon(&px) && canon(&py));
                req["same"] = json!(out == asg);
                req["rep"] = json!(on as i128 == en && od as i128 == ed);
            }
        }
        self.emit(req);
    }
}

/// a raw operand n/d (possibly unreduced, possibly negative denominator) whose reduced
/// denominator divides `base`; numerators biased to the boundary of (-1, 1] and its translates
fn operand(rng: &mut StdRng, base: i64) -> (i64, i64) {
    let divs: Vec<i64> = (1..=base).filter(|x| base % x == 0).collect();
    let d0 = divs[rng.random_range(0..divs.len())];
    let n0 = match rng.random_range(0..10u32) {
        0 => d0,
        1 => -d0,
        2 => d0 + 1,
        3 => -d0 - 1,
        4 => rng.random_range(-3..=3i64) * d0 + rng.random_range(-1..=1i64),
        5 => 0,
        _ => rng.random_range(-4 * d0..=4 * d0),
    };
    // common factor / sign of the denominator
    let mut s = [1, 1, 1, -1, -1, 2, 3, -2][rng.random_range(0..8usize)];
    if (n0 * s).abs() >= SMALL || (d0 * s).abs() >= SMALL {
        s = s.signum();
    }
    let n0 = n0.clamp(-(SMALL - 1), SMALL - 1);
    (n0 * s, d0 * s)
}

const BASES: [i64; 16] = [1, 2, 4, 8, 12, 16, 24, 60, 128, 360, 1024, 5040, 16384, 27720, 30030, 32760];

fn history(m: &mut M, rng: &mut StdRng) {
    m.begin("rand");
    let base = if rng.random_bool(0.8) { BASES[rng.random_range(0..BASES.len())] } else { rng.random_range(2..SMALL) };
    let len = rng.random_range(25..=35);
    for r in 0..NREGS.min(3) {
        let (n, d) = operand(rng, base);
        m.new_phase(r, n, d, if rng.random_bool(0.5) { "ratio" } else { "tuple" });
    }
    for _ in 0..len {
        let (r, a, b) = (rng.random_range(0..NREGS), rng.random_range(0..NREGS), rng.random_range(0..NREGS));
        let asg = rng.random_bool(0.4);
        match rng.random_range(0..118u32) {
            100..=111 => {
                // Mul<Phase> / Div<Phase> / Div<i64>: the representatives' product / quotient must stay below 2^15 for
                // TLC, so operands with small denominators are loaded when the registers' are too large
                let small = |rng: &mut StdRng| {
                    let d = [1, 2, 3, 4, 5, 6, 8, 12][rng.random_range(0..8usize)];
                    (rng.random_range(-2 * d..=2 * d), d)
                };
                let which = rng.random_range(0..3u32);
                if which < 2 {
                    if !m.prod_small(a, b) {
                        let (n, d) = small(rng);
                        m.new_phase(b, n, d, "ratio");
                    }
                    if !m.prod_small(a, b) {
                        let (n, d) = small(rng);
                        m.new_phase(a, n, d, "ratio");
                    }
                    if which == 0 {
                        m.mulph(r, a, b)
                    } else {
                        m.divph(r, a, b)
                    }
                } else {
                    let cmax = ((SMALL - 1) / nd(&m.regs[a]).1).min(64);
                    let c = match rng.random_range(0..4u32) {
                        0 => 2,
                        1 => -2,
                        _ => rng.random_range(-cmax..=cmax),
                    };
                    if c.abs() <= cmax {
                        m.divint(r, a, c)
                    }
                }
                m.preds(r)
            }
            112..=114 => m.normalize(r, a),
            115..=117 => m.display(a),
            0..=14 => {
                let (n, d) = operand(rng, base);
                if d == 1 && rng.random_bool(0.5) {
                    m.new_phase(r, n, 1, "int")
                } else {
                    m.new_phase(r, n, d, if rng.random_bool(0.5) { "ratio" } else { "tuple" })
                }
            }
            15..=32 if m.lcm_small(a, b) => m.add(if asg { a } else { r }, a, b, asg),
            33..=47 if m.lcm_small(a, b) => m.sub(if asg { a } else { r }, a, b, asg),
            48..=54 => m.neg(r, a),
            55..=65 => {
                let c = match rng.random_range(0..4u32) {
                    0 => rng.random_range(-(SMALL - 1)..SMALL),
                    1 => 2 * nd(&m.regs[a]).1 * rng.random_range(-1..=1i64) + rng.random_range(-1..=1i64),
                    _ => rng.random_range(-9..=9i64),
                };
                let c = c.clamp(-(SMALL - 1), SMALL - 1);
                m.mulint(if asg { a } else { r }, a, c, asg)
            }
            66..=76 => {
                let d = nd(&m.regs[a]).1;
                let mm = match rng.random_range(0..5u32) {
                    0 => rng.random_range(2..=(d + 1).max(2)),
                    1 => rng.random_range(2..=64),
                    2 => rng.random_range(2..=1024),
                    3 => (d / 2).max(2),
                    _ => rng.random_range(2..=16),
                };
                m.limit(r, a, mm.clamp(2, 4096))
            }
            77..=84 => m.preds(a),
            85..=92 => {
                if rng.random_bool(0.6) {
                    // b := the same class written differently (shifted by 2t, unreduced, sign-flipped denominator)
                    let (n, d) = nd(&m.regs[a]);
                    let t = rng.random_range(-3..=3i64);
                    let mut s = [1, -1, 2, -3][rng.random_range(0..4usize)];
                    if ((n + 2 * t * d) * s).abs() >= SMALL || (d * s).abs() >= SMALL {
                        s = 1;
                    }
                    if (n + 2 * t * d).abs() < SMALL && a != b {
                        m.new_phase(b, (n + 2 * t * d) * s, d * s, "ratio");
                    }
                }
                m.cmp(a, b)
            }
            _ => {
                let (n, d) = nd(&m.regs[a]);
                match rng.random_range(0..3u32) {
                    0 => {
                        let j = rng.random_range(0..=14u32);
                        let dd = 1i64 << j;
                        let nn = rng.random_range(-4 * dd..=4 * dd).clamp(-(SMALL - 1), SMALL - 1);
                        m.f64rt(r, nn as f64 / dd as f64, nn, dd, "dyadic")
                    }
                    1 => m.f64rt(r, n as f64 / d as f64, n, d, "ratio"),
                    _ => m.f64rt(r, rng.random_range(-40.0..40.0f64), 0, 1, "rand"),
                }
            }
        }
    }
}

fn exhaustive(m: &mut M, rng: &mut StdRng, nmax: i64, dmax: i64, maxm: i64, pairs: usize, raw: bool) {
    for d in 1..=dmax {
        for n in -nmax..=nmax {
            if (n + nmax) % 16 == 0 {
                m.begin("exh");
            }
            m.new_phase(0, n, d, "ratio");
            m.preds(0);
            if raw {
                m.new_raw(n, d);
                m.new_raw(-n, -d);
            }
            m.new_phase(1, -n, -d, "tuple");
            m.cmp(0, 1);
            if d == 1 {
                m.new_phase(1, n, 1, "int");
                m.cmp(0, 1);
            }
            m.neg(1, 0);
            m.neg(2, 1);
            m.cmp(0, 2);
            // the same class two turns further / a different class half a turn further
            let t = [1, -1, 2, -2][((n + 2 * d) as usize) % 4];
            m.new_phase(1, n + 2 * t * d, d, "ratio");
            m.cmp(0, 1);
            m.new_phase(1, n + d, d, "ratio");
            m.cmp(0, 1);
            for c in [-2, 2, 3, 8, rng.random_range(-64..=64i64)] {
                m.mulint(2, 0, c, false);
            }
            for mm in 2..=maxm {
                m.limit(2, 0, mm);
            }
            for c in [2, -3, rng.random_range(-8..=8i64)] {
                m.divint(2, 0, c);
                m.preds(2);
            }
            m.normalize(2, 0);
            m.display(0);
            for _ in 0..pairs {
                let d2 = rng.random_range(1..=dmax);
                let n2 = rng.random_range(-nmax..=nmax);
                m.new_phase(3, n2, d2, "ratio");
                m.add(2, 0, 3, false);
                m.sub(2, 0, 3, false);
                m.sub(1, 2, 0, false); // (x - y) - x = -y
                m.mulph(2, 0, 3);
                m.preds(2);
                m.divph(2, 0, 3);
                m.preds(2);
            }
        }
    }
}

fn workload(args: &[String], seed: u64, m: &mut M) {
    let mut rng = StdRng::seed_from_u64(seed ^ 0xc16);
    if let Some(e) = arg_val(args, "--exhaustive") {
        let p: Vec<i64> = e.split(',').map(|x| x.parse().expect("--exhaustive N,D")).collect();
        let maxm: i64 = arg_num(args, "--maxm", 12);
        let pairs: usize = arg_num(args, "--pairs", 2);
        assert!(p[0] + 4 * p[1] < SMALL && p[1] < 180);
        exhaustive(m, &mut rng, p[0], p[1], maxm, pairs, arg_flag(args, "--raw"));
    }
    let k: usize = arg_num(args, "--random", 0);
    for _ in 0..k {
        history(m, &mut rng);
    }
    let k: usize = arg_num(args, "--floats", 0);
    for i in 0..k {
        if i % 40 == 0 {
            m.begin("f64");
        }
        let f = match i % 4 {
            0 => rng.random_range(-1.0..1.0f64),
            1 => rng.random_range(-40.0..40.0f64),
            2 => rng.random_range(-1000.0..1000.0f64),
            _ => (rng.random_range(-64..=64i64) as f64) / 32.0 + [0.0, 1e-9, -1e-9, 1e-13][rng.random_range(0..4usize)],
        };
        m.f64rt(i % NREGS, f, 0, 1, "rand");
    }
    let k: usize = arg_num(args, "--big", 0);
    for i in 0..k {
        if i % 50 == 0 {
            m.begin("big");
        }
        if i % 4 == 3 {
            m.bigring(&mut rng);
        } else {
            m.big(&mut rng);
        }
    }
}

/// run the workload in a child process without recording; Err((status, last request)) if it died or hung
fn probe(args: &[String]) -> Result<(), (String, String)> {
    let exe = std::env::current_exe().expect("current_exe");
    let out = arg_val(args, "--out").unwrap();
    let dry_out = format!("{out}_dry");
    let mut a: Vec<String> = vec![];
    let mut i = 1;
    while i < args.len() {
        match args[i].as_str() {
            "--out" => {
                a.push("--out".into());
                a.push(dry_out.clone());
                i += 2;
            }
            "--shards" => i += 2,
            x => {
                a.push(x.into());
                i += 1;
            }
        }
    }
    a.push("--shards".into());
    a.push("1".into());
    a.push("--dry".into());
    let timeout: u64 = arg_num(args, "--probe-timeout", 900);
    let mut child = Command::new(exe).args(&a).stdout(Stdio::piped()).stderr(Stdio::null()).spawn().expect("spawn probe");
    let last = Arc::new(Mutex::new(String::new()));
    let stdout = child.stdout.take().unwrap();
    let l2 = last.clone();
    let reader = std::thread::spawn(move || {
        for line in BufReader::new(stdout).lines().map_while(Result::ok) {
            if line.starts_with('{') {
                *l2.lock().unwrap() = line;
            }
        }
    });
    let t0 = std::time::Instant::now();
    let status = loop {
        match child.try_wait().expect("wait") {
            Some(s) => break Some(s),
            None if t0.elapsed().as_secs() > timeout => {
                let _ = child.kill();
                let _ = child.wait();
                break None;
            }
            None => std::thread::sleep(std::time::Duration::from_millis(10)),
        }
    };
    let _ = reader.join();
    let _ = std::fs::remove_file(format!("{dry_out}.0.ndjson"));
    let last = last.lock().unwrap().clone();
    match status {
        Some(s) if s.success() => Ok(()),
        Some(s) => Err((format!("{s}").chars().filter(|c| c.is_ascii() && *c != '"').collect(), last)),
        None => Err((format!("no answer within {timeout} s"), last)),
    }
}

pub fn record(args: &[String], seed: u64, tr: &mut Tr) -> Value {
    let dry = arg_flag(args, "--dry");
    if !dry && !arg_flag(args, "--no-probe") {
        if let Err((status, last)) = probe(args) {
            tr.group();
            tr.emit(json!({"k": "begin", "regs": NREGS, "mode": "crash"}));
            let op: Value = serde_json::from_str(&last).unwrap_or(json!({"k": "unknown"}));
            tr.emit(json!({"k": "crash", "status": status, "op": op}));
            return json!({"crashed": true, "status": status, "last_request": last});
        }
    }
    let mut m = M { regs: vec![Phase::zero(); NREGS], tr, dry, cnt: BTreeMap::new() };
    workload(args, seed, &mut m);
    json!({"crashed": false, "counts": m.cnt})
}
