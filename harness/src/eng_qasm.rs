//! engine `qasm` (C14): QASM printing and parsing.
//!
//! Two directions, both validated by mc/Trace_Qasm.tla against spec/Qasm.tla:
//!   roundtrip  a circuit c (header `circ`) is printed with `to_qasm` and read back with
//!              `Circuit::from_qasm`; the event carries the parsed circuit, and (L1) the abstract
//!              program a plain line reader of the harness recognises in the printed text
//!   parse      an abstract program (registers + statements, spec/Qasm.tla) is rendered to QASM text
//!              by the harness (several registers, declaration layouts, phase spellings, unsupported
//!              constructs), read with `Circuit::from_qasm`; TLC compares with `QParse(prog)`
//!
//! options:  --enum n,maxlen[,small]   every circuit over the property's gate list (phases k*pi/4)
//!           --phases [--maxden D]     rz/rx with every phase k/d, d <= 16 (one circuit per kind and d)
//!           --zero                    zero-gate circuits on 1..4 qubits
//!           --random N                random circuits, 1..4 qubits, phases k/d with d in 1..=16
//!           --outside N               random circuits that contain pp / measure_r / measure_d gates
//!           --names                   the name table of gate.rs, row by row
//!           --enum-progs              the systematic program families (offsets, unsupported constructs, spellings)
//!           --progs N                 random abstract programs
//!           --stride S                keep every S-th enumerated case (offset = seed mod S)
//!           --text-file F             debugging: parse the file F with the real code and print the result
use crate::circ::{ag_json, circ_from_json, enum_circuits, Alphabet};
use crate::util::{arg_flag, arg_num, arg_val, guarded, Tr};
use num::Rational64;
use quizx::circuit::Circuit;
use quizx::gate::Gate;
use rand::rngs::StdRng;
use rand::Rng;
use serde_json::{json, Value};

fn small(x: i64) -> bool {
    x.unsigned_abs() < (1 << 31) - 1
}

fn clean(s: &str) -> String {
    s.chars().filter(|c| c.is_ascii() && *c != '"' && *c != '\\' && *c != '\n' && *c != '\r').take(140).collect()
}

/// the concrete text, for the reader of a violation file (TLC ignores it)
fn clip(text: &str) -> String {
    text.chars().filter(|c| c.is_ascii()).take(1200).collect()
}

/// circuit JSON as circ::circ_json, but a phase whose numerator / denominator TLC cannot read is
/// logged as `[]` (never equal to a pair) with the value in the string field `phs`
fn gate_json_safe(g: &Gate) -> Value {
    let vars: Vec<u32> = g.vars.iter().collect();
    let r: Rational64 = g.phase.to_rational();
    let (n, d) = (*r.numer(), *r.denom());
    if small(n) && small(d) {
        json!({"t": format!("{:?}", g.t), "qs": g.qs, "ph": [n, d], "vars": vars})
    } else {
        json!({"t": format!("{:?}", g.t), "qs": g.qs, "ph": [], "phs": format!("{n}/{d}"), "vars": vars})
    }
}

fn circ_json_safe(c: &Circuit) -> Value {
    json!({"n": c.num_qubits(), "gates": c.gates.iter().map(gate_json_safe).collect::<Vec<_>>()})
}

fn empty_circ() -> Value {
    json!({"n": 0, "gates": []})
}

/// nearest k/d (d <= 64) within 1e-12 of x as a reduced pair, `[]` if there is none
fn ratio_of(x: f64) -> Value {
    for d in 1..=64i64 {
        let k = (x * d as f64).round() as i64;
        if (x - k as f64 / d as f64).abs() < 1e-12 {
            return json!([k, d]);
        }
    }
    json!([])
}

/// What a plain line reader sees in the text `to_qasm` printed: (well-formed, abstract program).
/// Expected shape: the two header lines, `qreg q[n];`, then `name[(x*pi)] q[a], q[b];` per gate.
fn read_printed(text: &str) -> (bool, Value) {
    let mut lines = text.lines();
    let mut ok = lines.next() == Some("OPENQASM 2.0;") && lines.next() == Some("include \"qelib1.inc\";");
    let mut regs = vec![];
    let mut stmts = vec![];
    match lines.next().and_then(|l| l.strip_prefix("qreg q[")).and_then(|r| r.strip_suffix("];")).and_then(|s| s.parse::<usize>().ok()) {
        Some(n) => regs.push(json!({"name": "q", "size": n})),
        None => ok = false,
    }
    for l in lines {
        let Some(l) = l.strip_suffix(';') else {
            ok = false;
            continue;
        };
        let Some((head, rest)) = l.split_once(' ') else {
            ok = false;
            continue;
        };
        let (name, param) = match head.split_once('(') {
            Some((nm, p)) => match p.strip_suffix("*pi)").and_then(|x| x.parse::<f64>().ok()) {
                Some(x) => (nm, json!([ratio_of(x)])),
                None => {
                    ok = false;
                    (nm, json!([[]]))
                }
            },
            None => (head, json!([])),
        };
        let mut args = vec![];
        for a in rest.split(", ") {
            match a.strip_prefix("q[").and_then(|x| x.strip_suffix(']')).and_then(|x| x.parse::<usize>().ok()) {
                Some(i) => args.push(json!([1, i])),
                None => ok = false,
            }
        }
        stmts.push(json!({"s": "gate", "name": name, "param": param, "form": "dec_pi", "args": args}));
    }
    (ok, json!({"regs": regs, "ncb": 0, "layout": "std", "stmts": stmts}))
}

/// one execution: print c, parse the text back
fn record_roundtrip(cj: &Value, tr: &mut Tr, st: &mut Stats) {
    let c = circ_from_json(cj);
    tr.group();
    tr.emit(json!({"k": "circ", "c": cj}));
    st.roundtrips += 1;
    let text = match guarded(|| c.to_qasm()) {
        Ok(t) => t,
        Err(m) => {
            tr.emit(json!({"k": "roundtrip", "res": "panic", "stage": "print", "msg": m, "out": empty_circ(), "text_ok": false,
                           "printed": {"regs": [], "ncb": 0, "layout": "std", "stmts": []}, "same": false}));
            st.panics += 1;
            return;
        }
    };
    let (text_ok, printed) = read_printed(&text);
    let (via, r) = parse_text(&text, st);
    let mut e = json!({"k": "roundtrip", "stage": "parse", "text_ok": text_ok, "printed": printed, "out": empty_circ(), "same": false, "via": via, "text": clip(&text)});
    match r {
        Err(m) => {
            e["res"] = json!("panic");
            e["msg"] = json!(m);
            st.panics += 1;
        }
        Ok(Err(m)) => {
            e["res"] = json!("err");
            e["msg"] = json!(clean(&m));
            st.errs += 1;
        }
        Ok(Ok(c2)) => {
            e["res"] = json!("ok");
            e["out"] = circ_json_safe(&c2);
            e["same"] = json!(c2 == c);
            st.oks += 1;
        }
    }
    tr.emit(e);
}

#[derive(Default)]
struct Stats {
    /// directory for the texts read through `Circuit::from_file` (empty: strings only)
    dir: String,
    texts: usize,
    roundtrips: usize,
    programs: usize,
    oks: usize,
    errs: usize,
    panics: usize,
}

// ---------------------------------------------------------------------------------------
// abstract programs (spec/Qasm.tla) and their rendering to concrete text
// ---------------------------------------------------------------------------------------

/// spellings of a phase k/d * pi.  All but the PLAIN_FORMS (decimals, checked with a tolerance) denote the rational exactly.
const EXACT_FORMS: [&str; 6] = ["kpi_d", "pi_d", "frac_pi", "pi_frac", "dec_pi", "paren"];
const PLAIN_FORMS: [&str; 3] = ["plain", "plain11", "mixed"];

fn render_param(form: &str, k: i64, d: i64) -> String {
    let sign = if k < 0 { "-" } else { "" };
    let a = k.abs();
    match form {
        "pi_d" if a == 1 => {
            if d == 1 {
                format!("{sign}pi")
            } else {
                format!("{sign}pi/{d}")
            }
        }
        "kpi_d" | "pi_d" => {
            if d == 1 {
                format!("{sign}{a}*pi")
            } else {
                format!("{sign}{a}*pi/{d}")
            }
        }
        "frac_pi" => format!("{sign}{a}/{d} * pi"),
        "pi_frac" => format!("{sign}pi*{a}/{d}"),
        "paren" => format!("({sign}{a}*pi)/{d}"),
        "dec_pi" => format!("{}*pi", k as f64 / d as f64),
        "plain" => format!("{:.6}", k as f64 / d as f64 * std::f64::consts::PI),
        "plain11" => format!("{:.11}", k as f64 / d as f64 * std::f64::consts::PI),
        // a pi-multiple plus a decimal (the second branch of param_to_phase): k/d = (2k - d)/(2d) + 1/2
        "mixed" => {
            let (k2, d2) = (2 * k - d, 2 * d);
            format!("{}{}*pi/{} + 1.570796", if k2 < 0 { "-" } else { "" }, k2.abs(), d2)
        }
        _ => panic!("form {form}"),
    }
}

fn render_ref(regs: &[Value], a: &Value) -> String {
    let name = regs[a[0].as_u64().unwrap() as usize - 1]["name"].as_str().unwrap();
    let bit = a[1].as_i64().unwrap();
    if bit < 0 {
        name.to_string()
    } else {
        format!("{name}[{bit}]")
    }
}

fn render_stmt(regs: &[Value], s: &Value) -> String {
    let args: Vec<String> = s["args"].as_array().map(|v| v.iter().map(|a| render_ref(regs, a)).collect()).unwrap_or_default();
    match s["s"].as_str().unwrap() {
        "gate" => {
            let form = s["form"].as_str().unwrap_or("kpi_d");
            let ps: Vec<String> = s["param"].as_array().unwrap().iter().map(|p| render_param(form, p[0].as_i64().unwrap(), p[1].as_i64().unwrap())).collect();
            let plist = if ps.is_empty() { String::new() } else { format!("({})", ps.join(",")) };
            format!("{}{} {};", s["name"].as_str().unwrap(), plist, args.join(", "))
        }
        "barrier" => format!("barrier {};", args.join(", ")),
        "reset" => format!("reset {};", args[0]),
        "measure" => format!("measure {} -> c[{}];", args[0], s["cbit"]),
        "U" => format!("U(pi/2,0,pi) {};", args[0]),
        "if" => format!("if(c=={}) {}", s["val"], render_stmt(regs, &s["then"])),
        x => panic!("statement kind {x}"),
    }
}

/// `gate name(p1,..) a1,.. { body }`; a body parameter [k, d, f] is (k/d)*pi for f = 0 and (k/d)*p<f> otherwise
fn render_def(d: &Value) -> String {
    let np = d["np"].as_u64().unwrap();
    let nq = d["nq"].as_u64().unwrap();
    let ps: Vec<String> = (1..=np).map(|i| format!("p{i}")).collect();
    let qs: Vec<String> = (1..=nq).map(|i| format!("a{i}")).collect();
    let mut t = format!("gate {}{} {} {{", d["name"].as_str().unwrap(), if np > 0 { format!("({})", ps.join(",")) } else { String::new() }, qs.join(","));
    for b in d["body"].as_array().unwrap() {
        let args: Vec<String> = b["args"].as_array().unwrap().iter().map(|a| format!("a{a}")).collect();
        match b["s"].as_str().unwrap() {
            "gate" => {
                let pv: Vec<String> = b["param"]
                    .as_array()
                    .unwrap()
                    .iter()
                    .map(|pe| {
                        let (k, d, f) = (pe[0].as_i64().unwrap(), pe[1].as_i64().unwrap(), pe[2].as_i64().unwrap());
                        if f == 0 {
                            render_param("kpi_d", k, d)
                        } else {
                            let sign = if k < 0 { "-" } else { "" };
                            match (k.abs(), d) {
                                (1, 1) => format!("{sign}p{f}"),
                                (a, 1) => format!("{sign}p{f}*{a}"),
                                (a, d) => format!("{sign}p{f}*{a}/{d}"),
                            }
                        }
                    })
                    .collect();
                let plist = if pv.is_empty() { String::new() } else { format!("({})", pv.join(",")) };
                t += &format!(" {}{} {};", b["name"].as_str().unwrap(), plist, args.join(","));
            }
            "barrier" => t += &format!(" barrier {};", args.join(",")),
            "U" => t += &format!(" U(pi/2,0,pi) {};", args[0]),
            x => panic!("body statement {x}"),
        }
    }
    t + " }\n"
}

/// layouts: std (qregs, creg, statements) / creg_first / late (the last qreg is declared after the statements) /
/// creg_mid (the creg is declared directly before the first measure / if, after any gate statements that precede it)
fn render_prog(p: &Value) -> String {
    let regs = p["regs"].as_array().unwrap();
    let ncb = p["ncb"].as_u64().unwrap();
    let layout = p["layout"].as_str().unwrap();
    let mut t = String::from("OPENQASM 2.0;\ninclude \"qelib1.inc\";\n");
    let creg = if ncb > 0 { format!("creg c[{ncb}];\n") } else { String::new() };
    let decl = |r: &Value| format!("qreg {}[{}];\n", r["name"].as_str().unwrap(), r["size"]);
    // user gate definitions (extended programs): before the registers, or between the declarations and the statements
    let defs: String = p.get("defs").and_then(|d| d.as_array()).map(|ds| ds.iter().map(render_def).collect()).unwrap_or_default();
    let defs_mid = p.get("deflay").and_then(|x| x.as_str()) == Some("mid");
    if !defs_mid {
        t += &defs;
    }
    if layout == "creg_first" {
        t += &creg;
    }
    let early = if layout == "late" { regs.len() - 1 } else { regs.len() };
    for r in &regs[..early] {
        t += &decl(r);
    }
    if layout != "creg_first" && layout != "creg_mid" {
        t += &creg;
    }
    if defs_mid {
        t += &defs;
    }
    // creg_mid: the classical register is declared where OpenQASM 2 still allows it at the latest, directly before the first
    // statement that names it (measure / if), i.e. possibly AFTER gate statements (seed C14_e: a front end that looks for
    // declarations only in a header)
    fn uses_c(s: &Value) -> bool {
        matches!(s["s"].as_str(), Some("measure") | Some("if"))
    }
    let mut creg_pending = layout == "creg_mid";
    for s in p["stmts"].as_array().unwrap() {
        if creg_pending && uses_c(s) {
            t += &creg;
            creg_pending = false;
        }
        t += &render_stmt(regs, s);
        t += "\n";
    }
    if creg_pending {
        t += &creg;
    }
    for r in &regs[early..] {
        t += &decl(r);
    }
    t
}

fn circ_dist(x: f64, y: f64) -> f64 {
    ((x - y + 1.0).rem_euclid(2.0) - 1.0).abs()
}

/// Both public entry points read the same front end: every third text goes through a file and `Circuit::from_file`,
/// the others through `Circuit::from_qasm` (`via` says which); the verdict does not depend on the route.
fn parse_text(text: &str, st: &mut Stats) -> (&'static str, Result<Result<Circuit, String>, String>) {
    st.texts += 1;
    if st.texts % 3 == 0 && !st.dir.is_empty() {
        let path = format!("{}/t{}.qasm", st.dir, st.texts % 16);
        std::fs::write(&path, text).expect("write qasm file");
        ("file", guarded(|| Circuit::from_file(&path)))
    } else {
        ("str", guarded(|| Circuit::from_qasm(text)))
    }
}

/// one execution: render an EXTENDED abstract program (whole-register operands, user gate definitions; spec/Qasm.tla
/// QParseX) and parse it with the real code
fn record_parsex(p: &Value, tr: &mut Tr, st: &mut Stats) {
    tr.group();
    tr.emit(json!({"k": "begin", "what": "parsex"}));
    st.programs += 1;
    let text = render_prog(p);
    let (via, r) = parse_text(&text, st);
    let mut e = json!({"k": "parsex", "prog": p, "out": empty_circ(), "via": via, "text": clip(&text)});
    match r {
        Err(m) => {
            e["res"] = json!("panic");
            e["msg"] = json!(m);
            st.panics += 1;
        }
        Ok(Err(m)) => {
            e["res"] = json!("err");
            e["msg"] = json!(clean(&m));
            st.errs += 1;
        }
        Ok(Ok(c)) => {
            e["res"] = json!("ok");
            e["out"] = circ_json_safe(&c);
            st.oks += 1;
        }
    }
    tr.emit(e);
}

/// one execution: render the abstract program, parse it with the real code
fn record_parse(p: &Value, tr: &mut Tr, st: &mut Stats) {
    tr.group();
    tr.emit(json!({"k": "begin", "what": "parse"}));
    st.programs += 1;
    let text = render_prog(p);
    let (via, r) = parse_text(&text, st);
    let mut e = json!({"k": "parse", "prog": p, "out": empty_circ(), "close": [], "tags": prog_tags(p), "via": via, "text": clip(&text)});
    match r {
        Err(m) => {
            e["res"] = json!("panic");
            e["msg"] = json!(m);
            st.panics += 1;
        }
        Ok(Err(m)) => {
            e["res"] = json!("err");
            e["msg"] = json!(clean(&m));
            st.errs += 1;
        }
        Ok(Ok(c)) => {
            e["res"] = json!("ok");
            e["out"] = circ_json_safe(&c);
            // decimal spellings: is the phase read within 1e-5 (units of pi) of the one written?
            let stmts = p["stmts"].as_array().unwrap();
            let close: Vec<bool> = c
                .gates
                .iter()
                .enumerate()
                .map(|(i, g)| {
                    if stmts.len() != c.gates.len() {
                        return false;
                    }
                    match stmts[i]["param"].as_array().and_then(|a| a.first()) {
                        Some(kd) => circ_dist(g.phase.to_f64(), kd[0].as_i64().unwrap() as f64 / kd[1].as_i64().unwrap() as f64) < 1e-5,
                        None => true,
                    }
                })
                .collect();
            e["close"] = json!(close);
            st.oks += 1;
        }
    }
    tr.emit(e);
}

/// signature tags of a program for known_findings.json: the statement kinds present, the first unsupported one
fn prog_tags(p: &Value) -> Vec<String> {
    const DEFINED: [&str; 19] = ["rz", "rx", "x", "z", "s", "t", "sdg", "tdg", "h", "cx", "cz", "ccx", "ccz", "swap", "xcx", "init_anc", "post_sel",
                                 "measure_d", "CX"];
    let kind = |s: &Value| -> String {
        let k = s["s"].as_str().unwrap();
        if k == "gate" && !DEFINED.contains(&s["name"].as_str().unwrap()) {
            "undefined".to_string()
        } else {
            k.to_string()
        }
    };
    let stmts = p["stmts"].as_array().unwrap();
    let mut tags: Vec<String> = stmts.iter().map(|s| format!("stmt={}", kind(s))).collect();
    tags.sort();
    tags.dedup();
    if let Some(s) = stmts.iter().find(|s| kind(s) != "gate" && kind(s) != "measure") {
        tags.push(format!("first_bad={}", kind(s)));
    }
    tags
}

/// the real name table, row by row
fn record_names(tr: &mut Tr) -> usize {
    use quizx::gate::GType;
    tr.group();
    tr.emit(json!({"k": "begin", "what": "names"}));
    let kinds = ["XPhase", "NOT", "ZPhase", "Z", "S", "T", "Sdg", "Tdg", "CNOT", "CZ", "ParityPhase", "XCX", "SWAP", "HAD", "TOFF", "CCZ",
                 "InitAncilla", "PostSelect", "Measure", "MeasureReset", "UnknownGate"];
    for k in kinds {
        let t = crate::circ::gtype_from(k);
        assert_eq!(format!("{t:?}"), k);
        let r = guarded(|| (t.qasm_name(), format!("{:?}", GType::from_qasm_name(t.qasm_name()))));
        let (name, back) = r.unwrap_or(("PANIC", "PANIC".to_string()));
        tr.emit(json!({"k": "name", "kind": k, "name": name, "back": back}));
    }
    // GType::num_qubits: the fixed arity of a kind (-1: none)
    for k in kinds {
        let t = crate::circ::gtype_from(k);
        let nq: i64 = guarded(|| t.num_qubits().map_or(-1, |n| n as i64)).unwrap_or(-99);
        tr.emit(json!({"k": "arity", "kind": k, "nq": nq}));
    }
    let names = ["rz", "rx", "x", "z", "s", "t", "sdg", "tdg", "h", "cx", "CX", "cz", "ccx", "ccz", "swap", "pp", "xcx", "init_anc", "post_sel",
                 "measure_d", "measure_r", "UNKNOWN", "y", "u3", "RZ", "Cx", "", "cnot", "measure"];
    for n in names {
        let kind = guarded(|| format!("{:?}", GType::from_qasm_name(n))).unwrap_or("PANIC".to_string());
        tr.emit(json!({"k": "fromname", "name": n, "kind": kind}));
    }
    2 * kinds.len() + names.len()
}

fn gate_stmt(name: &str, params: &[(i64, i64)], form: &str, args: &[(usize, i64)]) -> Value {
    json!({"s": "gate", "name": name, "param": params.iter().map(|(k, d)| json!([k, d])).collect::<Vec<_>>(), "form": form,
           "args": args.iter().map(|(r, b)| json!([r, b])).collect::<Vec<_>>()})
}

fn prog(regs: &[(&str, usize)], ncb: usize, layout: &str, stmts: Vec<Value>) -> Value {
    json!({"regs": regs.iter().map(|(n, s)| json!({"name": n, "size": s})).collect::<Vec<_>>(), "ncb": ncb, "layout": layout, "stmts": stmts})
}

/// every qubit reference (register index 1-based, bit) in declaration order
fn all_refs(regs: &[(&str, usize)]) -> Vec<(usize, i64)> {
    regs.iter().enumerate().flat_map(|(i, (_, s))| (0..*s).map(move |b| (i + 1, b as i64))).collect()
}

fn gcd(a: i64, b: i64) -> i64 {
    if b == 0 {
        a.abs()
    } else {
        gcd(b, a % b)
    }
}

/// the unsupported statements of the property and gate names the front end does not declare
fn unsupported_stmts() -> Vec<Value> {
    let x = gate_stmt("x", &[], "kpi_d", &[(1, 0)]);
    let cx = gate_stmt("cx", &[], "kpi_d", &[(1, 1), (2, 0)]);
    let mut v = vec![
        json!({"s": "barrier", "args": [[1, 0], [2, 0]]}),
        json!({"s": "barrier", "args": [[1, -1]]}),
        json!({"s": "barrier", "args": [[1, -1], [2, -1]]}),
        json!({"s": "reset", "args": [[1, 1]]}),
        json!({"s": "reset", "args": [[2, 0]]}),
        json!({"s": "if", "val": 1, "then": x}),
        json!({"s": "if", "val": 0, "then": cx}),
        json!({"s": "if", "val": 3, "then": {"s": "reset", "args": [[1, 0]]}}),
        json!({"s": "U", "args": [[1, 0]]}),
        json!({"s": "U", "args": [[2, 0]]}),
    ];
    // (name, number of parameters, number of qubits): none of them is declared by the front end
    for (name, np, nq) in [("y", 0, 1), ("id", 0, 1), ("sx", 0, 1), ("u1", 1, 1), ("u2", 2, 1), ("u3", 3, 1), ("ry", 1, 1), ("p", 1, 1), ("cy", 0, 2),
                           ("ch", 0, 2), ("crz", 1, 2), ("cu1", 1, 2), ("rzz", 1, 2), ("cswap", 0, 3), ("pp", 0, 2), ("pp", 1, 2), ("measure_r", 0, 1),
                           ("foo", 0, 1), ("UNKNOWN", 0, 1), ("RZ", 1, 1), ("H", 0, 1)] {
        let params: Vec<(i64, i64)> = [(1, 2), (0, 1), (1, 4)][..np].to_vec();
        let args: Vec<(usize, i64)> = [(1, 0), (2, 0), (1, 1)][..nq].to_vec();
        v.push(gate_stmt(name, &params, "kpi_d", &args));
    }
    v
}

fn enum_progs(emit: &mut impl FnMut(Value)) {
    // (a) register shapes: 1..3 registers of 1..3 qubits, names whose alphabetical order differs from the declaration
    //     order; a gate on every reference and between consecutive references; also without any statement
    let names = ["q", "b", "a"];
    let mut shapes: Vec<Vec<usize>> = vec![];
    for a in 1..=3 {
        shapes.push(vec![a]);
        for b in 1..=3 {
            shapes.push(vec![a, b]);
            for c in 1..=3 {
                shapes.push(vec![a, b, c]);
            }
        }
    }
    for sh in &shapes {
        let regs: Vec<(&str, usize)> = sh.iter().enumerate().map(|(i, s)| (names[i], *s)).collect();
        let refs = all_refs(&regs);
        let mut stmts: Vec<Value> = refs.iter().map(|r| gate_stmt("h", &[], "kpi_d", &[*r])).collect();
        for w in refs.windows(2) {
            stmts.push(gate_stmt("cx", &[], "kpi_d", &[w[0], w[1]]));
            stmts.push(gate_stmt("swap", &[], "kpi_d", &[w[1], w[0]]));
        }
        for w in refs.windows(3) {
            stmts.push(gate_stmt("ccx", &[], "kpi_d", &[w[2], w[0], w[1]]));
        }
        stmts.push(gate_stmt("rz", &[(3, 4)], "kpi_d", &[*refs.last().unwrap()]));
        for layout in ["std", "creg_first", "late", "creg_mid"] {
            emit(prog(&regs, 1, layout, stmts.clone()));
        }
        emit(prog(&regs, 0, "std", vec![]));
        emit(prog(&regs, 2, "creg_first", vec![]));
    }
    // (b) unsupported constructs and undefined gate names at every position of a small program
    let regs = [("q", 2), ("r", 1)];
    let g1 = gate_stmt("h", &[], "kpi_d", &[(1, 1)]);
    let g2 = gate_stmt("cx", &[], "kpi_d", &[(1, 0), (2, 0)]);
    for bad in unsupported_stmts() {
        for pos in 0..4 {
            let stmts = match pos {
                0 => vec![bad.clone()],
                1 => vec![bad.clone(), g1.clone(), g2.clone()],
                2 => vec![g1.clone(), bad.clone(), g2.clone()],
                _ => vec![g1.clone(), g2.clone(), bad.clone()],
            };
            emit(prog(&regs, 2, "std", stmts.clone()));
            emit(prog(&regs, 2, "creg_mid", stmts));
        }
    }
    // (c) every phase k/d, d <= 16, in every spelling; rz and rx alternate
    for form in EXACT_FORMS.iter().chain(PLAIN_FORMS.iter()) {
        for d in 1..=16i64 {
            let mut stmts = vec![];
            for k in (1 - d)..=d {
                if gcd(k, d) != 1 && !(k == 0 && d == 1) {
                    continue;
                }
                if *form == "pi_d" && k.abs() != 1 {
                    continue;
                }
                stmts.push(gate_stmt(if stmts.len() % 2 == 0 { "rz" } else { "rx" }, &[(k, d)], form, &[(1, 0)]));
            }
            emit(prog(&[("q", 1)], 0, "std", stmts));
        }
        // values outside (-1, 1] and unreduced fractions: the parser normalises
        if EXACT_FORMS.contains(form) && *form != "pi_d" {
            let stmts = [(3, 2), (2, 1), (-1, 1), (7, 4), (-5, 4), (2, 4), (4, 4), (0, 3), (9, 8), (-16, 16), (31, 16), (6, 3)]
                .iter()
                .map(|kd| gate_stmt("rz", &[*kd], form, &[(1, 0)]))
                .collect();
            emit(prog(&[("q", 1)], 0, "std", stmts));
        }
    }
    // (d) beyond the property's text (compared with the specification as refinement only): measurement,
    //     the built-in CX, ill-typed statements
    let regs = [("q", 2), ("r", 2)];
    let h = gate_stmt("h", &[], "kpi_d", &[(2, 1)]);
    for s in [
        json!({"s": "measure", "args": [[2, 0]], "cbit": 1}),
        json!({"s": "measure", "args": [[1, 1]], "cbit": 0}),
        gate_stmt("CX", &[], "kpi_d", &[(1, 1), (2, 1)]),
        gate_stmt("cx", &[], "kpi_d", &[(1, 0), (1, 0)]),
        gate_stmt("ccz", &[], "kpi_d", &[(1, 0), (2, 0), (1, 0)]),
        gate_stmt("h", &[], "kpi_d", &[(1, 2)]),
        gate_stmt("rz", &[], "kpi_d", &[(1, 0)]),
        gate_stmt("x", &[(1, 1)], "kpi_d", &[(1, 0)]),
        gate_stmt("cx", &[], "kpi_d", &[(1, 0)]),
        gate_stmt("h", &[], "kpi_d", &[(1, 0), (1, 1)]),
    ] {
        emit(prog(&regs, 2, "std", vec![h.clone(), s.clone()]));
        emit(prog(&regs, 2, "std", vec![s, h.clone()]));
    }
}

/// (name, has a phase parameter, number of qubits) of the gates the property lists
const PROP_GATES: [(&str, bool, usize); 17] = [
    ("rz", true, 1), ("rx", true, 1), ("x", false, 1), ("z", false, 1), ("s", false, 1), ("t", false, 1), ("sdg", false, 1), ("tdg", false, 1),
    ("h", false, 1), ("cx", false, 2), ("cz", false, 2), ("ccx", false, 3), ("ccz", false, 3), ("swap", false, 2), ("xcx", false, 2),
    ("init_anc", false, 1), ("post_sel", false, 1),
];

fn shuffle<T>(r: &mut StdRng, v: &mut [T]) {
    for i in (1..v.len()).rev() {
        v.swap(i, r.random_range(0..=i));
    }
}

fn random_phase(r: &mut StdRng) -> (i64, i64) {
    let d = r.random_range(1..=16i64);
    (r.random_range((1 - d)..=d), d)
}

fn random_prog(r: &mut StdRng) -> Value {
    let pool = ["q", "r", "anc", "a", "b", "data", "q1", "reg_2", "zz", "c0"];
    let nregs = r.random_range(1..=3usize);
    let mut names: Vec<&str> = pool.to_vec();
    shuffle(r, &mut names);
    let regs: Vec<(&str, usize)> = (0..nregs).map(|i| (names[i], r.random_range(1..=3usize))).collect();
    let refs = all_refs(&regs);
    let nst = if r.random_bool(0.1) { 0 } else { r.random_range(1..=7usize) };
    let mut stmts = vec![];
    for _ in 0..nst {
        let cands: Vec<&(&str, bool, usize)> = PROP_GATES.iter().filter(|g| g.2 <= refs.len()).collect();
        let (name, hasp, nq) = *cands[r.random_range(0..cands.len())];
        let mut rs = refs.clone();
        shuffle(r, &mut rs);
        let (k, d) = random_phase(r);
        let forms: Vec<&str> = EXACT_FORMS.iter().chain(PLAIN_FORMS.iter()).copied().filter(|f| *f != "pi_d" || k.abs() == 1).collect();
        let form = forms[r.random_range(0..forms.len())];
        let params = if hasp { vec![(k, d)] } else { vec![] };
        stmts.push(gate_stmt(name, &params, form, &rs[..nq]));
    }
    // two programs in five contain one unsupported statement somewhere
    if r.random_bool(0.4) {
        let bads = unsupported_stmts();
        let mut bad = bads[r.random_range(0..bads.len())].clone();
        // re-target its references into the registers of this program
        fn retarget(s: &mut Value, refs: &[(usize, i64)], r: &mut StdRng) {
            if let Some(t) = s.get_mut("then") {
                retarget(t, refs, r);
            }
            if let Some(n) = s.get("args").and_then(|a| a.as_array()).map(|a| a.len()) {
                let whole = s["args"][0][1].as_i64().unwrap() < 0;
                let mut rs = refs.to_vec();
                shuffle(r, &mut rs);
                if whole {
                    s["args"] = json!([[rs[0].0, -1]]);
                } else {
                    let n = n.min(rs.len());
                    s["args"] = json!(rs[..n].iter().map(|(a, b)| json!([a, b])).collect::<Vec<_>>());
                }
            }
        }
        retarget(&mut bad, &refs, r);
        let at = r.random_range(0..=stmts.len());
        stmts.insert(at, bad);
    }
    let layout = ["std", "creg_first", "late", "creg_mid"][r.random_range(0..4)];
    prog(&regs, r.random_range(1..=3usize), layout, stmts)
}

/// random circuit over the property's gate list; `outside` adds the gates the front end does not declare
fn random_qcirc(r: &mut StdRng, n: usize, len: usize, outside: bool) -> Value {
    let mut kinds: Vec<(&str, bool, usize)> = vec![
        ("ZPhase", true, 1), ("XPhase", true, 1), ("NOT", false, 1), ("Z", false, 1), ("S", false, 1), ("T", false, 1), ("Sdg", false, 1),
        ("Tdg", false, 1), ("HAD", false, 1), ("CNOT", false, 2), ("CZ", false, 2), ("TOFF", false, 3), ("CCZ", false, 3), ("SWAP", false, 2),
        ("XCX", false, 2), ("InitAncilla", false, 1), ("PostSelect", false, 1),
    ];
    if outside {
        kinds.extend([("ParityPhase", true, 0), ("MeasureReset", false, 1), ("Measure", false, 1)]);
    }
    let mut gates = vec![];
    let special = if outside { Some(r.random_range(0..len.max(1))) } else { None };
    for i in 0..len {
        let mut cands: Vec<&(&str, bool, usize)> = kinds.iter().filter(|g| g.2 <= n).collect();
        if special == Some(i) {
            cands.retain(|g| ["ParityPhase", "MeasureReset", "Measure"].contains(&g.0));
        }
        let (t, hasp, nq) = *cands[r.random_range(0..cands.len())];
        let nq = if nq == 0 { r.random_range(1..=n) } else { nq };
        let mut qs: Vec<usize> = (0..n).collect();
        shuffle(r, &mut qs);
        let ph = if hasp {
            let (k, d) = random_phase(r);
            let q = Rational64::new(k, d);
            json!([*q.numer(), *q.denom()])
        } else {
            json!([0, 1])
        };
        let vars: Vec<u32> = if t == "Measure" && r.random_bool(0.5) { vec![r.random_range(0..3u32)] } else { vec![] };
        gates.push(json!({"t": t, "qs": qs[..nq], "ph": ph, "vars": vars}));
    }
    json!({"n": n, "gates": gates})
}

pub fn record(args: &[String], seed: u64, tr: &mut Tr) -> Value {
    if let Some(f) = arg_val(args, "--text-file") {
        let text = std::fs::read_to_string(&f).expect("read --text-file");
        match guarded(|| Circuit::from_qasm(&text)) {
            Err(m) => eprintln!("PANIC {m}"),
            Ok(Err(m)) => eprintln!("ERR {m}"),
            Ok(Ok(c)) => eprintln!("OK {}\n{}", circ_json_safe(&c), c.to_qasm()),
        }
    }
    let mut st = Stats::default();
    if let Some(out) = arg_val(args, "--out") {
        st.dir = format!("{out}_files");
        std::fs::create_dir_all(&st.dir).expect("create dir for qasm files");
    }
    let stride: usize = arg_num(args, "--stride", 1).max(1);
    let offset = seed as usize % stride;
    let mut r = crate::gens::rng(seed ^ 0x9a53);
    // ---- printing then parsing ----
    let prop_alphabet = Alphabet {
        oneq: vec!["Z", "S", "T", "Sdg", "Tdg", "NOT", "HAD"],
        twoq: vec!["CNOT", "CZ", "XCX", "SWAP"],
        special: vec!["InitAncilla", "PostSelect"],
        threeq: vec!["CCZ", "TOFF"],
        phs: vec![1, 2, 3, 4, 5, 6, 7],
        pp: false,
    };
    if arg_flag(args, "--zero") {
        for n in 1..=4 {
            record_roundtrip(&ag_json(n, &[]), tr, &mut st);
        }
    }
    for e in args.iter().enumerate().filter(|(_, a)| *a == "--enum").map(|(i, _)| args[i + 1].clone()) {
        let p: Vec<&str> = e.split(',').collect();
        let (n, maxlen) = (p[0].parse::<usize>().unwrap(), p[1].parse::<usize>().unwrap());
        let mut al = prop_alphabet.clone();
        if p.len() > 2 && p[2] == "small" {
            al.oneq = vec!["S", "Tdg", "NOT", "HAD"];
            al.phs = vec![3, 6];
        }
        let mut idx = 0usize;
        enum_circuits(n, maxlen, &al, &mut |gs| {
            if idx % stride == offset || gs.is_empty() {
                record_roundtrip(&ag_json(n, gs), tr, &mut st);
            }
            idx += 1;
        });
    }
    if arg_flag(args, "--phases") {
        // the property's quantifier is d <= 16; --maxden probes beyond it (information only, not part of any plan)
        let maxden: i64 = arg_num(args, "--maxden", 16);
        for t in ["ZPhase", "XPhase"] {
            for d in 1..=maxden {
                let gates: Vec<Value> = ((1 - d)..=d)
                    .filter(|k| gcd(*k, d) == 1 || (*k == 0 && d == 1))
                    .map(|k| json!({"t": t, "qs": [0], "ph": [k, d], "vars": []}))
                    .collect();
                record_roundtrip(&json!({"n": 1, "gates": gates}), tr, &mut st);
            }
        }
    }
    for _ in 0..arg_num(args, "--random", 0usize) {
        let n = r.random_range(1..=4usize);
        let len = r.random_range(0..=10usize);
        record_roundtrip(&random_qcirc(&mut r, n, len, false), tr, &mut st);
    }
    for _ in 0..arg_num(args, "--outside", 0usize) {
        let n = r.random_range(1..=4usize);
        let len = r.random_range(1..=6usize);
        record_roundtrip(&random_qcirc(&mut r, n, len, true), tr, &mut st);
    }
    let nnames = if arg_flag(args, "--names") { record_names(tr) } else { 0 };
    // ---- parsing generated texts ----
    if arg_flag(args, "--enum-progs") {
        let mut idx = 0usize;
        enum_progs(&mut |p| {
            if idx % stride == offset {
                record_parse(&p, tr, &mut st);
            }
            idx += 1;
        });
    }
    for _ in 0..arg_num(args, "--progs", 0usize) {
        let p = random_prog(&mut r);
        record_parse(&p, tr, &mut st);
    }
    // ---- extended programs: whole-register operands and user gate definitions ----
    if arg_flag(args, "--enum-xprogs") {
        let mut idx = 0usize;
        enum_xprogs(&mut |p| {
            if idx % stride == offset {
                record_parsex(&p, tr, &mut st);
            }
            idx += 1;
        });
        // Circuit::from_file on a path that does not exist / a directory / an empty file
        tr.group();
        tr.emit(json!({"k": "begin", "what": "fromfile"}));
        let empty = format!("{}/empty.qasm", st.dir);
        std::fs::write(&empty, "").unwrap();
        for (case, path) in [("missing", format!("{}/no_such_file.qasm", st.dir)), ("directory", st.dir.clone()), ("empty", empty)] {
            let (res, out) = match guarded(|| Circuit::from_file(&path)) {
                Err(_) => ("panic", empty_circ()),
                Ok(Err(_)) => ("err", empty_circ()),
                Ok(Ok(c)) => ("ok", circ_json_safe(&c)),
            };
            tr.emit(json!({"k": "fromfile", "case": case, "res": res, "out": out}));
        }
    }
    for _ in 0..arg_num(args, "--xprogs", 0usize) {
        let p = random_xprog(&mut r);
        record_parsex(&p, tr, &mut st);
    }
    let _ = std::fs::remove_dir_all(&st.dir);
    json!({"roundtrips": st.roundtrips, "programs": st.programs, "ok": st.oks, "err": st.errs, "panic": st.panics, "name_rows": nnames})
}

// ---------------------------------------------------------------------------------------
// extended programs (spec/Qasm.tla QParseX): whole-register operands and user gate definitions
// ---------------------------------------------------------------------------------------

fn bgate(name: &str, params: &[(i64, i64, i64)], args: &[usize]) -> Value {
    json!({"s": "gate", "name": name, "param": params.iter().map(|(k, d, f)| json!([k, d, f])).collect::<Vec<_>>(), "args": args})
}

fn def(name: &str, np: usize, nq: usize, body: Vec<Value>) -> Value {
    json!({"name": name, "np": np, "nq": nq, "body": body})
}

fn xprog(regs: &[(&str, usize)], defs: Vec<Value>, deflay: &str, layout: &str, stmts: Vec<Value>) -> Value {
    let mut p = prog(regs, 1, layout, stmts);
    p["defs"] = json!(defs);
    p["deflay"] = json!(deflay);
    p
}

/// the library of definitions the systematic family draws from
fn sample_defs() -> Vec<Value> {
    vec![
        def("g1", 0, 1, vec![bgate("h", &[], &[1]), bgate("t", &[], &[1])]),
        def("g2", 1, 2, vec![bgate("rz", &[(1, 1, 1)], &[1]), bgate("cx", &[], &[1, 2]), bgate("rz", &[(1, 2, 1)], &[2]), bgate("rx", &[(-3, 4, 1)], &[1]), bgate("rz", &[(1, 4, 0)], &[2])]),
        def("g3", 2, 3, vec![bgate("g2", &[(1, 1, 2)], &[2, 3]), bgate("g1", &[], &[1]), bgate("ccx", &[], &[3, 1, 2]), bgate("CX", &[], &[3, 1]), bgate("rx", &[(2, 1, 1)], &[3])]),
        def("nop", 0, 1, vec![]),
        def("sw", 0, 2, vec![bgate("swap", &[], &[2, 1]), bgate("cz", &[], &[1, 2])]),
        // bodies with constructs the writer does not support, and with an undefined name
        def("gb", 0, 2, vec![bgate("h", &[], &[1]), json!({"s": "barrier", "args": [1, 2]}), bgate("cx", &[], &[1, 2])]),
        def("gu", 0, 1, vec![bgate("x", &[], &[1]), json!({"s": "U", "args": [1]})]),
        def("gy", 0, 1, vec![bgate("y", &[], &[1])]),
        def("gg", 0, 2, vec![bgate("gb", &[], &[2, 1])]),
    ]
}

fn enum_xprogs(emit: &mut impl FnMut(Value)) {
    // (a) broadcast of every gate of the property's list over register shapes (equal sizes, size-1 registers, mismatches)
    let shapes: [&[(&str, usize)]; 7] = [&[("q", 2)], &[("q", 3)], &[("q", 2), ("r", 2)], &[("a", 3), ("b", 1), ("d", 3)], &[("q", 1), ("r", 3)],
                                         &[("q", 2), ("r", 3)], &[("q", 2), ("r", 2), ("s", 2)]];
    for regs in shapes {
        let nr = regs.len();
        let mut stmts: Vec<Value> = vec![];
        for (name, hasp, nq) in PROP_GATES {
            let params: Vec<(i64, i64)> = if hasp { vec![(3, 4)] } else { vec![] };
            // all-whole, and each position indexed in turn
            let pick = |i: usize| ((i % nr) + 1, -1i64);
            if nq > nr {
                // not enough registers for distinct whole operands: one whole register and indexed qubits of it is an overlap (expected err),
                // so use indexed qubits of the first register where it is large enough
                if regs[0].1 >= nq {
                    stmts.push(gate_stmt(name, &params, "kpi_d", &(0..nq).map(|b| (1usize, b as i64)).collect::<Vec<_>>()));
                }
                continue;
            }
            stmts.push(gate_stmt(name, &params, "kpi_d", &(0..nq).map(pick).collect::<Vec<_>>()));
            for fixed in 0..nq {
                if nq == 1 {
                    continue;
                }
                let args: Vec<(usize, i64)> = (0..nq).map(|i| if i == fixed { ((i % nr) + 1, (regs[i % nr].1 - 1) as i64) } else { pick(i) }).collect();
                stmts.push(gate_stmt(name, &params, "kpi_d", &args));
            }
        }
        // one program per statement (an error in one must not hide the others), plus all of the accepted ones together
        for s in &stmts {
            emit(xprog(regs, vec![], "first", "std", vec![s.clone()]));
        }
        for chunk in stmts.chunks(6) {
            emit(xprog(regs, vec![], "first", "creg_first", chunk.to_vec()));
        }
        // a whole register used twice in one statement (overlap) and a whole-register measure
        if nr >= 1 && regs[0].1 >= 2 {
            emit(xprog(regs, vec![], "first", "std", vec![gate_stmt("cx", &[], "kpi_d", &[(1, -1), (1, -1)])]));
            emit(xprog(regs, vec![], "first", "std", vec![gate_stmt("cx", &[], "kpi_d", &[(1, -1), (1, 0)])]));
        }
    }
    // (b) user definitions: every definition of the library applied to indexed qubits, to whole registers, and not at all
    let lib = sample_defs();
    let regs: &[(&str, usize)] = &[("q", 3), ("r", 3), ("s", 1)];
    let by = |n: &str| lib.iter().find(|d| d["name"] == n).unwrap().clone();
    let needs = |n: &str| -> Vec<Value> {
        match n {
            "g3" => vec![by("g1"), by("g2"), by("g3")],
            "gg" => vec![by("gb"), by("gg")],
            x => vec![by(x)],
        }
    };
    for d in &lib {
        let name = d["name"].as_str().unwrap();
        let (np, nq) = (d["np"].as_u64().unwrap() as usize, d["nq"].as_u64().unwrap() as usize);
        let params: Vec<(i64, i64)> = [(1, 2), (-3, 8)][..np].to_vec();
        let idx_args: Vec<(usize, i64)> = [(1, 2), (2, 0), (1, 0)][..nq].to_vec();
        let whole_args: Vec<(usize, i64)> = [(1, -1), (2, -1), (3, -1)][..nq].to_vec();
        let mixed_args: Vec<(usize, i64)> = [(2, -1), (1, 1), (3, 0)][..nq].to_vec();
        let h = gate_stmt("h", &[], "kpi_d", &[(2, 1)]);
        for deflay in ["first", "mid"] {
            for args in [&idx_args, &whole_args, &mixed_args] {
                emit(xprog(regs, needs(name), deflay, "std", vec![h.clone(), gate_stmt(name, &params, "kpi_d", args), h.clone()]));
            }
            // defined, never applied
            emit(xprog(regs, needs(name), deflay, "std", vec![h.clone()]));
            emit(xprog(regs, needs(name), deflay, "std", vec![]));
        }
        // other spellings of the actual parameter
        if np > 0 {
            for form in ["pi_frac", "frac_pi", "dec_pi", "paren"] {
                emit(xprog(regs, needs(name), "first", "std", vec![gate_stmt(name, &params, form, &idx_args)]));
            }
        }
    }
    // ill-typed uses (compared with the specification as refinement only): wrong arity, wrong number of parameters,
    // a prelude gate redefined, a definition given twice, the same qubit twice
    let g2 = by("g2");
    for stmts in [
        vec![gate_stmt("g2", &[(1, 2)], "kpi_d", &[(1, 0)])],
        vec![gate_stmt("g2", &[], "kpi_d", &[(1, 0), (2, 0)])],
        vec![gate_stmt("g2", &[(1, 2)], "kpi_d", &[(1, 0), (1, 0)])],
        vec![gate_stmt("g2", &[(1, 2)], "kpi_d", &[(1, -1), (3, -1)]), gate_stmt("h", &[], "kpi_d", &[(1, 0)])],
    ] {
        emit(xprog(regs, vec![g2.clone()], "first", "std", stmts));
    }
    emit(xprog(regs, vec![def("h", 0, 1, vec![bgate("t", &[], &[1])])], "first", "std", vec![gate_stmt("h", &[], "kpi_d", &[(1, 0)])]));
    emit(xprog(regs, vec![by("g1"), by("g1")], "first", "std", vec![gate_stmt("g1", &[], "kpi_d", &[(1, 0)])]));
}

fn random_xprog(r: &mut StdRng) -> Value {
    let pool = ["q", "r", "anc", "a", "b", "data", "q1", "reg_2", "zz", "c0"];
    let nregs = r.random_range(1..=3usize);
    let mut names: Vec<&str> = pool.to_vec();
    shuffle(r, &mut names);
    // registers of one common size (so that whole-register operands usually match), some of size 1, rarely another size
    let common = r.random_range(2..=3usize);
    let regs: Vec<(&str, usize)> = (0..nregs).map(|i| (names[i], if r.random_bool(0.2) { 1 } else if r.random_bool(0.1) { 5 - common } else { common })).collect();
    let total: usize = regs.iter().map(|x| x.1).sum();
    // 0..2 definitions; the second may call the first
    let ndefs = r.random_range(0..=2usize);
    let mut defs: Vec<Value> = vec![];
    let bad_kind = if r.random_bool(0.25) { r.random_range(1..=3) } else { 0 }; // 1 barrier in a body, 2 U in a body, 3 undefined name in a body
    for di in 0..ndefs {
        let nq = r.random_range(1..=3usize);
        let np = r.random_range(0..=2usize);
        let nb = r.random_range(0..=4usize);
        let mut body = vec![];
        for _ in 0..nb {
            let mut cands: Vec<(String, usize, usize)> = PROP_GATES.iter().filter(|g| g.2 <= nq && g.0 != "init_anc" && g.0 != "post_sel").map(|g| (g.0.to_string(), g.1 as usize, g.2)).collect();
            cands.push(("CX".to_string(), 0, 2));
            cands.retain(|c| c.2 <= nq);
            if di == 1 {
                let d0 = &defs[0];
                if (d0["nq"].as_u64().unwrap() as usize) <= nq {
                    for _ in 0..4 {
                        cands.push(("u0".to_string(), d0["np"].as_u64().unwrap() as usize, d0["nq"].as_u64().unwrap() as usize));
                    }
                }
            }
            let (name, npar, ar) = cands[r.random_range(0..cands.len())].clone();
            let mut fs: Vec<usize> = (1..=nq).collect();
            shuffle(r, &mut fs);
            let params: Vec<(i64, i64, i64)> = (0..npar)
                .map(|_| {
                    let (k, d) = random_phase(r);
                    let f = if np > 0 && r.random_bool(0.6) { r.random_range(1..=np as i64) } else { 0 };
                    // a multiple of a formal parameter: small factors
                    if f > 0 {
                        ([1, -1, 2, 3, -3, 1, 1][r.random_range(0..7)], [1, 2, 4][r.random_range(0..3)], f)
                    } else {
                        (k, d, 0)
                    }
                })
                .collect();
            body.push(bgate(&name, &params, &fs[..ar]));
        }
        if bad_kind > 0 && di == ndefs - 1 {
            let at = r.random_range(0..=body.len());
            let bad = match bad_kind {
                1 => json!({"s": "barrier", "args": (1..=nq).collect::<Vec<_>>()}),
                2 => json!({"s": "U", "args": [1]}),
                _ => bgate(["y", "u3x", "id"][r.random_range(0..3)], &[], &[1]),
            };
            body.insert(at, bad);
        }
        defs.push(def(&format!("u{di}"), np, nq, body));
    }
    let nst = if r.random_bool(0.05) { 0 } else { r.random_range(1..=5usize) };
    let mut stmts = vec![];
    for _ in 0..nst {
        let mut cands: Vec<(String, usize, usize)> = PROP_GATES.iter().map(|g| (g.0.to_string(), g.1 as usize, g.2)).collect();
        for d in &defs {
            for _ in 0..6 {
                cands.push((d["name"].as_str().unwrap().to_string(), d["np"].as_u64().unwrap() as usize, d["nq"].as_u64().unwrap() as usize));
            }
        }
        cands.retain(|c| c.2 <= total);
        let (name, npar, ar) = cands[r.random_range(0..cands.len())].clone();
        // operands: distinct registers as whole operands where possible, otherwise distinct indexed qubits
        let mut regidx: Vec<usize> = (1..=nregs).collect();
        shuffle(r, &mut regidx);
        let mut refs = all_refs(&regs);
        shuffle(r, &mut refs);
        let mut args: Vec<(usize, i64)> = vec![];
        let mut used_regs: Vec<usize> = vec![];
        for i in 0..ar {
            let whole = r.random_bool(0.45) && i < regidx.len() && !used_regs.contains(&regidx[i]);
            if whole {
                args.push((regidx[i], -1));
                used_regs.push(regidx[i]);
            } else if let Some(p) = refs.iter().position(|x| !used_regs.contains(&x.0) && !args.contains(x)) {
                let x = refs.remove(p);
                // an indexed qubit of a register that is also used as a whole operand would overlap: keep them apart (mostly)
                args.push(x);
                if r.random_bool(0.9) {
                    used_regs.push(x.0);
                }
            } else if let Some(x) = refs.pop() {
                args.push(x);
            }
        }
        if args.len() < ar {
            continue;
        }
        let params: Vec<(i64, i64)> = (0..npar).map(|_| random_phase(r)).collect();
        let forms: Vec<&str> = EXACT_FORMS.iter().copied().filter(|f| *f != "pi_d").collect();
        stmts.push(gate_stmt(&name, &params, forms[r.random_range(0..forms.len())], &args));
    }
    // one program in eight: an unsupported statement at top level
    if r.random_bool(0.125) {
        let bads = unsupported_stmts();
        let bad = bads[r.random_range(0..bads.len())].clone();
        // only those whose references exist here: register 1, bit 0 / whole register 1
        let ok = bad["s"] != "if" && bad.get("args").and_then(|a| a.as_array()).map(|a| a.iter().all(|x| x[0] == 1 && x[1].as_i64().unwrap() <= 0)).unwrap_or(false);
        if ok {
            let at = r.random_range(0..=stmts.len());
            stmts.insert(at, bad);
        }
    }
    let layout = ["std", "creg_first", "late", "creg_mid"][r.random_range(0..4)];
    xprog(&regs, defs, ["first", "mid"][r.random_range(0..2)], layout, stmts)
}
