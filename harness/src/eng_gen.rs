//! C19: the seeded workload generators (quizx::generate, quizx::random_graph) recorded build by build; TLC
//! validates every returned object against the contracts of spec/Gen.tla (mc/Trace_Gen.tla).
//!
//!   --gens a,b,..   subset of random_circuit,hidden_shift,pauli_gadget,stab_state,surface_code (default: all)
//!   --seeds N       seeds per parameter setting (base + 0 .. base + N-1, base derived from --seed)
//!   --thorough      larger grids (8-qubit hidden shift, more weight ranges)
//!   --hs-many N     hidden shift: N further seeds for the two cheapest 6-qubit settings (rare draws such as the all-zero shift)
//!
//! One group = one generator x one parameter setting.  Every build is done twice with identical seed and
//! parameters (a fresh builder, then the same builder re-seeded, for circuits also a second fresh builder);
//! `again_equal` is the code's own equality (PartialEq on Circuit and the shift, abs() equality on graphs).
//! For the first seed of every setting BOTH payloads are logged as separate build events (`keep`), so that
//! TLC compares them itself.  Probabilities travel as integer percent, seeds stay below 2^31.
//!
//!   --api N         audit item #22, N repetitions:
//!                   * RandomPauliGadgetCircuitBuilder::weight(w) (alone, after other weight setters, followed by
//!                     min_weight): logged with the parameters it MEANS (min = max = w), in the same group and under the
//!                     same key as a min_weight(w).max_weight(w) build with the same seed, so that TLC's Deterministic
//!                     compares the two objects;
//!                   * every builder WITHOUT .seed(): straight from Default / Circuit::random_*() / ::new() with no
//!                     parameter set (`default`: the parameters are read back from the builder's public fields) and with
//!                     parameters set but no seed.  Such builds are `unseeded`: nothing to compare them with, but the
//!                     returned object must satisfy the same contract (shape, promise, norm).  `sem` = false on the
//!                     40-qubit default hidden-shift instance: its promise is out of reach of a 2^n state vector.

use crate::absg::abs;
use crate::circ::circ_json;
use crate::util::{arg_flag, arg_num, arg_val, guarded, Tr};
use quizx::circuit::Circuit;
use quizx::random_graph::EquatorialStabilizerStateBuilder;
use serde_json::{json, Value};
use std::collections::BTreeMap;

type Built = Result<(Value, Value, bool), String>;

struct Ctx<'a> {
    tr: &'a mut Tr,
    builds: BTreeMap<String, usize>,
    panics: usize,
    unequal: usize,
    pairs_logged: usize,
    settings: usize,
    gates: usize,
    unseeded: usize,
}

impl Ctx<'_> {
    fn begin(&mut self, gen: &str, params: &Value) {
        self.tr.group();
        self.settings += 1;
        self.tr.emit(json!({"k": "begin", "gen": gen, "params": params}));
    }

    /// one build (twice inside `f`); `keep`: log the second payload as an event of its own
    fn build(&mut self, gen: &str, be: &str, seed: u64, params: &Value, keep: bool, f: impl FnOnce() -> Built) {
        self.build_with(gen, be, seed, params, keep, json!({}), f)
    }

    /// `over`: fields that replace the defaults of the event head (also on a panic event)
    fn build_with(&mut self, gen: &str, be: &str, seed: u64, params: &Value, keep: bool, over: Value, f: impl FnOnce() -> Built) {
        *self.builds.entry(gen.to_string()).or_default() += 1;
        let mut head = json!({"k": "build", "gen": gen, "be": be, "seed": seed, "params": params, "unseeded": false, "default": false, "sem": true});
        for (k, v) in over.as_object().unwrap() {
            head[k.as_str()] = v.clone();
        }
        let with = |extra: Value| {
            let mut e = head.clone();
            for (k, v) in extra.as_object().unwrap() {
                e[k.as_str()] = v.clone();
            }
            e
        };
        match f() {
            Err(msg) => {
                self.panics += 1;
                self.tr.emit(with(json!({"res": "panic", "msg": msg})));
            }
            Ok((p1, p2, eq)) => {
                if !eq {
                    self.unequal += 1;
                }
                if let Some(c) = p1.get("c") {
                    self.gates += c["gates"].as_array().map(|a| a.len()).unwrap_or(0);
                }
                let mut e1 = with(p1);
                self.unseeded += e1["unseeded"].as_bool().unwrap_or(false) as usize;
                e1["res"] = json!("ok");
                e1["again_equal"] = json!(eq);
                e1["keep"] = json!(keep);
                self.tr.emit(e1);
                if keep {
                    self.pairs_logged += 1;
                    let mut e2 = with(p2);
                    e2["res"] = json!("ok");
                    e2["again_equal"] = json!(eq);
                    e2["keep"] = json!(true);
                    self.tr.emit(e2);
                }
            }
        }
    }
}

/// `via`: how the probabilities are set: 0 = the five setters, 1 = uniform(), 2 = clifford_t(0.25), 3 = p_t(0.1).with_cliffords()
/// (`p` then holds the resulting probabilities in percent, for the contract)
fn random_circuit(seed: u64, q: usize, d: usize, p: [u32; 5], via: u32) -> Built {
    guarded(|| {
        let f = |x: u32| x as f32 / 100.0;
        let cfg = |b: &mut quizx::generate::RandomCircuitBuilder| {
            b.seed(seed).qubits(q).depth(d);
            match via {
                1 => b.uniform(),
                2 => b.clifford_t(0.25),
                3 => b.p_t(0.1).with_cliffords(),
                _ => b.p_cnot(f(p[0])).p_cz(f(p[1])).p_h(f(p[2])).p_s(f(p[3])).p_t(f(p[4])),
            };
        };
        let mut b = Circuit::random();
        cfg(&mut b);
        let c1 = b.build();
        b.seed(seed);
        let c2 = b.build();
        let mut b3 = Circuit::random();
        cfg(&mut b3);
        let c3 = b3.build();
        let eq = c1 == c2 && c1 == c3;
        (json!({"c": circ_json(&c1)}), json!({"c": circ_json(&c2)}), eq)
    })
}

/// `full`: ask TLC to evaluate the promise also with the full 4^n-entry semantics CircSem (about 10 s for 6 qubits)
fn hidden_shift(seed: u64, q: usize, cd: usize, nccz: usize, full: bool) -> Built {
    guarded(|| {
        let mut b = Circuit::random_hidden_shift();
        b.seed(seed).qubits(q).clifford_depth(cd).n_ccz(nccz);
        let (c1, s1) = b.build();
        b.seed(seed);
        let (c2, s2) = b.build();
        let (c3, s3) = Circuit::random_hidden_shift().seed(seed).qubits(q).clifford_depth(cd).n_ccz(nccz).build();
        let eq = c1 == c2 && s1 == s2 && c1 == c3 && s1 == s3;
        (json!({"c": circ_json(&c1), "shift": s1, "full": full}), json!({"c": circ_json(&c2), "shift": s2, "full": false}), eq)
    })
}

fn pauli_gadget(seed: u64, q: usize, d: usize, lo: usize, hi: usize, den: usize) -> Built {
    guarded(|| {
        let mut b = Circuit::random_pauli_gadget();
        b.seed(seed).qubits(q).depth(d).min_weight(lo).max_weight(hi).phase_denom(den);
        let c1 = b.build();
        b.seed(seed);
        let c2 = b.build();
        let c3 = Circuit::random_pauli_gadget().seed(seed).qubits(q).depth(d).min_weight(lo).max_weight(hi).phase_denom(den).build();
        let eq = c1 == c2 && c1 == c3;
        (json!({"c": circ_json(&c1)}), json!({"c": circ_json(&c2)}), eq)
    })
}

/// .weight(w) instead of .min_weight(w).max_weight(w).  how: 0 = weight alone (on the builder's default range 2..4),
/// 1 = after min_weight(0).max_weight(q) (must override both), 2 = weight(hi) then min_weight(lo) (range lo..hi)
fn pauli_gadget_weight(seed: u64, q: usize, d: usize, lo: usize, hi: usize, den: usize, how: u32) -> Built {
    guarded(|| {
        let cfg = |b: &mut quizx::generate::RandomPauliGadgetCircuitBuilder| {
            b.seed(seed).qubits(q).depth(d).phase_denom(den);
            match how {
                0 => b.weight(hi),
                1 => b.min_weight(0).max_weight(q).weight(hi),
                _ => b.weight(hi).min_weight(lo),
            };
        };
        let mut b = Circuit::random_pauli_gadget();
        cfg(&mut b);
        let fields_ok = b.min_weight == lo && b.max_weight == hi; // informational (the fields are public)
        let c1 = b.build();
        let mut b2 = Circuit::random_pauli_gadget();
        cfg(&mut b2);
        let c2 = b2.build();
        let eq = c1 == c2;
        (json!({"c": circ_json(&c1), "via_weight": how, "fields_as_meant": fields_ok}), json!({"c": circ_json(&c2), "via_weight": how, "fields_as_meant": fields_ok}), eq)
    })
}

fn pct(x: f32) -> i64 {
    (x as f64 * 100.0).round() as i64
}

/// builds without .seed(): the parameters as read back from the builder's public fields, and the build
fn unseeded(gen: &str, variant: usize) -> (Value, Built) {
    let dflt = variant == 0;
    let fin = move |mut e: Value, params: &Value| {
        e["params"] = params.clone();
        e["unseeded"] = json!(true);
        e["default"] = json!(dflt);
        (e.clone(), e, true)
    };
    match gen {
        "random_circuit" => {
            let mut b = if variant % 2 == 0 { Circuit::random() } else { quizx::generate::RandomCircuitBuilder::default() };
            match variant {
                0 => {}
                1 => {
                    b.qubits(3).depth(12).uniform();
                }
                2 => {
                    b.qubits(4).depth(9).clifford_t(0.25);
                }
                _ => {
                    b.qubits(2).depth(7).p_h(0.5).p_t(0.5);
                }
            }
            let params = json!({"qubits": b.qubits, "depth": b.depth, "p_cnot": pct(b.p_cnot), "p_cz": pct(b.p_cz), "p_h": pct(b.p_h),
                                "p_s": pct(b.p_s), "p_t": pct(b.p_t), "via": 9});
            let r = guarded(|| b.build()).map(|c| fin(json!({"c": circ_json(&c)}), &params));
            (params, r)
        }
        "hidden_shift" => {
            let mut b = if variant % 2 == 0 { Circuit::random_hidden_shift() } else { quizx::generate::RandomHiddenShiftCircuitBuilder::default() };
            match variant {
                0 => {}
                1 => {
                    b.qubits(6).clifford_depth(3).n_ccz(1);
                }
                2 => {
                    b.qubits(8).clifford_depth(2).n_ccz(2);
                }
                _ => {
                    b.qubits(6).clifford_depth(0).n_ccz(2);
                }
            }
            let params = json!({"qubits": b.qubits, "clifford_depth": b.clifford_depth, "n_ccz": b.n_ccz});
            let sem = b.qubits <= 8;
            let r = guarded(|| b.build()).map(|(c, s)| fin(json!({"c": circ_json(&c), "shift": s, "full": false, "sem": sem}), &params));
            (params, r)
        }
        "pauli_gadget" => {
            let mut b = if variant % 2 == 0 { Circuit::random_pauli_gadget() } else { quizx::generate::RandomPauliGadgetCircuitBuilder::default() };
            match variant {
                0 => {}
                1 => {
                    b.qubits(5).depth(4).weight(3).phase_denom(8);
                }
                2 => {
                    b.qubits(4).depth(5).min_weight(1).max_weight(4).phase_denom(3);
                }
                _ => {
                    b.qubits(6).depth(3); // the default weights 2..4 and denominator
                }
            }
            let params = json!({"qubits": b.qubits, "depth": b.depth, "min_weight": b.min_weight, "max_weight": b.max_weight, "phase_denom": b.phase_denom});
            let r = guarded(|| b.build()).map(|c| fin(json!({"c": circ_json(&c)}), &params));
            (params, r)
        }
        _ => {
            let mut b = if variant % 2 == 0 { Circuit::surface_code() } else { quizx::generate::SurfaceCodeCircuitBuilder::default() };
            if variant >= 2 {
                b.distance(2).rounds(1);
            }
            let params = json!({"distance": b.distance, "rounds": b.rounds});
            let r = guarded(|| b.build()).map(|c| fin(json!({"c": circ_json(&c)}), &params));
            (params, r)
        }
    }
}

fn unseeded_state<G: quizx::graph::GraphLike>(variant: usize) -> (Value, Built) {
    let mut b = if variant % 2 == 0 { EquatorialStabilizerStateBuilder::default() } else { EquatorialStabilizerStateBuilder::new() };
    if variant > 0 {
        b.qubits(variant % 5);
    }
    let params = json!({"qubits": b.qubits});
    let r = guarded(|| b.build::<G>()).map(|g| {
        let a = abs(&g);
        let e = json!({"g": a, "scok": a["sc"].is_array(), "params": params, "unseeded": true, "default": variant == 0});
        (e.clone(), e, true)
    });
    (params, r)
}

fn stab_state<G: quizx::graph::GraphLike>(seed: u64, q: usize) -> Built {
    guarded(|| {
        let mut b = EquatorialStabilizerStateBuilder::new();
        b.seed(seed).qubits(q);
        let g1: G = b.build();
        b.seed(seed);
        let g2: G = b.build();
        let (a1, a2) = (abs(&g1), abs(&g2));
        let eq = a1 == a2;
        let ok = |a: &Value| a["sc"].is_array();
        (json!({"g": a1, "scok": ok(&a1)}), json!({"g": a2, "scok": ok(&a2)}), eq)
    })
}

fn surface_code(d: usize, rounds: usize) -> Built {
    guarded(|| {
        let c1 = Circuit::surface_code().distance(d).rounds(rounds).build();
        let c2 = Circuit::surface_code().distance(d).rounds(rounds).build();
        let eq = c1 == c2;
        (json!({"c": circ_json(&c1)}), json!({"c": circ_json(&c2)}), eq)
    })
}

pub fn record(args: &[String], seed: u64, tr: &mut Tr) -> Value {
    let nseeds: u64 = arg_num(args, "--seeds", 3);
    let thorough = arg_flag(args, "--thorough");
    let gens = arg_val(args, "--gens").unwrap_or_else(|| "random_circuit,hidden_shift,pauli_gadget,stab_state,surface_code".into());
    let want = |g: &str| gens.split(',').any(|x| x == g);
    let base = (seed % 2000) * 1000;
    let seeds: Vec<u64> = (0..nseeds).map(|i| base + i).collect();
    let mut cx = Ctx { tr, builds: BTreeMap::new(), panics: 0, unequal: 0, pairs_logged: 0, settings: 0, gates: 0, unseeded: 0 };
    let napi: usize = arg_num(args, "--api", 0);
    if napi > 0 {
        // ---- weight(): the same key as the min/max build of the same group
        for rep in 0..napi as u64 {
            for q in 1..=5usize {
                for (lo, hi, how) in [(q.min(2), q.min(2), 0u32), (1, 1, 0), (q, q, 1), (1, 1, 1), (q.min(3), q.min(3), 1), (1, q, 2), (q.min(2), q, 2)] {
                    let d = [3usize, 6, 2][(q + how as usize) % 3];
                    let den = [4usize, 8, 3, 6][(q + lo + rep as usize) % 4];
                    let s = base + 500 + rep;
                    let params = json!({"qubits": q, "depth": d, "min_weight": lo, "max_weight": hi, "phase_denom": den});
                    cx.begin("pauli_gadget", &params);
                    cx.build("pauli_gadget", "", s, &params, true, || pauli_gadget(s, q, d, lo, hi, den));
                    cx.build("pauli_gadget", "", s, &params, true, || pauli_gadget_weight(s, q, d, lo, hi, den, how));
                }
            }
            // weight(w) with w > qubits: outside the quantifier, the builder refuses
            let params = json!({"qubits": 2, "depth": 2, "min_weight": 3, "max_weight": 3, "phase_denom": 4});
            cx.begin("pauli_gadget", &params);
            cx.build("pauli_gadget", "", base, &params, false, || pauli_gadget_weight(base, 2, 2, 3, 3, 4, 0));
        }
        // ---- no seed
        for gen in ["random_circuit", "hidden_shift", "pauli_gadget", "surface_code"] {
            for variant in 0..4usize {
                let reps = if gen == "surface_code" { 1 } else if gen == "hidden_shift" && variant == 0 { napi.min(2) } else { napi };
                for _ in 0..reps {
                    let (params, r) = unseeded(gen, variant);
                    cx.begin(gen, &params);
                    let head = json!({"unseeded": true, "default": variant == 0});
                    cx.build_with(gen, "", 0, &params, false, head, || r);
                }
            }
        }
        for variant in 0..6usize {
            for _ in 0..napi {
                for be in ["vec", "hash"] {
                    let (params, r) = if be == "vec" { unseeded_state::<quizx::vec_graph::Graph>(variant) } else { unseeded_state::<quizx::hash_graph::Graph>(variant) };
                    cx.begin("stab_state", &params);
                    let head = json!({"unseeded": true, "default": variant == 0});
                    cx.build_with("stab_state", be, 0, &params, false, head, || r);
                }
            }
        }
    }

    if want("random_circuit") {
        // [p_cnot, p_cz, p_h, p_s, p_t] in percent
        let probs: [[u32; 5]; 9] = [
            [20, 20, 20, 20, 20],
            [25, 25, 30, 10, 10],
            [34, 0, 33, 33, 0],
            [0, 0, 40, 30, 30],
            [50, 50, 0, 0, 0],
            [0, 0, 0, 0, 100],
            [10, 0, 10, 0, 10],
            [0, 5, 0, 5, 0],
            [0, 0, 0, 0, 0],
        ];
        for q in 1..=5usize {
            for d in [0usize, 1, 5, 12] {
                for p in probs {
                    let params = json!({"qubits": q, "depth": d, "p_cnot": p[0], "p_cz": p[1], "p_h": p[2], "p_s": p[3], "p_t": p[4], "via": 0});
                    cx.begin("random_circuit", &params);
                    for (i, &s) in seeds.iter().enumerate() {
                        cx.build("random_circuit", "", s, &params, i == 0, || random_circuit(s, q, d, p, 0));
                    }
                }
                // the convenience methods of the builder (two-qubit gates: at least 2 qubits)
                if q >= 2 && d > 0 {
                    for (via, p) in [(1u32, [20u32, 20, 20, 20, 20]), (2, [25, 0, 25, 25, 25]), (3, [30, 0, 30, 30, 10])] {
                        let params = json!({"qubits": q, "depth": d, "p_cnot": p[0], "p_cz": p[1], "p_h": p[2], "p_s": p[3], "p_t": p[4], "via": via});
                        cx.begin("random_circuit", &params);
                        for (i, &s) in seeds.iter().enumerate() {
                            cx.build("random_circuit", "", s, &params, i == 0, || random_circuit(s, q, d, p, via));
                        }
                    }
                }
            }
        }
        // no qubit at all: admissible only without gates
        for d in [0usize, 2] {
            let p = [0, 0, 50, 50, 0];
            let params = json!({"qubits": 0, "depth": d, "p_cnot": p[0], "p_cz": p[1], "p_h": p[2], "p_s": p[3], "p_t": p[4], "via": 0});
            cx.begin("random_circuit", &params);
            cx.build("random_circuit", "", seeds[0], &params, false, || random_circuit(seeds[0], 0, d, p, 0));
        }
    }

    if want("hidden_shift") {
        let sizes: Vec<usize> = if thorough { vec![6, 8] } else { vec![6] };
        for &q in &sizes {
            for cd in [0usize, 1, 2, 4] {
                for nccz in 0..=2usize {
                    let params = json!({"qubits": q, "clifford_depth": cd, "n_ccz": nccz});
                    cx.begin("hidden_shift", &params);
                    for (i, &s) in seeds.iter().enumerate() {
                        let full = i == 0 && q == 6 && (thorough || cd <= 1);
                        cx.build("hidden_shift", "", s, &params, i == 0, || hidden_shift(s, q, cd, nccz, full));
                    }
                }
            }
        }
        // rare draws (seed C19_e): events of probability 2^-qubits such as the all-zero (or all-one) shift string only occur in a
        // sample of several hundred instances; the two cheapest settings are therefore built for many more seeds (--hs-many N)
        let many: u64 = arg_num(args, "--hs-many", 0);
        if many > 0 {
            for (cd, nccz) in [(0usize, 0usize), (1, 1)] {
                let params = json!({"qubits": 6, "clifford_depth": cd, "n_ccz": nccz});
                for i in 0..many {
                    if i % 50 == 0 {
                        cx.begin("hidden_shift", &params);
                    }
                    let s = base + 10_000 + i;
                    cx.build("hidden_shift", "", s, &params, false, || hidden_shift(s, 6, cd, nccz, false));
                }
            }
        }
        // outside the property's quantifier (odd or < 6): the builder refuses; recorded, nothing demanded
        for q in [4usize, 5, 7] {
            let params = json!({"qubits": q, "clifford_depth": 1, "n_ccz": 0});
            cx.begin("hidden_shift", &params);
            cx.build("hidden_shift", "", seeds[0], &params, false, || hidden_shift(seeds[0], q, 1, 0, false));
        }
    }

    if want("pauli_gadget") {
        for q in 1..=5usize {
            // weight ranges with max_weight <= qubits
            let mut ranges: Vec<(usize, usize)> = vec![(1, 1), (1, q), (q, q)];
            if q >= 3 {
                ranges.push((2, 3));
            }
            if thorough && q >= 2 {
                ranges.push((0, 1));
                ranges.push((q - 1, q));
            }
            ranges.sort();
            ranges.dedup();
            for (lo, hi) in ranges {
                for d in [0usize, 1, 3, 6] {
                    if !thorough && d == 1 && q > 2 {
                        continue;
                    }
                    for den in 2..=8usize {
                        let params = json!({"qubits": q, "depth": d, "min_weight": lo, "max_weight": hi, "phase_denom": den});
                        cx.begin("pauli_gadget", &params);
                        for (i, &s) in seeds.iter().enumerate() {
                            cx.build("pauli_gadget", "", s, &params, i == 0, || pauli_gadget(s, q, d, lo, hi, den));
                        }
                    }
                }
            }
        }
        // weight larger than the number of qubits: outside the quantifier, the builder refuses
        let params = json!({"qubits": 2, "depth": 2, "min_weight": 3, "max_weight": 3, "phase_denom": 4});
        cx.begin("pauli_gadget", &params);
        cx.build("pauli_gadget", "", seeds[0], &params, false, || pauli_gadget(seeds[0], 2, 2, 3, 3, 4));
    }

    if want("stab_state") {
        // the builder has one parameter (qubits); the edge probability 1/2 is fixed in the code
        for q in 0..=5usize {
            let params = json!({"qubits": q});
            cx.begin("stab_state", &params);
            let n = if q == 0 { 1 } else { seeds.len() * if q >= 3 { 4 } else { 1 } };
            for i in 0..n {
                let s = base + i as u64;
                cx.build("stab_state", "vec", s, &params, i == 0, || stab_state::<quizx::vec_graph::Graph>(s, q));
                cx.build("stab_state", "hash", s, &params, i == 0, || stab_state::<quizx::hash_graph::Graph>(s, q));
            }
        }
    }

    if want("surface_code") {
        for d in 1..=3usize {
            for rounds in 0..=2usize {
                let params = json!({"distance": d, "rounds": rounds});
                cx.begin("surface_code", &params);
                cx.build("surface_code", "", 0, &params, true, || surface_code(d, rounds));
            }
        }
    }

    json!({"settings": cx.settings, "builds": cx.builds, "panics": cx.panics, "harness_unequal": cx.unequal,
           "pairs_logged_for_tlc": cx.pairs_logged, "gates": cx.gates, "unseeded_builds": cx.unseeded, "seeds_per_setting": nseeds, "seed_base": base})
}
