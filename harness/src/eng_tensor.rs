//! C08: the library's tensor evaluators, recorded entry by entry; TLC compares with the
//! specification's denotation (ZXSem!Den for diagrams, Circuit!CircSem for circuits).

use crate::absg::{build, sc_exact, sc_json};
use crate::circ::circ_from_json;
use crate::util::{guarded, Tr};
use num::complex::Complex;
use quizx::graph::GraphLike;
use quizx::scalar::Scalar4;
use quizx::tensor::*;
use serde_json::{json, Value};

pub fn exact_to_c(s: &Scalar4) -> Option<Complex<f64>> {
    let (c, e) = sc_exact(s)?;
    let f = 2f64.powi(e);
    let r = std::f64::consts::FRAC_1_SQRT_2;
    Some(Complex::new(
        (c[0] as f64 + (c[1] as f64 - c[3] as f64) * r) * f,
        (c[2] as f64 + (c[1] as f64 + c[3] as f64) * r) * f,
    ))
}

fn t4_json(t: &Tensor4) -> Value {
    Value::Array(t.iter().map(sc_json).collect())
}

/// is the float tensor within 1e-9 (relative to the largest entry) of the exact one?
fn float_close(t4: &Tensor4, tf: &TensorF) -> bool {
    if t4.shape() != tf.shape() {
        return false;
    }
    let ex: Vec<Complex<f64>> = t4.iter().map(|s| exact_to_c(s).unwrap_or(Complex::new(f64::NAN, 0.0))).collect();
    let m = ex.iter().map(|c| c.norm()).fold(1.0, f64::max);
    ex.iter().zip(tf.iter()).all(|(a, b)| (a - b).norm() <= 1e-9 * m)
}

fn one<G: GraphLike>(a: &Value, be: &str) -> Value {
    let g: G = build(a);
    match guarded(|| (g.to_tensor4(), g.to_tensorf())) {
        Err(msg) => json!({"k": "tensor", "be": be, "res": "panic", "msg": msg}),
        Ok((t4, tf)) => json!({"k": "tensor", "be": be, "res": "ok", "rank": t4.ndim(), "t": t4_json(&t4), "fok": float_close(&t4, &tf)}),
    }
}

/// the same diagram with drawing coordinates scattered over the vertices (rows of outputs below rows of inputs, interior
/// rows outside the boundary rows, ...): the tensor must not depend on them
fn one_with_coords<G: GraphLike>(a: &Value, be: &str, seed: u64) -> Value {
    use rand::Rng;
    let mut g: G = build(a);
    let mut r = crate::gens::rng(seed);
    for v in g.vertex_vec() {
        g.set_row(v, r.random_range(-4..=10) as f64 * 0.5);
        g.set_qubit(v, r.random_range(-2..=6) as f64 * 0.5);
    }
    match guarded(|| (g.to_tensor4(), g.to_tensorf())) {
        Err(msg) => json!({"k": "tensor", "be": be, "coords": "scattered", "res": "panic", "msg": msg}),
        Ok((t4, tf)) => json!({"k": "tensor", "be": be, "coords": "scattered", "res": "ok", "rank": t4.ndim(), "t": t4_json(&t4), "fok": float_close(&t4, &tf)}),
    }
}

pub fn record_diagram(a: &Value, tr: &mut Tr) {
    tr.group();
    tr.emit(with_ref(json!({"k": "reset", "pre": a}), || (a["ins"].as_array().unwrap().len() + a["outs"].as_array().unwrap().len(), crate::refeval::ref_den(a))));
    let ev = one::<quizx::vec_graph::Graph>(a, "vec");
    let eh = one::<quizx::hash_graph::Graph>(a, "hash");
    let same = {
        let (mut x, mut y) = (ev.clone(), eh.clone());
        x["be"] = json!("");
        y["be"] = json!("");
        x == y
    };
    if same {
        let mut e = ev;
        e["be"] = json!("both");
        tr.emit(e);
    } else {
        tr.emit(ev);
        tr.emit(eh);
    }
    let txt = a.to_string();
    let seed = txt.bytes().fold(1469598103934665603u64, |h, b| (h ^ b as u64).wrapping_mul(1099511628211));
    if seed % 2 == 0 {
        tr.emit(one_with_coords::<quizx::vec_graph::Graph>(a, "vec", seed));
    } else {
        tr.emit(one_with_coords::<quizx::hash_graph::Graph>(a, "hash", seed));
    }
}

pub fn record_circuit(cj: &Value, tr: &mut Tr) {
    let c = circ_from_json(cj);
    tr.group();
    tr.emit(with_ref(json!({"k": "circ", "c": cj}), || (2 * c.num_qubits(), crate::refeval::ref_circ(cj))));
    match guarded(|| (c.to_tensor4(), c.to_tensorf())) {
        Err(msg) => tr.emit(json!({"k": "ctensor", "res": "panic", "msg": msg})),
        Ok((t4, tf)) => tr.emit(json!({"k": "ctensor", "res": "ok", "rank": t4.ndim(), "t": t4_json(&t4), "fok": float_close(&t4, &tf)})),
    }
}

/// comparison helpers on a pool of small tensors: all ordered pairs
pub fn record_compare(tr: &mut Tr) -> usize {
    use ndarray::prelude::*;
    let vals: Vec<Scalar4> = vec![
        Scalar4::new([0, 0, 0, 0], 0),
        Scalar4::new([1, 0, 0, 0], 0),
        Scalar4::new([-1, 0, 0, 0], 0),
        Scalar4::new([0, 1, 0, 0], 0),
        Scalar4::new([0, 1, 0, -1], 0),
        Scalar4::new([1, 0, 0, 0], -1),
        Scalar4::new([0, 0, 1, 0], 1),
    ];
    let mut pool: Vec<Tensor4> = vec![];
    // all 1-index tensors over vals, a selection of 2-index ones, and scalars (0 indices)
    for a in &vals {
        pool.push(Array::from_shape_vec(IxDyn(&[]), vec![*a]).unwrap());
        for b in &vals {
            pool.push(Array::from_shape_vec(IxDyn(&[2]), vec![*a, *b]).unwrap());
        }
    }
    for (i, a) in vals.iter().enumerate() {
        for (j, b) in vals.iter().enumerate() {
            if (i + 2 * j) % 3 == 0 {
                pool.push(Array::from_shape_vec(IxDyn(&[2, 2]), vec![vals[0], *a, *b, vals[(i + j) % vals.len()]]).unwrap());
            }
        }
    }
    let mut n = 0;
    tr.group();
    for (i, t0) in pool.iter().enumerate() {
        if i % 8 == 0 {
            tr.group();
        }
        for t1 in pool.iter() {
            let seq = guarded(|| Tensor4::scalar_eq(t0, t1));
            let eq = t0 == t1;
            tr.emit(json!({"k": "cmp", "r0": t0.ndim(), "r1": t1.ndim(), "t0": t4_json(t0), "t1": t4_json(t1),
                           "scalar_eq": match seq { Ok(b) => json!(b), Err(_) => json!("panic") }, "eq": eq}));
            n += 1;
        }
    }
    n
}

// ---------------------------------------------------------------------------------------------
// API-coverage additions (docs/api_audit.md #4, #5; size-dependent code paths).
//   cmp2  : the comparison helpers on pairs of FIXED exact tensors (wrapped as ToTensor objects, so that
//           `compare` / `scalar_compare` see exactly the logged tensors in both number types); the float
//           tensors are computed from the exact ones, so the expected answer is known exactly
//   cmpx  : `compare` / `scalar_compare` on the library's own ToTensor objects (diagrams, circuits)
//   ops   : QubitOps constructors and the *_at operations with caller-chosen index positions, applied in
//           sequence to ident(q) / delta(q) / a given tensor; also on ident(6) (4096 entries)
//   plug  : plug_n_qubits
//   cunsup: circuit to_tensor on gates the evaluator does not support (outside the property: stats only)
//   wide  : 6- and 7-qubit circuits through the circuit evaluator AND through to_graph().to_tensor4()
// ---------------------------------------------------------------------------------------------

/// a fixed exact tensor as a ToTensor object (elements converted with the element type's own TryFrom<Scalar4>)
struct Fixed(Tensor4);
impl ToTensor for Fixed {
    fn to_tensor<A: TensorElem>(&self) -> Tensor<A> {
        self.0.mapv(|s| A::try_from(s).unwrap())
    }
}

fn t4_of(vals: Vec<Scalar4>, rank: usize) -> Tensor4 {
    ndarray::Array::from_shape_vec(ndarray::IxDyn(&vec![2; rank]), vals).unwrap()
}

fn tf_of(t: &Tensor4) -> TensorF {
    t.mapv(|s| exact_to_c(&s).unwrap())
}

/// Gaussian dyadic values (exactly representable as floats, products exact) and values with a sqrt2 part
fn val_pool(gauss_only: bool) -> Vec<Scalar4> {
    let mut v = vec![
        Scalar4::new([1, 0, 0, 0], 0),
        Scalar4::new([-1, 0, 0, 0], 0),
        Scalar4::new([0, 0, 1, 0], 0),
        Scalar4::new([0, 0, -1, 0], 0),
        Scalar4::new([1, 0, 1, 0], 0),
        Scalar4::new([1, 0, 0, 0], 1),
        Scalar4::new([1, 0, 0, 0], -1),
        Scalar4::new([3, 0, -1, 0], -1),
        Scalar4::new([1, 0, 2, 0], 0),
        Scalar4::new([-3, 0, 0, 0], 0),
    ];
    if !gauss_only {
        v.extend([
            Scalar4::new([0, 1, 0, 0], 0),
            Scalar4::new([0, 0, 0, 1], 0),
            Scalar4::new([0, 1, 0, -1], 0),
            Scalar4::new([0, 1, 0, -1], -1),
            Scalar4::new([1, 1, 0, 0], 0),
            Scalar4::new([1, 0, 0, -1], 0),
            Scalar4::new([0, -1, 1, 0], -1),
        ]);
    }
    v
}

fn rand_t4(r: &mut rand::rngs::StdRng, rank: usize, gauss_only: bool, pzero: f64) -> Tensor4 {
    use rand::Rng;
    let pool = val_pool(gauss_only);
    let z = Scalar4::new([0, 0, 0, 0], 0);
    t4_of((0..(1usize << rank)).map(|_| if r.random_bool(pzero) { z } else { pool[r.random_range(0..pool.len())] }).collect(), rank)
}

fn cmp2_event(how: &str, t0: &Tensor4, t1: &Tensor4) -> Value {
    let (f0, f1) = (Fixed(t0.clone()), Fixed(t1.clone()));
    let (tf0, tf1) = (tf_of(t0), tf_of(t1));
    let mut e = json!({"k": "cmp2", "how": how, "r0": t0.ndim(), "r1": t1.ndim(), "t0": t4_json(t0), "t1": t4_json(t1)});
    match guarded(|| {
        (
            t0 == t1,
            Tensor4::scalar_eq(t0, t1),
            Tensor4::compare(&f0, &f1),
            Tensor4::scalar_compare(&f0, &f1),
            TensorF::compare(&f0, &f1),
            TensorF::scalar_compare(&f0, &f1),
            TensorF::scalar_eq(&tf0, &tf1),
        )
    }) {
        Err(m) => {
            e["res"] = json!("panic");
            e["msg"] = json!(m);
        }
        Ok((eq4, seq4, cmp4, scmp4, cmpf, scmpf, seqf)) => {
            e["res"] = json!("ok");
            e["eq4"] = json!(eq4);
            e["seq4"] = json!(seq4);
            e["cmp4"] = json!(cmp4);
            e["scmp4"] = json!(scmp4);
            e["cmpf"] = json!(cmpf);
            e["scmpf"] = json!(scmpf);
            e["seqf"] = json!(seqf);
        }
    }
    e
}

/// pairs of tensors: equal, proportional (non-zero factor), one / both all-zero, different shapes, near misses
pub fn record_helper_pairs(n: usize, r: &mut rand::rngs::StdRng, tr: &mut Tr) -> usize {
    use rand::Rng;
    let zero = Scalar4::new([0, 0, 0, 0], 0);
    tr.group();
    for i in 0..n {
        if i % 16 == 0 {
            tr.group();
        }
        let rank = r.random_range(0..=3usize);
        let gauss = r.random_bool(0.5);
        let pz = [0.0, 0.3, 0.6][r.random_range(0..3)];
        let t0 = rand_t4(r, rank, gauss, pz);
        let fpool = val_pool(gauss);
        let z = fpool[r.random_range(0..fpool.len())];
        let len = t0.len();
        let (how, a, b): (&str, Tensor4, Tensor4) = match i % 12 {
            0 => ("same", t0.clone(), t0.clone()),
            1 | 2 => ("prop", t0.clone(), t0.mapv(|x| x * z)),
            3 => ("zero_one", t0.clone(), t0.mapv(|_| zero)),
            4 => ("zero_both", t0.mapv(|_| zero), t0.mapv(|_| zero)),
            5 => {
                // different shapes: one more index (the same data twice, or padded with zeros)
                let mut v: Vec<Scalar4> = t0.iter().copied().collect();
                if r.random_bool(0.5) {
                    v.extend(t0.iter().copied());
                } else {
                    v.extend(std::iter::repeat(zero).take(len));
                }
                ("shape", t0.clone(), t4_of(v, rank + 1))
            }
            6 | 7 => {
                // proportional except for one entry
                let mut t1 = t0.mapv(|x| x * z);
                let j = r.random_range(0..len);
                let d = val_pool(gauss)[r.random_range(0..3)];
                let mut v: Vec<Scalar4> = t1.iter().copied().collect();
                v[j] = if r.random_bool(0.5) { v[j] + d } else { v[j] * Scalar4::new([-1, 0, 0, 0], 0) };
                t1 = t4_of(v, rank);
                ("near_entry", t0.clone(), t1)
            }
            8 => {
                // first non-zero entries coincide, a later one differs
                let mut v: Vec<Scalar4> = t0.iter().copied().collect();
                let j = len - 1;
                v[j] = v[j] + Scalar4::new([1, 0, 0, 0], 0);
                ("near_tail", t0.clone(), t4_of(v, rank))
            }
            9 => {
                // the first non-zero entry sits at a different position
                let mut v: Vec<Scalar4> = t0.mapv(|x| x * z).iter().copied().collect();
                if let Some(j) = v.iter().position(|x| *x != zero) {
                    v[j] = zero;
                }
                ("lead_zero", t0.clone(), t4_of(v, rank))
            }
            10 => ("prop_swapped", t0.mapv(|x| x * z), t0.clone()),
            _ => ("indep", t0.clone(), rand_t4(r, rank, gauss, 0.3)),
        };
        tr.emit(cmp2_event(how, &a, &b));
    }
    n
}

fn scale_abs(a: &Value, z: [i64; 5]) -> Value {
    let s = crate::absg::sc_from_json(&a["sc"]) * Scalar4::new([z[0], z[1], z[2], z[3]], z[4] as i32);
    let mut b = a.clone();
    b["sc"] = sc_json(&s);
    b
}

enum Obj {
    G(Value),
    C(Value),
}
impl Obj {
    fn kind(&self) -> &'static str {
        match self {
            Obj::G(_) => "g",
            Obj::C(_) => "c",
        }
    }
    fn js(&self) -> &Value {
        match self {
            Obj::G(v) | Obj::C(v) => v,
        }
    }
}

fn cmpx_answers(a: &Obj, b: &Obj) -> Result<(bool, bool, bool, bool), String> {
    use quizx::vec_graph::Graph;
    fn go(x: &impl ToTensor, y: &impl ToTensor) -> (bool, bool, bool, bool) {
        (Tensor4::compare(x, y), Tensor4::scalar_compare(x, y), TensorF::compare(x, y), TensorF::scalar_compare(x, y))
    }
    guarded(|| match (a, b) {
        (Obj::G(x), Obj::G(y)) => go(&build::<Graph>(x), &build::<quizx::hash_graph::Graph>(y)),
        (Obj::G(x), Obj::C(y)) => go(&build::<Graph>(x), &circ_from_json(y)),
        (Obj::C(x), Obj::G(y)) => go(&circ_from_json(x), &build::<Graph>(y)),
        (Obj::C(x), Obj::C(y)) => go(&circ_from_json(x), &circ_from_json(y)),
    })
}

/// `compare` / `scalar_compare` on diagrams and circuits (the library's own ToTensor implementors)
pub fn record_helper_objects(n: usize, r: &mut rand::rngs::StdRng, tr: &mut Tr) -> usize {
    use crate::circ::{ag_json, random_circuit, Alphabet, AG};
    use rand::Rng;
    let al = Alphabet { pp: false, ..Alphabet::unitary() };
    let cfg = crate::gens::RandCfg { max_sp: 4, max_b: 3, ..crate::gens::RandCfg::any_zx() };
    for i in 0..n {
        tr.group();
        let (how, a, b): (&str, Obj, Obj) = if i % 2 == 0 {
            // diagrams
            let g = crate::gens::random_diagram(r, &cfg);
            match (i / 2) % 6 {
                0 => ("same", Obj::G(g.clone()), Obj::G(g)),
                1 => {
                    let z = [[-1, 0, 0, 0, 0], [0, 0, 1, 0, 0], [0, 1, 0, 0, 0], [0, 1, 0, -1, -1], [1, 0, 0, 0, 1], [1, 1, 0, 0, 0]][r.random_range(0..6)];
                    ("prop", Obj::G(g.clone()), Obj::G(scale_abs(&g, z)))
                }
                2 => ("zero_one", Obj::G(g.clone()), Obj::G(scale_abs(&g, [0, 0, 0, 0, 0]))),
                3 => ("zero_both", Obj::G(scale_abs(&g, [0, 0, 0, 0, 0])), Obj::G(scale_abs(&scale_abs(&g, [0, 0, 0, 0, 0]), [0, 1, 0, 0, 0]))),
                4 => {
                    // near miss: one spider phase moved by pi/4 (or an independent diagram when there is no spider)
                    let mut h = g.clone();
                    let sp: Vec<usize> = h["v"].as_array().unwrap().iter().enumerate().filter(|(_, v)| v["ty"] != "B").map(|(i, _)| i).collect();
                    if sp.is_empty() {
                        h = crate::gens::random_diagram(r, &cfg);
                    } else {
                        let j = sp[r.random_range(0..sp.len())];
                        let p = &h["v"][j]["ph"];
                        let k = (p[0].as_i64().unwrap() * 4 / p[1].as_i64().unwrap() + 1).rem_euclid(8);
                        h["v"][j]["ph"] = crate::gens::ph4(k);
                    }
                    ("near_phase", Obj::G(g), Obj::G(h))
                }
                _ => ("indep", Obj::G(g), Obj::G(crate::gens::random_diagram(r, &cfg))),
            }
        } else {
            // circuits
            let nq = r.random_range(1..=2usize);
            let mut al2 = al.clone();
            al2.threeq = vec![];
            if nq < 2 {
                al2.twoq = vec![];
            }
            let len = r.random_range(0..=5);
            let gs = random_circuit(r, nq, len, &al2);
            let len2 = r.random_range(0..=5);
            let c = ag_json(nq, &gs);
            let q = r.random_range(0..nq);
            match (i / 2) % 6 {
                0 => {
                    // the same map written differently: H H appended
                    let mut g2 = gs.clone();
                    g2.push(AG { t: "HAD", qs: vec![q], ph: 0 });
                    g2.push(AG { t: "HAD", qs: vec![q], ph: 0 });
                    ("same_map", Obj::C(c), Obj::C(ag_json(nq, &g2)))
                }
                1 => {
                    // global phase -1: X Z X Z
                    let mut g2 = gs.clone();
                    for t in ["NOT", "Z", "NOT", "Z"] {
                        g2.push(AG { t, qs: vec![q], ph: 0 });
                    }
                    ("global_phase", Obj::C(c), Obj::C(ag_json(nq, &g2)))
                }
                2 => {
                    let mut g2 = gs.clone();
                    g2.insert(r.random_range(0..=gs.len()), AG { t: "ZPhase", qs: vec![q], ph: [1, 2, 4, 7][r.random_range(0..4)] });
                    ("near_gate", Obj::C(c), Obj::C(ag_json(nq, &g2)))
                }
                3 => ("shape", Obj::C(c), Obj::C(ag_json(nq + 1, &gs))),
                4 => {
                    // a circuit against its own diagram
                    let g: quizx::vec_graph::Graph = circ_from_json(&c).to_graph();
                    ("circuit_vs_graph", Obj::C(c), Obj::G(crate::absg::abs(&g)))
                }
                _ => ("indep", Obj::C(c), Obj::C(ag_json(nq, &random_circuit(r, nq, len2, &al2)))),
            }
        };
        let mut e = json!({"k": "cmpx", "how": how, "ka": a.kind(), "a": a.js(), "kb": b.kind(), "b": b.js()});
        match cmpx_answers(&a, &b) {
            Err(m) => {
                e["res"] = json!("panic");
                e["msg"] = json!(m);
            }
            Ok((cmp4, scmp4, cmpf, scmpf)) => {
                e["res"] = json!("ok");
                e["cmp4"] = json!(cmp4);
                e["scmp4"] = json!(scmp4);
                e["cmpf"] = json!(cmpf);
                e["scmpf"] = json!(scmpf);
            }
        }
        tr.emit(e);
    }
    n
}

#[derive(Clone, Debug)]
struct Op {
    op: &'static str, // "had" | "cphase" | "delta"
    qs: Vec<usize>,
    k: i64, // phase in units of pi/4 (cphase only)
}

fn apply_ops<A: TensorElem>(mut t: Tensor<A>, ops: &[Op]) -> Tensor<A> {
    for o in ops {
        match o.op {
            "had" => t.hadamard_at(o.qs[0]),
            "cphase" => t.cphase_at(num::Rational64::new(o.k, 4), &o.qs),
            "delta" => t.delta_at(&o.qs),
            _ => unreachable!(),
        }
    }
    t
}

fn start_tensor<A: TensorElem>(start: &str, r0: usize, given: &Tensor4) -> Tensor<A> {
    match start {
        "ident" => Tensor::<A>::ident(r0 / 2),
        "delta" => Tensor::<A>::delta(r0),
        "hadamard" => Tensor::<A>::hadamard(),
        _ => Fixed(given.clone()).to_tensor::<A>(),
    }
}

fn ops_event(start: &str, r0: usize, given: &Tensor4, ops: &[Op]) -> Value {
    let mut e = json!({"k": "ops", "start": start, "r0": r0, "t0": if start == "given" { t4_json(given) } else { json!([]) },
                       "ops": ops.iter().map(|o| json!({"op": o.op, "qs": o.qs, "k": o.k})).collect::<Vec<_>>()});
    match guarded(|| (apply_ops(start_tensor::<Scalar4>(start, r0, given), ops), apply_ops(start_tensor::<Complex<f64>>(start, r0, given), ops))) {
        Err(m) => {
            e["res"] = json!("panic");
            e["msg"] = json!(m);
        }
        Ok((t4, tf)) => {
            e["res"] = json!("ok");
            e["rank"] = json!(t4.ndim());
            e["t"] = t4_json(&t4);
            e["fok"] = json!(float_close(&t4, &tf));
        }
    }
    e
}

fn distinct_positions(r: &mut rand::rngs::StdRng, rank: usize, k: usize, prefer: &[usize]) -> Vec<usize> {
    use rand::Rng;
    let mut all: Vec<usize> = (0..rank).collect();
    for i in (1..all.len()).rev() {
        all.swap(i, r.random_range(0..=i));
    }
    let mut out: Vec<usize> = vec![];
    for &p in prefer {
        if out.len() < k && p < rank && r.random_bool(0.5) && !out.contains(&p) {
            out.push(p);
        }
    }
    for p in all {
        if out.len() < k && !out.contains(&p) {
            out.push(p);
        }
    }
    out
}

fn random_ops(r: &mut rand::rngs::StdRng, rank: usize, nops: usize, prefer: &[usize]) -> Vec<Op> {
    use rand::Rng;
    let mut ops = vec![];
    for _ in 0..nops {
        let c = r.random_range(0..3);
        if c == 0 && rank > 0 {
            ops.push(Op { op: "had", qs: distinct_positions(r, rank, 1, prefer), k: 0 });
        } else if c == 1 {
            let k = r.random_range(0..=rank.min(3));
            ops.push(Op { op: "cphase", qs: distinct_positions(r, rank, k, prefer), k: r.random_range(1..8) });
        } else {
            let k = r.random_range(0..=rank.min(4));
            ops.push(Op { op: "delta", qs: distinct_positions(r, rank, k, prefer), k: 0 });
        }
    }
    ops
}

/// constructors (ident, delta, cphase, hadamard) and *_at operations with caller-chosen positions
pub fn record_qubit_ops(n: usize, r: &mut rand::rngs::StdRng, tr: &mut Tr) -> usize {
    use rand::Rng;
    let none = t4_of(vec![Scalar4::new([1, 0, 0, 0], 0)], 0);
    let mut cnt = 0;
    tr.group();
    // the constructors themselves, exhaustively for small q
    for q in 0..=3usize {
        tr.emit(ops_event("ident", 2 * q, &none, &[]));
        cnt += 1;
        // cphase(p, q) = ident(q) with cphase_at on the first q indices (logged as that sequence AND called directly)
        for k in [1i64, 2, 4, 7] {
            let mut e = json!({"k": "ops", "start": "ident", "r0": 2 * q, "t0": [], "via": "cphase",
                               "ops": [{"op": "cphase", "qs": (0..q).collect::<Vec<_>>(), "k": k}]});
            match guarded(|| (Tensor4::cphase(num::Rational64::new(k, 4), q), TensorF::cphase(num::Rational64::new(k, 4), q))) {
                Err(m) => {
                    e["res"] = json!("panic");
                    e["msg"] = json!(m);
                }
                Ok((t4, tf)) => {
                    e["res"] = json!("ok");
                    e["rank"] = json!(t4.ndim());
                    e["t"] = t4_json(&t4);
                    e["fok"] = json!(float_close(&t4, &tf));
                }
            }
            tr.emit(e);
            cnt += 1;
        }
    }
    for q in 0..=5usize {
        tr.emit(ops_event("delta", q, &none, &[]));
        cnt += 1;
    }
    tr.emit(ops_event("hadamard", 2, &none, &[]));
    cnt += 1;
    // random operation sequences
    for i in 0..n {
        if i % 8 == 0 {
            tr.group();
        }
        let (start, r0) = match i % 4 {
            0 => ("ident", 2 * r.random_range(0..=2usize)),
            1 => ("delta", r.random_range(0..=4usize)),
            _ => ("given", r.random_range(0..=4usize)),
        };
        let given = if start == "given" { rand_t4(r, r0, false, 0.2) } else { none.clone() };
        let nops = r.random_range(1..=4);
        let ops = random_ops(r, r0, nops, &[0, r0.saturating_sub(1)]);
        tr.emit(ops_event(start, r0, &given, &ops));
        cnt += 1;
    }
    cnt
}

/// the same operations on ident(6): 4096 entries, every index position class (first, last, middle)
pub fn record_wide_ops(n: usize, r: &mut rand::rngs::StdRng, tr: &mut Tr) -> usize {
    use rand::Rng;
    let none = t4_of(vec![Scalar4::new([1, 0, 0, 0], 0)], 0);
    for i in 0..n {
        tr.group();
        let rank = 12usize;
        // a Hadamard on the first, the last or a middle index first, then a mix
        let mut ops = vec![Op { op: "had", qs: vec![[0, rank - 1, rank / 2, rank / 2 - 1][i % 4]], k: 0 }];
        let nops = r.random_range(2..=4);
        ops.extend(random_ops(r, rank, nops, &[0, rank - 1, rank / 2]));
        ops.push(Op { op: "had", qs: vec![r.random_range(0..rank)], k: 0 });
        tr.emit(ops_event("ident", rank, &none, &ops));
    }
    n
}

/// plug_n_qubits: contract the last n indices of t0 with the first n of t1
pub fn record_plug(n: usize, r: &mut rand::rngs::StdRng, tr: &mut Tr) -> usize {
    use rand::Rng;
    tr.group();
    for i in 0..n {
        if i % 8 == 0 {
            tr.group();
        }
        let np = r.random_range(0..=2usize);
        let d1 = np + r.random_range(0..=2usize);
        // every other case has the shape the library's own test uses (other has exactly 2n indices)
        let d2 = if i % 2 == 0 { 2 * np } else { np + r.random_range(0..=2usize) };
        let (t0, t1) = (rand_t4(r, d1, false, 0.2), rand_t4(r, d2, false, 0.2));
        let mut e = json!({"k": "plug", "n": np, "r0": d1, "r1": d2, "t0": t4_json(&t0), "t1": t4_json(&t1)});
        let (f0, f1) = (tf_of(&t0), tf_of(&t1));
        match guarded(|| (t0.clone().plug_n_qubits(np, &t1), f0.plug_n_qubits(np, &f1))) {
            Err(m) => {
                e["res"] = json!("panic");
                e["msg"] = json!(m);
            }
            Ok((t4, tf)) => {
                e["res"] = json!("ok");
                e["rank"] = json!(t4.ndim());
                // a result of the wrong size is logged by its length only (TLC reads `t` only when the rank is right)
                e["len"] = json!(t4.len());
                e["t"] = t4_json(&t4);
                e["fok"] = json!(float_close(&t4, &tf));
            }
        }
        tr.emit(e);
    }
    n
}

/// circuit to_tensor on the gates the evaluator does not support: the property quantifies over the
/// supported gates only, so the outcome is recorded for the statistics and never judged
pub fn record_unsupported(tr: &mut Tr) -> usize {
    let kinds = ["ParityPhase", "InitAncilla", "PostSelect", "Measure", "MeasureReset", "UnknownGate"];
    tr.group();
    for t in kinds {
        let cj = json!({"n": 2, "gates": [{"t": "HAD", "qs": [0], "ph": [0, 1], "vars": []},
                                         {"t": t, "qs": if t == "ParityPhase" { vec![0, 1] } else { vec![1] }, "ph": [1, 4], "vars": []}]});
        let c = circ_from_json(&cj);
        let res = guarded(|| c.to_tensor4());
        tr.emit(json!({"k": "cunsup", "gate": t, "res": if res.is_ok() { "ok" } else { "panic" }, "msg": res.err().unwrap_or_default()}));
    }
    kinds.len()
}

/// 6- and 7-qubit circuits: every size-dependent path of hadamard_at (parallel zip over two 2^(2n-1) halves),
/// cphase_at / delta_at (broadcast) and swap_axes, through the circuit evaluator and through the diagram
pub fn record_wide_circuits(n: usize, r: &mut rand::rngs::StdRng, tr: &mut Tr, maxq: usize) -> usize {
    use crate::circ::{ag_json, random_circuit, Alphabet, AG};
    use rand::Rng;
    let al = Alphabet { pp: false, ..Alphabet::unitary() };
    for i in 0..n {
        let nq = if maxq > 6 && i % 5 == 4 { 7 } else { 6 }; // every fifth: the big ones land on different shards
        let len = r.random_range(2..=7usize);
        let mut gs = random_circuit(r, nq, len, &al);
        // always a Hadamard-type gate on the first, the last or a middle qubit
        let q = [0, nq - 1, nq / 2][i % 3];
        let g = [AG { t: "HAD", qs: vec![q], ph: 0 }, AG { t: "NOT", qs: vec![q], ph: 0 }, AG { t: "XPhase", qs: vec![q], ph: 1 },
                 AG { t: "CNOT", qs: vec![(q + 1) % nq, q], ph: 0 }, AG { t: "XCX", qs: vec![q, (q + 2) % nq], ph: 0 }][(i / 3) % 5].clone();
        gs.insert(r.random_range(0..=gs.len()), g);
        let cj = ag_json(nq, &gs);
        record_circuit(&cj, tr);
        let c = circ_from_json(&cj);
        match guarded(|| {
            let g: quizx::vec_graph::Graph = c.to_graph();
            g.to_tensor4()
        }) {
            Err(msg) => tr.emit(json!({"k": "ctensor", "via": "to_graph", "res": "panic", "msg": msg})),
            Ok(t4) => tr.emit(json!({"k": "ctensor", "via": "to_graph", "res": "ok", "rank": t4.ndim(), "t": t4_json(&t4), "fok": true})),
        }
    }
    n
}

/// entry point of the additions: `--helpers N --objects N --qops N --plug N --wide-ops N --wide N [--wide7] --unsupported`
pub fn record_extra(args: &[String], seed: u64, tr: &mut Tr) -> Value {
    use crate::util::{arg_flag, arg_num};
    let mut r = crate::gens::rng(seed ^ 0x7e50);
    let helpers = record_helper_pairs(arg_num(args, "--helpers", 0), &mut r, tr);
    let objects = record_helper_objects(arg_num(args, "--objects", 0), &mut r, tr);
    let nq: usize = arg_num(args, "--qops", 0);
    let qops = if nq > 0 { record_qubit_ops(nq, &mut r, tr) } else { 0 };
    let plugs = record_plug(arg_num(args, "--plug", 0), &mut r, tr);
    let wops = record_wide_ops(arg_num(args, "--wide-ops", 0), &mut r, tr);
    let wide = record_wide_circuits(arg_num(args, "--wide", 0), &mut r, tr, if arg_flag(args, "--wide7") { 7 } else { 6 });
    let unsup = if arg_flag(args, "--unsupported") { record_unsupported(tr) } else { 0 };
    json!({"helper_pairs": helpers, "helper_objects": objects, "qubit_ops": qops, "plugs": plugs, "wide_ops": wops, "wide_circuits": wide, "unsupported": unsup})
}

// ---------------------------------------------------------------------------------------------
// The float reference evaluator (refeval.rs) as a CHECKED artefact, and the GENERIC-PHASE tier of C08.
//   --ref        the headers `reset` / `circ` additionally carry `ref`: the tensor refeval.rs computes for the (pi/4) diagram /
//                circuit, per entry [round(re * 2^20), round(im * 2^20)]; mc/Trace_Tensor.tla (RefEvalOK) compares it entry by
//                entry with the exact tensor TLC computes from the specification (Den / CircSem).  Off by default: existing
//                traces stay byte-identical.
//   --generic N  N seeded diagrams and N seeded circuits whose phases are NOT multiples of pi/4: to_tensorf against the
//                reference evaluator at 1e-9 (`fok`), and to_tensor4 - whose entries are then float-approximate Scalar4 values,
//                converted with complex_value() - likewise (`f4ok`); both backends, default and scattered coordinates.
//                Floating point cannot be decided by TLC: the booleans are computed here, Trace_Tensor judges them
//                (FloatTensorOK, Tensor4FloatOK, NoPanic).
//   begin {what: "generic", pre}  /  tensorf {be, coords, res, rankok, fok, f4ok, approx}
//   begin {what: "generic_circ", c}  /  ctensorf {via: "circuit"|"to_graph", res, rankok, fok, f4ok, approx}
// ---------------------------------------------------------------------------------------------

static REF_ON: std::sync::atomic::AtomicBool = std::sync::atomic::AtomicBool::new(false);

pub fn set_ref(on: bool) {
    REF_ON.store(on, std::sync::atomic::Ordering::Relaxed);
}

/// add the reference tensor to a header when `--ref` is on (rank <= 8, every entry below 2^10 in absolute value)
fn with_ref(mut header: Value, f: impl FnOnce() -> (usize, Vec<crate::refeval::C>)) -> Value {
    if REF_ON.load(std::sync::atomic::Ordering::Relaxed) {
        let (rank, t) = f();
        if rank <= crate::refeval::REF_MAX_RANK && t.len() == 1usize << rank {
            if let Some(j) = crate::refeval::ref_json(&t) {
                header["ref"] = j;
            }
        }
    }
    header
}

fn tensors_vs_ref(t4: &Tensor4, tf: &TensorF, want: &[crate::refeval::C], rank: usize) -> Value {
    use crate::refeval::close;
    let rankok = t4.ndim() == rank && tf.ndim() == rank && t4.shape().iter().all(|&d| d == 2) && tf.shape().iter().all(|&d| d == 2);
    let f: Vec<Complex<f64>> = tf.iter().copied().collect();
    let f4: Vec<Complex<f64>> = t4.iter().map(|s| s.complex_value()).collect();
    json!({"rankok": rankok, "fok": rankok && close(&f, want, 1e-9), "f4ok": rankok && close(&f4, want, 1e-9),
           "approx": t4.iter().any(crate::absg::sc_is_approx)})
}

fn merge(mut e: Value, more: Value) -> Value {
    for (k, v) in more.as_object().unwrap() {
        e[k] = v.clone();
    }
    e
}

fn generic_one<G: GraphLike>(a: &Value, be: &str, scatter: Option<u64>, want: &[crate::refeval::C]) -> Value {
    use rand::Rng;
    let mut g: G = crate::refeval::build_f(a);
    if let Some(seed) = scatter {
        let mut r = crate::gens::rng(seed);
        for v in g.vertex_vec() {
            g.set_row(v, r.random_range(-4..=10) as f64 * 0.5);
            g.set_qubit(v, r.random_range(-2..=6) as f64 * 0.5);
        }
    }
    let head = json!({"k": "tensorf", "be": be, "coords": if scatter.is_some() { "scattered" } else { "default" }});
    let rank = a["ins"].as_array().unwrap().len() + a["outs"].as_array().unwrap().len();
    match guarded(|| (g.to_tensor4(), g.to_tensorf())) {
        Err(msg) => merge(head, json!({"res": "panic", "msg": msg})),
        Ok((t4, tf)) => merge(merge(head, json!({"res": "ok"})), tensors_vs_ref(&t4, &tf, want, rank)),
    }
}

pub fn record_generic_diagram(a: &Value, tr: &mut Tr) {
    tr.group();
    tr.emit(json!({"k": "begin", "what": "generic", "pre": a}));
    let want = crate::refeval::ref_den(a);
    let ev = generic_one::<quizx::vec_graph::Graph>(a, "vec", None, &want);
    let eh = generic_one::<quizx::hash_graph::Graph>(a, "hash", None, &want);
    let same = {
        let (mut x, mut y) = (ev.clone(), eh.clone());
        x["be"] = json!("");
        y["be"] = json!("");
        x == y
    };
    if same {
        tr.emit(merge(ev, json!({"be": "both"})));
    } else {
        tr.emit(ev);
        tr.emit(eh);
    }
    let seed = a.to_string().bytes().fold(1469598103934665603u64, |h, b| (h ^ b as u64).wrapping_mul(1099511628211));
    if seed % 2 == 0 {
        tr.emit(generic_one::<quizx::vec_graph::Graph>(a, "vec", Some(seed), &want));
    } else {
        tr.emit(generic_one::<quizx::hash_graph::Graph>(a, "hash", Some(seed), &want));
    }
}

pub fn record_generic_circuit(cj: &Value, tr: &mut Tr) {
    let c = circ_from_json(cj);
    tr.group();
    tr.emit(json!({"k": "begin", "what": "generic_circ", "c": cj}));
    let want = crate::refeval::ref_circ(cj);
    let rank = 2 * c.num_qubits();
    let head = |via: &str| json!({"k": "ctensorf", "via": via});
    tr.emit(match guarded(|| (c.to_tensor4(), c.to_tensorf())) {
        Err(msg) => merge(head("circuit"), json!({"res": "panic", "msg": msg})),
        Ok((t4, tf)) => merge(merge(head("circuit"), json!({"res": "ok"})), tensors_vs_ref(&t4, &tf, &want, rank)),
    });
    // the same map through the diagram (to_graph is judged by C02; here the diagram evaluator sees circuit-shaped inputs)
    tr.emit(match guarded(|| {
        let g: quizx::vec_graph::Graph = c.to_graph();
        (g.to_tensor4(), g.to_tensorf())
    }) {
        Err(msg) => merge(head("to_graph"), json!({"res": "panic", "msg": msg})),
        Ok((t4, tf)) => merge(merge(head("to_graph"), json!({"res": "ok"})), tensors_vs_ref(&t4, &tf, &want, rank)),
    });
}

/// With `--ref`: pi/4 inputs of exactly the SHAPES the generic-phase tiers of the five engines hand to the reference evaluator
/// (arbitrary ZX and graph-like diagrams with phase gadgets from the generic tier's configurations, diagrams produced by
/// to_graph in its modes, simplified circuit diagrams, circuits with parity-phase gates), so that RefEvalOK validates the
/// oracle where it is used.  Diagrams go through `record_diagram` (the library's tensor is judged as usual); a circuit with a
/// parity-phase gate is a header only (the library's circuit evaluator does not support the gate).
fn record_ref_shapes(n: usize, r: &mut rand::rngs::StdRng, tr: &mut Tr) -> usize {
    use crate::circ::{ag_json, random_circuit, Alphabet};
    use crate::gens::{random_diagram, RandCfg};
    use rand::Rng;
    let mut cnt = 0;
    for i in 0..n {
        match i % 4 {
            0 => record_diagram(&random_diagram(r, &RandCfg { min_sp: 1, max_sp: 6, max_b: 3, ..RandCfg::any_zx() }), tr),
            1 => record_diagram(&random_diagram(r, &RandCfg { min_sp: 1, max_sp: 5, max_b: 3, phs: vec![0, 1, 2, 3, 4, 6], gadgets: 2, ..RandCfg::graph_like() }), tr),
            _ => {
                let nq = r.random_range(1..=3usize);
                let mut al = Alphabet::unitary();
                al.threeq = vec![];
                if nq < 2 {
                    al.twoq = vec![];
                    al.pp = false;
                }
                let len = r.random_range(1..=5usize);
                let cj = ag_json(nq, &random_circuit(r, nq, len, &al));
                if i % 4 == 2 {
                    tr.group();
                    tr.emit(with_ref(json!({"k": "circ", "c": cj}), || (2 * nq, crate::refeval::ref_circ(&cj))));
                } else {
                    let c = circ_from_json(&cj);
                    let g: quizx::vec_graph::Graph = match (i / 4) % 3 {
                        0 => c.to_graph(),
                        1 => c.to_graph_with_options(true, false),
                        _ => {
                            let mut g: quizx::vec_graph::Graph = c.to_graph();
                            quizx::simplify::clifford_simp(&mut g);
                            g
                        }
                    };
                    let a = crate::absg::abs(&g);
                    if !a["sc"].is_array() {
                        continue;
                    }
                    record_diagram(&a, tr);
                }
            }
        }
        cnt += 1;
    }
    cnt
}

pub fn record_generic(n: usize, seed: u64, tr: &mut Tr) -> Value {
    let mut r = crate::gens::rng(seed ^ 0x6e7e);
    let shapes = if REF_ON.load(std::sync::atomic::Ordering::Relaxed) { record_ref_shapes(n, &mut r, tr) } else { 0 };
    for i in 0..n {
        let a = crate::gens::generic_diagram(&mut r, i);
        record_generic_diagram(&a, tr);
    }
    // the circuit evaluator does not support parity-phase gates
    for _ in 0..n {
        let cj = crate::circ::generic_circuit(&mut r, 3, 7, false, 1);
        record_generic_circuit(&cj, tr);
    }
    json!({"generic_diagrams": n, "generic_circuits": n, "ref_shapes": shapes})
}
