//! C08: the library's tensor evaluators, recorded entry by entry; TLC compares with the
//! specification's denotation (ZXSem!Den for diagrams, Circuit!CircSem for circuits).

use crate::absg::{build, sc_exact, sc_json};
use crate::circ::circ_from_json;
use crate::util::{guarded, Tr};
use num::complex::Complex;
use quizx::graph::GraphLike;
use quizx::scalar::Scalar4;
use quizx::tensor::*;
use serde_json::{json, Value};

pub fn exact_to_c(s: &Scalar4) -> Option<Complex<f64>> {
    let (c, e) = sc_exact(s)?;
    let f = 2f64.powi(e);
    let r = std::f64::consts::FRAC_1_SQRT_2;
    Some(Complex::new(
        (c[0] as f64 + (c[1] as f64 - c[3] as f64) * r) * f,
        (c[2] as f64 + (c[1] as f64 + c[3] as f64) * r) * f,
    ))
}

fn t4_json(t: &Tensor4) -> Value {
    Value::Array(t.iter().map(sc_json).collect())
}

/// is the float tensor within 1e-9 (relative to the largest entry) of the exact one?
fn float_close(t4: &Tensor4, tf: &TensorF) -> bool {
    if t4.shape() != tf.shape() {
        return false;
    }
    let ex: Vec<Complex<f64>> = t4.iter().map(|s| exact_to_c(s).unwrap_or(Complex::new(f64::NAN, 0.0))).collect();
    let m = ex.iter().map(|c| c.norm()).fold(1.0, f64::max);
    ex.iter().zip(tf.iter()).all(|(a, b)| (a - b).norm() <= 1e-9 * m)
}

fn one<G: GraphLike>(a: &Value, be: &str) -> Value {
    let g: G = build(a);
    match guarded(|| (g.to_tensor4(), g.to_tensorf())) {
        Err(msg) => json!({"k": "tensor", "be": be, "res": "panic", "msg": msg}),
        Ok((t4, tf)) => json!({"k": "tensor", "be": be, "res": "ok", "rank": t4.ndim(), "t": t4_json(&t4), "fok": float_close(&t4, &tf)}),
    }
}

pub fn record_diagram(a: &Value, tr: &mut Tr) {
    tr.group();
    tr.emit(json!({"k": "reset", "pre": a}));
    let ev = one::<quizx::vec_graph::Graph>(a, "vec");
    let eh = one::<quizx::hash_graph::Graph>(a, "hash");
    let same = {
        let (mut x, mut y) = (ev.clone(), eh.clone());
        x["be"] = json!("");
        y["be"] = json!("");
        x == y
    };
    if same {
        let mut e = ev;
        e["be"] = json!("both");
        tr.emit(e);
    } else {
        tr.emit(ev);
        tr.emit(eh);
    }
}

pub fn record_circuit(cj: &Value, tr: &mut Tr) {
    let c = circ_from_json(cj);
    tr.group();
    tr.emit(json!({"k": "circ", "c": cj}));
    match guarded(|| (c.to_tensor4(), c.to_tensorf())) {
        Err(msg) => tr.emit(json!({"k": "ctensor", "res": "panic", "msg": msg})),
        Ok((t4, tf)) => tr.emit(json!({"k": "ctensor", "res": "ok", "rank": t4.ndim(), "t": t4_json(&t4), "fok": float_close(&t4, &tf)})),
    }
}

/// comparison helpers on a pool of small tensors: all ordered pairs
pub fn record_compare(tr: &mut Tr) -> usize {
    use ndarray::prelude::*;
    let vals: Vec<Scalar4> = vec![
        Scalar4::new([0, 0, 0, 0], 0),
        Scalar4::new([1, 0, 0, 0], 0),
        Scalar4::new([-1, 0, 0, 0], 0),
        Scalar4::new([0, 1, 0, 0], 0),
        Scalar4::new([0, 1, 0, -1], 0),
        Scalar4::new([1, 0, 0, 0], -1),
        Scalar4::new([0, 0, 1, 0], 1),
    ];
    let mut pool: Vec<Tensor4> = vec![];
    // all 1-index tensors over vals, a selection of 2-index ones, and scalars (0 indices)
    for a in &vals {
        pool.push(Array::from_shape_vec(IxDyn(&[]), vec![*a]).unwrap());
        for b in &vals {
            pool.push(Array::from_shape_vec(IxDyn(&[2]), vec![*a, *b]).unwrap());
        }
    }
    for (i, a) in vals.iter().enumerate() {
        for (j, b) in vals.iter().enumerate() {
            if (i + 2 * j) % 3 == 0 {
                pool.push(Array::from_shape_vec(IxDyn(&[2, 2]), vec![vals[0], *a, *b, vals[(i + j) % vals.len()]]).unwrap());
            }
        }
    }
    let mut n = 0;
    tr.group();
    for (i, t0) in pool.iter().enumerate() {
        if i % 8 == 0 {
            tr.group();
        }
        for t1 in pool.iter() {
            let seq = guarded(|| Tensor4::scalar_eq(t0, t1));
            let eq = t0 == t1;
            tr.emit(json!({"k": "cmp", "r0": t0.ndim(), "r1": t1.ndim(), "t0": t4_json(t0), "t1": t4_json(t1),
                           "scalar_eq": match seq { Ok(b) => json!(b), Err(_) => json!("panic") }, "eq": eq}));
            n += 1;
        }
    }
    n
}
