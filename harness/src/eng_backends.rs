//! C09: seeded random editing histories run against BOTH graph backends; after every
//! operation the full observable state of each is logged.  Vertex identity across backends
//! is a unique tag stored in the `row` coordinate (names differ: the vector backend reuses
//! freed names, the hash backend never does).  TLC (mc/Trace_Backends) checks the internal
//! invariants on each logged observable and that both equal the abstract model in tag space.

use crate::absg::{et_from, expr_json, parity_json, phase_json, sc_json};
use crate::util::{arg_num, guarded, Tr};
use num::Rational64;
use quizx::graph::*;
use quizx::params::{Expr, Parity};
use quizx::phase::Phase;
use quizx::scalar::{FromPhase, Scalar4};
use rand::rngs::StdRng;
use rand::Rng;
use serde_json::{json, Value};

fn ty_of(s: &str) -> VType {
    match s {
        "B" => VType::B,
        "X" => VType::X,
        _ => VType::Z,
    }
}
fn ty_s(t: VType) -> &'static str {
    match t {
        VType::B => "B",
        VType::Z => "Z",
        VType::X => "X",
        _ => "other",
    }
}
fn ets(t: EType) -> &'static str {
    match t {
        EType::N => "N",
        EType::H => "H",
        _ => "W",
    }
}

fn tag_of(g: &impl GraphLike, v: V) -> i64 {
    g.row(v) as i64
}
fn name_of(g: &impl GraphLike, tag: i64) -> Option<V> {
    g.vertices().find(|&v| tag_of(g, v) == tag)
}

/// everything the public interface shows, enumeration order removed by sorting, multiplicity kept
pub fn obs(g: &impl GraphLike) -> Value {
    let mut vs: Vec<V> = g.vertices().collect();
    vs.sort();
    let verts: Vec<Value> = vs
        .iter()
        .map(|&v| {
            let d = g.vertex_data(v);
            let (vars, vc) = parity_json(&d.vars);
            json!({"name": v, "tag": tag_of(g, v), "ty": ty_s(d.ty), "ph": phase_json(d.phase), "vars": vars, "vc": vc, "q": d.qubit as i64})
        })
        .collect();
    let mut es: Vec<(V, V, &str)> = g.edges().map(|(a, b, t)| (a, b, ets(t))).collect();
    es.sort();
    let adj: Vec<Value> = vs
        .iter()
        .map(|&v| {
            let mut inc: Vec<(V, &str)> = g.incident_edges(v).map(|(u, t)| (u, ets(t))).collect();
            inc.sort();
            let mut nb: Vec<V> = g.neighbors(v).collect();
            nb.sort();
            json!({"v": v, "deg": g.degree(v), "inc": inc, "nbrs": nb})
        })
        .collect();
    let top = g.vindex() + 2;
    let contains: Vec<V> = (0..top).filter(|&v| g.contains_vertex(v)).collect();
    let mut sf: Vec<(Value, Value)> = g.scalar_factors().map(|(e, s)| (expr_json(e), sc_json(s))).collect();
    sf.sort_by_key(|(c, _)| c.to_string());
    let sf: Vec<Value> = sf.into_iter().map(|(c, s)| json!({"cond": c, "sc": s})).collect();
    // point queries
    let mut conn = vec![];
    for &a in &vs {
        for &b in &vs {
            if g.connected(a, b) {
                conn.push(json!([a, b, ets(g.edge_type(a, b))]));
            }
        }
    }
    let mut vvec = g.vertex_vec();
    vvec.sort();
    let evec_len = g.edge_vec().len();
    // find_vertex / find_edge: the first match by a property (names, [] when none), and every vertex / edge looked up by itself
    let found_z: Vec<V> = g.find_vertex(|v| g.vertex_type(v) == VType::Z).into_iter().collect();
    let found_h: Vec<V> = g.find_edge(|_, _, t| t == EType::H).map(|(a, b, _)| vec![a.min(b), a.max(b)]).unwrap_or_default();
    let lost_v: Vec<V> = vs.iter().copied().filter(|&v| g.find_vertex(|x| x == v) != Some(v)).collect();
    let lost_e: Vec<Value> = es
        .iter()
        .filter(|&&(a, b, _)| match g.find_edge(|x, y, _| (x == a && y == b) || (x == b && y == a)) {
            Some((x, y, t)) => !((x.min(y), x.max(y)) == (a.min(b), a.max(b)) && ets(t) == es.iter().find(|e| (e.0, e.1) == (a, b)).unwrap().2),
            None => true,
        })
        .map(|&(a, b, _)| json!([a, b]))
        .collect();
    json!({"verts": verts, "edges": es, "adj": adj, "ins": g.inputs(), "outs": g.outputs(), "numv": g.num_vertices(),
           "nume": g.num_edges(), "vindex": g.vindex(), "sc": sc_json(g.scalar()), "sf": sf, "contains": contains, "conn": conn,
           "vvec": vvec, "evec_len": evec_len, "found_z": found_z, "found_h": found_h, "lost_v": lost_v, "lost_e": lost_e})
}

fn ph(k: i64) -> Phase {
    Phase::new(Rational64::new(k, 4))
}

/// apply one abstract operation (arguments are tags) to a backend; returns "ok"/"err"/"panic" and extra fields
fn apply<G: GraphLike>(g: &mut G, op: &Value, side: &mut Vec<G>) -> Value {
    let o = op["op"].as_str().unwrap();
    let t = |k: &str| op[k].as_i64().unwrap();
    let nm = |g: &G, k: &str| name_of(g, op[k].as_i64().unwrap()).expect("tag must be live");
    let r = guarded(|| -> Value {
        match o {
            "add_vertex" => {
                let v = g.add_vertex(ty_of(op["ty"].as_str().unwrap()));
                g.set_row(v, t("tag") as f64);
                json!({"res": "ok", "name": v})
            }
            "add_with_data" => {
                let v = g.add_vertex_with_data(VData {
                    ty: ty_of(op["ty"].as_str().unwrap()),
                    phase: ph(t("ph")),
                    vars: Parity::new(op["vars"].as_array().unwrap().iter().map(|x| x.as_u64().unwrap() as u32).collect::<Vec<u32>>(), false),
                    qubit: t("q") as f64,
                    row: t("tag") as f64,
                });
                json!({"res": "ok", "name": v})
            }
            "add_named" => {
                let d = VData { ty: VType::Z, row: t("tag") as f64, ..Default::default() };
                match g.add_named_vertex_with_data(t("name") as usize, d) {
                    Ok(()) => json!({"res": "ok", "name": t("name")}),
                    Err(_) => json!({"res": "err"}),
                }
            }
            "remove_vertex" => {
                let v = nm(g, "t");
                g.remove_vertex(v);
                json!({"res": "ok"})
            }
            "add_edge" => {
                let (a, b) = (nm(g, "s"), nm(g, "t"));
                g.add_edge_with_type(a, b, et_from(op["et"].as_str().unwrap()));
                json!({"res": "ok"})
            }
            "remove_edge" => {
                let (a, b) = (nm(g, "s"), nm(g, "t"));
                g.remove_edge(a, b);
                json!({"res": "ok"})
            }
            "set_edge_type" => {
                let (a, b) = (nm(g, "s"), nm(g, "t"));
                g.set_edge_type(a, b, et_from(op["et"].as_str().unwrap()));
                json!({"res": "ok"})
            }
            "toggle_edge_type" => {
                let (a, b) = (nm(g, "s"), nm(g, "t"));
                g.toggle_edge_type(a, b);
                json!({"res": "ok"})
            }
            "add_edge_smart" => {
                let (a, b) = (nm(g, "s"), nm(g, "t"));
                g.add_edge_smart(a, b, et_from(op["et"].as_str().unwrap()));
                json!({"res": "ok"})
            }
            "set_type" => {
                let v = nm(g, "t");
                g.set_vertex_type(v, ty_of(op["ty"].as_str().unwrap()));
                json!({"res": "ok"})
            }
            "set_phase" => {
                let v = nm(g, "t");
                g.set_phase(v, ph(t("ph")));
                json!({"res": "ok"})
            }
            "add_to_phase" => {
                let v = nm(g, "t");
                g.add_to_phase(v, ph(t("ph")));
                json!({"res": "ok"})
            }
            "set_vars" | "add_to_vars" => {
                let v = nm(g, "t");
                let p = Parity::new(op["vars"].as_array().unwrap().iter().map(|x| x.as_u64().unwrap() as u32).collect::<Vec<u32>>(), false);
                if o == "set_vars" {
                    g.set_vars(v, p);
                } else {
                    g.add_to_vars(v, &p);
                }
                json!({"res": "ok"})
            }
            "set_qubit" => {
                let v = nm(g, "t");
                g.set_qubit(v, t("q") as f64);
                json!({"res": "ok"})
            }
            "set_coord" => {
                let v = nm(g, "t");
                let row = g.row(v);
                g.set_coord(v, Coord::new(row, t("q") as f64));
                json!({"res": "ok"})
            }
            "set_inputs" | "set_outputs" => {
                let names: Vec<V> = op["ts"].as_array().unwrap().iter().map(|x| name_of(g, x.as_i64().unwrap()).unwrap()).collect();
                if o == "set_inputs" {
                    g.set_inputs(names);
                } else {
                    g.set_outputs(names);
                }
                json!({"res": "ok"})
            }
            "push_output" => {
                let v = nm(g, "t");
                g.outputs_mut().push(v);
                json!({"res": "ok"})
            }
            "mul_sqrt2" => {
                g.scalar_mut().mul_sqrt2_pow(t("p") as i32);
                json!({"res": "ok"})
            }
            "mul_phase" => {
                g.scalar_mut().mul_phase(ph(t("ph")));
                json!({"res": "ok"})
            }
            "mul_sf" => {
                let p = Parity::new(op["vars"].as_array().unwrap().iter().map(|x| x.as_u64().unwrap() as u32).collect::<Vec<u32>>(), false);
                g.mul_scalar_factor(Expr::linear(p), Scalar4::from_phase(ph(t("ph"))));
                json!({"res": "ok"})
            }
            "pack" => {
                g.pack(op["force"].as_bool().unwrap());
                json!({"res": "ok"})
            }
            "clone_aside" => {
                side.push(g.clone());
                json!({"res": "ok"})
            }
            "subgraph" => {
                let names: Vec<V> = op["ts"].as_array().unwrap().iter().map(|x| name_of(g, x.as_i64().unwrap()).unwrap()).collect();
                let s = g.subgraph_from_vertices(names);
                json!({"res": "ok", "sub": obs(&s)})
            }
            "append_self" => {
                // append a copy of the graph to itself; the copies get tags old + off
                let other = g.clone();
                let vmap = g.append_graph(&other);
                let off = t("off");
                let mut pairs: Vec<(i64, usize)> = vec![];
                for (old, new) in vmap.iter() {
                    pairs.push((tag_of(&other, *old), *new));
                }
                for (tg, new) in pairs {
                    g.set_row(new, (tg + off) as f64);
                }
                json!({"res": "ok", "mapped": vmap.len()})
            }
            _ => panic!("op {o}"),
        }
    });
    match r {
        Ok(v) => v,
        Err(m) => json!({"res": "panic", "msg": m}),
    }
}

struct Model {
    tags: Vec<i64>,
    edges: Vec<(i64, i64)>,
    ins: Vec<i64>,
    outs: Vec<i64>,
    next: i64,
    types: std::collections::HashMap<i64, &'static str>,
}

fn gen_op(r: &mut StdRng, m: &mut Model, max_live: usize, names_vec: &dyn Fn(usize) -> bool, names_hash: &dyn Fn(usize) -> bool, top: usize) -> Value {
    let pick = |r: &mut StdRng, v: &Vec<i64>| v[r.random_range(0..v.len())];
    for _ in 0..50 {
        let c = r.random_range(0..100);
        let live = m.tags.len();
        if c < 16 && live < max_live {
            let tag = m.next;
            m.next += 1;
            m.tags.push(tag);
            let ty = ["Z", "X", "B"][r.random_range(0..3)];
            m.types.insert(tag, ty);
            return if r.random_bool(0.5) {
                json!({"op": "add_vertex", "ty": ty, "tag": tag})
            } else {
                json!({"op": "add_with_data", "ty": ty, "ph": r.random_range(0..8), "vars": if r.random_bool(0.3) { vec![r.random_range(0..3u32)] } else { vec![] }, "q": r.random_range(0..5), "tag": tag})
            };
        }
        if c < 24 {
            // named insertion: a name with the same status in both backends (or beyond both ranges)
            let cands: Vec<usize> = (0..top + 4).filter(|&n| names_vec(n) == names_hash(n)).collect();
            if cands.is_empty() {
                continue;
            }
            let n = cands[r.random_range(0..cands.len())];
            let tag = m.next;
            m.next += 1;
            if !names_vec(n) && live < max_live + 2 {
                m.tags.push(tag);
                m.types.insert(tag, "Z");
            } else if !names_vec(n) {
                m.next -= 1;
                continue;
            }
            return json!({"op": "add_named", "name": n, "tag": tag});
        }
        if c < 36 && live > 0 {
            let cands: Vec<i64> = m.tags.iter().copied().filter(|t| !m.ins.contains(t) && !m.outs.contains(t)).collect();
            if cands.is_empty() {
                continue;
            }
            let t = pick(r, &cands);
            m.tags.retain(|x| *x != t);
            m.edges.retain(|&(a, b)| a != t && b != t);
            return json!({"op": "remove_vertex", "t": t});
        }
        if c < 52 && live >= 2 {
            let (a, b) = (pick(r, &m.tags), pick(r, &m.tags));
            if a == b || m.edges.contains(&(a.min(b), a.max(b))) {
                continue;
            }
            m.edges.push((a.min(b), a.max(b)));
            return json!({"op": "add_edge", "s": a, "t": b, "et": if r.random_bool(0.5) { "N" } else { "H" }});
        }
        if c < 60 && !m.edges.is_empty() {
            let i = r.random_range(0..m.edges.len());
            let (a, b) = m.edges.swap_remove(i);
            let (a, b) = if r.random_bool(0.5) { (a, b) } else { (b, a) };
            return json!({"op": "remove_edge", "s": a, "t": b});
        }
        if c < 66 && !m.edges.is_empty() {
            let (a, b) = m.edges[r.random_range(0..m.edges.len())];
            let (a, b) = if r.random_bool(0.5) { (a, b) } else { (b, a) };
            return if r.random_bool(0.5) {
                json!({"op": "set_edge_type", "s": a, "t": b, "et": if r.random_bool(0.5) { "N" } else { "H" }})
            } else {
                json!({"op": "toggle_edge_type", "s": a, "t": b})
            };
        }
        if c < 72 && live >= 2 {
            // smart insertion between spiders (Z/X): parallel edges and self-loops resolve with scalar corrections
            let sp: Vec<i64> = m.tags.iter().copied().filter(|t| m.types[t] != "B").collect();
            if sp.is_empty() {
                continue;
            }
            let (a, b) = (pick(r, &sp), pick(r, &sp));
            // the model cannot know whether the edge survives: resynchronised from the observation by the caller
            return json!({"op": "add_edge_smart", "s": a, "t": b, "et": if r.random_bool(0.5) { "N" } else { "H" }});
        }
        if c < 80 && live > 0 {
            let t = pick(r, &m.tags);
            return match r.random_range(0..6) {
                0 => {
                    let ty = ["Z", "X", "B"][r.random_range(0..3)];
                    m.types.insert(t, ty);
                    json!({"op": "set_type", "t": t, "ty": ty})
                }
                1 => json!({"op": "set_phase", "t": t, "ph": r.random_range(0..8)}),
                2 => json!({"op": "add_to_phase", "t": t, "ph": r.random_range(0..8)}),
                3 => json!({"op": "set_vars", "t": t, "vars": [r.random_range(0..3)]}),
                4 => json!({"op": "add_to_vars", "t": t, "vars": [r.random_range(0..3)]}),
                _ => json!({"op": if r.random_bool(0.5) { "set_qubit" } else { "set_coord" }, "t": t, "q": r.random_range(0..9)}),
            };
        }
        if c < 86 && live > 0 {
            let n = r.random_range(0..=live.min(3));
            let mut ts = m.tags.clone();
            for i in (1..ts.len()).rev() {
                ts.swap(i, r.random_range(0..=i));
            }
            ts.truncate(n);
            return if r.random_bool(0.5) {
                m.ins = ts.clone();
                json!({"op": "set_inputs", "ts": ts})
            } else {
                m.outs = ts.clone();
                json!({"op": "set_outputs", "ts": ts})
            };
        }
        if c < 90 {
            return match r.random_range(0..3) {
                0 => json!({"op": "mul_sqrt2", "p": r.random_range(-3..4)}),
                1 => json!({"op": "mul_phase", "ph": r.random_range(0..8)}),
                _ => json!({"op": "mul_sf", "vars": [r.random_range(0..3)], "ph": r.random_range(1..8)}),
            };
        }
        if c < 96 {
            return json!({"op": "pack", "force": r.random_bool(0.6)});
        }
        if c < 98 && live > 0 {
            let mut ts = m.tags.clone();
            ts.retain(|_| r.random_bool(0.6));
            return json!({"op": "subgraph", "ts": ts});
        }
        if c < 99 {
            return json!({"op": "clone_aside"});
        }
        if live > 0 && live <= 4 && m.next < 900 {
            let off = 1000 * (1 + m.next / 1000);
            let extra: Vec<i64> = m.tags.iter().map(|t| t + off).collect();
            let extra_e: Vec<(i64, i64)> = m.edges.iter().map(|&(a, b)| (a + off, b + off)).collect();
            for t in &extra {
                let ty = m.types[&(t - off)];
                m.types.insert(*t, ty);
            }
            m.tags.extend(extra);
            m.edges.extend(extra_e);
            m.next = off + 1000;
            return json!({"op": "append_self", "off": off});
        }
    }
    json!({"op": "mul_sqrt2", "p": 0})
}

pub fn record(args: &[String], seed: u64, tr: &mut Tr) -> Value {
    let histories: usize = arg_num(args, "--histories", 20);
    let len: usize = arg_num(args, "--len", 60);
    let max_live: usize = arg_num(args, "--maxlive", 7);
    let mut r = crate::gens::rng(seed);
    let mut nops = 0usize;
    for _ in 0..histories {
        let mut gv = quizx::vec_graph::Graph::new();
        let mut gh = quizx::hash_graph::Graph::new();
        let mut side_v: Vec<quizx::vec_graph::Graph> = vec![];
        let mut side_h: Vec<quizx::hash_graph::Graph> = vec![];
        let mut m = Model { tags: vec![], edges: vec![], ins: vec![], outs: vec![], next: 1, types: Default::default() };
        tr.group();
        tr.emit(json!({"k": "begin"}));
        let n = r.random_range(len / 2..=len);
        for _ in 0..n {
            let top = gv.vindex().max(gh.vindex());
            let (cv, ch) = (gv.clone(), gh.clone());
            let op = gen_op(&mut r, &mut m, max_live, &|x| cv.contains_vertex(x), &|x| ch.contains_vertex(x), top);
            let rv = apply(&mut gv, &op, &mut side_v);
            let rh = apply(&mut gh, &op, &mut side_h);
            nops += 1;
            let (ov, oh) = (guarded(|| obs(&gv)), guarded(|| obs(&gh)));
            let mut e = json!({"k": "op", "op": op, "rv": rv, "rh": rh});
            match (ov, oh) {
                (Ok(a), Ok(b)) => {
                    // resynchronise the generator's edge list (smart insertion may delete or keep edges)
                    m.edges = a["conn"].as_array().unwrap().iter().filter_map(|c| {
                        let nm2tag = |n: u64| a["verts"].as_array().unwrap().iter().find(|v| v["name"].as_u64() == Some(n)).unwrap()["tag"].as_i64().unwrap();
                        let (x, y) = (nm2tag(c[0].as_u64().unwrap()), nm2tag(c[1].as_u64().unwrap()));
                        if x < y { Some((x, y)) } else { None }
                    }).collect();
                    e["ov"] = a;
                    e["oh"] = b;
                    tr.emit(e);
                }
                _ => {
                    e["obs_panic"] = json!(true);
                    tr.emit(e);
                    break;
                }
            }
            if rv["res"] == "panic" || rh["res"] == "panic" {
                break;
            }
        }
        // clones taken aside must be untouched by everything that happened afterwards: logged for TLC
        for (i, (a, b)) in side_v.iter().zip(side_h.iter()).enumerate() {
            tr.emit(json!({"k": "aside", "i": i + 1, "ov": obs(a), "oh": obs(b)}));
        }
    }
    json!({"histories": histories, "ops": nops})
}
