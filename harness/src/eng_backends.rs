//! C09: seeded random editing histories run against BOTH graph backends; after every
//! operation the full observable state of each is logged.  Vertex identity across backends
//! is a unique tag stored in the `row` coordinate (names differ: the vector backend reuses
//! freed names, the hash backend never does).  TLC (mc/Trace_Backends) checks the internal
//! invariants on each logged observable and that both equal the abstract model in tag space.

//!
//! `--ext` (opt-in, the default histories are unchanged): additionally every remaining query of the
//! public interface is logged after every operation (`x` inside the observable: vertex_data_opt,
//! vertex_type_opt, edge_type_opt on ALL name pairs incl. dead names, coord, phase, vars, phase_and_vars,
//! neighbor_vec, incident_edge_vec, component_vertices, depth, adjacency_matrix(None / Some),
//! get_scalar_factor for enumerated and absent conditions, vec_graph::Graph::neighbor_at), histories start
//! from `Graph::default()` every other time, and the generator mixes in: boundary construction through
//! add_edge / inputs_mut / outputs_mut, add_vertex_with_phase, adjoint, x_to_z, plug_vertex,
//! plug_input(s) / plug_output(s), make_bipartite, copy(adjoint), append_graph and plug with `other` of
//! the OTHER backend type, and the Parity / Expr constructors and operators of params.rs (C10) as
//! arguments of set_vars / add_to_vars / mul_scalar_factor plus the pure operation `par_alg`.

use crate::absg::{build, et_from, expr_json, parity_json, phase_json, sc_json};
use crate::util::{arg_flag, arg_num, guarded, Tr};
use num::Zero;
use num::Rational64;
use quizx::graph::*;
use quizx::params::{Expr, Parity};
use quizx::phase::Phase;
use quizx::scalar::{FromPhase, Scalar4};
use rand::rngs::StdRng;
use rand::Rng;
use serde_json::{json, Value};

fn ty_of(s: &str) -> VType {
    match s {
        "B" => VType::B,
        "X" => VType::X,
        _ => VType::Z,
    }
}
fn ty_s(t: VType) -> &'static str {
    match t {
        VType::B => "B",
        VType::Z => "Z",
        VType::X => "X",
        _ => "other",
    }
}
fn ets(t: EType) -> &'static str {
    match t {
        EType::N => "N",
        EType::H => "H",
        _ => "W",
    }
}

fn tag_of(g: &impl GraphLike, v: V) -> i64 {
    g.row(v) as i64
}
fn name_of(g: &impl GraphLike, tag: i64) -> Option<V> {
    g.vertices().find(|&v| tag_of(g, v) == tag)
}

/// everything the public interface shows, enumeration order removed by sorting, multiplicity kept
pub fn obs(g: &impl GraphLike) -> Value {
    let mut vs: Vec<V> = g.vertices().collect();
    vs.sort();
    let verts: Vec<Value> = vs
        .iter()
        .map(|&v| {
            let d = g.vertex_data(v);
            let (vars, vc) = parity_json(&d.vars);
            json!({"name": v, "tag": tag_of(g, v), "ty": ty_s(d.ty), "ph": phase_json(d.phase), "vars": vars, "vc": vc, "q": d.qubit as i64})
        })
        .collect();
    let mut es: Vec<(V, V, &str)> = g.edges().map(|(a, b, t)| (a, b, ets(t))).collect();
    es.sort();
    let adj: Vec<Value> = vs
        .iter()
        .map(|&v| {
            let mut inc: Vec<(V, &str)> = g.incident_edges(v).map(|(u, t)| (u, ets(t))).collect();
            inc.sort();
            let mut nb: Vec<V> = g.neighbors(v).collect();
            nb.sort();
            json!({"v": v, "deg": g.degree(v), "inc": inc, "nbrs": nb})
        })
        .collect();
    let top = g.vindex() + 2;
    let contains: Vec<V> = (0..top).filter(|&v| g.contains_vertex(v)).collect();
    let mut sf: Vec<(Value, Value)> = g.scalar_factors().map(|(e, s)| (expr_json(e), sc_json(s))).collect();
    sf.sort_by_key(|(c, _)| c.to_string());
    let sf: Vec<Value> = sf.into_iter().map(|(c, s)| json!({"cond": c, "sc": s})).collect();
    // point queries
    let mut conn = vec![];
    for &a in &vs {
        for &b in &vs {
            if g.connected(a, b) {
                conn.push(json!([a, b, ets(g.edge_type(a, b))]));
            }
        }
    }
    let mut vvec = g.vertex_vec();
    vvec.sort();
    let evec_len = g.edge_vec().len();
    // find_vertex / find_edge: the first match by a property (names, [] when none), and every vertex / edge looked up by itself
    let found_z: Vec<V> = g.find_vertex(|v| g.vertex_type(v) == VType::Z).into_iter().collect();
    let found_h: Vec<V> = g.find_edge(|_, _, t| t == EType::H).map(|(a, b, _)| vec![a.min(b), a.max(b)]).unwrap_or_default();
    let lost_v: Vec<V> = vs.iter().copied().filter(|&v| g.find_vertex(|x| x == v) != Some(v)).collect();
    let lost_e: Vec<Value> = es
        .iter()
        .filter(|&&(a, b, _)| match g.find_edge(|x, y, _| (x == a && y == b) || (x == b && y == a)) {
            Some((x, y, t)) => !((x.min(y), x.max(y)) == (a.min(b), a.max(b)) && ets(t) == es.iter().find(|e| (e.0, e.1) == (a, b)).unwrap().2),
            None => true,
        })
        .map(|&(a, b, _)| json!([a, b]))
        .collect();
    json!({"verts": verts, "edges": es, "adj": adj, "ins": g.inputs(), "outs": g.outputs(), "numv": g.num_vertices(),
           "nume": g.num_edges(), "vindex": g.vindex(), "sc": sc_json(g.scalar()), "sf": sf, "contains": contains, "conn": conn,
           "vvec": vvec, "evec_len": evec_len, "found_z": found_z, "found_h": found_h, "lost_v": lost_v, "lost_e": lost_e})
}

fn vrec(name: V, tag: i64, ty: &str, ph: Phase, vars: &Parity, q: i64) -> Value {
    let (vars, vc) = parity_json(vars);
    json!({"name": name, "tag": tag, "ty": ty, "ph": phase_json(ph), "vars": vars, "vc": vc, "q": q})
}

/// the conditions get_scalar_factor is probed with besides the enumerated ones (present or not)
fn sf_probes() -> Vec<Expr> {
    let s = Parity::single;
    let mut out: Vec<Expr> = (0..4).map(|v| Expr::linear(s(v))).collect();
    out.push(Expr::linear(Parity::one()));
    out.push(Expr::linear(s(0).negated()));
    out.push(Expr::linear(Parity::new(vec![0u32, 1], false)));
    out.push(Expr::quadratic(s(0), s(1)));
    out.push(Expr::quadratic(s(1), s(2)));
    out.push(Expr::quadratic(s(0).negated(), s(2)));
    out
}

fn gsf_json(g: &impl GraphLike, e: &Expr) -> Value {
    match g.get_scalar_factor(e) {
        Some(s) => json!({"cond": expr_json(e), "has": true, "sc": sc_json(&s)}),
        None => json!({"cond": expr_json(e), "has": false, "sc": [0, 0, 0, 0, 0]}),
    }
}

/// --ext: the queries obs() does not make, each answered by the accessor named in the comment
pub fn obs_x(g: &impl GraphLike) -> Value {
    let mut vs: Vec<V> = g.vertices().collect();
    vs.sort();
    let top = g.vindex() + 2;
    // vertex_type_opt, phase, vars, coord
    let verts2: Vec<Value> = vs
        .iter()
        .map(|&v| {
            let c = g.coord(v);
            vrec(v, c.x as i64, g.vertex_type_opt(v).map(ty_s).unwrap_or("-"), g.phase(v), &g.vars(v), c.y as i64)
        })
        .collect();
    // vertex_data_opt on live names
    let verts3: Vec<Value> = vs
        .iter()
        .filter_map(|&v| g.vertex_data_opt(v).map(|d| vrec(v, d.row as i64, ty_s(d.ty), d.phase, &d.vars, d.qubit as i64)))
        .collect();
    // phase_and_vars
    let pv: Vec<Value> = vs
        .iter()
        .map(|&v| {
            let (p, par) = g.phase_and_vars(v);
            let (vars, vc) = parity_json(&par);
            json!({"name": v, "ph": phase_json(p), "vars": vars, "vc": vc})
        })
        .collect();
    // vertex_data_opt / vertex_type_opt / edge_type_opt on every name up to beyond the index range (dead names included)
    let vdo: Vec<V> = (0..top).filter(|&v| g.vertex_data_opt(v).is_some()).collect();
    let vto: Vec<V> = (0..top).filter(|&v| g.vertex_type_opt(v).is_some()).collect();
    let mut eto = vec![];
    for a in 0..top {
        for b in 0..top {
            if let Some(t) = g.edge_type_opt(a, b) {
                eto.push(json!([a, b, ets(t)]));
            }
        }
    }
    // neighbor_vec / incident_edge_vec
    let nb: Vec<Value> = vs
        .iter()
        .map(|&v| {
            let mut n = g.neighbor_vec(v);
            n.sort();
            let mut i: Vec<(V, &str)> = g.incident_edge_vec(v).into_iter().map(|(u, t)| (u, ets(t))).collect();
            i.sort();
            json!({"v": v, "nbv": n, "iev": i})
        })
        .collect();
    // component_vertices
    let mut comps: Vec<Vec<V>> = g
        .component_vertices()
        .into_iter()
        .map(|c| {
            let mut c: Vec<V> = c.into_iter().collect();
            c.sort();
            c
        })
        .collect();
    comps.sort();
    // adjacency_matrix(None): rows and columns follow vertices(); adjacency_matrix(Some(list)): a reversed sub-list
    let bits = |m: &bitgauss::BitMatrix| -> Vec<Value> {
        let mut out = vec![];
        for i in 0..m.rows() {
            for j in 0..m.cols() {
                if m.bit(i, j) {
                    out.push(json!([i, j]));
                }
            }
        }
        out
    };
    let order: Vec<V> = g.vertices().collect();
    let m0 = g.adjacency_matrix(None);
    let list: Vec<V> = vs.iter().rev().enumerate().filter(|(i, _)| i % 3 != 2).map(|(_, &v)| v).collect();
    let m1 = g.adjacency_matrix(Some(&list));
    // get_scalar_factor: every enumerated condition and a fixed set of probes
    let mut gsf: Vec<Value> = g.scalar_factors().map(|(e, _)| gsf_json(g, e)).collect();
    gsf.sort_by_key(|x| x["cond"].to_string());
    let probes: Vec<Value> = sf_probes().iter().map(|e| gsf_json(g, e)).collect();
    json!({"verts2": verts2, "verts3": verts3, "pv": pv, "vdo": vdo, "vto": vto, "eto": eto, "nb": nb, "comps": comps,
           "depth": g.depth() as i64,
           "am": {"rows": m0.rows(), "cols": m0.cols(), "order": order, "bits": bits(&m0)},
           "ams": {"rows": m1.rows(), "cols": m1.cols(), "list": list, "bits": bits(&m1)},
           "gsf": gsf, "probes": probes})
}

/// vec_graph::Graph::neighbor_at(v, n) for every live v and n < degree(v) (the vector backend's indexed iteration)
fn neighbor_at_json(g: &quizx::vec_graph::Graph) -> Value {
    let mut vs: Vec<V> = g.vertices().collect();
    vs.sort();
    Value::Array(vs.iter().map(|&v| json!((0..g.degree(v)).map(|n| g.neighbor_at(v, n)).collect::<Vec<V>>())).collect())
}

fn basis(s: &str) -> BasisElem {
    match s {
        "Z0" => BasisElem::Z0,
        "Z1" => BasisElem::Z1,
        "X0" => BasisElem::X0,
        "X1" => BasisElem::X1,
        _ => BasisElem::SKIP,
    }
}

fn u32s(v: &Value) -> Vec<u32> {
    v.as_array().unwrap().iter().map(|x| x.as_u64().unwrap() as u32).collect()
}

/// a Parity built the way the description says (C10: every constructor and operator of params.rs)
fn mk_par(pc: &Value) -> Parity {
    match pc["how"].as_str().unwrap() {
        "new" => Parity::new(u32s(&pc["vars"]), pc["c"].as_bool().unwrap()),
        "from_vec" => Parity::from(u32s(&pc["vars"])),
        "single" => Parity::single(pc["v"].as_u64().unwrap() as u32),
        "one" => Parity::one(),
        "zero" => Parity::zero(),
        "neg" => mk_par(&pc["of"]).negated(),
        "sum" => &mk_par(&pc["a"]) + &mk_par(&pc["b"]),
        "sum_owned" => mk_par(&pc["a"]) + mk_par(&pc["b"]),
        h => panic!("parity constructor {h}"),
    }
}

fn par_json(p: &Parity) -> Value {
    let (v, c) = parity_json(p);
    json!({"vars": v, "c": c})
}

/// the pure Parity / Expr interface on two caller-chosen operands; everything TLC needs to judge it
fn par_alg(op: &Value) -> Value {
    let (a, b) = (mk_par(&op["a"]), mk_par(&op["b"]));
    let sum_ref = &a + &b;
    let sum_own = a.clone() + b.clone();
    let idx: Vec<u32> = (0..a.len()).map(|i| a[i]).collect();
    let lin = Expr::linear(a.clone());
    let quad = Expr::quadratic(a.clone(), b.clone());
    let qidx: Vec<Value> = (0..quad.len()).map(|i| par_json(&quad[i])).collect();
    json!({"res": "ok", "a": par_json(&a), "b": par_json(&b), "sum_ref": par_json(&sum_ref), "sum_own": par_json(&sum_own),
           "neg": par_json(&a.negated()), "len": a.len(), "empty": a.is_empty(), "is_one": a.is_one(), "is_zero": a.is_zero(),
           "idx": idx, "lin": expr_json(&lin), "lin_len": lin.len(), "lin_is_linear": lin.is_linear(), "lin_empty": lin.is_empty(),
           "quad": expr_json(&quad), "quad_len": quad.len(), "quad_is_linear": quad.is_linear(), "quad_idx": qidx})
}

fn ph(k: i64) -> Phase {
    Phase::new(Rational64::new(k, 4))
}

/// apply one abstract operation (arguments are tags) to a backend; returns "ok"/"err"/"panic" and extra fields
fn apply<G: GraphLike, O: GraphLike>(g: &mut G, op: &Value, side: &mut Vec<G>, other: &O) -> Value {
    let o = op["op"].as_str().unwrap();
    let t = |k: &str| op[k].as_i64().unwrap();
    let nm = |g: &G, k: &str| name_of(g, op[k].as_i64().unwrap()).expect("tag must be live");
    let r = guarded(|| -> Value {
        match o {
            "add_vertex" => {
                let v = g.add_vertex(ty_of(op["ty"].as_str().unwrap()));
                g.set_row(v, t("tag") as f64);
                json!({"res": "ok", "name": v})
            }
            "add_with_data" => {
                let v = g.add_vertex_with_data(VData {
                    ty: ty_of(op["ty"].as_str().unwrap()),
                    phase: ph(t("ph")),
                    vars: Parity::new(op["vars"].as_array().unwrap().iter().map(|x| x.as_u64().unwrap() as u32).collect::<Vec<u32>>(), false),
                    qubit: t("q") as f64,
                    row: t("tag") as f64,
                });
                json!({"res": "ok", "name": v})
            }
            "add_named" => {
                let d = VData { ty: VType::Z, row: t("tag") as f64, ..Default::default() };
                match g.add_named_vertex_with_data(t("name") as usize, d) {
                    Ok(()) => json!({"res": "ok", "name": t("name")}),
                    Err(_) => json!({"res": "err"}),
                }
            }
            "remove_vertex" => {
                let v = nm(g, "t");
                g.remove_vertex(v);
                json!({"res": "ok"})
            }
            "add_edge" => {
                let (a, b) = (nm(g, "s"), nm(g, "t"));
                g.add_edge_with_type(a, b, et_from(op["et"].as_str().unwrap()));
                json!({"res": "ok"})
            }
            "remove_edge" => {
                let (a, b) = (nm(g, "s"), nm(g, "t"));
                g.remove_edge(a, b);
                json!({"res": "ok"})
            }
            "set_edge_type" => {
                let (a, b) = (nm(g, "s"), nm(g, "t"));
                g.set_edge_type(a, b, et_from(op["et"].as_str().unwrap()));
                json!({"res": "ok"})
            }
            "toggle_edge_type" => {
                let (a, b) = (nm(g, "s"), nm(g, "t"));
                g.toggle_edge_type(a, b);
                json!({"res": "ok"})
            }
            "add_edge_smart" => {
                let (a, b) = (nm(g, "s"), nm(g, "t"));
                g.add_edge_smart(a, b, et_from(op["et"].as_str().unwrap()));
                json!({"res": "ok"})
            }
            "set_type" => {
                let v = nm(g, "t");
                g.set_vertex_type(v, ty_of(op["ty"].as_str().unwrap()));
                json!({"res": "ok"})
            }
            "set_phase" => {
                let v = nm(g, "t");
                g.set_phase(v, ph(t("ph")));
                json!({"res": "ok"})
            }
            "add_to_phase" => {
                let v = nm(g, "t");
                g.add_to_phase(v, ph(t("ph")));
                json!({"res": "ok"})
            }
            "set_vars" | "add_to_vars" => {
                let v = nm(g, "t");
                let p = if op.get("pc").is_some() { mk_par(&op["pc"]) } else { Parity::new(u32s(&op["vars"]), false) };
                if o == "set_vars" {
                    g.set_vars(v, p);
                } else {
                    g.add_to_vars(v, &p);
                }
                json!({"res": "ok"})
            }
            "set_qubit" => {
                let v = nm(g, "t");
                g.set_qubit(v, t("q") as f64);
                json!({"res": "ok"})
            }
            "set_coord" => {
                let v = nm(g, "t");
                let row = g.row(v);
                g.set_coord(v, Coord::new(row, t("q") as f64));
                json!({"res": "ok"})
            }
            "set_inputs" | "set_outputs" => {
                let names: Vec<V> = op["ts"].as_array().unwrap().iter().map(|x| name_of(g, x.as_i64().unwrap()).unwrap()).collect();
                if o == "set_inputs" {
                    g.set_inputs(names);
                } else {
                    g.set_outputs(names);
                }
                json!({"res": "ok"})
            }
            "push_output" => {
                let v = nm(g, "t");
                g.outputs_mut().push(v);
                json!({"res": "ok"})
            }
            "mul_sqrt2" => {
                g.scalar_mut().mul_sqrt2_pow(t("p") as i32);
                json!({"res": "ok"})
            }
            "mul_phase" => {
                g.scalar_mut().mul_phase(ph(t("ph")));
                json!({"res": "ok"})
            }
            "mul_sf" => {
                if op.get("pc").is_some() {
                    // --ext: the condition is built with the described constructors, linear or quadratic; the stored factor is read back
                    let e = if op.get("pc2").is_some() { Expr::quadratic(mk_par(&op["pc"]), mk_par(&op["pc2"])) } else { Expr::linear(mk_par(&op["pc"])) };
                    g.mul_scalar_factor(e.clone(), Scalar4::from_phase(ph(t("ph"))));
                    json!({"res": "ok", "gsf": gsf_json(g, &e)})
                } else {
                    let p = Parity::new(u32s(&op["vars"]), false);
                    g.mul_scalar_factor(Expr::linear(p), Scalar4::from_phase(ph(t("ph"))));
                    json!({"res": "ok"})
                }
            }
            "pack" => {
                g.pack(op["force"].as_bool().unwrap());
                json!({"res": "ok"})
            }
            "clone_aside" => {
                side.push(g.clone());
                json!({"res": "ok"})
            }
            "subgraph" => {
                let names: Vec<V> = op["ts"].as_array().unwrap().iter().map(|x| name_of(g, x.as_i64().unwrap()).unwrap()).collect();
                let s = g.subgraph_from_vertices(names);
                json!({"res": "ok", "sub": obs(&s)})
            }
            "append_self" => {
                // append a copy of the graph to itself; the copies get tags old + off
                let other = g.clone();
                let vmap = g.append_graph(&other);
                let off = t("off");
                let mut pairs: Vec<(i64, usize)> = vec![];
                for (old, new) in vmap.iter() {
                    pairs.push((tag_of(&other, *old), *new));
                }
                for (tg, new) in pairs {
                    g.set_row(new, (tg + off) as f64);
                }
                json!({"res": "ok", "mapped": vmap.len()})
            }
            // ---------------- --ext operations ----------------
            "init" => json!({"res": "ok"}),
            "par_alg" => par_alg(op),
            "add_bnd" => {
                // a boundary wired to `s` and registered through inputs_mut / outputs_mut; plain wires go through add_edge
                let s = nm(g, "s");
                let b = g.add_vertex(VType::B);
                g.set_row(b, t("tag") as f64);
                if op["et"] == "N" {
                    g.add_edge(b, s);
                } else {
                    g.add_edge_with_type(b, s, EType::H);
                }
                if op["side"] == "in" {
                    g.inputs_mut().push(b);
                } else {
                    g.outputs_mut().push(b);
                }
                json!({"res": "ok", "name": b})
            }
            "add_vph" => {
                let v = g.add_vertex_with_phase(ty_of(op["ty"].as_str().unwrap()), ph(t("ph")));
                g.set_row(v, t("tag") as f64);
                json!({"res": "ok", "name": v})
            }
            "push_input" => {
                let v = nm(g, "t");
                g.inputs_mut().push(v);
                json!({"res": "ok"})
            }
            "bnd_remove" => {
                let i = t("i") as usize;
                if op["side"] == "in" {
                    g.inputs_mut().remove(i);
                } else {
                    g.outputs_mut().remove(i);
                }
                json!({"res": "ok"})
            }
            "adjoint" => {
                g.adjoint();
                json!({"res": "ok"})
            }
            "x_to_z" => {
                g.x_to_z();
                json!({"res": "ok"})
            }
            "plug_vertex" => {
                let v = nm(g, "t");
                g.plug_vertex(v, basis(op["b"].as_str().unwrap()));
                json!({"res": "ok"})
            }
            "plug_output" => {
                g.plug_output(t("i") as usize, basis(op["b"].as_str().unwrap()));
                json!({"res": "ok"})
            }
            "plug_input" => {
                g.plug_input(t("i") as usize, basis(op["b"].as_str().unwrap()));
                json!({"res": "ok"})
            }
            "plug_outputs" | "plug_inputs" => {
                let l: Vec<BasisElem> = op["list"].as_array().unwrap().iter().map(|x| basis(x.as_str().unwrap())).collect();
                if o == "plug_outputs" {
                    g.plug_outputs(&l);
                } else {
                    g.plug_inputs(&l);
                }
                json!({"res": "ok"})
            }
            "make_bipartite" => {
                // the new spiders get averaged coordinates: re-tag each by the pair of old vertices it was put between
                let pairs: Vec<(V, V, i64)> = op["newtags"]
                    .as_array()
                    .unwrap()
                    .iter()
                    .map(|x| (name_of(g, x[0].as_i64().unwrap()).unwrap(), name_of(g, x[1].as_i64().unwrap()).unwrap(), x[2].as_i64().unwrap()))
                    .collect();
                let before: std::collections::HashSet<V> = g.vertices().collect();
                g.make_bipartite();
                for (a, b, tag) in pairs {
                    let w = g
                        .vertices()
                        .find(|w| !before.contains(w) && g.connected(*w, a) && g.connected(*w, b))
                        .expect("no new vertex between a same-coloured pair");
                    g.set_row(w, tag as f64);
                }
                json!({"res": "ok"})
            }
            "copy" => {
                let c = g.copy(op["adj"].as_bool().unwrap());
                json!({"res": "ok", "sub": obs(&c)})
            }
            "append_x" => {
                // append the OTHER backend's graph (same graph in tag space); the copies get tags old + off
                let vmap = g.append_graph(other);
                let off = t("off");
                let pairs: Vec<(i64, usize)> = vmap.iter().map(|(old, new)| (tag_of(other, *old), *new)).collect();
                for (tg, new) in pairs {
                    g.set_row(new, (tg + off) as f64);
                }
                json!({"res": "ok", "mapped": vmap.len()})
            }
            "plug_x" => {
                // plug a small diagram held by the OTHER backend type; its rows already carry the fresh tags
                let h: O = build(&op["other"]);
                g.plug(&h);
                json!({"res": "ok"})
            }
            _ => panic!("op {o}"),
        }
    });
    match r {
        Ok(v) => v,
        Err(m) => json!({"res": "panic", "msg": m}),
    }
}

#[derive(Clone)]
struct Model {
    tags: Vec<i64>,
    edges: Vec<(i64, i64)>,
    ins: Vec<i64>,
    outs: Vec<i64>,
    next: i64,
    types: std::collections::HashMap<i64, &'static str>,
}

fn gen_op(r: &mut StdRng, m: &mut Model, max_live: usize, names_vec: &dyn Fn(usize) -> bool, names_hash: &dyn Fn(usize) -> bool, top: usize) -> Value {
    let pick = |r: &mut StdRng, v: &Vec<i64>| v[r.random_range(0..v.len())];
    for _ in 0..50 {
        let c = r.random_range(0..100);
        let live = m.tags.len();
        if c < 16 && live < max_live {
            let tag = m.next;
            m.next += 1;
            m.tags.push(tag);
            let ty = ["Z", "X", "B"][r.random_range(0..3)];
            m.types.insert(tag, ty);
            return if r.random_bool(0.5) {
                json!({"op": "add_vertex", "ty": ty, "tag": tag})
            } else {
                json!({"op": "add_with_data", "ty": ty, "ph": r.random_range(0..8), "vars": if r.random_bool(0.3) { vec![r.random_range(0..3u32)] } else { vec![] }, "q": r.random_range(0..5), "tag": tag})
            };
        }
        if c < 24 {
            // named insertion: a name with the same status in both backends (or beyond both ranges)
            let cands: Vec<usize> = (0..top + 4).filter(|&n| names_vec(n) == names_hash(n)).collect();
            if cands.is_empty() {
                continue;
            }
            let n = cands[r.random_range(0..cands.len())];
            let tag = m.next;
            m.next += 1;
            if !names_vec(n) && live < max_live + 2 {
                m.tags.push(tag);
                m.types.insert(tag, "Z");
            } else if !names_vec(n) {
                m.next -= 1;
                continue;
            }
            return json!({"op": "add_named", "name": n, "tag": tag});
        }
        if c < 36 && live > 0 {
            let cands: Vec<i64> = m.tags.iter().copied().filter(|t| !m.ins.contains(t) && !m.outs.contains(t)).collect();
            if cands.is_empty() {
                continue;
            }
            let t = pick(r, &cands);
            m.tags.retain(|x| *x != t);
            m.edges.retain(|&(a, b)| a != t && b != t);
            return json!({"op": "remove_vertex", "t": t});
        }
        if c < 52 && live >= 2 {
            let (a, b) = (pick(r, &m.tags), pick(r, &m.tags));
            if a == b || m.edges.contains(&(a.min(b), a.max(b))) {
                continue;
            }
            m.edges.push((a.min(b), a.max(b)));
            return json!({"op": "add_edge", "s": a, "t": b, "et": if r.random_bool(0.5) { "N" } else { "H" }});
        }
        if c < 60 && !m.edges.is_empty() {
            let i = r.random_range(0..m.edges.len());
            let (a, b) = m.edges.swap_remove(i);
            let (a, b) = if r.random_bool(0.5) { (a, b) } else { (b, a) };
            return json!({"op": "remove_edge", "s": a, "t": b});
        }
        if c < 66 && !m.edges.is_empty() {
            let (a, b) = m.edges[r.random_range(0..m.edges.len())];
            let (a, b) = if r.random_bool(0.5) { (a, b) } else { (b, a) };
            return if r.random_bool(0.5) {
                json!({"op": "set_edge_type", "s": a, "t": b, "et": if r.random_bool(0.5) { "N" } else { "H" }})
            } else {
                json!({"op": "toggle_edge_type", "s": a, "t": b})
            };
        }
        if c < 72 && live >= 2 {
            // smart insertion between spiders (Z/X): parallel edges and self-loops resolve with scalar corrections
            let sp: Vec<i64> = m.tags.iter().copied().filter(|t| m.types[t] != "B").collect();
            if sp.is_empty() {
                continue;
            }
            let (a, b) = (pick(r, &sp), pick(r, &sp));
            // the model cannot know whether the edge survives: resynchronised from the observation by the caller
            return json!({"op": "add_edge_smart", "s": a, "t": b, "et": if r.random_bool(0.5) { "N" } else { "H" }});
        }
        if c < 80 && live > 0 {
            let t = pick(r, &m.tags);
            return match r.random_range(0..6) {
                0 => {
                    let ty = ["Z", "X", "B"][r.random_range(0..3)];
                    m.types.insert(t, ty);
                    json!({"op": "set_type", "t": t, "ty": ty})
                }
                1 => json!({"op": "set_phase", "t": t, "ph": r.random_range(0..8)}),
                2 => json!({"op": "add_to_phase", "t": t, "ph": r.random_range(0..8)}),
                3 => json!({"op": "set_vars", "t": t, "vars": [r.random_range(0..3)]}),
                4 => json!({"op": "add_to_vars", "t": t, "vars": [r.random_range(0..3)]}),
                _ => json!({"op": if r.random_bool(0.5) { "set_qubit" } else { "set_coord" }, "t": t, "q": r.random_range(0..9)}),
            };
        }
        if c < 86 && live > 0 {
            let n = r.random_range(0..=live.min(3));
            let mut ts = m.tags.clone();
            for i in (1..ts.len()).rev() {
                ts.swap(i, r.random_range(0..=i));
            }
            ts.truncate(n);
            return if r.random_bool(0.5) {
                m.ins = ts.clone();
                json!({"op": "set_inputs", "ts": ts})
            } else {
                m.outs = ts.clone();
                json!({"op": "set_outputs", "ts": ts})
            };
        }
        if c < 90 {
            return match r.random_range(0..3) {
                0 => json!({"op": "mul_sqrt2", "p": r.random_range(-3..4)}),
                1 => json!({"op": "mul_phase", "ph": r.random_range(0..8)}),
                _ => json!({"op": "mul_sf", "vars": [r.random_range(0..3)], "ph": r.random_range(1..8)}),
            };
        }
        if c < 96 {
            return json!({"op": "pack", "force": r.random_bool(0.6)});
        }
        if c < 98 && live > 0 {
            let mut ts = m.tags.clone();
            ts.retain(|_| r.random_bool(0.6));
            return json!({"op": "subgraph", "ts": ts});
        }
        if c < 99 {
            return json!({"op": "clone_aside"});
        }
        if live > 0 && live <= 4 && m.next < 900 {
            let off = 1000 * (1 + m.next / 1000);
            let extra: Vec<i64> = m.tags.iter().map(|t| t + off).collect();
            let extra_e: Vec<(i64, i64)> = m.edges.iter().map(|&(a, b)| (a + off, b + off)).collect();
            for t in &extra {
                let ty = m.types[&(t - off)];
                m.types.insert(*t, ty);
            }
            m.tags.extend(extra);
            m.edges.extend(extra_e);
            m.next = off + 1000;
            return json!({"op": "append_self", "off": off});
        }
    }
    json!({"op": "mul_sqrt2", "p": 0})
}

/// --ext: the generator's model is rebuilt from the vector backend's observable after every operation
fn resync(m: &mut Model, a: &Value) {
    let verts = a["verts"].as_array().unwrap();
    let nm2tag = |n: u64| verts.iter().find(|v| v["name"].as_u64() == Some(n)).map(|v| v["tag"].as_i64().unwrap());
    m.tags = verts.iter().map(|v| v["tag"].as_i64().unwrap()).collect();
    m.types = verts
        .iter()
        .map(|v| (v["tag"].as_i64().unwrap(), match v["ty"].as_str().unwrap() { "B" => "B", "X" => "X", _ => "Z" }))
        .collect();
    m.ins = a["ins"].as_array().unwrap().iter().filter_map(|x| nm2tag(x.as_u64().unwrap())).collect();
    m.outs = a["outs"].as_array().unwrap().iter().filter_map(|x| nm2tag(x.as_u64().unwrap())).collect();
    if let Some(mx) = m.tags.iter().max() {
        if *mx >= m.next {
            m.next = mx + 1;
        }
    }
}

const BASES: [&str; 5] = ["Z0", "Z1", "X0", "X1", "SKIP"];

/// a random description of a Parity with strictly increasing (canonical) variables, built through the
/// constructors and operators of params.rs
fn gen_pc(r: &mut StdRng, depth: usize) -> Value {
    let sorted = |r: &mut StdRng| -> Vec<u32> { (0..4u32).filter(|_| r.random_bool(0.4)).collect() };
    match r.random_range(0..if depth == 0 { 6 } else { 9 }) {
        0 => json!({"how": "new", "vars": sorted(r), "c": false}),
        1 => json!({"how": "new", "vars": sorted(r), "c": r.random_bool(0.5)}),
        2 => {
            // From<Vec<Var>> sorts: hand it a shuffled list of distinct variables
            let mut v = sorted(r);
            for i in (1..v.len()).rev() {
                v.swap(i, r.random_range(0..=i));
            }
            json!({"how": "from_vec", "vars": v})
        }
        3 => json!({"how": "single", "v": r.random_range(0..4)}),
        4 => json!({"how": "one"}),
        5 => json!({"how": "zero"}),
        6 => json!({"how": "neg", "of": gen_pc(r, depth - 1)}),
        7 => json!({"how": "sum", "a": gen_pc(r, depth - 1), "b": gen_pc(r, depth - 1)}),
        _ => json!({"how": "sum_owned", "a": gen_pc(r, depth - 1), "b": gen_pc(r, depth - 1)}),
    }
}

/// operands of the pure Parity interface: sorted with duplicates (From<Vec> keeps them), or raw `new` with an unsorted list
/// (outside the documented invariant "variables are kept sorted": recorded, judged in stats only)
fn gen_raw_par(r: &mut StdRng) -> Value {
    let n = r.random_range(0..5);
    let mut v: Vec<u32> = (0..n).map(|_| r.random_range(0..4u32)).collect();
    match r.random_range(0..5) {
        0 => json!({"how": "from_vec", "vars": v}),
        1 | 2 => json!({"how": "new", "vars": v, "c": r.random_bool(0.5)}),
        _ => {
            v.sort();
            if r.random_bool(0.7) {
                v.dedup();
            }
            json!({"how": "new", "vars": v, "c": r.random_bool(0.5)})
        }
    }
}

/// a small diagram with `n` inputs for plug_x, in the abstract JSON shape (ids local and scattered, `r` = fresh tags)
fn gen_other(r: &mut StdRng, n: usize, m: &mut Model) -> Value {
    use crate::gens::ph4;
    let mut vs: Vec<Value> = vec![];
    let mut es: Vec<Value> = vec![];
    let (mut ins, mut outs) = (vec![], vec![]);
    let mut next_id = 0usize;
    let mut fresh = |r: &mut StdRng, ty: &str, p: i64, m: &mut Model, vs: &mut Vec<Value>| -> usize {
        next_id += if r.random_bool(0.3) { 2 } else { 1 };
        let tag = m.next;
        m.next += 1;
        vs.push(json!({"id": next_id, "ty": ty, "ph": ph4(p), "vars": [], "vc": false, "r": tag, "q": 0}));
        next_id
    };
    let et = |r: &mut StdRng| if r.random_bool(0.5) { "N" } else { "H" };
    let edge = |a: usize, b: usize, t: &str| json!({"u": a.min(b), "w": a.max(b), "t": t});
    if n > 0 && r.random_bool(0.4) {
        // one hub spider joined to every input, with 0..2 outputs
        let (ty, p) = (["Z", "X"][r.random_range(0..2)], r.random_range(0..8));
        let hub = fresh(r, ty, p, m, &mut vs);
        for _ in 0..n {
            let i = fresh(r, "B", 0, m, &mut vs);
            es.push(edge(i, hub, et(r)));
            ins.push(i);
        }
        for _ in 0..r.random_range(0..3) {
            let o = fresh(r, "B", 0, m, &mut vs);
            es.push(edge(o, hub, et(r)));
            outs.push(o);
        }
    } else {
        // one wire per input: bare, or through a spider
        for _ in 0..n {
            let i = fresh(r, "B", 0, m, &mut vs);
            let o = fresh(r, "B", 0, m, &mut vs);
            if r.random_bool(0.3) {
                es.push(edge(i, o, et(r)));
            } else {
                let (ty, p) = (["Z", "X"][r.random_range(0..2)], r.random_range(0..8));
                let s = fresh(r, ty, p, m, &mut vs);
                es.push(edge(i, s, et(r)));
                es.push(edge(s, o, et(r)));
            }
            ins.push(i);
            outs.push(o);
        }
        if r.random_bool(0.3) {
            // plus a state: spider - output
            let p = r.random_range(0..8);
            let s = fresh(r, "Z", p, m, &mut vs);
            let o = fresh(r, "B", 0, m, &mut vs);
            es.push(edge(s, o, et(r)));
            outs.push(o);
        }
    }
    vs.sort_by_key(|v| v["id"].as_u64());
    es.sort_by_key(|e| (e["u"].as_u64(), e["w"].as_u64()));
    let sc = [[1, 0, 0, 0, 0], [0, 1, 0, 0, 0], [0, 0, 1, 0, -1], [1, 1, 0, 0, 0]][r.random_range(0..4)];
    json!({"v": vs, "e": es, "ins": ins, "outs": outs, "sc": sc, "sca": false, "sf": []})
}

/// --ext: one of the additional operations, or None (then the caller falls back to the default generator)
fn gen_op_ext(r: &mut StdRng, m: &mut Model, max_live: usize) -> Option<Value> {
    let pick = |r: &mut StdRng, v: &Vec<i64>| v[r.random_range(0..v.len())];
    let live = m.tags.len();
    let deg = |m: &Model, t: i64| m.edges.iter().filter(|&&(a, b)| a == t || b == t).count();
    let nbr = |m: &Model, t: i64| m.edges.iter().find(|&&(a, b)| a == t || b == t).map(|&(a, b)| if a == t { b } else { a });
    // a list position may be plugged with a Z-basis element only if the vertex has exactly one neighbour
    // (plug_vertex toggles "the" neighbour's edge; with several the choice is the backend's iteration order)
    let pluggable = |m: &Model, t: i64, b: &str| b.starts_with('X') || b == "SKIP" || deg(m, t) == 1;
    // plug (valid usage): every output is a distinct boundary, not also listed as an input (plug deletes it), with exactly one
    // neighbour; the neighbour is not itself an output and is a spider or is not shared with another output (the seam edge is
    // inserted with add_edge_smart, which resolves parallel edges only between spiders)
    let plug_ok = |m: &Model| {
        m.outs.len() <= 3
            && (0..m.outs.len()).all(|i| {
                let o = m.outs[i];
                !m.outs[..i].contains(&o) && !m.ins.contains(&o) && m.types[&o] == "B" && deg(m, o) == 1 && {
                    let n = nbr(m, o).unwrap();
                    !m.outs.contains(&n) && (m.types[&n] != "B" || !m.outs.iter().any(|&o2| o2 != o && nbr(m, o2) == Some(n)))
                }
            })
    };
    let mut c = r.random_range(0..100);
    if !m.outs.is_empty() && plug_ok(m) && r.random_bool(0.12) {
        c = 85;
    }
    if c < 20 {
        if live == 0 || live >= max_live + 3 {
            return None;
        }
        let s = pick(r, &m.tags);
        let tag = m.next;
        m.next += 1;
        return Some(json!({"op": "add_bnd", "tag": tag, "s": s, "et": if r.random_bool(0.6) { "N" } else { "H" }, "side": if r.random_bool(0.35) { "in" } else { "out" }}));
    }
    if c < 25 {
        if live >= max_live {
            return None;
        }
        let tag = m.next;
        m.next += 1;
        let ty = ["Z", "X", "B"][r.random_range(0..3)];
        return Some(json!({"op": "add_vph", "ty": ty, "ph": r.random_range(0..8), "tag": tag}));
    }
    if c < 28 {
        if live == 0 {
            return None;
        }
        return Some(json!({"op": "push_input", "t": pick(r, &m.tags)}));
    }
    if c < 32 {
        let (side, l) = if r.random_bool(0.5) { ("in", &m.ins) } else { ("out", &m.outs) };
        if l.is_empty() {
            return None;
        }
        return Some(json!({"op": "bnd_remove", "side": side, "i": r.random_range(0..l.len())}));
    }
    if c < 38 {
        return Some(json!({"op": "adjoint"}));
    }
    if c < 43 {
        return Some(json!({"op": "x_to_z"}));
    }
    if c < 47 {
        if live == 0 {
            return None;
        }
        let t = pick(r, &m.tags);
        let b = BASES[r.random_range(0..5)];
        if !pluggable(m, t, b) {
            return None;
        }
        return Some(json!({"op": "plug_vertex", "t": t, "b": b}));
    }
    if c < 55 {
        let (o, l) = if r.random_bool(0.5) { ("plug_input", &m.ins) } else { ("plug_output", &m.outs) };
        if l.is_empty() {
            return None;
        }
        let i = r.random_range(0..l.len());
        let b = BASES[r.random_range(0..4)];
        if !pluggable(m, l[i], b) {
            return None;
        }
        return Some(json!({"op": o, "i": i, "b": b}));
    }
    if c < 65 {
        let (o, l) = if r.random_bool(0.5) { ("plug_inputs", &m.ins) } else { ("plug_outputs", &m.outs) };
        // a repeated vertex in the list would be plugged twice: only lists of distinct vertices
        if (0..l.len()).any(|i| l[..i].contains(&l[i])) {
            return None;
        }
        let n = r.random_range(0..=l.len());
        let list: Vec<&str> = (0..n).map(|_| BASES[r.random_range(0..5)]).collect();
        if (0..n).any(|i| !pluggable(m, l[i], list[i])) {
            return None;
        }
        return Some(json!({"op": o, "list": list}));
    }
    if c < 71 {
        // every edge between two Z or two X spiders gets a new spider: fresh tags in the order of the sorted tag pairs
        let mut pairs: Vec<(i64, i64)> = m.edges.iter().copied().filter(|(a, b)| m.types[a] == m.types[b] && m.types[a] != "B").collect();
        pairs.sort();
        if live + pairs.len() > max_live + 6 {
            return None;
        }
        let nt: Vec<Value> = pairs
            .iter()
            .map(|&(a, b)| {
                let t = m.next;
                m.next += 1;
                json!([a, b, t])
            })
            .collect();
        return Some(json!({"op": "make_bipartite", "newtags": nt}));
    }
    if c < 76 {
        return Some(json!({"op": "copy", "adj": r.random_bool(0.5)}));
    }
    if c < 80 {
        if live == 0 || live > 4 || m.next >= 900_000 {
            return None;
        }
        let off = 1000 * (1 + m.next / 1000);
        m.next = off + 1000;
        return Some(json!({"op": "append_x", "off": off}));
    }
    if c < 90 {
        if !plug_ok(m) || live > max_live + 4 {
            return None;
        }
        let n = m.outs.len();
        let other = gen_other(r, n, m);
        return Some(json!({"op": "plug_x", "other": other}));
    }
    if c < 95 {
        return Some(match r.random_range(0..4) {
            0 | 1 => {
                if live == 0 {
                    return None;
                }
                let t = pick(r, &m.tags);
                // From<Vec> with a repeated variable is allowed here: the vertex then carries the parity with the pair cancelled
                let pc = if r.random_bool(0.15) { json!({"how": "from_vec", "vars": [2, 0, 2]}) } else { gen_pc(r, 2) };
                json!({"op": if r.random_bool(0.5) { "set_vars" } else { "add_to_vars" }, "t": t, "pc": pc})
            }
            2 => json!({"op": "mul_sf", "pc": gen_pc(r, 2), "ph": r.random_range(1..8)}),
            _ => json!({"op": "mul_sf", "pc": gen_pc(r, 1), "pc2": gen_pc(r, 1), "ph": r.random_range(1..8)}),
        });
    }
    Some(json!({"op": "par_alg", "a": gen_raw_par(r), "b": gen_raw_par(r)}))
}

/// Specification -> implementation: every line of `path` is one history printed by TLC from mc/MC_BackendsReplay.tla
/// (`{"hist": [...], "v": <what the vector backend must show>, "h": <hash backend>, "e": <edges in tag space>}`). Each is
/// executed from the empty graph on BOTH real backends; the run is logged in the ordinary `begin` / `op` format (so that
/// Trace_Backends judges every step) and the final public state is compared with the prediction of spec/Backends.tla:
/// exact vertex names per tag, vindex(), num_vertices(), num_edges(), inputs(), outputs(), edges with types.
pub fn record_from_tlc(path: &str, tr: &mut Tr) -> Value {
    use std::io::BufRead;
    let f = std::io::BufReader::new(std::fs::File::open(path).expect("history file"));
    let (mut nh, mut nops, mut mism) = (0usize, 0usize, 0usize);
    let mut first_mismatch = Value::Null;
    let pred_of = |o: &Value| -> Value {
        let mut names: Vec<(i64, u64)> = o["verts"].as_array().unwrap().iter().map(|v| (v["tag"].as_i64().unwrap(), v["name"].as_u64().unwrap())).collect();
        names.sort_by_key(|x| x.1);
        json!({"names": names.iter().map(|(t, n)| json!([t, n])).collect::<Vec<_>>(), "vindex": o["vindex"], "numv": o["numv"], "nume": o["nume"],
               "ins": o["ins"], "outs": o["outs"]})
    };
    for line in f.lines() {
        let line = line.unwrap();
        if line.trim().is_empty() {
            continue;
        }
        let h: Value = serde_json::from_str(&line).expect("history line");
        let mut gv = quizx::vec_graph::Graph::new();
        let mut gh = quizx::hash_graph::Graph::new();
        let mut side_v: Vec<quizx::vec_graph::Graph> = vec![];
        let mut side_h: Vec<quizx::hash_graph::Graph> = vec![];
        tr.group();
        tr.emit(json!({"k": "begin", "from": "tlc"}));
        nh += 1;
        let mut ops: Vec<Value> = vec![];
        for op in h["hist"].as_array().unwrap() {
            if op["op"] == "set_boundary" {
                ops.push(json!({"op": "set_inputs", "ts": [op["i"]]}));
                ops.push(json!({"op": "set_outputs", "ts": [op["o"]]}));
            } else {
                ops.push(op.clone());
            }
        }
        let mut dead = false;
        for op in ops {
            let (cv, ch) = (gv.clone(), gh.clone());
            let rv = apply(&mut gv, &op, &mut side_v, &ch);
            let rh = apply(&mut gh, &op, &mut side_h, &cv);
            nops += 1;
            let (ov, oh) = (guarded(|| obs(&gv)), guarded(|| obs(&gh)));
            let mut e = json!({"k": "op", "op": op, "rv": rv, "rh": rh});
            match (ov, oh) {
                (Ok(a), Ok(b)) => {
                    e["ov"] = a;
                    e["oh"] = b;
                    tr.emit(e);
                }
                _ => {
                    e["obs_panic"] = json!(true);
                    tr.emit(e);
                    dead = true;
                    break;
                }
            }
            if rv["res"] == "panic" || rh["res"] == "panic" {
                dead = true;
                break;
            }
        }
        // the prediction of the specification for the state after the whole history
        let ok = !dead && {
            let (a, b) = (obs(&gv), obs(&gh));
            let mut es: Vec<(i64, i64, String)> = a["conn"].as_array().unwrap().iter().filter_map(|c| {
                let nm2tag = |n: u64| a["verts"].as_array().unwrap().iter().find(|v| v["name"].as_u64() == Some(n)).unwrap()["tag"].as_i64().unwrap();
                let (x, y) = (nm2tag(c[0].as_u64().unwrap()), nm2tag(c[1].as_u64().unwrap()));
                let et = gv.edge_type_opt(c[0].as_u64().unwrap() as usize, c[1].as_u64().unwrap() as usize).map(ets).unwrap_or("?").to_string();
                if x < y { Some((x, y, et)) } else { None }
            }).collect();
            es.sort();
            let mut pe: Vec<(i64, i64, String)> = h["e"].as_array().unwrap().iter().map(|x| (x[0].as_i64().unwrap(), x[1].as_i64().unwrap(), x[2].as_str().unwrap().to_string())).collect();
            pe.sort();
            pred_of(&a) == h["v"] && pred_of(&b) == h["h"] && es == pe
        };
        if !ok {
            mism += 1;
            if first_mismatch.is_null() {
                first_mismatch = json!({"hist": h["hist"], "pred_v": h["v"], "pred_h": h["h"], "got_v": pred_of(&obs(&gv)), "got_h": pred_of(&obs(&gh))});
            }
        }
    }
    json!({"histories": nh, "ops": nops, "from_tlc": true, "replay_mismatch": mism, "first_mismatch": first_mismatch})
}

pub fn record(args: &[String], seed: u64, tr: &mut Tr) -> Value {
    if let Some(p) = crate::util::arg_val(args, "--from-tlc") {
        return record_from_tlc(&p, tr);
    }
    let histories: usize = arg_num(args, "--histories", 20);
    let len: usize = arg_num(args, "--len", 60);
    let max_live: usize = arg_num(args, "--maxlive", 7);
    let ext = arg_flag(args, "--ext");
    let mut r = crate::gens::rng(seed);
    let mut nops = 0usize;
    let mut next_ops = 0usize;
    let full_v = |g: &quizx::vec_graph::Graph| {
        let mut o = obs(g);
        if ext {
            o["x"] = obs_x(g);
            o["x"]["nat"] = neighbor_at_json(g);
        }
        o
    };
    let full_h = |g: &quizx::hash_graph::Graph| {
        let mut o = obs(g);
        if ext {
            o["x"] = obs_x(g);
        }
        o
    };
    for hi in 0..histories {
        // --ext: every other history starts from Default::default() instead of new()
        let dflt = ext && hi % 2 == 1;
        let mut gv = if dflt { quizx::vec_graph::Graph::default() } else { quizx::vec_graph::Graph::new() };
        let mut gh = if dflt { quizx::hash_graph::Graph::default() } else { quizx::hash_graph::Graph::new() };
        let mut side_v: Vec<quizx::vec_graph::Graph> = vec![];
        let mut side_h: Vec<quizx::hash_graph::Graph> = vec![];
        let mut m = Model { tags: vec![], edges: vec![], ins: vec![], outs: vec![], next: 1, types: Default::default() };
        tr.group();
        if ext {
            tr.emit(json!({"k": "begin", "ctor": if dflt { "default" } else { "new" }}));
        } else {
            tr.emit(json!({"k": "begin"}));
        }
        // --ext: in half of the histories the boundary lists are only edited through the boundary operations, so that
        // well-formed outputs (what plug needs) survive long enough
        let keep_bnd = ext && r.random_bool(0.5);
        let n = r.random_range(len / 2..=len);
        for step in 0..n {
            let top = gv.vindex().max(gh.vindex());
            let (cv, ch) = (gv.clone(), gh.clone());
            let op = if ext && step == 0 {
                json!({"op": "init"})
            } else {
                let mut chosen = None;
                if ext && r.random_bool(0.45) {
                    let saved = m.clone();
                    chosen = gen_op_ext(&mut r, &mut m, max_live);
                    if chosen.is_none() {
                        m = saved;
                    } else {
                        next_ops += 1;
                    }
                }
                match chosen {
                    Some(op) => op,
                    None => loop {
                        let saved = m.clone();
                        let op = gen_op(&mut r, &mut m, max_live, &|x| cv.contains_vertex(x), &|x| ch.contains_vertex(x), top);
                        let o = op["op"].as_str().unwrap();
                        if keep_bnd && (o == "set_inputs" || o == "set_outputs" || o == "push_output") {
                            m = saved;
                            continue;
                        }
                        break op;
                    },
                }
            };
            let rv = apply(&mut gv, &op, &mut side_v, &ch);
            let rh = apply(&mut gh, &op, &mut side_h, &cv);
            nops += 1;
            let (ov, oh) = (guarded(|| full_v(&gv)), guarded(|| full_h(&gh)));
            let mut e = json!({"k": "op", "op": op, "rv": rv, "rh": rh});
            match (ov, oh) {
                (Ok(a), Ok(b)) => {
                    // resynchronise the generator's edge list (smart insertion may delete or keep edges)
                    m.edges = a["conn"].as_array().unwrap().iter().filter_map(|c| {
                        let nm2tag = |n: u64| a["verts"].as_array().unwrap().iter().find(|v| v["name"].as_u64() == Some(n)).unwrap()["tag"].as_i64().unwrap();
                        let (x, y) = (nm2tag(c[0].as_u64().unwrap()), nm2tag(c[1].as_u64().unwrap()));
                        if x < y { Some((x, y)) } else { None }
                    }).collect();
                    if ext {
                        resync(&mut m, &a);
                    }
                    e["ov"] = a;
                    e["oh"] = b;
                    tr.emit(e);
                }
                _ => {
                    e["obs_panic"] = json!(true);
                    tr.emit(e);
                    break;
                }
            }
            if rv["res"] == "panic" || rh["res"] == "panic" {
                break;
            }
        }
        // clones taken aside must be untouched by everything that happened afterwards: logged for TLC
        for (i, (a, b)) in side_v.iter().zip(side_h.iter()).enumerate() {
            tr.emit(json!({"k": "aside", "i": i + 1, "ov": full_v(a), "oh": full_h(b)}));
        }
    }
    json!({"histories": histories, "ops": nops, "ext_ops": next_ops})
}
