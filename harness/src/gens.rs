//! Input generators: exhaustive small families mirroring spec/Family.tla, and seeded random
//! diagrams / circuits.  Diagrams are produced as abstract JSON (the `abs` shape) so that
//! generation is independent of the graph backend.

use rand::rngs::StdRng;
use rand::{Rng, SeedableRng};
use serde_json::{json, Value};

pub fn rng(seed: u64) -> StdRng {
    StdRng::seed_from_u64(seed)
}

/// phase in units of pi/4 -> [num, den] normalised to (-1, 1]
pub fn ph4(k: i64) -> Value {
    let k = k.rem_euclid(8);
    let k = if k > 4 { k - 8 } else { k };
    let (n, d) = match k {
        0 => (0, 1),
        4 => (1, 1),
        2 => (1, 2),
        -2 => (-1, 2),
        _ => (k, 4),
    };
    json!([n, d])
}

#[derive(Clone, Debug)]
pub struct AV {
    pub id: usize,
    pub ty: &'static str,
    pub ph: i64,
    pub vars: Vec<u32>,
}

pub fn mk(vs: &[AV], es: &[(usize, usize, &str)], ins: &[usize], outs: &[usize], sc: [i64; 5]) -> Value {
    let mut vs: Vec<AV> = vs.to_vec();
    vs.sort_by_key(|v| v.id);
    let v: Vec<Value> = vs
        .iter()
        .map(|a| json!({"id": a.id, "ty": a.ty, "ph": ph4(a.ph), "vars": a.vars, "vc": false}))
        .collect();
    let mut es: Vec<(usize, usize, &str)> = es.iter().map(|&(a, b, t)| if a <= b { (a, b, t) } else { (b, a, t) }).collect();
    es.sort();
    let e: Vec<Value> = es.iter().map(|&(a, b, t)| json!({"u": a, "w": b, "t": t})).collect();
    json!({"v": v, "e": e, "ins": ins, "outs": outs, "sc": sc, "sca": false, "sf": []})
}

#[derive(Clone, Debug)]
pub struct Family {
    pub k: usize,
    pub tys: Vec<&'static str>,
    pub phs: Vec<i64>,
    pub ets: Vec<&'static str>,
    pub nb: usize,
    pub vars: Vec<u32>,
    pub bb: bool,
}

fn subsets<T: Clone>(xs: &[T]) -> Vec<Vec<T>> {
    let mut out = vec![];
    for m in 0..(1usize << xs.len()) {
        out.push(xs.iter().enumerate().filter(|(i, _)| m >> i & 1 == 1).map(|(_, x)| x.clone()).collect());
    }
    out
}

/// all functions [0..n) -> choices, as index vectors
fn tuples(n: usize, c: usize) -> Vec<Vec<usize>> {
    let mut out = vec![vec![]];
    for _ in 0..n {
        let mut nxt = vec![];
        for t in &out {
            for i in 0..c {
                let mut t2 = t.clone();
                t2.push(i);
                nxt.push(t2);
            }
        }
        out = nxt;
    }
    out
}

/// Enumerate the family exactly as Family!Shapes x Family!Wirings does (spiders 1..K,
/// boundaries K+1.., optional boundary-boundary wire K+NB+1, K+NB+2). `keep(i)` selects by
/// running index so that callers can sample deterministically.
pub fn enum_family(f: &Family, mut emit: impl FnMut(Value)) {
    let k = f.k;
    let pairs: Vec<(usize, usize)> = (1..=k).flat_map(|a| ((a + 1)..=k).map(move |b| (a, b))).collect();
    let varsets = subsets(&f.vars);
    for tyv in tuples(k, f.tys.len()) {
        for phv in tuples(k, f.phs.len()) {
            for vrv in tuples(k, varsets.len()) {
                let spiders: Vec<AV> = (0..k)
                    .map(|i| AV { id: i + 1, ty: f.tys[tyv[i]], ph: f.phs[phv[i]], vars: varsets[vrv[i]].clone() })
                    .collect();
                for eset in subsets(&pairs) {
                    for etv in tuples(eset.len(), f.ets.len()) {
                        let inner: Vec<(usize, usize, &str)> =
                            eset.iter().zip(etv.iter()).map(|(&(a, b), &t)| (a, b, f.ets[t])).collect();
                        let nbs: Vec<usize> = if k == 0 { vec![0] } else { (0..=f.nb).collect() };
                        for &nb in &nbs {
                            for att in tuples(nb, k * 2) {
                                for ni in 0..=nb {
                                    for bb in if f.bb { vec![None, Some("N"), Some("H")] } else { vec![None] } {
                                        let mut vs = spiders.clone();
                                        let mut es = inner.clone();
                                        let mut ins = vec![];
                                        let mut outs = vec![];
                                        for i in 0..nb {
                                            let b = k + 1 + i;
                                            vs.push(AV { id: b, ty: "B", ph: 0, vars: vec![] });
                                            let (sp, et) = (att[i] / 2 + 1, if att[i] % 2 == 0 { "N" } else { "H" });
                                            es.push((sp, b, et));
                                            if i < ni {
                                                ins.push(b)
                                            } else {
                                                outs.push(b)
                                            }
                                        }
                                        if let Some(t) = bb {
                                            let (b1, b2) = (k + f.nb + 1, k + f.nb + 2);
                                            vs.push(AV { id: b1, ty: "B", ph: 0, vars: vec![] });
                                            vs.push(AV { id: b2, ty: "B", ph: 0, vars: vec![] });
                                            es.push((b1, b2, t));
                                            ins.push(b1);
                                            outs.push(b2);
                                        }
                                        emit(mk(&vs, &es, &ins, &outs, [1, 0, 0, 0, 0]));
                                    }
                                }
                            }
                        }
                    }
                }
            }
        }
    }
}

#[derive(Clone, Debug)]
pub struct RandCfg {
    pub min_sp: usize,
    pub max_sp: usize,
    pub max_b: usize,
    pub tys: Vec<&'static str>,
    pub phs: Vec<i64>,
    pub ets: Vec<&'static str>,
    pub pedge: f64,
    pub vars: Vec<u32>,
    pub pvar: f64,
    pub scalars: bool,
    pub graph_like: bool,
    /// maximal number of phase gadgets (hub of phase 0 + degree-1 leaf) attached to the spiders
    pub gadgets: usize,
}

impl RandCfg {
    pub fn any_zx() -> Self {
        RandCfg {
            min_sp: 0,
            max_sp: 6,
            max_b: 3,
            tys: vec!["Z", "X"],
            phs: (0..8).collect(),
            ets: vec!["N", "H"],
            pedge: 0.4,
            vars: vec![],
            pvar: 0.0,
            scalars: true,
            graph_like: false,
            gadgets: 0,
        }
    }
    pub fn graph_like() -> Self {
        RandCfg { tys: vec!["Z"], ets: vec!["H"], graph_like: true, ..Self::any_zx() }
    }
}

/// A random well-formed diagram; vertex names are scattered (holes, boundaries interleaved).
pub fn random_diagram(r: &mut StdRng, c: &RandCfg) -> Value {
    let nsp = r.random_range(c.min_sp..=c.max_sp);
    let nb = if nsp == 0 { 0 } else { r.random_range(0..=c.max_b) };
    // scattered distinct names
    let mut names: Vec<usize> = (0..(nsp + nb + 3)).collect();
    for i in (1..names.len()).rev() {
        let j = r.random_range(0..=i);
        names.swap(i, j);
    }
    let sp: Vec<usize> = names[..nsp].to_vec();
    let bs: Vec<usize> = names[nsp..nsp + nb].to_vec();
    let mut vs = vec![];
    for &s in &sp {
        let mut vars = vec![];
        for &x in &c.vars {
            if r.random_bool(c.pvar) {
                vars.push(x);
            }
        }
        vs.push(AV { id: s, ty: c.tys[r.random_range(0..c.tys.len())], ph: c.phs[r.random_range(0..c.phs.len())], vars });
    }
    let mut es: Vec<(usize, usize, &str)> = vec![];
    let pe = c.pedge * r.random_range(0.3..1.5f64);
    for i in 0..nsp {
        for j in (i + 1)..nsp {
            if r.random_bool(pe.min(1.0)) {
                es.push((sp[i], sp[j], c.ets[r.random_range(0..c.ets.len())]));
            }
        }
    }
    // phase gadgets: hub -H- leaf, hub H-connected to a subset of the spiders; consecutive gadgets
    // share their target set with probability 1/2 (what gadget fusion looks for)
    if c.gadgets > 0 && nsp > 0 {
        let ng = r.random_range(0..=c.gadgets);
        let mut next = names.iter().copied().max().unwrap_or(0) + 1;
        let mut last: Vec<usize> = vec![];
        for gi in 0..ng {
            let tgt: Vec<usize> = if gi > 0 && r.random_bool(0.5) {
                last.clone()
            } else {
                sp.iter().copied().filter(|_| r.random_bool(0.5)).collect()
            };
            let (hub, leaf) = (next, next + 1);
            next += 2;
            let hub_ph = if r.random_bool(0.85) { 0 } else { 4 };
            // a hub may carry variables too (a pivot pushes its partner's variables onto a gadget hub): such a gadget must NOT be
            // fused with its neighbours over the same legs (drawn only when the configuration has variables)
            let mut hvars = vec![];
            for &x in &c.vars {
                if r.random_bool(c.pvar * 0.6) {
                    hvars.push(x);
                }
            }
            vs.push(AV { id: hub, ty: "Z", ph: hub_ph, vars: hvars });
            let mut lvars = vec![];
            for &x in &c.vars {
                if r.random_bool(c.pvar) {
                    lvars.push(x);
                }
            }
            vs.push(AV { id: leaf, ty: "Z", ph: c.phs[r.random_range(0..c.phs.len())], vars: lvars });
            es.push((hub, leaf, "H"));
            for &t in &tgt {
                es.push((hub, t, "H"));
            }
            last = tgt;
        }
    }
    let mut ins = vec![];
    let mut outs = vec![];
    for &b in &bs {
        vs.push(AV { id: b, ty: "B", ph: 0, vars: vec![] });
        let t = if c.graph_like && r.random_bool(0.7) { "N" } else if r.random_bool(0.5) { "N" } else { "H" };
        es.push((sp[r.random_range(0..nsp)], b, t));
        if r.random_bool(0.5) {
            ins.push(b)
        } else {
            outs.push(b)
        }
    }
    let sc = if c.scalars && r.random_bool(0.5) {
        let mut s = [0i64; 5];
        for x in s.iter_mut().take(4) {
            *x = r.random_range(-2..=2);
        }
        if s[..4].iter().all(|x| *x == 0) {
            s[0] = 1;
        }
        s[4] = r.random_range(-2..=2);
        s
    } else {
        [1, 0, 0, 0, 0]
    };
    mk(&vs, &es, &ins, &outs, sc)
}

// ---------------------------------------------------------------------------------------------
// opt-in GENERIC phases (not multiples of pi/4): the floating-point clause of C01 / C02 / C03 / C04 / C08
// ---------------------------------------------------------------------------------------------

pub const GENERIC_DENS: [i64; 7] = [3, 5, 6, 7, 8, 12, 16];

/// a phase n/d (units of pi) with d in {3,5,6,7,8,12,16}, n coprime to d, in (-1, 1]
pub fn generic_phase(r: &mut StdRng) -> Value {
    fn gcd(a: i64, b: i64) -> i64 {
        if b == 0 {
            a.abs()
        } else {
            gcd(b, a % b)
        }
    }
    let d = GENERIC_DENS[r.random_range(0..GENERIC_DENS.len())];
    loop {
        let n = r.random_range((1 - d)..d);
        if n != 0 && gcd(n, d) == 1 {
            return json!([n, d]);
        }
    }
}

/// Overwrite the phase of every spider with a generic one with probability `p` (boundaries, and - so that phase gadgets
/// stay phase gadgets - the hub of a degree-1 spider keep theirs); variables are removed (the float oracle has none).
/// Returns the number of phases replaced.
pub fn make_generic(a: &mut Value, r: &mut StdRng, p: f64) -> usize {
    let mut deg: std::collections::HashMap<u64, usize> = Default::default();
    for e in a["e"].as_array().unwrap() {
        *deg.entry(e["u"].as_u64().unwrap()).or_insert(0) += 1;
        *deg.entry(e["w"].as_u64().unwrap()).or_insert(0) += 1;
    }
    let ty_of: std::collections::HashMap<u64, String> =
        a["v"].as_array().unwrap().iter().map(|v| (v["id"].as_u64().unwrap(), v["ty"].as_str().unwrap().to_string())).collect();
    let mut hubs: Vec<u64> = vec![];
    for e in a["e"].as_array().unwrap() {
        let (u, w) = (e["u"].as_u64().unwrap(), e["w"].as_u64().unwrap());
        if ty_of[&u] != "B" && ty_of[&w] != "B" {
            if deg[&u] == 1 {
                hubs.push(w);
            }
            if deg[&w] == 1 {
                hubs.push(u);
            }
        }
    }
    let mut n = 0;
    for v in a["v"].as_array_mut().unwrap() {
        v["vars"] = json!([]);
        v["vc"] = json!(false);
        let id = v["id"].as_u64().unwrap();
        if v["ty"] == "B" || (hubs.contains(&id) && r.random_bool(0.8)) {
            continue;
        }
        if r.random_bool(p) {
            v["ph"] = generic_phase(r);
            n += 1;
        }
    }
    a["sf"] = json!([]);
    n
}

/// seeded generic-phase diagrams for the engines' `--generic N` tier: variable-free, <= 6 spiders + <= 3 boundaries, alternately
/// arbitrary ZX (Z and X, both edge types, scalars) and graph-like with phase gadgets; at least one generic phase each
pub fn generic_diagram(r: &mut StdRng, i: usize) -> Value {
    let cfg = if i % 2 == 0 {
        RandCfg { min_sp: 1, max_sp: 6, max_b: 3, ..RandCfg::any_zx() }
    } else {
        RandCfg { min_sp: 1, max_sp: 5, max_b: 3, phs: vec![0, 1, 2, 4, 6], gadgets: 2, ..RandCfg::graph_like() }
    };
    loop {
        let mut a = random_diagram(r, &cfg);
        let p = [0.35, 0.6, 0.9][r.random_range(0..3)];
        if make_generic(&mut a, r, p) > 0 {
            // every other diagram: the stored scalar carries a generic phase factor e^{i pi n/d} (float-approximate from the start)
            if r.random_bool(0.5) {
                a["scph"] = generic_phase(r);
            }
            return a;
        }
    }
}
