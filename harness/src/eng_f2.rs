//! C17: quizx::linalg::Mat2 (F2 matrices) recorded call by call; TLC validates every logged result
//! against spec/F2.tla (mc/Trace_F2.tla).  No hook in the code under test is needed: gauss_x takes a
//! row-operation proxy (`impl RowOps`), and `Rec` below is such a proxy that logs what it receives
//! (and forwards the operations to another Mat2 through the code's own RowOps impl).
//!
//!   --exhaustive R,C   (repeatable) every 0/1 matrix with 1..=R rows and 1..=C columns,
//!                      all block sizes 1..=cols, both modes
//!   --random K --maxdim D   K seeded random matrices up to D x D (several densities; low rank,
//!                      duplicate rows, zero rows/columns, repeated sub-rows per block, invertible by
//!                      construction), block sizes {1, 2, 3, cols, two random ones}
//!   --stride S         take every S-th matrix of the exhaustive family (offset seed % S)
//!   --special          a fixed list of matrices built with the constructors zeros / ones / id / unit_vector, among them
//!                      all-ones matrices with 255, 256 and 576 ones (the Hamming-weight helpers sum into u8)
//!
//! Per matrix also: all four `Mul` overloads (&a*&b, &a*b, a*&b, a*b), row_weight / weight / unit_rows, the
//! constructors zeros / ones / id / unit_vector of the matrix's shape, Index / IndexMut<(usize, usize)>, Display.

use crate::util::{arg_num, guarded, Tr};
use quizx::linalg::{ColOps, Mat2, RowOps};
use rand::rngs::StdRng;
use rand::Rng;
use serde_json::{json, Value};

/// The recording proxy handed to gauss_x.
struct Rec {
    ops: Vec<(&'static str, usize, usize)>,
    inner: Option<Mat2>,
}

impl RowOps for Rec {
    fn row_add(&mut self, r0: usize, r1: usize) {
        self.ops.push(("add", r0, r1));
        if let Some(x) = self.inner.as_mut() {
            x.row_add(r0, r1);
        }
    }
    fn row_swap(&mut self, r0: usize, r1: usize) {
        self.ops.push(("swap", r0, r1));
        if let Some(x) = self.inner.as_mut() {
            x.row_swap(r0, r1);
        }
    }
}

fn mj(m: &Mat2) -> Value {
    Value::Array((0..m.num_rows()).map(|i| json!(m[i].clone())).collect())
}

fn opsj(ops: &[(&'static str, usize, usize)]) -> Value {
    Value::Array(ops.iter().map(|(k, a, b)| json!([k, a, b])).collect())
}

fn rand_mat(r: &mut StdRng, rows: usize, cols: usize, p: f64) -> Mat2 {
    Mat2::new((0..rows).map(|_| (0..cols).map(|_| r.random_bool(p) as u8).collect()).collect())
}

#[derive(Default)]
struct Counts {
    matrices: usize,
    gauss_runs: usize,
    ops_logged: usize,
    panics: usize,
    inverse_some: usize,
    inverse_none: usize,
    nullspace_vectors: usize,
    max_rows: usize,
    max_cols: usize,
    kinds: std::collections::BTreeMap<String, usize>,
}

fn panic_ev(k: &str, msg: String, extra: Value, c: &mut Counts) -> Value {
    c.panics += 1;
    let mut e = json!({"k": k, "res": "panic", "msg": msg});
    if let (Some(o), Some(x)) = (e.as_object_mut(), extra.as_object()) {
        for (kk, v) in x {
            o.insert(kk.clone(), v.clone());
        }
    }
    e
}

/// All calls of the property on one matrix = one group (one execution).
fn one(m: &Mat2, bss: &[usize], kind: &str, r: &mut StdRng, tr: &mut Tr, c: &mut Counts) {
    let (rows, cols) = (m.num_rows(), m.num_cols());
    c.matrices += 1;
    c.max_rows = c.max_rows.max(rows);
    c.max_cols = c.max_cols.max(cols);
    *c.kinds.entry(kind.to_string()).or_default() += 1;
    tr.group();
    tr.emit(json!({"k": "begin", "m": mj(m), "rows": rows, "cols": cols, "kind": kind}));

    // gauss_x with the recording proxy; the proxy forwards to another matrix x (identity / random)
    let mut last_ops: Vec<(&'static str, usize, usize)> = vec![];
    let mut idx = 0usize;
    for &full in &[false, true] {
        for &bs in bss {
            let x = if idx % 2 == 0 { Mat2::id(rows) } else { let k = r.random_range(1..=3usize); rand_mat(r, rows, k, 0.5) };
            idx += 1;
            let mut w = m.clone();
            let mut rec = Rec { ops: vec![], inner: Some(x.clone()) };
            let res = guarded(|| w.gauss_x(full, bs, &mut rec));
            c.gauss_runs += 1;
            match res {
                Err(msg) => tr.emit(panic_ev("gauss", msg, json!({"api": "gauss_x", "full": full, "blocksize": bs}), c)),
                Ok(rank) => {
                    c.ops_logged += rec.ops.len();
                    tr.emit(json!({"k": "gauss", "api": "gauss_x", "full": full, "blocksize": bs, "res": "ok",
                                   "ops": opsj(&rec.ops), "out": mj(&w), "rank": rank}));
                    tr.emit(json!({"k": "rowops_on_other", "how": "direct", "ops": opsj(&rec.ops), "x": mj(&x), "res": "ok",
                                   "out": mj(rec.inner.as_ref().unwrap())}));
                    last_ops = rec.ops;
                }
            }
        }
    }
    // the operations of the last run replayed by the harness on a fresh matrix through Mat2's RowOps impl
    {
        let k = r.random_range(1..=3usize);
        let x = rand_mat(r, rows, k, 0.5);
        let mut y = x.clone();
        let ops = last_ops.clone();
        match guarded(|| {
            for (kd, a, b) in &ops {
                if *kd == "add" { y.row_add(*a, *b) } else { y.row_swap(*a, *b) }
            }
        }) {
            Err(msg) => tr.emit(panic_ev("rowops_on_other", msg, json!({"how": "replay"}), c)),
            Ok(()) => tr.emit(json!({"k": "rowops_on_other", "how": "replay", "ops": opsj(&ops), "x": mj(&x), "res": "ok", "out": mj(&y)})),
        }
    }
    // arbitrary row / column operations (including swaps and r0 = r1) through the RowOps / ColOps impls
    {
        let n = r.random_range(1..=6usize);
        let rops: Vec<(&'static str, usize, usize)> = (0..n)
            .map(|_| (if r.random_bool(0.5) { "add" } else { "swap" }, r.random_range(0..rows), r.random_range(0..rows)))
            .collect();
        let cops: Vec<(&'static str, usize, usize)> = (0..n)
            .map(|_| (if r.random_bool(0.5) { "add" } else { "swap" }, r.random_range(0..cols), r.random_range(0..cols)))
            .collect();
        let mut y = m.clone();
        match guarded(|| {
            for (kd, a, b) in &rops {
                if *kd == "add" { y.row_add(*a, *b) } else { y.row_swap(*a, *b) }
            }
        }) {
            Err(msg) => tr.emit(panic_ev("rowops_on_other", msg, json!({"how": "random"}), c)),
            Ok(()) => tr.emit(json!({"k": "rowops_on_other", "how": "random", "ops": opsj(&rops), "x": mj(m), "res": "ok", "out": mj(&y)})),
        }
        let mut z = m.clone();
        match guarded(|| {
            for (kd, a, b) in &cops {
                if *kd == "add" { z.col_add(*a, *b) } else { z.col_swap(*a, *b) }
            }
        }) {
            Err(msg) => tr.emit(panic_ev("colops", msg, json!({}), c)),
            Ok(()) => tr.emit(json!({"k": "colops", "ops": opsj(&cops), "res": "ok", "out": mj(&z)})),
        }
    }
    // gauss(full): block size 3, unit proxy
    for &full in &[false, true] {
        let mut w = m.clone();
        c.gauss_runs += 1;
        match guarded(|| w.gauss(full)) {
            Err(msg) => tr.emit(panic_ev("gauss", msg, json!({"api": "gauss", "full": full, "blocksize": 3}), c)),
            Ok(rank) => tr.emit(json!({"k": "gauss", "api": "gauss", "full": full, "blocksize": 3, "res": "ok",
                                       "ops": [], "out": mj(&w), "rank": rank})),
        }
    }
    match guarded(|| m.rank()) {
        Err(msg) => tr.emit(panic_ev("rank", msg, json!({}), c)),
        Ok(k) => tr.emit(json!({"k": "rank", "res": "ok", "ret": k})),
    }
    match guarded(|| m.inverse()) {
        Err(msg) => tr.emit(panic_ev("inverse", msg, json!({}), c)),
        Ok(None) => {
            c.inverse_none += 1;
            tr.emit(json!({"k": "inverse", "res": "none", "out": []}))
        }
        Ok(Some(inv)) => {
            c.inverse_some += 1;
            tr.emit(json!({"k": "inverse", "res": "some", "out": mj(&inv)}))
        }
    }
    match guarded(|| m.nullspace()) {
        Err(msg) => tr.emit(panic_ev("nullspace", msg, json!({}), c)),
        Ok(vs) => {
            c.nullspace_vectors += vs.len();
            // each basis vector is returned as a matrix; logged flattened (row-major)
            let out: Vec<Value> = vs.iter().map(|v| json!((0..v.num_rows()).flat_map(|i| v[i].clone()).collect::<Vec<u8>>())).collect();
            tr.emit(json!({"k": "nullspace", "res": "ok", "out": out}))
        }
    }
    match guarded(|| (m.transpose(), m.transpose().transpose())) {
        Err(msg) => tr.emit(panic_ev("transpose", msg, json!({}), c)),
        Ok((t, tt)) => tr.emit(json!({"k": "transpose", "res": "ok", "out": mj(&t), "out2": mj(&tt)})),
    }
    let k = r.random_range(1..=3usize);
    let b = rand_mat(r, k, cols, 0.5);
    match guarded(|| m.vstack(&b)) {
        Err(msg) => tr.emit(panic_ev("vstack", msg, json!({"b": mj(&b)}), c)),
        Ok(o) => tr.emit(json!({"k": "vstack", "b": mj(&b), "res": "ok", "out": mj(&o)})),
    }
    let k = r.random_range(1..=3usize);
    let b = rand_mat(r, rows, k, 0.5);
    match guarded(|| m.hstack(&b)) {
        Err(msg) => tr.emit(panic_ev("hstack", msg, json!({"b": mj(&b)}), c)),
        Ok(o) => tr.emit(json!({"k": "hstack", "b": mj(&b), "res": "ok", "out": mj(&o)})),
    }
    // products: m * b (random b) through all four operand-ownership overloads of Mul, m * m^T through one of them in
    // turn; TLC multiplies itself (the same MulOK for every overload)
    const FORMS: [&str; 4] = ["ref_ref", "ref_own", "own_ref", "own_own"];
    for j in 0..2 {
        let b = if j == 0 {
            let k = r.random_range(1..=cols.min(4) + 1);
            rand_mat(r, cols, k, 0.5)
        } else {
            m.transpose()
        };
        for (fi, form) in FORMS.iter().enumerate() {
            if j == 1 && fi != c.matrices % 4 {
                continue;
            }
            match guarded(|| match *form {
                "ref_ref" => m * &b,
                "ref_own" => m * b.clone(),
                "own_ref" => m.clone() * &b,
                _ => m.clone() * b.clone(),
            }) {
                Err(msg) => tr.emit(panic_ev("mul", msg, json!({"b": mj(&b), "form": form}), c)),
                Ok(o) => tr.emit(json!({"k": "mul", "form": form, "b": mj(&b), "res": "ok", "out": mj(&o)})),
            }
        }
    }
    // Hamming-weight helpers.  They sum into u8: a matrix with more than 255 ones makes weight() overflow (a panic in
    // this overflow-checked build, a wrapped value otherwise); TLC counts that as an observation, see Trace_F2
    match guarded(|| (0..rows).map(|i| m.row_weight(i) as usize).collect::<Vec<usize>>()) {
        Err(msg) => tr.emit(panic_ev("row_weight", msg, json!({}), c)),
        Ok(ws) => tr.emit(json!({"k": "row_weight", "res": "ok", "ret": ws})),
    }
    match guarded(|| m.weight() as usize) {
        Err(msg) => tr.emit(panic_ev("weight", msg, json!({"ret": 0}), c)),
        Ok(w) => tr.emit(json!({"k": "weight", "res": "ok", "ret": w})),
    }
    match guarded(|| m.unit_rows()) {
        Err(msg) => tr.emit(panic_ev("unit_rows", msg, json!({}), c)),
        Ok(us) => tr.emit(json!({"k": "unit_rows", "res": "ok", "ret": us})),
    }
    // constructors of the matrix's shape
    let ui = r.random_range(0..rows);
    for kind in ["zeros", "ones", "id", "unit_vector"] {
        let extra = json!({"kind": kind, "rows": rows, "cols": cols, "i": ui});
        match guarded(|| match kind {
            "zeros" => Mat2::zeros(rows, cols),
            "ones" => Mat2::ones(rows, cols),
            "id" => Mat2::id(rows),
            _ => Mat2::unit_vector(rows, ui),
        }) {
            Err(msg) => tr.emit(panic_ev("ctor", msg, extra, c)),
            Ok(o) => tr.emit(json!({"k": "ctor", "kind": kind, "rows": rows, "cols": cols, "i": ui, "res": "ok", "out": mj(&o),
                                    "nrows": o.num_rows(), "ncols": o.num_cols()})),
        }
    }
    // Index<(usize, usize)>: the whole matrix read entry by entry; IndexMut<(usize, usize)>: a few entries written
    match guarded(|| (0..rows).map(|i| (0..cols).map(|j| m[(i, j)]).collect::<Vec<u8>>()).collect::<Vec<_>>()) {
        Err(msg) => tr.emit(panic_ev("index", msg, json!({}), c)),
        Ok(o) => tr.emit(json!({"k": "index", "res": "ok", "out": o})),
    }
    {
        let n = r.random_range(1..=4usize);
        let sets: Vec<(usize, usize, u8)> = (0..n).map(|_| (r.random_range(0..rows), r.random_range(0..cols), r.random_bool(0.5) as u8)).collect();
        let mut y = m.clone();
        match guarded(|| {
            for (i, j, v) in &sets {
                y[(*i, *j)] = *v;
            }
        }) {
            Err(msg) => tr.emit(panic_ev("index_mut", msg, json!({}), c)),
            Ok(()) => tr.emit(json!({"k": "index_mut", "sets": sets.iter().map(|(i, j, v)| json!([i, j, v])).collect::<Vec<_>>(), "res": "ok", "out": mj(&y)})),
        }
    }
    // Display: one line "[ x x x ]" per row (observation + L1; the property fixes no text format)
    match guarded(|| format!("{m}")) {
        Err(msg) => tr.emit(panic_ev("display", msg, json!({}), c)),
        Ok(s) => tr.emit(json!({"k": "display", "res": "ok", "lines": s.lines().map(|x| x.to_string()).collect::<Vec<_>>(), "nl": s.ends_with('\n'),
                                "ascii": s.chars().all(|ch| ch == '\n' || ch == ' ' || ch.is_ascii_graphic())})),
    }
}

/// matrices built with the public constructors; the all-ones ones straddle the u8 range of weight()
fn special_matrices() -> Vec<Mat2> {
    let mut v = vec![
        Mat2::ones(1, 1),
        Mat2::zeros(5, 7),
        Mat2::ones(15, 17), // 255 ones: the largest weight a u8 holds
        Mat2::ones(17, 15),
        Mat2::ones(16, 16), // 256 ones
        Mat2::ones(24, 11), // 264 ones
        Mat2::ones(24, 24), // 576 ones
        Mat2::id(24),
        Mat2::unit_vector(24, 23),
        Mat2::unit_vector(1, 0),
    ];
    // 254 / 255 / 256 / 257 ones inside 24 x 24
    for ones in [254usize, 255, 256, 257] {
        v.push(Mat2::build(24, 24, |i, j| i * 24 + j < ones));
    }
    // a permutation matrix (every row a unit row) and one with a single heavy row
    v.push(Mat2::build(9, 9, |i, j| j == (i * 4) % 9));
    v.push(Mat2::build(6, 24, |i, j| i == 2 || j == i));
    v
}

/// seeded random matrix of one of several structural kinds
fn random_matrix(r: &mut StdRng, maxdim: usize) -> (Mat2, &'static str) {
    let big = r.random_bool(0.4);
    let lo = if big { (maxdim / 2).max(1) } else { 1 };
    let rows = r.random_range(lo..=maxdim);
    let cols = if r.random_bool(0.4) { rows } else { r.random_range(lo..=maxdim) };
    match r.random_range(0..9) {
        0 => (rand_mat(r, rows, cols, 0.5), "half"),
        1 => (rand_mat(r, rows, cols, 0.15), "sparse"),
        2 => (rand_mat(r, rows, cols, 0.85), "dense"),
        3 => {
            // low rank: (rows x k) * (k x cols)
            let k = r.random_range(1..=rows.min(cols).div_ceil(2));
            (&rand_mat(r, rows, k, 0.5) * &rand_mat(r, k, cols, 0.5), "lowrank")
        }
        4 => {
            // duplicate rows
            let mut m = rand_mat(r, rows, cols, 0.5);
            for _ in 0..r.random_range(1..=rows) {
                let (a, b) = (r.random_range(0..rows), r.random_range(0..rows));
                m[b] = m[a].clone();
            }
            (m, "duprows")
        }
        5 => {
            // zero rows and zero columns
            let mut m = rand_mat(r, rows, cols, 0.6);
            for _ in 0..r.random_range(1..=rows.div_ceil(3)) {
                let a = r.random_range(0..rows);
                m[a] = vec![0; cols];
            }
            for _ in 0..r.random_range(0..=cols / 3) {
                let b = r.random_range(0..cols);
                for i in 0..rows {
                    m[i][b] = 0;
                }
            }
            (m, "zerorows")
        }
        6 => {
            // invertible by construction: random transvections and swaps on the identity
            let n = rows;
            let mut m = Mat2::id(n);
            if n > 1 {
                for _ in 0..(4 * n) {
                    let (a, b) = (r.random_range(0..n), r.random_range(0..n));
                    if a != b {
                        if r.random_bool(0.8) { m.row_add(a, b) } else { m.row_swap(a, b) }
                    }
                }
            }
            (m, "invertible")
        }
        7 => {
            // repeated sub-rows: every row is assembled block by block from a small pool of chunks
            let w = r.random_range(1..=4usize.min(cols));
            let pool: Vec<Vec<u8>> = (0..3).map(|_| (0..w).map(|_| r.random_bool(0.5) as u8).collect()).collect();
            let d = (0..rows)
                .map(|_| {
                    let mut row: Vec<u8> = vec![];
                    while row.len() < cols {
                        row.extend(pool[r.random_range(0..3)].iter());
                    }
                    row.truncate(cols);
                    row
                })
                .collect();
            (Mat2::new(d), "chunky")
        }
        _ => {
            // triangular with unit diagonal on the common part, possibly permuted rows
            let mut m = Mat2::build(rows, cols, |i, j| i == j);
            for i in 0..rows {
                for j in (i + 1)..cols {
                    m[i][j] = r.random_bool(0.5) as u8;
                }
            }
            for _ in 0..rows {
                let (a, b) = (r.random_range(0..rows), r.random_range(0..rows));
                m.row_swap(a, b);
            }
            (m, "triangular")
        }
    }
}

pub fn record(args: &[String], seed: u64, tr: &mut Tr) -> Value {
    let mut c = Counts::default();
    let mut r = crate::gens::rng(seed ^ 0xf2f2);
    // ---- exhaustive family ----
    let mut shapes: Vec<(usize, usize)> = vec![];
    for e in args.iter().enumerate().filter(|(_, a)| *a == "--exhaustive").map(|(i, _)| args[i + 1].clone()) {
        let p: Vec<usize> = e.split(',').map(|x| x.parse().expect("--exhaustive R,C")).collect();
        for rows in 1..=p[0] {
            for cols in 1..=p[1] {
                if !shapes.contains(&(rows, cols)) {
                    shapes.push((rows, cols));
                }
            }
        }
    }
    shapes.sort();
    let stride: usize = arg_num::<usize>(args, "--stride", 1).max(1);
    let offset = seed as usize % stride;
    let mut idx = 0usize;
    let mut exhaustive = 0usize;
    for &(rows, cols) in &shapes {
        let bss: Vec<usize> = (1..=cols).collect();
        for bits in 0u64..(1u64 << (rows * cols)) {
            if idx % stride == offset {
                let m = Mat2::build(rows, cols, |i, j| (bits >> (i * cols + j)) & 1 == 1);
                one(&m, &bss, "exhaustive", &mut r, tr, &mut c);
                exhaustive += 1;
            }
            idx += 1;
        }
    }
    // ---- matrices from the constructors ----
    if args.iter().any(|a| a == "--special") {
        for m in special_matrices() {
            let cols = m.num_cols();
            let mut bss = vec![1, 2, 3, cols];
            bss.retain(|b| *b >= 1 && *b <= cols);
            bss.sort();
            bss.dedup();
            one(&m, &bss, "special", &mut r, tr, &mut c);
        }
    }
    // ---- seeded random matrices ----
    let nrand: usize = arg_num(args, "--random", 0);
    let maxdim: usize = arg_num(args, "--maxdim", 24);
    for _ in 0..nrand {
        let (m, kind) = random_matrix(&mut r, maxdim);
        let cols = m.num_cols();
        let mut bss = vec![1, 2, 3, cols, r.random_range(1..=cols), r.random_range(1..=cols)];
        bss.retain(|b| *b >= 1 && *b <= cols);
        bss.sort();
        bss.dedup();
        one(&m, &bss, kind, &mut r, tr, &mut c);
    }
    json!({"matrices": c.matrices, "exhaustive": exhaustive, "random": nrand, "shapes": shapes.len(), "gauss_runs": c.gauss_runs,
           "ops_logged": c.ops_logged, "panics": c.panics, "inverse_some": c.inverse_some, "inverse_none": c.inverse_none,
           "nullspace_vectors": c.nullspace_vectors, "max_rows": c.max_rows, "max_cols": c.max_cols, "kinds": c.kinds})
}
