//! Trace output (sharded ndjson), panic capture, small helpers.

use serde_json::Value;
use std::cell::RefCell;
use std::fs::File;
use std::io::{BufWriter, Write};
use std::panic::{catch_unwind, AssertUnwindSafe};

use crate::absg::assert_tlc_safe;

thread_local! {
    static LAST_PANIC: RefCell<String> = const { RefCell::new(String::new()) };
}

pub fn install_quiet_panic_hook() {
    std::panic::set_hook(Box::new(|info| {
        let msg = format!("{info}");
        LAST_PANIC.with(|p| *p.borrow_mut() = msg);
    }));
}

/// Run `f`; a panic in the code under test is data, not a crash of the harness.
pub fn guarded<T>(f: impl FnOnce() -> T) -> Result<T, String> {
    match catch_unwind(AssertUnwindSafe(f)) {
        Ok(v) => Ok(v),
        Err(_) => Err(LAST_PANIC.with(|p| {
            let s = p.borrow().clone();
            s.chars().filter(|c| c.is_ascii() && *c != '"' && *c != '\\' && *c != '\n').take(160).collect()
        })),
    }
}

/// Sharded trace writer: groups (a `reset` line and the events that follow it) are dealt
/// round-robin to `<prefix>.<i>.ndjson` so that the driver can validate shards in parallel.
pub struct Tr {
    ws: Vec<BufWriter<File>>,
    cur: usize,
    pub lines: usize,
    pub groups: usize,
}

impl Tr {
    pub fn new(prefix: &str, shards: usize) -> Tr {
        let ws = (0..shards)
            .map(|i| BufWriter::new(File::create(format!("{prefix}.{i}.ndjson")).expect("create trace shard")))
            .collect();
        Tr { ws, cur: 0, lines: 0, groups: 0 }
    }
    /// start a new group on the next shard
    pub fn group(&mut self) {
        self.cur = (self.cur + 1) % self.ws.len();
        self.groups += 1;
    }
    pub fn emit(&mut self, v: Value) {
        assert_tlc_safe(&v);
        let w = &mut self.ws[self.cur];
        serde_json::to_writer(&mut *w, &v).unwrap();
        w.write_all(b"\n").unwrap();
        self.lines += 1;
    }
    pub fn finish(mut self) -> (usize, usize) {
        for w in self.ws.iter_mut() {
            w.flush().unwrap();
        }
        (self.groups, self.lines)
    }
}

pub fn arg_val(args: &[String], key: &str) -> Option<String> {
    args.iter().position(|a| a == key).and_then(|i| args.get(i + 1).cloned())
}
pub fn arg_num<T: std::str::FromStr>(args: &[String], key: &str, default: T) -> T {
    arg_val(args, key).and_then(|s| s.parse().ok()).unwrap_or(default)
}
pub fn arg_flag(args: &[String], key: &str) -> bool {
    args.iter().any(|a| a == key)
}
