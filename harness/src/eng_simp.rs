//! C01 / C10 (simplifier layer): run every `pub fn` of simplify.rs on a diagram in both
//! backends under a watchdog and record the result; TLC (mc/Trace_Simp) decides
//! Den(post) = Den(pre) under every assignment of the boolean variables.

use crate::absg::{abs, abs_snapshot, build, canon};
use crate::util::{guarded, Tr};
use quizx::graph::*;
use quizx::simplify::*;
use serde_json::{json, Value};
use std::sync::mpsc;
use std::time::Duration;

pub const SIMPS: &[&str] = &[
    "id_simp",
    "local_comp_simp",
    "spider_simp",
    "pivot_simp",
    "gen_pivot_simp",
    "scalar_simp",
    "flow_simp",
    "interior_clifford_simp",
    "clifford_simp",
    "fuse_gadgets",
    "full_simp",
    "local_gslc_simp",
    "local_ap_simp",
    "local_ap_simp_rev",
    "x_to_z",
];

pub fn run_simp<G: GraphLike>(name: &str, g: &mut G) -> bool {
    match name {
        "id_simp" => id_simp(g),
        "local_comp_simp" => local_comp_simp(g),
        "spider_simp" => spider_simp(g),
        "pivot_simp" => pivot_simp(g),
        "gen_pivot_simp" => gen_pivot_simp(g),
        "scalar_simp" => scalar_simp(g),
        "flow_simp" => flow_simp(g),
        "interior_clifford_simp" => interior_clifford_simp(g),
        "clifford_simp" => clifford_simp(g),
        "fuse_gadgets" => fuse_gadgets(g),
        "full_simp" => full_simp(g),
        "local_gslc_simp" => {
            let mut vs = g.vertex_vec();
            vs.sort();
            local_gslc_simp(g, vs);
            true
        }
        "local_ap_simp" => {
            let mut vs = g.vertex_vec();
            vs.sort();
            local_ap_simp(g, vs);
            true
        }
        "local_ap_simp_rev" => {
            let mut vs = g.vertex_vec();
            vs.sort();
            vs.reverse();
            local_ap_simp(g, vs);
            true
        }
        "x_to_z" => {
            g.x_to_z();
            true
        }
        _ => panic!("simp {name}"),
    }
}

/// Run `f` on its own thread; None if it does not finish within `secs` (the thread is left behind).
pub fn with_watchdog<T: Send + 'static>(secs: u64, f: impl FnOnce() -> T + Send + 'static) -> Option<T> {
    let (tx, rx) = mpsc::channel();
    std::thread::Builder::new()
        .stack_size(16 << 20)
        .spawn(move || {
            let r = f();
            let _ = tx.send(r);
        })
        .expect("spawn");
    rx.recv_timeout(Duration::from_secs(secs)).ok()
}

fn run_one<G: GraphLike>(a: &Value, name: &'static str, be: &str) -> Value {
    let mut g: G = build(a);
    match guarded(|| run_simp(name, &mut g)) {
        Err(msg) => json!({"k": "simp", "fn": name, "be": be, "res": "panic", "msg": msg}),
        Ok(ret) => json!({"k": "simp", "fn": name, "be": be, "res": "ok", "ret": ret, "post": abs(&g)}),
    }
}

/// the simplifiers whose every application is reported by hook H3
pub const STEP_FNS: &[&str] = &["id_simp", "local_comp_simp", "spider_simp", "pivot_simp", "gen_pivot_simp", "scalar_simp", "flow_simp",
                                "interior_clifford_simp", "clifford_simp", "fuse_gadgets", "full_simp"];

/// one simplifier with hook H3 installed: rbegin, one rstep per rule application / pack / batch step (with the diagram
/// after it), rend with the final diagram (mc/Trace_Simp.tla checks each step is a step of spec/Simp.tla)
pub fn run_steps<G: GraphLike>(a: &Value, name: &'static str, be: &str) -> Vec<Value> {
    use std::sync::{Arc, Mutex};
    let steps: Arc<Mutex<Vec<Value>>> = Arc::new(Mutex::new(vec![]));
    let (a1, be1, st) = (a.clone(), be.to_string(), steps.clone());
    let r = with_watchdog(25, move || {
        let mut g: G = build(&a1);
        let st2 = st.clone();
        let be2 = be1.clone();
        quizx::simplify::verif::set_sink(Some(Box::new(move |e: quizx::simplify::verif::RuleEvent| {
            let mut v = st2.lock().unwrap();
            if v.len() < 400 {
                v.push(json!({"k": "rstep", "fn": name, "be": be2, "rule": e.rule, "args": e.args,
                              "post": abs_snapshot(&e.verts, &e.edges, &e.inputs, &e.outputs, &e.scalar, &e.scalar_factors)}));
            }
        })));
        let r = guarded(|| run_simp(name, &mut g));
        quizx::simplify::verif::set_sink(None);
        match r {
            Err(msg) => json!({"k": "rend", "fn": name, "be": be1, "res": "panic", "msg": msg}),
            Ok(ret) => json!({"k": "rend", "fn": name, "be": be1, "res": "ok", "ret": ret, "post": abs(&g)}),
        }
    });
    let mut out = vec![json!({"k": "rbegin", "fn": name, "be": be})];
    out.extend(steps.lock().unwrap().iter().cloned());
    out.push(r.unwrap_or_else(|| json!({"k": "rend", "fn": name, "be": be, "res": "timeout"})));
    out
}

pub fn record_steps(a: &Value, tr: &mut Tr, fns: &[&'static str], idx: usize) {
    tr.group();
    tr.emit(json!({"k": "reset", "pre": a}));
    for (i, &name) in fns.iter().filter(|n| STEP_FNS.contains(n)).enumerate() {
        let evs = if (idx + i) % 2 == 0 { run_steps::<quizx::vec_graph::Graph>(a, name, "vec") } else { run_steps::<quizx::hash_graph::Graph>(a, name, "hash") };
        for e in evs {
            tr.emit(e);
        }
    }
}

/// all functions on one diagram in one watchdog thread; if it does not come back the
/// functions are re-run one by one to find the one that does not terminate
fn batch<G: GraphLike + 'static>(a: &Value, fns: &[&'static str], be: &'static str) -> Vec<Value> {
    let (a1, f1) = (a.clone(), fns.to_vec());
    if let Some(v) = with_watchdog(20 + fns.len() as u64, move || f1.iter().map(|n| run_one::<G>(&a1, n, be)).collect::<Vec<_>>()) {
        return v;
    }
    fns.iter()
        .map(|&n| {
            let a1 = a.clone();
            with_watchdog(20, move || run_one::<G>(&a1, n, be))
                .unwrap_or_else(|| json!({"k": "simp", "fn": n, "be": be, "res": "timeout"}))
        })
        .collect()
}

pub fn record_diagram(a: &Value, tr: &mut Tr, fns: &[&'static str], counts: &mut std::collections::BTreeMap<String, usize>) {
    tr.group();
    tr.emit(json!({"k": "reset", "pre": a}));
    let evs = batch::<quizx::vec_graph::Graph>(a, fns, "vec");
    let ehs = batch::<quizx::hash_graph::Graph>(a, fns, "hash");
    for (i, &name) in fns.iter().enumerate() {
        let ev = evs[i].clone();
        let eh = ehs[i].clone();
        let changed = eh.get("post").map(|p| canon(p) != canon(a)).unwrap_or(true);
        if changed {
            *counts.entry(name.to_string()).or_insert(0) += 1;
        }
        let same = {
            let mut x = ev.clone();
            let mut y = eh.clone();
            x["be"] = json!("");
            y["be"] = json!("");
            if let (Some(px), Some(py)) = (ev.get("post"), eh.get("post")) {
                x["post"] = canon(px);
                y["post"] = canon(py);
            }
            x == y
        };
        if same {
            let mut e = eh;
            e["be"] = json!("both");
            tr.emit(e);
        } else {
            tr.emit(ev);
            tr.emit(eh);
        }
    }
}
