//! C01 / C10 (simplifier layer): run every `pub fn` of simplify.rs on a diagram in both
//! backends under a watchdog and record the result; TLC (mc/Trace_Simp) decides
//! Den(post) = Den(pre) under every assignment of the boolean variables.

use crate::absg::{abs, abs_snapshot, build, canon};
use crate::util::{guarded, Tr};
use quizx::graph::*;
use quizx::simplify::*;
use serde_json::{json, Value};
use std::sync::mpsc;
use std::time::Duration;

pub const SIMPS: &[&str] = &[
    "id_simp",
    "local_comp_simp",
    "spider_simp",
    "pivot_simp",
    "gen_pivot_simp",
    "scalar_simp",
    "flow_simp",
    "interior_clifford_simp",
    "clifford_simp",
    "fuse_gadgets",
    "full_simp",
    "local_gslc_simp",
    "local_ap_simp",
    "local_ap_simp_rev",
    "x_to_z",
];

pub fn run_simp<G: GraphLike>(name: &str, g: &mut G) -> bool {
    match name {
        "id_simp" => id_simp(g),
        "local_comp_simp" => local_comp_simp(g),
        "spider_simp" => spider_simp(g),
        "pivot_simp" => pivot_simp(g),
        "gen_pivot_simp" => gen_pivot_simp(g),
        "scalar_simp" => scalar_simp(g),
        "flow_simp" => flow_simp(g),
        "interior_clifford_simp" => interior_clifford_simp(g),
        "clifford_simp" => clifford_simp(g),
        "fuse_gadgets" => fuse_gadgets(g),
        "full_simp" => full_simp(g),
        "local_gslc_simp" => {
            let mut vs = g.vertex_vec();
            vs.sort();
            local_gslc_simp(g, vs);
            true
        }
        "local_ap_simp" => {
            let mut vs = g.vertex_vec();
            vs.sort();
            local_ap_simp(g, vs);
            true
        }
        "local_ap_simp_rev" => {
            let mut vs = g.vertex_vec();
            vs.sort();
            vs.reverse();
            local_ap_simp(g, vs);
            true
        }
        "x_to_z" => {
            g.x_to_z();
            true
        }
        _ => panic!("simp {name}"),
    }
}

/// Run `f` on its own thread; None if it does not finish within `secs` (the thread is left behind).
pub fn with_watchdog<T: Send + 'static>(secs: u64, f: impl FnOnce() -> T + Send + 'static) -> Option<T> {
    let (tx, rx) = mpsc::channel();
    std::thread::Builder::new()
        .stack_size(16 << 20)
        .spawn(move || {
            let r = f();
            let _ = tx.send(r);
        })
        .expect("spawn");
    rx.recv_timeout(Duration::from_secs(secs)).ok()
}

fn run_one<G: GraphLike>(a: &Value, name: &'static str, be: &str) -> Value {
    let mut g: G = build(a);
    match guarded(|| run_simp(name, &mut g)) {
        Err(msg) => json!({"k": "simp", "fn": name, "be": be, "res": "panic", "msg": msg}),
        Ok(ret) => json!({"k": "simp", "fn": name, "be": be, "res": "ok", "ret": ret, "post": abs(&g)}),
    }
}

/// the simplifiers whose every application is reported by hook H3
pub const STEP_FNS: &[&str] = &["id_simp", "local_comp_simp", "spider_simp", "pivot_simp", "gen_pivot_simp", "scalar_simp", "flow_simp",
                                "interior_clifford_simp", "clifford_simp", "fuse_gadgets", "full_simp"];

/// one simplifier with hook H3 installed: rbegin, one rstep per rule application / pack / batch step (with the diagram
/// after it), rend with the final diagram (mc/Trace_Simp.tla checks each step is a step of spec/Simp.tla)
pub fn run_steps<G: GraphLike>(a: &Value, name: &'static str, be: &str) -> Vec<Value> {
    use std::sync::{Arc, Mutex};
    let steps: Arc<Mutex<Vec<Value>>> = Arc::new(Mutex::new(vec![]));
    let (a1, be1, st) = (a.clone(), be.to_string(), steps.clone());
    let r = with_watchdog(25, move || {
        let mut g: G = build(&a1);
        let st2 = st.clone();
        let be2 = be1.clone();
        quizx::simplify::verif::set_sink(Some(Box::new(move |e: quizx::simplify::verif::RuleEvent| {
            let mut v = st2.lock().unwrap();
            if v.len() < 400 {
                v.push(json!({"k": "rstep", "fn": name, "be": be2, "rule": e.rule, "args": e.args,
                              "post": abs_snapshot(&e.verts, &e.edges, &e.inputs, &e.outputs, &e.scalar, &e.scalar_factors)}));
            }
        })));
        let r = guarded(|| run_simp(name, &mut g));
        quizx::simplify::verif::set_sink(None);
        match r {
            Err(msg) => json!({"k": "rend", "fn": name, "be": be1, "res": "panic", "msg": msg}),
            Ok(ret) => json!({"k": "rend", "fn": name, "be": be1, "res": "ok", "ret": ret, "post": abs(&g)}),
        }
    });
    let mut out = vec![json!({"k": "rbegin", "fn": name, "be": be})];
    out.extend(steps.lock().unwrap().iter().cloned());
    out.push(r.unwrap_or_else(|| json!({"k": "rend", "fn": name, "be": be, "res": "timeout"})));
    out
}

pub fn record_steps(a: &Value, tr: &mut Tr, fns: &[&'static str], idx: usize) {
    tr.group();
    tr.emit(json!({"k": "reset", "pre": a}));
    for (i, &name) in fns.iter().filter(|n| STEP_FNS.contains(n)).enumerate() {
        let evs = if (idx + i) % 2 == 0 { run_steps::<quizx::vec_graph::Graph>(a, name, "vec") } else { run_steps::<quizx::hash_graph::Graph>(a, name, "hash") };
        for e in evs {
            tr.emit(e);
        }
    }
}

/// all functions on one diagram in one watchdog thread; if it does not come back the
/// functions are re-run one by one to find the one that does not terminate
fn batch<G: GraphLike + 'static>(a: &Value, fns: &[&'static str], be: &'static str) -> Vec<Value> {
    let (a1, f1) = (a.clone(), fns.to_vec());
    if let Some(v) = with_watchdog(20 + fns.len() as u64, move || f1.iter().map(|n| run_one::<G>(&a1, n, be)).collect::<Vec<_>>()) {
        return v;
    }
    fns.iter()
        .map(|&n| {
            let a1 = a.clone();
            with_watchdog(20, move || run_one::<G>(&a1, n, be))
                .unwrap_or_else(|| json!({"k": "simp", "fn": n, "be": be, "res": "timeout"}))
        })
        .collect()
}

pub fn record_diagram(a: &Value, tr: &mut Tr, fns: &[&'static str], counts: &mut std::collections::BTreeMap<String, usize>) {
    tr.group();
    tr.emit(json!({"k": "reset", "pre": a}));
    let evs = batch::<quizx::vec_graph::Graph>(a, fns, "vec");
    let ehs = batch::<quizx::hash_graph::Graph>(a, fns, "hash");
    for (i, &name) in fns.iter().enumerate() {
        let ev = evs[i].clone();
        let eh = ehs[i].clone();
        let changed = eh.get("post").map(|p| canon(p) != canon(a)).unwrap_or(true);
        if changed {
            *counts.entry(name.to_string()).or_insert(0) += 1;
        }
        let same = {
            let mut x = ev.clone();
            let mut y = eh.clone();
            x["be"] = json!("");
            y["be"] = json!("");
            if let (Some(px), Some(py)) = (ev.get("post"), eh.get("post")) {
                x["post"] = canon(px);
                y["post"] = canon(py);
            }
            x == y
        };
        if same {
            let mut e = eh;
            e["be"] = json!("both");
            tr.emit(e);
        } else {
            tr.emit(ev);
            tr.emit(eh);
        }
    }
}

// ---------------------------------------------------------------------------------------------
// GENERIC-PHASE tier (`--generic N`): diagrams whose phases are NOT multiples of pi/4, i.e. the clause "otherwise it holds
// to floating-point tolerance" of C01.  The scalar of the result is then a float-approximate Scalar4 (the float branch of
// `From<Phase> for Scalar4`, one_plus_phase, mul_phase, the approx flags).  TLC cannot decide floating point: the
// harness evaluates pre and post with the independent float reference evaluator (refeval.rs, itself validated against
// the specification's exact Den by Trace_Tensor!RefEvalOK) and logs the BOOLEAN `close` = max entry difference <= 1e-9
// (relative to the largest entry, at least 1); mc/Trace_Simp.tla judges it (SoundFloat, NoPanic, Terminates).
//   begin {what: "generic", pre}                       header (the diagram, phases as [n,d])
//   simpf {fn, be, res: ok|panic|timeout, close, approx, changed}
// ---------------------------------------------------------------------------------------------

fn run_one_f<G: GraphLike>(a: &Value, name: &'static str, be: &str, pre: &[crate::refeval::C]) -> Value {
    let mut g: G = crate::refeval::build_f(a);
    let a0 = abs(&g);
    match guarded(|| run_simp(name, &mut g)) {
        Err(msg) => json!({"k": "simpf", "fn": name, "be": be, "res": "panic", "msg": msg}),
        Ok(_) => {
            let post = crate::refeval::abs_f(&g);
            // the work of the naive evaluator is bounded; gen_pivot-type rules create vertices, so measure the result
            if crate::refeval::den_bits(&post) > crate::refeval::MAX_BITS {
                return json!({"k": "simpf", "fn": name, "be": be, "res": "toobig"});
            }
            let close = crate::refeval::close(&crate::refeval::ref_den(&post), pre, 1e-9);
            let mut p2 = post.clone();
            p2.as_object_mut().unwrap().remove("scf");
            json!({"k": "simpf", "fn": name, "be": be, "res": "ok", "close": close, "approx": crate::absg::sc_is_approx(g.scalar()),
                   "changed": canon(&p2) != canon(&a0)})
        }
    }
}

fn batch_f<G: GraphLike + 'static>(a: &Value, fns: &[&'static str], be: &'static str, pre: &[crate::refeval::C]) -> Vec<Value> {
    let (a1, f1, p1) = (a.clone(), fns.to_vec(), pre.to_vec());
    if let Some(v) = with_watchdog(20 + fns.len() as u64, move || f1.iter().map(|n| run_one_f::<G>(&a1, n, be, &p1)).collect::<Vec<_>>()) {
        return v;
    }
    fns.iter()
        .map(|&n| {
            let (a1, p1) = (a.clone(), pre.to_vec());
            with_watchdog(20, move || run_one_f::<G>(&a1, n, be, &p1)).unwrap_or_else(|| json!({"k": "simpf", "fn": n, "be": be, "res": "timeout"}))
        })
        .collect()
}

/// all simplifiers on one generic-phase diagram, both backends (one event when both say the same)
pub fn record_generic_diagram(a: &Value, tr: &mut Tr, fns: &[&'static str]) {
    tr.group();
    tr.emit(json!({"k": "begin", "what": "generic", "pre": a}));
    let pre = crate::refeval::ref_den(a);
    let evs = batch_f::<quizx::vec_graph::Graph>(a, fns, "vec", &pre);
    let ehs = batch_f::<quizx::hash_graph::Graph>(a, fns, "hash", &pre);
    for (ev, eh) in evs.into_iter().zip(ehs.into_iter()) {
        let same = {
            let (mut x, mut y) = (ev.clone(), eh.clone());
            x["be"] = json!("");
            y["be"] = json!("");
            x == y
        };
        if same {
            let mut e = eh;
            e["be"] = json!("both");
            tr.emit(e);
        } else {
            tr.emit(ev);
            tr.emit(eh);
        }
    }
}

pub fn record_generic(n: usize, seed: u64, tr: &mut Tr, fns: &[&'static str]) -> usize {
    let mut r = crate::gens::rng(seed ^ 0x6e7e);
    for i in 0..n {
        // every fourth diagram is obtained from a circuit with generic rz / rx / parity-phase angles ("and for all diagrams
        // obtained from circuits"); to_graph only supplies the input here (C02 judges it)
        let a = if i % 4 == 3 {
            let cj = crate::circ::generic_circuit(&mut r, 2, 5, true, 0);
            let g: quizx::vec_graph::Graph = crate::circ::circ_from_json(&cj).to_graph();
            abs(&g)
        } else {
            crate::gens::generic_diagram(&mut r, i)
        };
        if a["sc"].is_array() && crate::refeval::den_bits(&a) <= 16 {
            record_generic_diagram(&a, tr, fns);
        }
    }
    n
}
