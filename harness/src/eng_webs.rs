//! C20: detection webs.  One execution = one diagram (Z/X spiders, phases 0/pi, plain edges,
//! boundaries attached anywhere) on which `quizx::detection_webs::detection_webs` ran under three
//! numberings of the SAME diagram: boundaries numbered first, last and interleaved with the
//! spiders.  Logged per call: the diagram the call left behind (it is made bipartite in place),
//! every returned web as the list of its non-identity edges, inputs/outputs afterwards.
//! TLC (mc/Trace_Webs.tla) decides validity, independence, completeness (against the space the
//! specification computes on the logged bipartite diagram), numbering independence, restoration
//! of inputs/outputs and Den(bipartite form) = Den(original).
//!
//! `detection_webs` is only defined for `hash_graph::Graph` (its signature names the type), so the
//! web events all carry be = "hash"; the trait method `make_bipartite` is additionally run on
//! `vec_graph::Graph` (event `bip`).
//!
//!   --exhaustive K,B   every diagram with <= K spiders and 0..=B boundaries (Family enumeration)
//!   --bb               additionally with one boundary-to-boundary wire
//!   --stride n         keep a pseudo-random 1/n of the enumerated diagrams (class = seed mod n)
//!   --named            a fixed list of diagrams with non-trivial web spaces
//!   --random N         seeded random diagrams, <= --maxsp (6) spiders, <= --maxb (3) boundaries
//!   --maxbip M         skip/resample diagrams whose bipartite form has more than M spiders (12)
//!   --api              additionally exercise the public read/write API around a web (audit item #23), per diagram:
//!                        `lookups` on every webs/renumber event: PauliWeb::edge(u, v) asked for EVERY ordered pair of
//!                                   vertex names 0..=max (both orders, non-edges, u = v); the answers that are Some
//!                        pw        `detection_webs::pw` called directly with caller-chosen firing vectors on the
//!                                   bipartite diagram the call left behind (own index map, own column offset)
//!                        adj       GraphLike::adjacency_matrix(None) and (Some(list)) on both backends
//!                        store     PauliWeb::new + a seeded sequence of set_edge calls (either argument order,
//!                                   repeated pairs), then edge_operators and all lookups

use crate::absg::{abs, build};
use crate::gens::{self, mk, Family, RandCfg, AV};
use crate::util::{arg_flag, arg_num, arg_val, guarded, Tr};
use bitgauss::BitMatrix;
use quizx::detection_webs::{detection_webs, pw, Pauli, PauliWeb};
use rand::Rng;
use std::collections::HashMap;
use quizx::graph::GraphLike;
use serde_json::{json, Value};
use std::collections::BTreeMap;

fn ids(a: &Value, want_b: bool) -> Vec<u64> {
    let mut v: Vec<u64> = a["v"]
        .as_array()
        .unwrap()
        .iter()
        .filter(|x| (x["ty"] == "B") == want_b)
        .map(|x| x["id"].as_u64().unwrap())
        .collect();
    v.sort();
    v
}

/// the same diagram with vertex `x` renamed to `m[x]`
fn rename(a: &Value, m: &BTreeMap<u64, u64>) -> Value {
    let f = |x: &Value| json!(m[&x.as_u64().unwrap()]);
    let mut vs: Vec<Value> = a["v"]
        .as_array()
        .unwrap()
        .iter()
        .map(|v| {
            let mut w = v.clone();
            w["id"] = f(&v["id"]);
            w
        })
        .collect();
    vs.sort_by_key(|v| v["id"].as_u64().unwrap());
    let mut es: Vec<(u64, u64, String)> = a["e"]
        .as_array()
        .unwrap()
        .iter()
        .map(|e| {
            let (u, w) = (m[&e["u"].as_u64().unwrap()], m[&e["w"].as_u64().unwrap()]);
            (u.min(w), u.max(w), e["t"].as_str().unwrap().to_string())
        })
        .collect();
    es.sort();
    let es: Vec<Value> = es.into_iter().map(|(u, w, t)| json!({"u": u, "w": w, "t": t})).collect();
    let mut b = a.clone();
    b["v"] = json!(vs);
    b["e"] = json!(es);
    b["ins"] = Value::Array(a["ins"].as_array().unwrap().iter().map(f).collect());
    b["outs"] = Value::Array(a["outs"].as_array().unwrap().iter().map(f).collect());
    b
}

/// the numberings: boundaries first / last / interleaved (spider i -> 2i, boundary j -> 2j+1), and with two or more
/// boundaries also first / last with the boundaries in reversed order
fn numbering(a: &Value, how: &str) -> BTreeMap<u64, u64> {
    let (sp, bs) = (ids(a, false), ids(a, true));
    let (k, m) = (sp.len() as u64, bs.len() as u64);
    let mut map = BTreeMap::new();
    for (i, &s) in sp.iter().enumerate() {
        let i = i as u64;
        map.insert(s, match how { "first" | "first_rev" => m + i, "last" | "last_rev" => i, _ => 2 * i });
    }
    for (j, &b) in bs.iter().enumerate() {
        let j = j as u64;
        // *_rev: the boundaries among themselves in REVERSED order (seed C20_f: the boundary with the largest id then is an
        // attached one although the diagram has a bare boundary-to-boundary wire, whose vertices the family names last)
        map.insert(b, match how { "first" => j, "last" => k + j, "first_rev" => m - 1 - j, "last_rev" => k + (m - 1 - j), _ => 2 * j + 1 });
    }
    map
}

/// signature tags of the input (for known_findings.json)
fn tags(a: &Value, how: &str) -> Vec<String> {
    let (sp, bs) = (ids(a, false), ids(a, true));
    let mut t = vec![format!("num={how}")];
    if !bs.is_empty() && !sp.is_empty() && bs.iter().max() > sp.iter().min() {
        t.push("boundaries_not_first".into());
    }
    let es = a["e"].as_array().unwrap();
    let deg = |x: u64| es.iter().filter(|e| e["u"].as_u64() == Some(x) || e["w"].as_u64() == Some(x)).count();
    if es.iter().any(|e| bs.contains(&e["u"].as_u64().unwrap()) && bs.contains(&e["w"].as_u64().unwrap())) {
        t.push("bb_wire".into());
    }
    if sp.iter().any(|&s| deg(s) == 0) {
        t.push("isolated_spider".into());
    }
    if bs.is_empty() {
        t.push("no_boundary".into());
    }
    t
}

fn pauli_str(p: Pauli) -> &'static str {
    match p {
        Pauli::X => "X",
        Pauli::Y => "Y",
        Pauli::Z => "Z",
    }
}

fn web_json(w: &PauliWeb) -> Value {
    let mut es: Vec<(usize, usize, &str)> = w.edge_operators.iter().map(|(&(u, v), &p)| (u, v, pauli_str(p))).collect();
    es.sort();
    Value::Array(es.into_iter().map(|(u, v, p)| json!([u, v, p])).collect())
}

/// PauliWeb::edge asked for every ordered pair (u, v) of 0..=maxid, u = v included: the answers that are Some
fn lookups_json(w: &PauliWeb, maxid: usize) -> Value {
    let mut out = vec![];
    for u in 0..=maxid {
        for v in 0..=maxid {
            if let Some(p) = w.edge(u, v) {
                out.push(json!([u, v, pauli_str(p)]));
            }
        }
    }
    Value::Array(out)
}

fn max_id(g: &impl GraphLike) -> usize {
    g.vertices().max().map(|m| m + 1).unwrap_or(1)
}

/// run detection_webs on `a` and describe the outcome (fields shared by `webs` and `renumber`);
/// also hands back the graph the call left behind
fn call(a: &Value, api: bool) -> (Value, Option<quizx::hash_graph::Graph>) {
    let mut g: quizx::hash_graph::Graph = build(a);
    let r = guarded(|| detection_webs(&mut g));
    match r {
        Err(msg) => (json!({"be": "hash", "res": "panic", "msg": msg, "count": -1}), None),
        Ok(ws) => {
            let mut e = json!({"be": "hash", "res": "ok", "bip": abs(&g), "count": ws.len(),
                               "webs": ws.iter().map(web_json).collect::<Vec<Value>>(),
                               "ins": g.inputs(), "outs": g.outputs()});
            if api {
                // one name beyond the largest: a vertex that does not exist
                let m = max_id(&g);
                e["lookups"] = Value::Array(ws.iter().map(|w| lookups_json(w, m)).collect());
                e["asked_upto"] = json!(m);
            }
            (e, Some(g))
        }
    }
}

/// `pw` called directly: the caller owns the index map (matrix column - offset -> vertex) and the firing vector.
/// `pw` takes the offset from the graph: g.inputs().len() + g.outputs().len().
fn pw_events(g: &quizx::hash_graph::Graph, r: &mut impl Rng, tags: &[String]) -> Vec<Value> {
    let mut sp: Vec<usize> = g.vertices().filter(|&v| g.vertex_type(v) != quizx::graph::VType::B).collect();
    sp.sort();
    if sp.is_empty() {
        return vec![];
    }
    let off = g.inputs().len() + g.outputs().len();
    let mut out = vec![];
    // the empty set, every single spider (<= 4 of them), a few random subsets; node order ascending or shuffled
    let mut sets: Vec<Vec<usize>> = vec![vec![]];
    for _ in 0..sp.len().min(4) {
        sets.push(vec![sp[r.random_range(0..sp.len())]]);
    }
    for _ in 0..4 {
        sets.push(sp.iter().copied().filter(|_| r.random_bool(0.5)).collect());
    }
    sets.push(sp.clone());
    for (k, f) in sets.into_iter().enumerate() {
        let mut order = sp.clone();
        if k % 2 == 1 {
            for i in (1..order.len()).rev() {
                order.swap(i, r.random_range(0..=i));
            }
        }
        let index_map: HashMap<usize, usize> = order.iter().enumerate().map(|(i, &v)| (i, v)).collect();
        let mut v = BitMatrix::zeros(1, off + order.len());
        for (i, x) in order.iter().enumerate() {
            if f.contains(x) {
                v.set_bit(0, off + i, true);
            }
        }
        let ev = match guarded(|| pw(&index_map, &v, g)) {
            Err(msg) => json!({"k": "pw", "res": "panic", "msg": msg, "bip": abs(g), "fire": f, "order": order, "tags": tags}),
            Ok(w) => json!({"k": "pw", "res": "ok", "bip": abs(g), "fire": f, "order": order, "web": web_json(&w),
                            "lookups": lookups_json(&w, max_id(g)), "asked_upto": max_id(g), "tags": tags}),
        };
        out.push(ev);
    }
    out
}

fn adj_event<G: GraphLike>(a: &Value, be: &str, how: &str, r: &mut impl Rng, tags: &[String]) -> Value {
    let g: G = build(a);
    let all: Vec<usize> = g.vertices().collect(); // the order adjacency_matrix(None) documents: "all vertices in the graph"
    let list: Option<Vec<usize>> = match how {
        "none" => None,
        "rev" => {
            let mut l = all.clone();
            l.sort();
            l.reverse();
            Some(l)
        }
        _ => {
            let mut l: Vec<usize> = all.iter().copied().filter(|_| r.random_bool(0.6)).collect();
            for i in (1..l.len()).rev() {
                l.swap(i, r.random_range(0..=i));
            }
            Some(l)
        }
    };
    let order = list.clone().unwrap_or(all);
    match guarded(|| g.adjacency_matrix(list.as_deref())) {
        Err(msg) => json!({"k": "adj", "be": be, "how": how, "res": "panic", "msg": msg, "order": order, "tags": tags}),
        Ok(m) => {
            let rows: Vec<Vec<u8>> = (0..m.rows()).map(|i| (0..m.cols()).map(|j| m.bit(i, j) as u8).collect()).collect();
            json!({"k": "adj", "be": be, "how": how, "res": "ok", "order": order, "rows": rows, "ncols": m.cols(), "tags": tags})
        }
    }
}

/// PauliWeb::new + set_edge with caller-chosen arguments
fn store_event(r: &mut impl Rng, tags: &[String]) -> Value {
    let n = r.random_range(2..=6usize);
    let nops = r.random_range(0..=10usize);
    let ops: Vec<(usize, usize, Pauli)> = (0..nops)
        .map(|_| (r.random_range(0..n), r.random_range(0..n), [Pauli::X, Pauli::Y, Pauli::Z][r.random_range(0..3)]))
        .collect();
    let ops_j: Vec<Value> = ops.iter().map(|&(u, v, p)| json!([u, v, pauli_str(p)])).collect();
    match guarded(|| {
        let mut w = PauliWeb::new();
        let empty = w.edge_operators.is_empty();
        for &(u, v, p) in &ops {
            w.set_edge(u, v, p);
        }
        (w, empty)
    }) {
        Err(msg) => json!({"k": "store", "res": "panic", "msg": msg, "ops": ops_j, "tags": tags}),
        Ok((w, empty)) => json!({"k": "store", "res": "ok", "ops": ops_j, "new_is_empty": empty, "web": web_json(&w),
                                 "lookups": lookups_json(&w, n), "asked_upto": n, "tags": tags}),
    }
}

fn merge(mut base: Value, extra: Value) -> Value {
    for (k, v) in extra.as_object().unwrap() {
        base[k] = v.clone();
    }
    base
}

pub struct St {
    pub diagrams: usize,
    pub calls: usize,
    pub webs: usize,
    pub panics: usize,
    pub with_webs: usize,
    pub api: bool,
    pub api_events: usize,
    pub rng: rand::rngs::StdRng,
}

pub fn record_diagram(a0: &Value, tr: &mut Tr, st: &mut St) {
    let nb = ids(a0, true).len();
    let first = rename(a0, &numbering(a0, "first"));
    tr.group();
    st.diagrams += 1;
    tr.emit(json!({"k": "reset", "pre": first}));
    let note = |e: &Value, st: &mut St| {
        st.calls += 1;
        if e["res"] == "ok" {
            let n = e["count"].as_u64().unwrap() as usize;
            st.webs += n;
            if n > 0 {
                st.with_webs += 1;
            }
        } else {
            st.panics += 1;
        }
    };
    let (ce, left) = call(&first, st.api);
    let e = merge(json!({"k": "webs", "num": "first", "tags": tags(&first, "first")}), ce);
    note(&e, st);
    tr.emit(e);
    if st.api {
        let t = tags(&first, "first");
        let mut evs = vec![];
        if let Some(g) = &left {
            evs.extend(pw_events(g, &mut st.rng, &t));
        }
        for how in ["none", "rev", "sub"] {
            evs.push(adj_event::<quizx::hash_graph::Graph>(&first, "hash", how, &mut st.rng, &t));
            evs.push(adj_event::<quizx::vec_graph::Graph>(&first, "vec", how, &mut st.rng, &t));
        }
        evs.push(store_event(&mut st.rng, &t));
        st.api_events += evs.len();
        for ev in evs {
            if ev["res"] != "ok" {
                st.panics += 1;
            }
            tr.emit(ev);
        }
    }
    // the trait method on the other backend
    {
        let mut g: quizx::vec_graph::Graph = build(&first);
        let ev = match guarded(|| g.make_bipartite()) {
            Err(msg) => json!({"k": "bip", "be": "vec", "res": "panic", "msg": msg, "tags": tags(&first, "first")}),
            Ok(()) => json!({"k": "bip", "be": "vec", "res": "ok", "bip": abs(&g), "tags": tags(&first, "first")}),
        };
        tr.emit(ev);
    }
    if nb == 0 {
        return;
    }
    let hows: Vec<&str> = if nb >= 2 { vec!["last", "inter", "first_rev", "last_rev"] } else { vec!["last", "inter"] };
    for how in hows {
        // the map is relative to the diagram of the reset line
        let m = numbering(&first, how);
        let a = rename(&first, &m);
        let mp: Vec<Value> = m.iter().map(|(x, y)| json!([x, y])).collect();
        let e = merge(json!({"k": "renumber", "num": how, "map": mp, "pre": a, "tags": tags(&a, how)}), call(&a, st.api).0);
        note(&e, st);
        tr.emit(e);
    }
}

fn force_plain(a: &mut Value) {
    for e in a["e"].as_array_mut().unwrap() {
        e["t"] = json!("N");
    }
}

fn all_plain(a: &Value) -> bool {
    a["e"].as_array().unwrap().iter().all(|e| e["t"] == "N")
}

/// number of spiders of the bipartite form: spiders + edges between same-coloured spiders
fn bip_size(a: &Value) -> usize {
    let ty: BTreeMap<u64, String> = a["v"]
        .as_array()
        .unwrap()
        .iter()
        .map(|v| (v["id"].as_u64().unwrap(), v["ty"].as_str().unwrap().to_string()))
        .collect();
    let sp = ty.values().filter(|t| *t != "B").count();
    let same = a["e"]
        .as_array()
        .unwrap()
        .iter()
        .filter(|e| {
            let (u, w) = (&ty[&e["u"].as_u64().unwrap()], &ty[&e["w"].as_u64().unwrap()]);
            u == w && u != "B"
        })
        .count();
    sp + same
}

/// deterministic sampling 1/stride that does not resonate with the nesting of the enumeration
fn pick(idx: usize, stride: usize, offset: usize) -> bool {
    let mut x = (idx as u64).wrapping_add(0x9e37_79b9_7f4a_7c15);
    x = (x ^ (x >> 30)).wrapping_mul(0xbf58_476d_1ce4_e5b9);
    x = (x ^ (x >> 27)).wrapping_mul(0x94d0_49bb_1331_11eb);
    x ^= x >> 31;
    (x % stride as u64) as usize == offset
}

fn named() -> Vec<Value> {
    let z = |id, ph| AV { id, ty: "Z", ph, vars: vec![] };
    let x = |id, ph| AV { id, ty: "X", ph, vars: vec![] };
    let b = |id| AV { id, ty: "B", ph: 0, vars: vec![] };
    let one = [1, 0, 0, 0, 0];
    let mut out = vec![];
    // 4-cycle Z-X-Z-X, two boundaries on one Z spider / on the two Z spiders / on a Z and an X spider
    let cyc = [(1, 2, "N"), (2, 3, "N"), (3, 4, "N"), (1, 4, "N")];
    for (p, q) in [(1usize, 1usize), (1, 3), (1, 2), (2, 4)] {
        let mut es = cyc.to_vec();
        es.push((p, 5, "N"));
        es.push((q, 6, "N"));
        out.push(mk(&[z(1, 0), x(2, 0), z(3, 4), x(4, 0), b(5), b(6)], &es, &[5], &[6], one));
    }
    // the same cycle without boundaries and with one
    out.push(mk(&[z(1, 0), x(2, 4), z(3, 0), x(4, 0)], &cyc, &[], &[], one));
    {
        let mut es = cyc.to_vec();
        es.push((3, 5, "N"));
        out.push(mk(&[z(1, 0), x(2, 0), z(3, 0), x(4, 4), b(5)], &es, &[], &[5], one));
    }
    // K_{2,3}: two Z spiders joined through three X spiders; boundaries on the Z spiders
    {
        let es = [(1, 3, "N"), (1, 4, "N"), (1, 5, "N"), (2, 3, "N"), (2, 4, "N"), (2, 5, "N"), (1, 6, "N"), (2, 7, "N")];
        out.push(mk(&[z(1, 0), z(2, 0), x(3, 0), x(4, 4), x(5, 0), b(6), b(7)], &es, &[6], &[7], one));
    }
    // ZZ parity measurement on two wires repeated twice (all Z spiders: make_bipartite has work to do)
    {
        let es = [(1, 2, "N"), (3, 4, "N"), (1, 5, "N"), (3, 5, "N"), (2, 6, "N"), (4, 6, "N"),
                  (1, 7, "N"), (3, 8, "N"), (2, 9, "N"), (4, 10, "N")];
        out.push(mk(&[z(1, 0), z(2, 0), z(3, 0), z(4, 0), x(5, 0), x(6, 4), b(7), b(8), b(9), b(10)], &es, &[7, 8], &[9, 10], one));
    }
    // triangle of Z spiders, one boundary each
    {
        let es = [(1, 2, "N"), (2, 3, "N"), (1, 3, "N"), (1, 4, "N"), (2, 5, "N")];
        out.push(mk(&[z(1, 0), z(2, 4), z(3, 0), b(4), b(5)], &es, &[4], &[5], one));
    }
    // two disjoint 4-cycles, a boundary on one of them
    {
        let es = [(1, 2, "N"), (2, 3, "N"), (3, 4, "N"), (1, 4, "N"), (5, 6, "N"), (6, 7, "N"), (7, 8, "N"), (5, 8, "N"), (6, 9, "N")];
        out.push(mk(&[z(1, 0), x(2, 0), z(3, 0), x(4, 0), x(5, 0), z(6, 0), x(7, 4), z(8, 0), b(9)], &es, &[], &[9], one));
    }
    out
}

pub fn record(args: &[String], seed: u64, tr: &mut Tr) -> Value {
    let mut st = St { diagrams: 0, calls: 0, webs: 0, panics: 0, with_webs: 0, api: arg_flag(args, "--api"), api_events: 0,
                      rng: gens::rng(seed ^ 0xc20a) };
    let maxbip: usize = arg_num(args, "--maxbip", 12);
    let stride: usize = arg_num(args, "--stride", 1usize).max(1);
    let offset = seed as usize % stride;
    let bb = arg_flag(args, "--bb");
    let mut enumerated = 0usize;
    if let Some(kb) = arg_val(args, "--exhaustive") {
        let p: Vec<usize> = kb.split(',').map(|x| x.parse().expect("--exhaustive K,B")).collect();
        let (kmax, bmax) = (p[0], p[1]);
        let mut idx = 0usize;
        for k in 0..=kmax {
            let f = Family { k, tys: vec!["Z", "X"], phs: vec![0, 4], ets: vec!["N"], nb: bmax, vars: vec![], bb };
            gens::enum_family(&f, |a| {
                // the family attaches boundaries by N or H wires; the property is about plain edges
                if !all_plain(&a) {
                    return;
                }
                if pick(idx, stride, offset) && bip_size(&a) <= maxbip {
                    record_diagram(&a, tr, &mut st);
                    enumerated += 1;
                }
                idx += 1;
            });
        }
    }
    let mut nnamed = 0usize;
    if arg_flag(args, "--named") {
        for a in named() {
            record_diagram(&a, tr, &mut st);
            nnamed += 1;
        }
    }
    let nrand: usize = arg_num(args, "--random", 0);
    let mut resampled = 0usize;
    if nrand > 0 {
        let cfg = RandCfg {
            min_sp: 1,
            max_sp: arg_num(args, "--maxsp", 6),
            max_b: arg_num(args, "--maxb", 3),
            tys: vec!["Z", "X"],
            phs: vec![0, 4],
            ets: vec!["N"],
            pedge: arg_num(args, "--pedge", 0.45),
            scalars: false,
            ..RandCfg::any_zx()
        };
        let mut r = gens::rng(seed);
        let mut done = 0usize;
        while done < nrand && resampled < 50 * nrand + 100 {
            let mut a = gens::random_diagram(&mut r, &cfg);
            force_plain(&mut a);
            if bip_size(&a) > maxbip {
                resampled += 1;
                continue;
            }
            record_diagram(&a, tr, &mut st);
            done += 1;
        }
    }
    json!({"diagrams": st.diagrams, "enumerated": enumerated, "named": nnamed, "random": nrand, "resampled_too_big": resampled,
           "calls": st.calls, "webs_returned": st.webs, "calls_with_webs": st.with_webs, "panics": st.panics,
           "api_events": st.api_events})
}
