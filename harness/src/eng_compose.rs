//! C11: plug / append / adjoint / basis plugging / is_identity of graph.rs recorded on pairs
//! of diagrams; TLC (mc/Trace_Compose) decides the linear-algebra statements with Den.
//! Also (API-coverage gaps #2, #20): copy(adjoint), subgraph_from_vertices on unions of components,
//! plug_vertex called directly, BasisElem::flipped / is_x / is_z / phase; and, with `--sf` / a `--rand` /
//! `--fam` configuration with variables, all of it on diagrams whose spiders carry boolean variables and
//! whose scalar has conditional factors (C10: judged under EVERY assignment, DenV).

use crate::absg::{abs, build, canon, phase_json};
use crate::util::{guarded, Tr};
use quizx::graph::*;
use rand::rngs::StdRng;
use rand::Rng;
use serde_json::{json, Value};

fn basis(s: &str) -> BasisElem {
    match s {
        "Z0" => BasisElem::Z0,
        "Z1" => BasisElem::Z1,
        "X0" => BasisElem::X0,
        "X1" => BasisElem::X1,
        _ => BasisElem::SKIP,
    }
}
const BS: [&str; 5] = ["Z0", "Z1", "X0", "X1", "SKIP"];

fn ev<G: GraphLike>(k: &str, be: &str, extra: Value, f: impl FnOnce() -> G) -> Value {
    let mut e = match guarded(f) {
        Ok(g) => json!({"k": k, "be": be, "res": "ok", "post": abs(&g)}),
        Err(msg) => json!({"k": k, "be": be, "res": "panic", "msg": msg}),
    };
    if let Value::Object(m) = extra {
        for (key, v) in m {
            e[key] = v;
        }
    }
    e
}

fn all_lists(n: usize, r: &mut StdRng, cap: usize) -> Vec<Vec<&'static str>> {
    let mut out: Vec<Vec<&'static str>> = vec![vec![]];
    let mut level: Vec<Vec<&'static str>> = vec![vec![]];
    for _ in 0..n {
        let mut nxt = vec![];
        for l in &level {
            for b in BS {
                let mut l2 = l.clone();
                l2.push(b);
                nxt.push(l2);
            }
        }
        out.extend(nxt.iter().cloned());
        level = nxt;
    }
    while out.len() > cap {
        let i = r.random_range(1..out.len());
        out.swap_remove(i);
    }
    out
}

fn run<G: GraphLike + PartialEq>(ga: &Value, ha: &Value, be: &str, r: &mut StdRng) -> Vec<Value> {
    let g: G = build(ga);
    let h: G = build(ha);
    let mut out = vec![];
    if g.outputs().len() == h.inputs().len() {
        out.push(ev(
            "plug",
            be,
            json!({}),
            || {
                let mut x = g.clone();
                x.plug(&h);
                x
            },
        ));
    }
    // RE-USE of the receiving object (seed C11_f): the first plug deletes the seam's boundary vertices, so the vector backend
    // holds free names when the SECOND plug appends its operand. h^dagger always fits behind g ; h.
    // (not where h has a wire joining two of its own inputs or two of its own outputs: there the first or the second plug runs
    // into the recorded finding F-C11-3, which the plain `plug` event already reports)
    let joins = |side: &str| {
        let bs: Vec<u64> = ha[side].as_array().unwrap().iter().map(|x| x.as_u64().unwrap()).collect();
        ha["e"].as_array().unwrap().iter().any(|e| bs.contains(&e["u"].as_u64().unwrap()) && bs.contains(&e["w"].as_u64().unwrap()))
    };
    if g.outputs().len() == h.inputs().len() && !joins("ins") && !joins("outs") {
        out.push(ev("plug2", be, json!({}), || {
            let mut x = g.clone();
            x.plug(&h);
            x.plug(&h.to_adjoint());
            x
        }));
    }
    out.push(ev("append", be, json!({}), || {
        let mut x = g.clone();
        let vmap = x.append_graph(&h);
        let mut ins = x.inputs().clone();
        ins.extend(h.inputs().iter().map(|v| vmap[v]));
        let mut outs = x.outputs().clone();
        outs.extend(h.outputs().iter().map(|v| vmap[v]));
        x.set_inputs(ins);
        x.set_outputs(outs);
        x
    }));
    let twice = guarded(|| g.to_adjoint().to_adjoint() == g).unwrap_or(false);
    out.push(ev("adjoint", be, json!({"involution": twice}), || g.to_adjoint()));
    out.push(ev("xtoz", be, json!({}), || {
        let mut x = g.clone();
        x.x_to_z();
        x
    }));
    out.push(match guarded(|| g.is_identity()) {
        Ok(b) => json!({"k": "isid", "be": be, "res": "ok", "ret": b}),
        Err(m) => json!({"k": "isid", "be": be, "res": "panic", "msg": m}),
    });
    for l in all_lists(g.inputs().len().min(3), r, 20) {
        let bl: Vec<BasisElem> = l.iter().map(|s| basis(s)).collect();
        out.push(ev("plugin", be, json!({"list": l}), || {
            let mut x = g.clone();
            x.plug_inputs(&bl);
            x
        }));
    }
    for l in all_lists(g.outputs().len().min(3), r, 20) {
        let bl: Vec<BasisElem> = l.iter().map(|s| basis(s)).collect();
        out.push(ev("plugout", be, json!({"list": l}), || {
            let mut x = g.clone();
            x.plug_outputs(&bl);
            x
        }));
    }
    // single-position forms
    if !g.outputs().is_empty() {
        let i = r.random_range(0..g.outputs().len());
        let b = BS[r.random_range(0..4)];
        out.push(ev("plugout1", be, json!({"i": i, "b": b}), || {
            let mut x = g.clone();
            x.plug_output(i, basis(b));
            x
        }));
        // plug_vertex called directly: no normalisation, the list is left alone (the harness takes the vertex off it)
        let b = BS[r.random_range(0..4)];
        out.push(ev("plugv", be, json!({"side": "out", "i": i, "b": b}), || {
            let mut x = g.clone();
            x.plug_vertex(x.outputs()[i], basis(b));
            x.outputs_mut().remove(i);
            x
        }));
        // the flipped basis elements of a random list
        let l: Vec<&'static str> = (0..r.random_range(1..=g.outputs().len().min(3))).map(|_| BS[r.random_range(0..5)]).collect();
        let bl: Vec<BasisElem> = l.iter().map(|s| basis(s).flipped()).collect();
        out.push(ev("plugout_f", be, json!({"list": l}), || {
            let mut x = g.clone();
            x.plug_outputs(&bl);
            x
        }));
    }
    if !g.inputs().is_empty() {
        let i = r.random_range(0..g.inputs().len());
        let b = BS[r.random_range(0..4)];
        out.push(ev("plugin1", be, json!({"i": i, "b": b}), || {
            let mut x = g.clone();
            x.plug_input(i, basis(b));
            x
        }));
        let b = BS[r.random_range(0..4)];
        out.push(ev("plugv", be, json!({"side": "in", "i": i, "b": b}), || {
            let mut x = g.clone();
            x.plug_vertex(x.inputs()[i], basis(b));
            x.inputs_mut().remove(i);
            x
        }));
        let l: Vec<&'static str> = (0..r.random_range(1..=g.inputs().len().min(3))).map(|_| BS[r.random_range(0..5)]).collect();
        let bl: Vec<BasisElem> = l.iter().map(|s| basis(s).flipped()).collect();
        out.push(ev("plugin_f", be, json!({"list": l}), || {
            let mut x = g.clone();
            x.plug_inputs(&bl);
            x
        }));
    }
    // copy(adjoint): vertex identity through the row coordinate (the copy renumbers); `map` = [old name, new name]
    let mut tagged = g.clone();
    for v in tagged.vertex_vec() {
        tagged.set_row(v, v as f64);
    }
    let name_map = |c: &G| -> Vec<(usize, usize)> {
        let mut m: Vec<(usize, usize)> = c.vertices().map(|w| (c.row(w) as usize, w)).collect();
        m.sort();
        m
    };
    for adj in [false, true] {
        out.push(match guarded(|| tagged.copy(adj)) {
            Ok(c) => json!({"k": "copy", "be": be, "res": "ok", "adj": adj, "post": abs(&c), "map": name_map(&c)}),
            Err(m) => json!({"k": "copy", "be": be, "res": "panic", "adj": adj, "msg": m}),
        });
    }
    // subgraph_from_vertices on a union S of connected components (as component_vertices reports them) and on the
    // complement; the harness restricts the boundary lists to each part
    let sub = guarded(|| {
        let comps = tagged.component_vertices();
        let mut s: Vec<usize> = vec![];
        for c in comps.iter() {
            let mut c: Vec<usize> = c.iter().copied().collect();
            c.sort();
            // membership decided by the component's least vertex so that both backends choose alike
            if (c[0] + comps.len()) % 2 == 0 || comps.len() == 1 {
                s.extend(c);
            }
        }
        s.sort();
        s.reverse();
        let mut rest: Vec<usize> = tagged.vertices().filter(|v| !s.contains(v)).collect();
        rest.sort();
        let part = |verts: &Vec<usize>| -> (Value, Vec<(usize, usize)>) {
            let mut p = tagged.subgraph_from_vertices(verts.clone());
            let m = name_map(&p);
            let to = |v: &usize| m.iter().find(|(o, _)| o == v).map(|(_, n)| *n);
            p.set_inputs(g.inputs().iter().filter_map(to).collect());
            p.set_outputs(g.outputs().iter().filter_map(to).collect());
            (abs(&p), m)
        };
        let (ps, ms) = part(&s);
        let (pr, _) = part(&rest);
        let mut ss = s.clone();
        ss.sort();
        json!({"k": "subg", "be": be, "res": "ok", "S": ss, "post": ps, "map": ms, "rest": pr})
    });
    out.push(match sub {
        Ok(e) => e,
        Err(m) => json!({"k": "subg", "be": be, "res": "panic", "msg": m}),
    });
    out
}

/// every variable occurring in a diagram (spiders and conditions)
fn vars_of(a: &Value, acc: &mut Vec<u64>) {
    let mut add = |x: &Value| {
        for v in x.as_array().unwrap() {
            let v = v.as_u64().unwrap();
            if !acc.contains(&v) {
                acc.push(v);
            }
        }
    };
    for v in a["v"].as_array().unwrap() {
        add(&v["vars"]);
    }
    for f in a["sf"].as_array().unwrap() {
        for p in f["cond"].as_array().unwrap() {
            add(&p[0]);
        }
    }
}

/// `--sf`: give a diagram 0..2 conditional scalar factors over the variables `vars` (distinct linear / quadratic
/// conditions; values include non-real and non-unit elements, as local complementation and pi-copy produce them)
pub fn decorate_sf(a: &mut Value, r: &mut StdRng, vars: &[u32]) {
    let vals: [[i64; 5]; 6] = [[-1, 0, 0, 0, 0], [0, 1, 0, 0, 0], [0, 0, 1, 0, 0], [1, 1, 0, 0, 0], [1, 0, 1, 0, -1], [0, 1, 0, -1, 0]];
    let par = |r: &mut StdRng| -> Value {
        let mut vs: Vec<u32> = vars.iter().copied().filter(|_| r.random_bool(0.5)).collect();
        if vs.is_empty() {
            vs.push(vars[r.random_range(0..vars.len())]);
        }
        json!([vs, r.random_bool(0.25)])
    };
    let mut sf: Vec<Value> = vec![];
    for _ in 0..r.random_range(0..3) {
        let cond = if r.random_bool(0.7) { json!([par(r)]) } else { json!([par(r), par(r)]) };
        sf.push(json!({"cond": cond, "sc": vals[r.random_range(0..vals.len())]}));
    }
    a["sf"] = json!(sf);
}

pub fn record_pair(ga: &Value, ha: &Value, tr: &mut Tr, seed: u64) {
    tr.group();
    let has_sf = |a: &Value| !a["sf"].as_array().unwrap().is_empty();
    // diagrams with conditional factors are logged as the built graph holds them (Expr::quadratic normalises, equal conditions multiply)
    let (ga, ha) = (
        &if has_sf(ga) { abs(&build::<quizx::vec_graph::Graph>(ga)) } else { ga.clone() },
        &if has_sf(ha) { abs(&build::<quizx::vec_graph::Graph>(ha)) } else { ha.clone() },
    );
    let mut vs: Vec<u64> = vec![];
    vars_of(ga, &mut vs);
    vars_of(ha, &mut vs);
    vs.sort();
    if vs.is_empty() {
        tr.emit(json!({"k": "pair", "g": ga, "h": ha}));
    } else {
        tr.emit(json!({"k": "pair", "g": ga, "h": ha, "vs": vs}));
    }
    // BasisElem: flipped / is_x / is_z / phase of every element
    let bas: Vec<Value> = BS
        .iter()
        .map(|s| {
            let b = basis(s);
            let f = BS.iter().find(|t| basis(t) == b.flipped()).unwrap();
            json!({"b": s, "flipped": f, "is_x": b.is_x(), "is_z": b.is_z(), "ph": phase_json(b.phase().into())})
        })
        .collect();
    tr.emit(json!({"k": "basis", "elems": bas}));
    let mut r1 = crate::gens::rng(seed);
    let mut r2 = crate::gens::rng(seed);
    let ev = run::<quizx::vec_graph::Graph>(ga, ha, "vec", &mut r1);
    let eh = run::<quizx::hash_graph::Graph>(ga, ha, "hash", &mut r2);
    for (x, y) in ev.into_iter().zip(eh.into_iter()) {
        let same = {
            let (mut a, mut b) = (x.clone(), y.clone());
            a["be"] = json!("");
            b["be"] = json!("");
            if let (Some(p), Some(q)) = (x.get("post"), y.get("post")) {
                a["post"] = canon(p);
                b["post"] = canon(q);
            }
            if a.get("msg").is_some() && b.get("msg").is_some() {
                a["msg"] = json!("");
                b["msg"] = json!("");
            }
            a == b
        };
        // call-site tags for known_findings.json (conditional factors in the operand that the operation has to carry along)
        let k = x["k"].as_str().unwrap_or("").to_string();
        let tag = if (k == "plug" || k == "append") && has_sf(ha) {
            Some("sf_in_other")
        } else if (k == "adjoint" || k == "copy") && has_sf(ga) {
            Some("sf_in_self")
        } else {
            None
        };
        let mut emit = |mut e: Value| {
            if let Some(t) = tag {
                e["tags"] = json!([t]);
            }
            tr.emit(e);
        };
        if same {
            let mut e = x;
            e["be"] = json!("both");
            emit(e);
        } else {
            emit(x);
            emit(y);
        }
    }
}

/// wires only: every way of wiring n_in inputs and n_out outputs pairwise by N/H wires
/// (straight wires, cups and caps), optionally plus one spider
pub fn wire_diagrams() -> Vec<Value> {
    use crate::gens::{mk, AV};
    let mut out = vec![];
    let b = |id: usize| AV { id, ty: "B", ph: 0, vars: vec![] };
    for t in ["N", "H"] {
        // straight wire, cup (two outputs), cap (two inputs)
        out.push(mk(&[b(0), b(1)], &[(0, 1, t)], &[0], &[1], [1, 0, 0, 0, 0]));
        out.push(mk(&[b(0), b(1)], &[(0, 1, t)], &[], &[0, 1], [1, 0, 0, 0, 0]));
        out.push(mk(&[b(0), b(1)], &[(0, 1, t)], &[0, 1], &[], [1, 0, 0, 0, 0]));
        for t2 in ["N", "H"] {
            // two wires, straight or crossed
            out.push(mk(&[b(0), b(1), b(2), b(3)], &[(0, 2, t), (1, 3, t2)], &[0, 1], &[2, 3], [1, 0, 0, 0, 0]));
            out.push(mk(&[b(0), b(1), b(2), b(3)], &[(0, 3, t), (1, 2, t2)], &[0, 1], &[2, 3], [0, 1, 0, 0, 0]));
            // cap then cup
            out.push(mk(&[b(0), b(1), b(2), b(3)], &[(0, 1, t), (2, 3, t2)], &[0, 1], &[2, 3], [1, 0, 0, 0, 0]));
            // wire next to a spider with one in one out
            out.push(mk(
                &[b(0), b(1), b(2), b(3), AV { id: 4, ty: "Z", ph: 1, vars: vec![] }],
                &[(0, 2, t), (1, 4, t2), (4, 3, "N")],
                &[0, 1],
                &[2, 3],
                [1, 0, 0, 0, 0],
            ));
            out.push(mk(
                &[b(0), b(1), b(2), AV { id: 4, ty: "X", ph: 2, vars: vec![] }],
                &[(0, 1, t), (4, 2, t2)],
                &[],
                &[0, 1, 2],
                [1, 0, 0, 0, 0],
            ));
            out.push(mk(
                &[b(0), b(1), b(2), AV { id: 4, ty: "Z", ph: 3, vars: vec![] }],
                &[(0, 1, t), (4, 2, t2)],
                &[0, 1, 2],
                &[],
                [1, 0, 0, 0, 0],
            ));
        }
    }
    out
}
