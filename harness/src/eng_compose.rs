//! C11: plug / append / adjoint / basis plugging / is_identity of graph.rs recorded on pairs
//! of diagrams; TLC (mc/Trace_Compose) decides the linear-algebra statements with Den.

use crate::absg::{abs, build, canon};
use crate::util::{guarded, Tr};
use quizx::graph::*;
use rand::rngs::StdRng;
use rand::Rng;
use serde_json::{json, Value};

fn basis(s: &str) -> BasisElem {
    match s {
        "Z0" => BasisElem::Z0,
        "Z1" => BasisElem::Z1,
        "X0" => BasisElem::X0,
        "X1" => BasisElem::X1,
        _ => BasisElem::SKIP,
    }
}
const BS: [&str; 5] = ["Z0", "Z1", "X0", "X1", "SKIP"];

fn ev<G: GraphLike>(k: &str, be: &str, extra: Value, f: impl FnOnce() -> G) -> Value {
    let mut e = match guarded(f) {
        Ok(g) => json!({"k": k, "be": be, "res": "ok", "post": abs(&g)}),
        Err(msg) => json!({"k": k, "be": be, "res": "panic", "msg": msg}),
    };
    if let Value::Object(m) = extra {
        for (key, v) in m {
            e[key] = v;
        }
    }
    e
}

fn all_lists(n: usize, r: &mut StdRng, cap: usize) -> Vec<Vec<&'static str>> {
    let mut out: Vec<Vec<&'static str>> = vec![vec![]];
    let mut level: Vec<Vec<&'static str>> = vec![vec![]];
    for _ in 0..n {
        let mut nxt = vec![];
        for l in &level {
            for b in BS {
                let mut l2 = l.clone();
                l2.push(b);
                nxt.push(l2);
            }
        }
        out.extend(nxt.iter().cloned());
        level = nxt;
    }
    while out.len() > cap {
        let i = r.random_range(1..out.len());
        out.swap_remove(i);
    }
    out
}

fn run<G: GraphLike + PartialEq>(ga: &Value, ha: &Value, be: &str, r: &mut StdRng) -> Vec<Value> {
    let g: G = build(ga);
    let h: G = build(ha);
    let mut out = vec![];
    if g.outputs().len() == h.inputs().len() {
        out.push(ev(
            "plug",
            be,
            json!({}),
            || {
                let mut x = g.clone();
                x.plug(&h);
                x
            },
        ));
    }
    out.push(ev("append", be, json!({}), || {
        let mut x = g.clone();
        let vmap = x.append_graph(&h);
        let mut ins = x.inputs().clone();
        ins.extend(h.inputs().iter().map(|v| vmap[v]));
        let mut outs = x.outputs().clone();
        outs.extend(h.outputs().iter().map(|v| vmap[v]));
        x.set_inputs(ins);
        x.set_outputs(outs);
        x
    }));
    let twice = guarded(|| g.to_adjoint().to_adjoint() == g).unwrap_or(false);
    out.push(ev("adjoint", be, json!({"involution": twice}), || g.to_adjoint()));
    out.push(ev("xtoz", be, json!({}), || {
        let mut x = g.clone();
        x.x_to_z();
        x
    }));
    out.push(match guarded(|| g.is_identity()) {
        Ok(b) => json!({"k": "isid", "be": be, "res": "ok", "ret": b}),
        Err(m) => json!({"k": "isid", "be": be, "res": "panic", "msg": m}),
    });
    for l in all_lists(g.inputs().len().min(3), r, 20) {
        let bl: Vec<BasisElem> = l.iter().map(|s| basis(s)).collect();
        out.push(ev("plugin", be, json!({"list": l}), || {
            let mut x = g.clone();
            x.plug_inputs(&bl);
            x
        }));
    }
    for l in all_lists(g.outputs().len().min(3), r, 20) {
        let bl: Vec<BasisElem> = l.iter().map(|s| basis(s)).collect();
        out.push(ev("plugout", be, json!({"list": l}), || {
            let mut x = g.clone();
            x.plug_outputs(&bl);
            x
        }));
    }
    // single-position forms
    if !g.outputs().is_empty() {
        let i = r.random_range(0..g.outputs().len());
        let b = BS[r.random_range(0..4)];
        out.push(ev("plugout1", be, json!({"i": i, "b": b}), || {
            let mut x = g.clone();
            x.plug_output(i, basis(b));
            x
        }));
    }
    if !g.inputs().is_empty() {
        let i = r.random_range(0..g.inputs().len());
        let b = BS[r.random_range(0..4)];
        out.push(ev("plugin1", be, json!({"i": i, "b": b}), || {
            let mut x = g.clone();
            x.plug_input(i, basis(b));
            x
        }));
    }
    out
}

pub fn record_pair(ga: &Value, ha: &Value, tr: &mut Tr, seed: u64) {
    tr.group();
    tr.emit(json!({"k": "pair", "g": ga, "h": ha}));
    let mut r1 = crate::gens::rng(seed);
    let mut r2 = crate::gens::rng(seed);
    let ev = run::<quizx::vec_graph::Graph>(ga, ha, "vec", &mut r1);
    let eh = run::<quizx::hash_graph::Graph>(ga, ha, "hash", &mut r2);
    for (x, y) in ev.into_iter().zip(eh.into_iter()) {
        let same = {
            let (mut a, mut b) = (x.clone(), y.clone());
            a["be"] = json!("");
            b["be"] = json!("");
            if let (Some(p), Some(q)) = (x.get("post"), y.get("post")) {
                a["post"] = canon(p);
                b["post"] = canon(q);
            }
            if a.get("msg").is_some() && b.get("msg").is_some() {
                a["msg"] = json!("");
                b["msg"] = json!("");
            }
            a == b
        };
        if same {
            let mut e = x;
            e["be"] = json!("both");
            tr.emit(e);
        } else {
            tr.emit(x);
            tr.emit(y);
        }
    }
}

/// wires only: every way of wiring n_in inputs and n_out outputs pairwise by N/H wires
/// (straight wires, cups and caps), optionally plus one spider
pub fn wire_diagrams() -> Vec<Value> {
    use crate::gens::{mk, AV};
    let mut out = vec![];
    let b = |id: usize| AV { id, ty: "B", ph: 0, vars: vec![] };
    for t in ["N", "H"] {
        // straight wire, cup (two outputs), cap (two inputs)
        out.push(mk(&[b(0), b(1)], &[(0, 1, t)], &[0], &[1], [1, 0, 0, 0, 0]));
        out.push(mk(&[b(0), b(1)], &[(0, 1, t)], &[], &[0, 1], [1, 0, 0, 0, 0]));
        out.push(mk(&[b(0), b(1)], &[(0, 1, t)], &[0, 1], &[], [1, 0, 0, 0, 0]));
        for t2 in ["N", "H"] {
            // two wires, straight or crossed
            out.push(mk(&[b(0), b(1), b(2), b(3)], &[(0, 2, t), (1, 3, t2)], &[0, 1], &[2, 3], [1, 0, 0, 0, 0]));
            out.push(mk(&[b(0), b(1), b(2), b(3)], &[(0, 3, t), (1, 2, t2)], &[0, 1], &[2, 3], [0, 1, 0, 0, 0]));
            // cap then cup
            out.push(mk(&[b(0), b(1), b(2), b(3)], &[(0, 1, t), (2, 3, t2)], &[0, 1], &[2, 3], [1, 0, 0, 0, 0]));
            // wire next to a spider with one in one out
            out.push(mk(
                &[b(0), b(1), b(2), b(3), AV { id: 4, ty: "Z", ph: 1, vars: vec![] }],
                &[(0, 2, t), (1, 4, t2), (4, 3, "N")],
                &[0, 1],
                &[2, 3],
                [1, 0, 0, 0, 0],
            ));
            out.push(mk(
                &[b(0), b(1), b(2), AV { id: 4, ty: "X", ph: 2, vars: vec![] }],
                &[(0, 1, t), (4, 2, t2)],
                &[],
                &[0, 1, 2],
                [1, 0, 0, 0, 0],
            ));
            out.push(mk(
                &[b(0), b(1), b(2), AV { id: 4, ty: "Z", ph: 3, vars: vec![] }],
                &[(0, 1, t), (4, 2, t2)],
                &[0, 1, 2],
                &[],
                [1, 0, 0, 0, 0],
            ));
        }
    }
    out
}
