//! C05: stabiliser decomposition.  (1) single steps through the guarded re-export of
//! apply_decomp, (2) complete runs of the Decomposer for the whole configuration grid
//! (driver x simplification x component splitting x sequential / parallel with several pool
//! sizes), (3) the terms saved for diagrams with open wires.  TLC (mc/Trace_Decomp) decides
//! everything with the specification's denotation.

use crate::absg::{abs, build, sc_json};
use crate::gens::{mk, AV};
use crate::util::{arg_num, guarded, Tr};
use quizx::decompose::*;
use quizx::graph::*;
use quizx::vec_graph::Graph;
use rand::rngs::StdRng;
use rand::Rng;
use serde_json::{json, Value};

/// random graph-like host: nt T-like spiders, nc Clifford spiders, H edges, nb outputs
pub fn host(r: &mut StdRng, nt: usize, nc: usize, nb: usize, pedge: f64, cat: bool) -> Value {
    let mut vs = vec![];
    let mut es: Vec<(usize, usize, &str)> = vec![];
    let n = nt + nc;
    for i in 0..n {
        let ph = if i < nt { [1, 3, 5, 7][r.random_range(0..4)] } else { [0, 2, 4, 6][r.random_range(0..4)] };
        vs.push(AV { id: i + 1, ty: "Z", ph, vars: vec![] });
    }
    for i in 0..n {
        for j in (i + 1)..n {
            if r.random_bool(pedge) {
                es.push((i + 1, j + 1, "H"));
            }
        }
    }
    let mut next = n + 1;
    if cat && nt >= 3 {
        // a hub with Pauli phase H-connected to k of the T spiders and nothing else
        let k = r.random_range(3..=nt.min(6));
        let hub = next;
        next += 1;
        vs.push(AV { id: hub, ty: "Z", ph: if r.random_bool(0.5) { 0 } else { 4 }, vars: vec![] });
        let mut ts: Vec<usize> = (1..=nt).collect();
        for i in (1..ts.len()).rev() {
            ts.swap(i, r.random_range(0..=i));
        }
        for &t in &ts[..k] {
            es.push((hub, t, "H"));
        }
    }
    let mut outs = vec![];
    for _ in 0..nb {
        let b = next;
        next += 1;
        vs.push(AV { id: b, ty: "B", ph: 0, vars: vec![] });
        es.push((r.random_range(1..=n), b, if r.random_bool(0.7) { "N" } else { "H" }));
        outs.push(b);
    }
    mk(&vs, &es, &[], &outs, [1, 0, 0, 0, 0])
}

fn decomp_json(d: &Decomp) -> Value {
    let (k, v) = match d {
        Decomp::CatDecomp(v) => ("CatDecomp", v),
        Decomp::Magic5FromCat(v) => ("Magic5FromCat", v),
        Decomp::TDecomp(v) => ("TDecomp", v),
        Decomp::BssDecomp(v) => ("BssDecomp", v),
        Decomp::SymDecomp(v) => ("SymDecomp", v),
        Decomp::SingleDecomp(v) => ("SingleDecomp", v),
        Decomp::SpiderCuttingDecomp(v) => ("SpiderCuttingDecomp", v),
        Decomp::TPairDecomp(v) => ("TPairDecomp", v),
    };
    json!({"kind": k, "vs": v})
}

fn step(g: &Graph, d: &Decomp, via: &str) -> Value {
    match guarded(|| verif_apply_decomp(g, d)) {
        Err(m) => json!({"k": "step", "decomp": decomp_json(d), "via": via, "res": "panic", "msg": m}),
        Ok(ts) => json!({"k": "step", "decomp": decomp_json(d), "via": via, "res": "ok", "terms": ts.iter().map(abs).collect::<Vec<_>>()}),
    }
}

pub fn record_steps(a: &Value, tr: &mut Tr, r: &mut StdRng, counts: &mut std::collections::BTreeMap<String, usize>) {
    let g: Graph = build(a);
    if g.tcount() == 0 {
        return;
    }
    tr.group();
    tr.emit(json!({"k": "reset", "pre": a}));
    let closed = g.inputs().is_empty() && g.outputs().is_empty();
    let mut ds: Vec<(Decomp, String)> = vec![];
    // what each driver would choose on this very diagram
    ds.push((BssTOnlyDriver { random_t: false }.choose_decomp(&g), "driver:BssTOnly".into()));
    ds.push((BssTOnlyDriver { random_t: true }.choose_decomp(&g), "driver:BssTOnly_random".into()));
    ds.push((BssWithCatsDriver { random_t: false }.choose_decomp(&g), "driver:BssWithCats".into()));
    ds.push((BssWithCatsDriver { random_t: true }.choose_decomp(&g), "driver:BssWithCats_random".into()));
    if closed {
        for (d, n) in [
            (guarded(|| DynamicTDriver.choose_decomp(&g)), "driver:DynamicT"),
            (guarded(|| SherlockDriver { tries: vec![2, 2, 2] }.choose_decomp(&g)), "driver:Sherlock"),
            (guarded(|| SpiderCuttingDriver.choose_decomp(&g)), "driver:SpiderCutting"),
        ] {
            if let Ok(d) = d {
                ds.push((d, n.into()));
            }
        }
    }
    // explicit argument lists
    let ts = first_ts(&g);
    if !ts.is_empty() {
        ds.push((Decomp::SingleDecomp(vec![ts[r.random_range(0..ts.len())]]), "explicit".into()));
    }
    if ts.len() >= 2 {
        let i = r.random_range(0..ts.len());
        let j = (i + 1 + r.random_range(0..ts.len() - 1)) % ts.len();
        ds.push((Decomp::SymDecomp(vec![ts[i], ts[j]]), "explicit".into()));
    }
    if ts.len() >= 5 {
        ds.push((Decomp::Magic5FromCat(ts[..5].to_vec()), "explicit".into()));
    }
    if ts.len() >= 6 {
        ds.push((Decomp::BssDecomp(ts[..6].to_vec()), "explicit".into()));
    }
    let cats = cat_ts(&g);
    if cats.len() > 3 {
        ds.push((Decomp::CatDecomp(cats), "explicit".into()));
    }
    for (d, via) in ds {
        *counts.entry(decomp_json(&d)["kind"].as_str().unwrap().to_string()).or_insert(0) += 1;
        tr.emit(step(&g, &d, &via));
    }
}

fn run_cfg(g: &Graph, driver: &str, simp: SimpFunc, split: bool, threads: usize, save: bool) -> Result<(quizx::scalar::Scalar4, usize, Vec<Graph>), String> {
    guarded(|| {
        let mut d = Decomposer::new(g);
        d.with_simp(simp).with_split_graphs_components(split).with_save(save);
        macro_rules! go {
            ($drv:expr) => {{
                let drv = $drv;
                if threads == 0 {
                    d.decompose(&drv);
                } else {
                    let pool = rayon::ThreadPoolBuilder::new().num_threads(threads).build().unwrap();
                    pool.install(|| {
                        d.decompose_parallel(&drv);
                    });
                }
            }};
        }
        match driver {
            "BssTOnly" => go!(BssTOnlyDriver { random_t: false }),
            "BssTOnly_random" => go!(BssTOnlyDriver { random_t: true }),
            "BssWithCats" => go!(BssWithCatsDriver { random_t: false }),
            "BssWithCats_random" => go!(BssWithCatsDriver { random_t: true }),
            "DynamicT" => go!(DynamicTDriver),
            "Sherlock" => go!(SherlockDriver { tries: vec![2, 2, 2] }),
            "SpiderCutting" => go!(SpiderCuttingDriver),
            _ => panic!("driver"),
        }
        (d.scalar(), d.nterms, d.done.clone())
    })
}

const DRIVERS: [&str; 7] = ["BssTOnly", "BssTOnly_random", "BssWithCats", "BssWithCats_random", "DynamicT", "Sherlock", "SpiderCutting"];
fn simp_name(s: SimpFunc) -> &'static str {
    match s {
        SimpFunc::FullSimp => "full",
        SimpFunc::CliffordSimp => "clifford",
        SimpFunc::NoSimp => "none",
    }
}

pub fn record_runs(a: &Value, tr: &mut Tr, r: &mut StdRng, all_threads: bool) -> usize {
    let g: Graph = build(a);
    tr.group();
    tr.emit(json!({"k": "reset", "pre": a}));
    let mut n = 0;
    for drv in DRIVERS {
        for simp in [SimpFunc::NoSimp, SimpFunc::CliffordSimp, SimpFunc::FullSimp] {
            for split in [false, true] {
                let mut ths = vec![0usize, [1, 2, 3, 4, 8, 16][r.random_range(0..6)]];
                if all_threads {
                    ths = vec![0, 1, 2, 3, 4, 8, 16];
                }
                for threads in ths {
                    let res = crate::eng_simp::with_watchdog(60, {
                        let (g, drv) = (g.clone(), drv.to_string());
                        move || run_cfg(&g, &drv, simp, split, threads, false)
                    });
                    let mut e = json!({"k": "run", "driver": drv, "simp": simp_name(simp), "split": split, "par": threads > 0, "threads": threads});
                    match res {
                        None => e["res"] = json!("timeout"),
                        Some(Err(m)) => {
                            e["res"] = json!("panic");
                            e["msg"] = json!(m);
                        }
                        Some(Ok((s, nterms, _))) => {
                            e["res"] = json!("ok");
                            e["scalar"] = sc_json(&s);
                            e["approx"] = json!(crate::absg::sc_is_approx(&s));
                            e["nterms"] = json!(nterms);
                        }
                    }
                    tr.emit(e);
                    n += 1;
                }
            }
        }
    }
    n
}

pub fn record_saved(a: &Value, tr: &mut Tr) -> usize {
    let g: Graph = build(a);
    tr.group();
    tr.emit(json!({"k": "reset", "pre": a}));
    let mut n = 0;
    for drv in ["BssTOnly", "BssTOnly_random", "BssWithCats", "BssWithCats_random"] {
        for simp in [SimpFunc::NoSimp, SimpFunc::CliffordSimp, SimpFunc::FullSimp] {
            let mut e = json!({"k": "saved", "driver": drv, "simp": simp_name(simp)});
            match run_cfg(&g, drv, simp, false, 0, true) {
                Err(m) => {
                    e["res"] = json!("panic");
                    e["msg"] = json!(m);
                }
                Ok((_, nterms, done)) => {
                    e["res"] = json!("ok");
                    e["nterms"] = json!(nterms);
                    e["terms"] = json!(done.iter().map(abs).collect::<Vec<_>>());
                }
            }
            tr.emit(e);
            n += 1;
        }
    }
    n
}

pub fn record(args: &[String], seed: u64, tr: &mut Tr) -> Value {
    let mut r = crate::gens::rng(seed);
    let nsteps: usize = arg_num(args, "--steps", 0);
    let nruns: usize = arg_num(args, "--runs", 0);
    let nsaved: usize = arg_num(args, "--saved", 0);
    let ncirc: usize = arg_num(args, "--circuits", 0);
    let maxt: usize = arg_num(args, "--maxt", 6);
    let all_threads = crate::util::arg_flag(args, "--all-threads");
    let mut counts = Default::default();
    for i in 0..nsteps {
        let nt = 1 + i % maxt;
        let nb = if i % 3 == 0 { r.random_range(1..=2) } else { 0 };
        let nc = r.random_range(0..=2);
        let a = host(&mut r, nt, nc, nb, 0.4, i % 2 == 0);
        record_steps(&a, tr, &mut r, &mut counts);
    }
    let mut runs = 0;
    for i in 0..nruns {
        let nt = 1 + i % maxt.min(7);
        let nc = r.random_range(0..=3);
        let a = host(&mut r, nt, nc, 0, 0.45, i % 2 == 0);
        runs += record_runs(&a, tr, &mut r, all_threads);
    }
    // closed diagrams from Clifford+T circuits with basis states plugged in
    for _ in 0..ncirc {
        let q = r.random_range(2..=3usize);
        let c = quizx::circuit::Circuit::random().seed(r.random()).qubits(q).depth(r.random_range(4..14)).clifford_t(0.3).build();
        let mut g: Graph = c.to_graph();
        let ins: Vec<BasisElem> = (0..q).map(|_| [BasisElem::Z0, BasisElem::Z1, BasisElem::X0][r.random_range(0..3)]).collect();
        let outs: Vec<BasisElem> = (0..q).map(|_| [BasisElem::Z0, BasisElem::Z1, BasisElem::X1][r.random_range(0..3)]).collect();
        g.plug_inputs(&ins);
        g.plug_outputs(&outs);
        if g.tcount() > 7 || g.num_vertices() > 40 {
            continue;
        }
        let a = abs(&g);
        // without a simplifier the drivers need graph-like input: only the simplifying configurations are run
        tr.group();
        tr.emit(json!({"k": "reset", "pre": a}));
        for drv in DRIVERS {
            for simp in [SimpFunc::CliffordSimp, SimpFunc::FullSimp] {
                let threads = [0usize, 2, 4][r.random_range(0..3)];
                let res = crate::eng_simp::with_watchdog(60, {
                    let (g, drv) = (g.clone(), drv.to_string());
                    move || run_cfg(&g, &drv, simp, true, threads, false)
                });
                let mut e = json!({"k": "run", "driver": drv, "simp": simp_name(simp), "split": true, "par": threads > 0, "threads": threads, "from": "circuit"});
                match res {
                    None => e["res"] = json!("timeout"),
                    Some(Err(m)) => {
                        e["res"] = json!("panic");
                        e["msg"] = json!(m);
                    }
                    Some(Ok((s, nterms, _))) => {
                        e["res"] = json!("ok");
                        e["scalar"] = sc_json(&s);
                        e["approx"] = json!(crate::absg::sc_is_approx(&s));
                        e["nterms"] = json!(nterms);
                    }
                }
                tr.emit(e);
                runs += 1;
            }
        }
    }
    let mut saved = 0;
    for i in 0..nsaved {
        let nt = 1 + i % maxt.min(6);
        let (nc, nb) = (r.random_range(0..=2), r.random_range(1..=2));
        let a = host(&mut r, nt, nc, nb, 0.4, i % 2 == 0);
        saved += record_saved(&a, tr);
    }
    json!({"step_hosts": nsteps, "step_kinds": counts, "runs": runs, "saved_runs": saved})
}
