//! C05: stabiliser decomposition.  (1) single steps through the guarded re-export of
//! apply_decomp, (2) complete runs of the Decomposer for the whole configuration grid
//! (driver x simplification x component splitting x sequential / parallel with several pool
//! sizes), (3) the terms saved for diagrams with open wires.  TLC (mc/Trace_Decomp) decides
//! everything with the specification's denotation.

use crate::absg::{abs, build, sc_json};
use crate::gens::{mk, AV};
use crate::util::{arg_num, guarded, Tr};
use quizx::decompose::*;
use quizx::graph::*;
use quizx::vec_graph::Graph;
use rand::rngs::StdRng;
use rand::Rng;
use serde_json::{json, Value};

/// random graph-like host: nt T-like spiders, nc Clifford spiders, H edges, nb outputs
pub fn host(r: &mut StdRng, nt: usize, nc: usize, nb: usize, pedge: f64, cat: bool) -> Value {
    let mut vs = vec![];
    let mut es: Vec<(usize, usize, &str)> = vec![];
    let n = nt + nc;
    for i in 0..n {
        let ph = if i < nt { [1, 3, 5, 7][r.random_range(0..4)] } else { [0, 2, 4, 6][r.random_range(0..4)] };
        vs.push(AV { id: i + 1, ty: "Z", ph, vars: vec![] });
    }
    for i in 0..n {
        for j in (i + 1)..n {
            if r.random_bool(pedge) {
                es.push((i + 1, j + 1, "H"));
            }
        }
    }
    let mut next = n + 1;
    if cat && nt >= 3 {
        // a hub with Pauli phase H-connected to k of the T spiders and nothing else
        let k = r.random_range(3..=nt.min(6));
        let hub = next;
        next += 1;
        vs.push(AV { id: hub, ty: "Z", ph: if r.random_bool(0.5) { 0 } else { 4 }, vars: vec![] });
        let mut ts: Vec<usize> = (1..=nt).collect();
        for i in (1..ts.len()).rev() {
            ts.swap(i, r.random_range(0..=i));
        }
        for &t in &ts[..k] {
            es.push((hub, t, "H"));
        }
    }
    let mut outs = vec![];
    for _ in 0..nb {
        let b = next;
        next += 1;
        vs.push(AV { id: b, ty: "B", ph: 0, vars: vec![] });
        es.push((r.random_range(1..=n), b, if r.random_bool(0.7) { "N" } else { "H" }));
        outs.push(b);
    }
    mk(&vs, &es, &[], &outs, [1, 0, 0, 0, 0])
}

/// A closed graph-like host in which THREE OR FOUR phase gadgets sit on exactly the same support of 2..3 spiders (seed C05_f: the
/// full simplification level fuses them in ONE fuse_gadgets step, whose scalar exponent depends on the number of gadgets
/// merged), sometimes with a further gadget on another support.
pub fn host_gadgets(r: &mut StdRng) -> Value {
    let mut vs = vec![];
    let mut es: Vec<(usize, usize, &str)> = vec![];
    let nsp = r.random_range(2..=3usize);
    for i in 0..nsp {
        // T-like support spiders survive the Clifford simplification that precedes gadget fusion (a Clifford support spider would be
        // complemented or pivoted away and the gadgets with it); every third host has one Clifford spider all the same
        let ph = if i == 0 && r.random_bool(0.33) { r.random_range(0..4) * 2 } else { [1, 3, 5, 7][r.random_range(0..4)] };
        vs.push(AV { id: i + 1, ty: "Z", ph, vars: vec![] });
    }
    for i in 0..nsp {
        for j in (i + 1)..nsp {
            if r.random_bool(0.3) {
                es.push((i + 1, j + 1, "H"));
            }
        }
    }
    let support: Vec<usize> = if nsp == 2 || r.random_bool(0.5) { (1..=nsp).collect() } else { vec![1, r.random_range(2..=3)] };
    let ng = r.random_range(3..=4usize);
    let mut next = nsp + 1;
    let extra = r.random_bool(0.4) as usize;
    for gi in 0..(ng + extra) {
        let (hub, leaf) = (next, next + 1);
        next += 2;
        vs.push(AV { id: hub, ty: "Z", ph: 0, vars: vec![] });
        vs.push(AV { id: leaf, ty: "Z", ph: [1, 3, 5, 7, 2, 1][r.random_range(0..6)], vars: vec![] });
        es.push((hub, leaf, "H"));
        if gi < ng {
            for &t in &support {
                es.push((hub, t, "H"));
            }
        } else {
            es.push((hub, 1, "H"));
            es.push((hub, nsp, "H"));
        }
    }
    mk(&vs, &es, &[], &[], [1, 0, 0, 0, 0])
}

fn decomp_json(d: &Decomp) -> Value {
    let (k, v) = match d {
        Decomp::CatDecomp(v) => ("CatDecomp", v),
        Decomp::Magic5FromCat(v) => ("Magic5FromCat", v),
        Decomp::TDecomp(v) => ("TDecomp", v),
        Decomp::BssDecomp(v) => ("BssDecomp", v),
        Decomp::SymDecomp(v) => ("SymDecomp", v),
        Decomp::SingleDecomp(v) => ("SingleDecomp", v),
        Decomp::SpiderCuttingDecomp(v) => ("SpiderCuttingDecomp", v),
        Decomp::TPairDecomp(v) => ("TPairDecomp", v),
    };
    json!({"kind": k, "vs": v})
}

fn step(g: &Graph, d: &Decomp, via: &str) -> Value {
    match guarded(|| verif_apply_decomp(g, d)) {
        Err(m) => json!({"k": "step", "decomp": decomp_json(d), "via": via, "res": "panic", "msg": m}),
        Ok(ts) => json!({"k": "step", "decomp": decomp_json(d), "via": via, "res": "ok", "terms": ts.iter().map(abs).collect::<Vec<_>>()}),
    }
}

pub fn record_steps(a: &Value, tr: &mut Tr, r: &mut StdRng, counts: &mut std::collections::BTreeMap<String, usize>) {
    let g: Graph = build(a);
    if g.tcount() == 0 {
        return;
    }
    tr.group();
    tr.emit(json!({"k": "reset", "pre": a}));
    let closed = g.inputs().is_empty() && g.outputs().is_empty();
    let mut ds: Vec<(Decomp, String)> = vec![];
    // what each driver would choose on this very diagram
    ds.push((BssTOnlyDriver { random_t: false }.choose_decomp(&g), "driver:BssTOnly".into()));
    ds.push((BssTOnlyDriver { random_t: true }.choose_decomp(&g), "driver:BssTOnly_random".into()));
    ds.push((BssWithCatsDriver { random_t: false }.choose_decomp(&g), "driver:BssWithCats".into()));
    ds.push((BssWithCatsDriver { random_t: true }.choose_decomp(&g), "driver:BssWithCats_random".into()));
    if closed {
        for (d, n) in [
            (guarded(|| DynamicTDriver.choose_decomp(&g)), "driver:DynamicT"),
            (guarded(|| SherlockDriver { tries: vec![2, 2, 2] }.choose_decomp(&g)), "driver:Sherlock"),
            (guarded(|| SpiderCuttingDriver.choose_decomp(&g)), "driver:SpiderCutting"),
        ] {
            if let Ok(d) = d {
                ds.push((d, n.into()));
            }
        }
    }
    // explicit argument lists
    let ts = first_ts(&g);
    if !ts.is_empty() {
        ds.push((Decomp::SingleDecomp(vec![ts[r.random_range(0..ts.len())]]), "explicit".into()));
    }
    if ts.len() >= 2 {
        let i = r.random_range(0..ts.len());
        let j = (i + 1 + r.random_range(0..ts.len() - 1)) % ts.len();
        ds.push((Decomp::SymDecomp(vec![ts[i], ts[j]]), "explicit".into()));
    }
    if ts.len() >= 5 {
        ds.push((Decomp::Magic5FromCat(ts[..5].to_vec()), "explicit".into()));
    }
    if ts.len() >= 6 {
        ds.push((Decomp::BssDecomp(ts[..6].to_vec()), "explicit".into()));
    }
    let cats = cat_ts(&g);
    if cats.len() > 3 {
        ds.push((Decomp::CatDecomp(cats), "explicit".into()));
    }
    for (d, via) in ds {
        *counts.entry(decomp_json(&d)["kind"].as_str().unwrap().to_string()).or_insert(0) += 1;
        tr.emit(step(&g, &d, &via));
    }
}

fn run_cfg(g: &Graph, driver: &str, simp: SimpFunc, split: bool, threads: usize, save: bool) -> Result<(quizx::scalar::Scalar4, usize, Vec<Graph>), String> {
    guarded(|| {
        let mut d = Decomposer::new(g);
        d.with_simp(simp).with_split_graphs_components(split).with_save(save);
        macro_rules! go {
            ($drv:expr) => {{
                let drv = $drv;
                if threads == 0 {
                    d.decompose(&drv);
                } else {
                    let pool = rayon::ThreadPoolBuilder::new().num_threads(threads).build().unwrap();
                    pool.install(|| {
                        d.decompose_parallel(&drv);
                    });
                }
            }};
        }
        match driver {
            "BssTOnly" => go!(BssTOnlyDriver { random_t: false }),
            "BssTOnly_random" => go!(BssTOnlyDriver { random_t: true }),
            "BssWithCats" => go!(BssWithCatsDriver { random_t: false }),
            "BssWithCats_random" => go!(BssWithCatsDriver { random_t: true }),
            "DynamicT" => go!(DynamicTDriver),
            "Sherlock" => go!(SherlockDriver { tries: vec![2, 2, 2] }),
            "SpiderCutting" => go!(SpiderCuttingDriver),
            _ => panic!("driver"),
        }
        (d.scalar(), d.nterms, d.done.clone())
    })
}

const DRIVERS: [&str; 7] = ["BssTOnly", "BssTOnly_random", "BssWithCats", "BssWithCats_random", "DynamicT", "Sherlock", "SpiderCutting"];
fn simp_name(s: SimpFunc) -> &'static str {
    match s {
        SimpFunc::FullSimp => "full",
        SimpFunc::CliffordSimp => "clifford",
        SimpFunc::NoSimp => "none",
    }
}

pub fn record_runs(a: &Value, tr: &mut Tr, r: &mut StdRng, all_threads: bool) -> usize {
    let g: Graph = build(a);
    tr.group();
    tr.emit(json!({"k": "reset", "pre": a}));
    let mut n = 0;
    for drv in DRIVERS {
        for simp in [SimpFunc::NoSimp, SimpFunc::CliffordSimp, SimpFunc::FullSimp] {
            for split in [false, true] {
                let mut ths = vec![0usize, [1, 2, 3, 4, 8, 16][r.random_range(0..6)]];
                if all_threads {
                    ths = vec![0, 1, 2, 3, 4, 8, 16];
                }
                for threads in ths {
                    let res = crate::eng_simp::with_watchdog(60, {
                        let (g, drv) = (g.clone(), drv.to_string());
                        move || run_cfg(&g, &drv, simp, split, threads, false)
                    });
                    let mut e = json!({"k": "run", "driver": drv, "simp": simp_name(simp), "split": split, "par": threads > 0, "threads": threads});
                    match res {
                        None => e["res"] = json!("timeout"),
                        Some(Err(m)) => {
                            e["res"] = json!("panic");
                            e["msg"] = json!(m);
                        }
                        Some(Ok((s, nterms, _))) => {
                            e["res"] = json!("ok");
                            e["scalar"] = sc_json(&s);
                            e["approx"] = json!(crate::absg::sc_is_approx(&s));
                            e["nterms"] = json!(nterms);
                        }
                    }
                    tr.emit(e);
                    n += 1;
                }
            }
        }
    }
    n
}

pub fn record_saved(a: &Value, tr: &mut Tr) -> usize {
    let g: Graph = build(a);
    tr.group();
    tr.emit(json!({"k": "reset", "pre": a}));
    let mut n = 0;
    for drv in ["BssTOnly", "BssTOnly_random", "BssWithCats", "BssWithCats_random"] {
        for simp in [SimpFunc::NoSimp, SimpFunc::CliffordSimp, SimpFunc::FullSimp] {
            let mut e = json!({"k": "saved", "driver": drv, "simp": simp_name(simp)});
            match run_cfg(&g, drv, simp, false, 0, true) {
                Err(m) => {
                    e["res"] = json!("panic");
                    e["msg"] = json!(m);
                }
                Ok((_, nterms, done)) => {
                    e["res"] = json!("ok");
                    e["nterms"] = json!(nterms);
                    e["terms"] = json!(done.iter().map(abs).collect::<Vec<_>>());
                }
            }
            tr.emit(e);
            n += 1;
        }
    }
    n
}

pub fn record(args: &[String], seed: u64, tr: &mut Tr) -> Value {
    let mut r = crate::gens::rng(seed);
    let nsteps: usize = arg_num(args, "--steps", 0);
    let nruns: usize = arg_num(args, "--runs", 0);
    let nsaved: usize = arg_num(args, "--saved", 0);
    let ncirc: usize = arg_num(args, "--circuits", 0);
    let maxt: usize = arg_num(args, "--maxt", 6);
    let all_threads = crate::util::arg_flag(args, "--all-threads");
    let mut counts = Default::default();
    for i in 0..nsteps {
        let nt = 1 + i % maxt;
        let nb = if i % 3 == 0 { r.random_range(1..=2) } else { 0 };
        let nc = r.random_range(0..=2);
        let a = host(&mut r, nt, nc, nb, 0.4, i % 2 == 0);
        record_steps(&a, tr, &mut r, &mut counts);
    }
    let mut runs = 0;
    for i in 0..nruns {
        let nt = 1 + i % maxt.min(7);
        let nc = r.random_range(0..=3);
        let a = if i % 4 == 3 { host_gadgets(&mut r) } else { host(&mut r, nt, nc, 0, 0.45, i % 2 == 0) };
        runs += record_runs(&a, tr, &mut r, all_threads);
    }
    // closed diagrams from Clifford+T circuits with basis states plugged in
    for _ in 0..ncirc {
        let q = r.random_range(2..=3usize);
        let c = quizx::circuit::Circuit::random().seed(r.random()).qubits(q).depth(r.random_range(4..14)).clifford_t(0.3).build();
        let mut g: Graph = c.to_graph();
        let ins: Vec<BasisElem> = (0..q).map(|_| [BasisElem::Z0, BasisElem::Z1, BasisElem::X0][r.random_range(0..3)]).collect();
        let outs: Vec<BasisElem> = (0..q).map(|_| [BasisElem::Z0, BasisElem::Z1, BasisElem::X1][r.random_range(0..3)]).collect();
        g.plug_inputs(&ins);
        g.plug_outputs(&outs);
        if g.tcount() > 7 || g.num_vertices() > 40 {
            continue;
        }
        let a = abs(&g);
        // without a simplifier the drivers need graph-like input: only the simplifying configurations are run
        tr.group();
        tr.emit(json!({"k": "reset", "pre": a}));
        for drv in DRIVERS {
            for simp in [SimpFunc::CliffordSimp, SimpFunc::FullSimp] {
                let threads = [0usize, 2, 4][r.random_range(0..3)];
                let res = crate::eng_simp::with_watchdog(60, {
                    let (g, drv) = (g.clone(), drv.to_string());
                    move || run_cfg(&g, &drv, simp, true, threads, false)
                });
                let mut e = json!({"k": "run", "driver": drv, "simp": simp_name(simp), "split": true, "par": threads > 0, "threads": threads, "from": "circuit"});
                match res {
                    None => e["res"] = json!("timeout"),
                    Some(Err(m)) => {
                        e["res"] = json!("panic");
                        e["msg"] = json!(m);
                    }
                    Some(Ok((s, nterms, _))) => {
                        e["res"] = json!("ok");
                        e["scalar"] = sc_json(&s);
                        e["approx"] = json!(crate::absg::sc_is_approx(&s));
                        e["nterms"] = json!(nterms);
                    }
                }
                tr.emit(e);
                runs += 1;
            }
        }
    }
    let mut saved = 0;
    for i in 0..nsaved {
        let nt = 1 + i % maxt.min(6);
        let (nc, nb) = (r.random_range(0..=2), r.random_range(1..=2));
        let a = host(&mut r, nt, nc, nb, 0.4, i % 2 == 0);
        saved += record_saved(&a, tr);
    }
    let extra = record_extra(args, &mut r, tr);
    json!({"step_hosts": nsteps, "step_kinds": counts, "runs": runs, "saved_runs": saved, "extra": extra})
}

// ---------------------------------------------------------------------------------------------
// API-coverage additions (docs/api_audit.md #3, #14 and the C05 table):
//   two    : decompose_until_depth(k) then a finishing decompose / decompose_parallel (on clones of the partially
//            decomposed Decomposer: same driver sequentially, same driver in a pool, a different driver), on hosts
//            that fall into components (juxtaposed diagrams, diagrams that split after one step); k in 0..3
//   run    : decompose_standard (driver "standard"); Decomposer<hash_graph::Graph> (be "hash"); SherlockDriver.tries
//            other than [2,2,2]; RE-USE of one Decomposer::empty() through set_target for several targets
//            (via "reuse", with_full_simp / with_clifford_simp / with_simp)
//   saved  : with_save(true) combined with decompose_parallel, with_split_graphs_components(true), two-stage runs and
//            re-use (the terms a target added to `done`)
//   step   : verif_apply_decomp on the hash backend (be "hash")
//   info   : never judged: max_terms / terms_for_tcount vs nterms, decompose_until_depth called twice, scalar() of a
//            partially decomposed state, degenerate Sherlock parameters
// ---------------------------------------------------------------------------------------------

type HGraph = quizx::hash_graph::Graph;

macro_rules! with_drv {
    ($name:expr, $tries:expr, $drv:ident => $body:expr) => {
        match $name {
            "BssTOnly" => {
                let $drv = BssTOnlyDriver { random_t: false };
                $body
            }
            "BssTOnly_random" => {
                let $drv = BssTOnlyDriver { random_t: true };
                $body
            }
            "BssWithCats" => {
                let $drv = BssWithCatsDriver { random_t: false };
                $body
            }
            "BssWithCats_random" => {
                let $drv = BssWithCatsDriver { random_t: true };
                $body
            }
            "DynamicT" => {
                let $drv = DynamicTDriver;
                $body
            }
            "Sherlock" => {
                let $drv = SherlockDriver { tries: $tries.clone() };
                $body
            }
            "SpiderCutting" => {
                let $drv = SpiderCuttingDriver;
                $body
            }
            _ => panic!("driver"),
        }
    };
}

fn small_f64(x: f64) -> i64 {
    if x.is_finite() && x >= 0.0 && x < 1e9 {
        x.round() as i64
    } else {
        -1
    }
}

fn simp_of(name: &str) -> SimpFunc {
    match name {
        "full" => SimpFunc::FullSimp,
        "clifford" => SimpFunc::CliffordSimp,
        _ => SimpFunc::NoSimp,
    }
}

fn finish<G: GraphLike>(d: &mut Decomposer<G>, driver: &str, tries: &Vec<usize>, threads: usize) {
    with_drv!(driver, tries, drv => {
        if threads == 0 {
            d.decompose(&drv);
        } else {
            let pool = rayon::ThreadPoolBuilder::new().num_threads(threads).build().unwrap();
            pool.install(|| {
                d.decompose_parallel(&drv);
            });
        }
    })
}

fn put_result(e: &mut Value, res: Result<(quizx::scalar::Scalar4, usize), String>) {
    match res {
        Err(m) => {
            e["res"] = json!("panic");
            e["msg"] = json!(m);
        }
        Ok((s, nterms)) => {
            e["res"] = json!("ok");
            e["scalar"] = sc_json(&s);
            e["approx"] = json!(crate::absg::sc_is_approx(&s));
            e["nterms"] = json!(nterms);
        }
    }
}

/// disjoint union of 2..3 small closed hosts, optionally joined through one T-like spider (so that the diagram
/// splits only after that spider has been decomposed / cut), with a non-trivial overall scalar
pub fn host_split(r: &mut StdRng, bridge: bool) -> Value {
    let nparts = r.random_range(2..=3usize);
    let mut v: Vec<Value> = vec![];
    let mut e: Vec<Value> = vec![];
    let mut firsts = vec![];
    let mut off = 0usize;
    for _ in 0..nparts {
        let nt = r.random_range(1..=2usize);
        let nc = r.random_range(0..=1usize);
        let part = host(r, nt, nc, 0, 0.7, false);
        let mut mx = 0;
        for x in part["v"].as_array().unwrap() {
            let mut x = x.clone();
            let id = x["id"].as_u64().unwrap() as usize + off;
            x["id"] = json!(id);
            mx = mx.max(id);
            v.push(x);
        }
        for x in part["e"].as_array().unwrap() {
            let mut x = x.clone();
            x["u"] = json!(x["u"].as_u64().unwrap() as usize + off);
            x["w"] = json!(x["w"].as_u64().unwrap() as usize + off);
            e.push(x);
        }
        firsts.push(off + 1);
        off = mx;
    }
    if bridge {
        let b = off + 1;
        v.push(json!({"id": b, "ty": "Z", "ph": crate::gens::ph4([1, 3, 5, 7][r.random_range(0..4)]), "vars": [], "vc": false}));
        for f in firsts.iter().take(2) {
            e.push(json!({"u": f, "w": b, "t": "H"}));
        }
    }
    let sc = [[1, 0, 0, 0, 0], [0, 1, 0, 0, 0], [1, 0, 1, 0, -1], [0, 1, 0, -1, 0], [-1, 0, 0, 0, 1]][r.random_range(0..5)];
    json!({"v": v, "e": e, "ins": [], "outs": [], "sc": sc, "sca": false, "sf": []})
}

/// all two-stage histories of one (driver, simp, split, depth): stage one once, then three finishers on clones
fn two_stage<G: GraphLike>(g: &G, be: &str, driver: &str, simp: &str, split: bool, depth: i64, threads: usize, other: &str, save: bool) -> Vec<Value> {
    let tries = vec![2usize, 2, 2];
    let mut out = vec![];
    let base = json!({"k": "two", "be": be, "driver": driver, "simp": simp, "split": split, "depth": depth});
    let mut d = Decomposer::new(g);
    d.with_simp(simp_of(simp)).with_split_graphs_components(split).with_save(save);
    let max0 = small_f64(d.max_terms());
    let st1 = guarded(|| {
        with_drv!(driver, &tries, drv => {
            d.decompose_until_depth(depth, &drv);
        })
    });
    if let Err(m) = st1 {
        let mut e = base.clone();
        e["finish"] = json!("none");
        e["res"] = json!("panic");
        e["stage"] = json!(1);
        e["msg"] = json!(m);
        out.push(e);
        return out;
    }
    let (n1, max1) = (d.nterms, small_f64(d.max_terms()));
    let ready1 = guarded(|| d.scalar()).is_ok();
    // never judged: the partial state (private) as far as the public API shows it
    out.push(json!({"k": "info", "what": "partial", "driver": driver, "depth": depth, "split": split, "max0": max0, "max1": max1, "nterms1": n1,
                    "done1": d.done.len(), "ready1": ready1}));
    for (fin, th, drv2) in [("seq", 0usize, driver), ("par", threads, driver), ("other", 0usize, other)] {
        let mut d2 = d.clone();
        let mut e = base.clone();
        e["finish"] = json!(fin);
        e["threads"] = json!(th);
        e["par"] = json!(th > 0);
        e["other"] = json!(drv2);
        e["stage"] = json!(2);
        let res = guarded(|| {
            finish(&mut d2, drv2, &tries, th);
            (d2.scalar(), d2.nterms)
        });
        put_result(&mut e, res);
        out.push(e);
        if save && fin == "seq" {
            // the terms saved over both stages (sequential finishing): they must still sum to the diagram
            let mut s = json!({"k": "saved", "driver": driver, "simp": simp, "split": split, "par": false, "threads": 0, "via": "two_stage", "depth": depth, "res": "ok"});
            s["nterms"] = json!(d2.nterms);
            s["terms"] = json!(d2.done.iter().map(abs).collect::<Vec<_>>());
            out.push(s);
        }
    }
    // never judged: a second bounded call on the partially decomposed state
    let mut d3 = d.clone();
    let again = guarded(|| {
        with_drv!(driver, &tries, drv => {
            d3.decompose_until_depth(depth + 1, &drv);
        })
    });
    out.push(json!({"k": "info", "what": "until_depth_twice", "driver": driver, "depth": depth, "res": if again.is_ok() { "ok" } else { "panic" }, "msg": again.err().unwrap_or_default()}));
    out
}

pub fn record_two_stage(a: &Value, tr: &mut Tr, r: &mut StdRng, hash_too: bool) -> usize {
    let g: Graph = build(a);
    let gh: HGraph = build(a);
    tr.group();
    tr.emit(json!({"k": "reset", "pre": a}));
    let mut n = 0;
    for drv in DRIVERS {
        for simp in ["none", "clifford", "full"] {
            for split in [false, true] {
                for depth in 0..=3i64 {
                    let threads = [1usize, 2, 3, 4, 8][r.random_range(0..5)];
                    let mut other = DRIVERS[r.random_range(0..DRIVERS.len())];
                    // spider cutting presupposes graph-like terms (H legs to Z spiders); without a simplifier the terms of
                    // the other drivers are not graph-like (X spiders, plain edges), so it only finishes its own stage one
                    if simp == "none" && other == "SpiderCutting" && drv != "SpiderCutting" {
                        other = "BssTOnly";
                    }
                    let use_hash = hash_too && r.random_bool(0.15);
                    let evs = crate::eng_simp::with_watchdog(90, {
                        let (g, gh, drv) = (g.clone(), gh.clone(), drv.to_string());
                        move || {
                            if use_hash {
                                two_stage(&gh, "hash", &drv, simp, split, depth, threads, other, false)
                            } else {
                                two_stage(&g, "vec", &drv, simp, split, depth, threads, other, false)
                            }
                        }
                    });
                    match evs {
                        None => tr.emit(json!({"k": "two", "be": "vec", "driver": drv, "simp": simp, "split": split, "depth": depth, "finish": "none", "res": "timeout"})),
                        Some(evs) => {
                            for e in evs {
                                if e["k"] == "two" {
                                    n += 1;
                                }
                                tr.emit(e);
                            }
                        }
                    }
                }
            }
        }
    }
    n
}

/// complete runs through the entry points and parameters the grid of record_runs does not reach
pub fn record_more_runs(a: &Value, tr: &mut Tr, r: &mut StdRng) -> usize {
    let g: Graph = build(a);
    let gh: HGraph = build(a);
    tr.group();
    tr.emit(json!({"k": "reset", "pre": a}));
    let mut n = 0;
    let emit_run = |tr: &mut Tr, mut e: Value, res: Option<Result<(quizx::scalar::Scalar4, usize, i64), String>>| {
        match res {
            None => e["res"] = json!("timeout"),
            Some(Err(m)) => {
                e["res"] = json!("panic");
                e["msg"] = json!(m);
            }
            Some(Ok((s, nterms, maxt))) => {
                e["res"] = json!("ok");
                e["scalar"] = sc_json(&s);
                e["approx"] = json!(crate::absg::sc_is_approx(&s));
                e["nterms"] = json!(nterms);
                e["max_terms"] = json!(maxt);
            }
        }
        tr.emit(e);
    };
    // (1) decompose_standard: the driver-less entry point
    for simp in ["none", "clifford", "full"] {
        for split in [false, true] {
            let res = crate::eng_simp::with_watchdog(60, {
                let g = g.clone();
                move || {
                    guarded(|| {
                        let mut d = Decomposer::new(&g);
                        d.with_simp(simp_of(simp)).with_split_graphs_components(split);
                        let mt = small_f64(d.max_terms());
                        d.decompose_standard();
                        (d.scalar(), d.nterms, mt)
                    })
                }
            });
            emit_run(tr, json!({"k": "run", "be": "vec", "driver": "standard", "simp": simp, "split": split, "par": false, "threads": 0}), res);
            n += 1;
        }
    }
    // (2) the hash backend: every driver, one random configuration each
    for drv in DRIVERS {
        let simp = ["none", "clifford", "full"][r.random_range(0..3)];
        let split = r.random_bool(0.5);
        let threads = [0usize, 0, 2, 4][r.random_range(0..4)];
        let res = crate::eng_simp::with_watchdog(60, {
            let (gh, drv) = (gh.clone(), drv.to_string());
            move || {
                guarded(|| {
                    let mut d = Decomposer::new(&gh);
                    d.with_simp(simp_of(simp)).with_split_graphs_components(split);
                    let mt = small_f64(d.max_terms());
                    finish(&mut d, &drv, &vec![2, 2, 2], threads);
                    (d.scalar(), d.nterms, mt)
                })
            }
        });
        emit_run(tr, json!({"k": "run", "be": "hash", "driver": drv, "simp": simp, "split": split, "par": threads > 0, "threads": threads}), res);
        n += 1;
    }
    // (3) Sherlock with other numbers of tries.  The field is undocumented; the code reads tries[0..3], and with
    // tries[0] >= 1 there is always a candidate.  Shorter vectors / no candidate at all: recorded, never judged.
    for tries in [vec![1usize, 0, 0], vec![1, 1, 1], vec![3, 2, 1], vec![6, 0, 2], vec![2, 2, 2, 7], vec![1, 5, 0]] {
        let simp = ["none", "clifford", "full"][r.random_range(0..3)];
        let split = r.random_bool(0.5);
        let res = crate::eng_simp::with_watchdog(60, {
            let (g, tries) = (g.clone(), tries.clone());
            move || {
                guarded(|| {
                    let mut d = Decomposer::new(&g);
                    d.with_simp(simp_of(simp)).with_split_graphs_components(split);
                    let mt = small_f64(d.max_terms());
                    finish(&mut d, "Sherlock", &tries, 0);
                    (d.scalar(), d.nterms, mt)
                })
            }
        });
        emit_run(tr, json!({"k": "run", "be": "vec", "driver": "Sherlock", "tries": tries, "simp": simp, "split": split, "par": false, "threads": 0}), res);
        n += 1;
    }
    for tries in [vec![], vec![2usize], vec![2, 2], vec![0, 0, 0], vec![0, 2, 2]] {
        let res = crate::eng_simp::with_watchdog(60, {
            let (g, tries) = (g.clone(), tries.clone());
            move || {
                guarded(|| {
                    let mut d = Decomposer::new(&g);
                    d.with_simp(SimpFunc::FullSimp);
                    finish(&mut d, "Sherlock", &tries, 0);
                    d.scalar()
                })
            }
        });
        let (res, msg) = match res {
            None => ("timeout", String::new()),
            Some(Err(m)) => ("panic", m),
            Some(Ok(_)) => ("ok", String::new()),
        };
        tr.emit(json!({"k": "info", "what": "sherlock_degenerate", "tries": tries, "res": res, "msg": msg}));
    }
    n
}

/// one Decomposer::empty() re-used through set_target for several targets (what the sampler of `quizx sim` does)
fn reuse_history<G: GraphLike>(targets: &[Value], be: &str, driver: &str, simp: &str, via_with: bool, split: bool, save: bool, threads: usize, standard_at: usize) -> Vec<Value> {
    let tries = vec![2usize, 2, 2];
    let mut out = vec![];
    let mut d: Decomposer<G> = Decomposer::empty();
    // never judged: an empty decomposer has no scalar (documented panic "Not yet initialised!")
    let e0 = guarded(|| d.scalar()).is_ok();
    out.push(json!({"k": "info", "what": "empty_scalar", "res": if e0 { "ok" } else { "panic" }}));
    if via_with {
        match simp {
            "full" => d.with_full_simp(),
            "clifford" => d.with_clifford_simp(),
            _ => d.with_simp(SimpFunc::NoSimp),
        };
    } else {
        d.with_simp(simp_of(simp));
    }
    d.with_split_graphs_components(split).with_save(save);
    for (i, a) in targets.iter().enumerate() {
        let g: G = build(a);
        let closed = g.inputs().is_empty() && g.outputs().is_empty();
        out.push(json!({"k": "reset", "pre": a}));
        let (n0, d0) = (d.nterms, d.done.len());
        let standard = i == standard_at;
        let res = guarded(|| {
            d.set_target(g.clone());
            if standard {
                d.decompose_standard();
            } else {
                finish(&mut d, driver, &tries, threads);
            }
            d.scalar()
        });
        let drvname = if standard { "standard" } else { driver };
        // a target with open wires has no scalar to judge: only its saved terms are (a panic there is reported by
        // the `saved` event, which Trace_Decomp judges for the sequential, unsplit decomposer only)
        if closed {
            let mut e = json!({"k": "run", "be": be, "driver": drvname, "simp": simp, "split": split, "par": threads > 0 && !standard, "threads": if standard { 0 } else { threads },
                               "via": "reuse", "nth": i, "nterms_total": d.nterms});
            put_result(&mut e, res.clone().map(|s| (s, d.nterms - n0)));
            out.push(e);
        }
        if save {
            let mut s = json!({"k": "saved", "be": be, "driver": drvname, "simp": simp, "split": split, "par": threads > 0 && !standard, "threads": if standard { 0 } else { threads },
                               "via": "reuse", "nth": i, "res": if res.is_ok() { "ok" } else { "panic" }});
            s["nterms"] = json!(d.nterms - n0);
            s["done_before"] = json!(d0);
            s["terms"] = json!(d.done[d0.min(d.done.len())..].iter().map(abs).collect::<Vec<_>>());
            out.push(s);
        }
        if res.is_err() && !closed {
            // the panic may have left the decomposer in the middle of a target: start the next one from a clean state
            d.set_target(g.clone());
        }
    }
    out
}

pub fn record_reuse(r: &mut StdRng, tr: &mut Tr, maxt: usize) -> usize {
    let ntargets = r.random_range(2..=4usize);
    let save = r.random_bool(0.5);
    // open targets only together with saving and a BSS-type driver (the saved-terms clause); closed ones always
    let bss = ["BssTOnly", "BssTOnly_random", "BssWithCats", "BssWithCats_random"];
    let driver = if save { bss[r.random_range(0..4)] } else { DRIVERS[r.random_range(0..DRIVERS.len())] };
    let mut targets = vec![];
    for i in 0..ntargets {
        let nt = r.random_range(if i == 1 { 0 } else { 1 }..=maxt.min(5));
        let nc = r.random_range(0..=2);
        let nb = if save && r.random_bool(0.5) { r.random_range(1..=2) } else { 0 };
        let nt = if nb > 0 { nt.max(1) } else { nt }; // an output needs a spider to hang on
        let (c1, c2) = (r.random_bool(0.3), r.random_bool(0.5));
        targets.push(if nb == 0 && c1 { host_split(r, c2) } else { host(r, nt, nc, nb, 0.45, c2) });
    }
    let simp = ["none", "clifford", "full"][r.random_range(0..3)];
    let (via_with, split) = (r.random_bool(0.7), r.random_bool(0.5));
    // saving is only promised for the sequential, unsplit decomposer (see Trace_Decomp: SaveParallel)
    let threads = if r.random_bool(0.3) { [1usize, 2, 4][r.random_range(0..3)] } else { 0 };
    let standard_at = if r.random_bool(0.3) { r.random_range(0..ntargets) } else { usize::MAX };
    let hash = r.random_bool(0.3);
    tr.group();
    let evs = crate::eng_simp::with_watchdog(120, {
        let targets = targets.clone();
        move || {
            if hash {
                reuse_history::<HGraph>(&targets, "hash", driver, simp, via_with, split, save, threads, standard_at)
            } else {
                reuse_history::<Graph>(&targets, "vec", driver, simp, via_with, split, save, threads, standard_at)
            }
        }
    });
    match evs {
        None => {
            tr.emit(json!({"k": "reset", "pre": targets[0]}));
            tr.emit(json!({"k": "run", "be": "vec", "driver": driver, "simp": simp, "split": split, "par": threads > 0, "threads": threads, "via": "reuse", "res": "timeout"}));
            1
        }
        Some(evs) => {
            let n = evs.iter().filter(|e| e["k"] == "run" || e["k"] == "saved").count();
            for e in evs {
                tr.emit(e);
            }
            n
        }
    }
}

/// saved terms with the modes record_saved leaves out: parallel finishing, component splitting, two stages, hash backend
pub fn record_saved_modes(a: &Value, tr: &mut Tr, r: &mut StdRng) -> usize {
    let g: Graph = build(a);
    let gh: HGraph = build(a);
    tr.group();
    tr.emit(json!({"k": "reset", "pre": a}));
    let mut n = 0;
    for drv in ["BssTOnly", "BssTOnly_random", "BssWithCats", "BssWithCats_random"] {
        for (split, threads, be) in [(true, 0usize, "vec"), (false, [1usize, 2, 4][r.random_range(0..3)], "vec"), (true, 2, "vec"), (false, 0, "hash")] {
            let simp = ["none", "clifford", "full"][r.random_range(0..3)];
            let mut e = json!({"k": "saved", "be": be, "driver": drv, "simp": simp, "split": split, "par": threads > 0, "threads": threads});
            let res = if be == "hash" {
                guarded(|| {
                    let mut d = Decomposer::new(&gh);
                    d.with_simp(simp_of(simp)).with_split_graphs_components(split).with_save(true);
                    finish(&mut d, drv, &vec![2, 2, 2], threads);
                    (d.nterms, d.done.iter().map(abs).collect::<Vec<_>>())
                })
            } else {
                guarded(|| {
                    let mut d = Decomposer::new(&g);
                    d.with_simp(simp_of(simp)).with_split_graphs_components(split).with_save(true);
                    finish(&mut d, drv, &vec![2, 2, 2], threads);
                    (d.nterms, d.done.iter().map(abs).collect::<Vec<_>>())
                })
            };
            match res {
                Err(m) => {
                    e["res"] = json!("panic");
                    e["msg"] = json!(m);
                }
                Ok((nterms, done)) => {
                    e["res"] = json!("ok");
                    e["nterms"] = json!(nterms);
                    e["terms"] = json!(done);
                }
            }
            tr.emit(e);
            n += 1;
        }
        // two stages with saving (sequential, unsplit)
        let depth = r.random_range(1..=2i64);
        for e in two_stage(&g, "vec", drv, ["none", "clifford", "full"][r.random_range(0..3)], false, depth, 2, drv, true) {
            if e["k"] == "saved" {
                tr.emit(e);
                n += 1;
            }
        }
    }
    n
}

/// one decomposition step on the hash backend (the guarded re-export is generic over the graph type)
pub fn record_steps_hash(a: &Value, tr: &mut Tr) -> usize {
    let g: HGraph = build(a);
    if g.tcount() == 0 {
        return 0;
    }
    tr.group();
    tr.emit(json!({"k": "reset", "pre": a}));
    let closed = g.inputs().is_empty() && g.outputs().is_empty();
    let mut ds: Vec<(Decomp, &str)> = vec![
        (BssTOnlyDriver { random_t: false }.choose_decomp(&g), "driver:BssTOnly"),
        (BssWithCatsDriver { random_t: false }.choose_decomp(&g), "driver:BssWithCats"),
        (BssWithCatsDriver { random_t: true }.choose_decomp(&g), "driver:BssWithCats_random"),
    ];
    if closed {
        for (d, n) in [
            (guarded(|| DynamicTDriver.choose_decomp(&g)), "driver:DynamicT"),
            (guarded(|| SherlockDriver { tries: vec![3, 1, 2] }.choose_decomp(&g)), "driver:Sherlock"),
            (guarded(|| SpiderCuttingDriver.choose_decomp(&g)), "driver:SpiderCutting"),
        ] {
            if let Ok(d) = d {
                ds.push((d, n));
            }
        }
    }
    let mut n = 0;
    for (d, via) in ds {
        let mut e = match guarded(|| verif_apply_decomp(&g, &d)) {
            Err(m) => json!({"k": "step", "decomp": decomp_json(&d), "via": via, "res": "panic", "msg": m}),
            Ok(ts) => json!({"k": "step", "decomp": decomp_json(&d), "via": via, "res": "ok", "terms": ts.iter().map(abs).collect::<Vec<_>>()}),
        };
        e["be"] = json!("hash");
        tr.emit(e);
        n += 1;
    }
    n
}

/// entry point of the additions: `--two N --more N --reuse N --saved-modes N --steps-hash N`
pub fn record_extra(args: &[String], r: &mut StdRng, tr: &mut Tr) -> Value {
    let maxt: usize = arg_num(args, "--maxt", 6);
    let (ntwo, nmore, nreuse, nsm, nsh): (usize, usize, usize, usize, usize) =
        (arg_num(args, "--two", 0), arg_num(args, "--more", 0), arg_num(args, "--reuse", 0), arg_num(args, "--saved-modes", 0), arg_num(args, "--steps-hash", 0));
    let mut two = 0;
    for i in 0..ntwo {
        // two thirds of the hosts fall into components (at once, or after the bridge spider has gone)
        let nc = r.random_range(0..=2);
        let a = match i % 3 {
            0 => host_split(r, false),
            1 => host_split(r, true),
            _ => host(r, 1 + i % maxt.min(5), nc, 0, 0.45, i % 2 == 0),
        };
        two += record_two_stage(&a, tr, r, true);
    }
    let mut more = 0;
    for i in 0..nmore {
        let nc = r.random_range(0..=3);
        let a = if i % 3 == 0 { host_split(r, i % 2 == 0) } else { host(r, 1 + i % maxt.min(6), nc, 0, 0.45, i % 2 == 0) };
        more += record_more_runs(&a, tr, r);
    }
    let mut reuse = 0;
    for _ in 0..nreuse {
        reuse += record_reuse(r, tr, maxt);
    }
    let mut sm = 0;
    for i in 0..nsm {
        let (nt, nc, nb) = (1 + i % maxt.min(5), r.random_range(0..=2), r.random_range(1..=2));
        let a = host(r, nt, nc, nb, 0.4, i % 2 == 0);
        sm += record_saved_modes(&a, tr, r);
    }
    let mut sh = 0;
    for i in 0..nsh {
        let nt = 1 + i % maxt;
        let nb = if i % 3 == 0 { r.random_range(1..=2) } else { 0 };
        let nc = r.random_range(0..=2);
        let a = host(r, nt, nc, nb, 0.4, i % 2 == 0);
        sh += record_steps_hash(&a, tr);
    }
    json!({"two_stage_runs": two, "more_runs": more, "reuse_events": reuse, "saved_mode_runs": sm, "hash_steps": sh})
}
