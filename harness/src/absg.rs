//! The single projection between quizx graphs and the abstract JSON diagram shared with the
//! TLA+ specification (`ZXGraph!FromAbs` / `ZXGraph!ToAbs`).  Used in both directions.
//!
//! Shape (arrays sorted so equal diagrams give equal text):
//! {"v":[{"id":3,"ty":"Z","ph":[1,4],"vars":[0,2],"vc":false}, ..],
//!  "e":[{"u":3,"w":5,"t":"H"}, ..]  (u < w),  "ins":[..], "outs":[..],
//!  "sc":[a,b,c,d,e], "sca":false, "sf":[{"cond":[[[0,2],false]],"sc":[..]}, ..]}
//! TLC's Json module silently truncates floats and wraps integers >= 2^31, so only small
//! integers, booleans and strings are ever written (checked by `assert_tlc_safe`).

use num::Rational64;
use quizx::graph::*;
use quizx::params::{Expr, Parity};
use quizx::phase::Phase;
use quizx::scalar::{Dyadic, Scalar4};
use serde_json::{json, Value};

/// exact integer view of a Scalar4: (a,b,c,d,e) with value (a + b w + c w^2 + d w^3) 2^e,
/// normalised so that not all of a..d are even (or all zero with e = 0). None if a
/// coefficient does not fit 62 bits after alignment.
pub fn sc_exact(s: &Scalar4) -> Option<([i128; 4], i32)> {
    let raw: Vec<(bool, u64, i32, bool)> = s.verif_coeffs().iter().map(|d| d.verif_raw()).collect();
    let mut parts: Vec<Option<(i128, i32)>> = vec![];
    for &(neg, m, e, _) in &raw {
        if m == 0 {
            parts.push(None);
        } else {
            let tz = m.trailing_zeros();
            let mm = (m >> tz) as i128;
            parts.push(Some((if neg { -mm } else { mm }, e + tz as i32)));
        }
    }
    let emin = parts.iter().flatten().map(|p| p.1).min();
    match emin {
        None => Some(([0; 4], 0)),
        Some(emin) => {
            let mut out = [0i128; 4];
            for (i, p) in parts.iter().enumerate() {
                if let Some((m, e)) = p {
                    let sh = (e - emin) as u32;
                    if sh > 60 || m.unsigned_abs().leading_zeros() < sh + 66 {
                        return None;
                    }
                    out[i] = m << sh;
                }
            }
            Some((out, emin))
        }
    }
}

pub fn sc_is_approx(s: &Scalar4) -> bool {
    s.verif_coeffs().iter().any(|d| d.verif_raw().3)
}

/// JSON `[a,b,c,d,e]`; the string "big" when a coefficient does not fit TLC's integers.
pub fn sc_json(s: &Scalar4) -> Value {
    match sc_exact(s) {
        Some((c, e)) if c.iter().all(|x| x.abs() < (1 << 30)) && e.abs() < (1 << 20) => {
            json!([c[0] as i64, c[1] as i64, c[2] as i64, c[3] as i64, e])
        }
        _ => json!("big"),
    }
}

pub fn sc_from_json(v: &Value) -> Scalar4 {
    let a: Vec<i64> = v.as_array().unwrap().iter().map(|x| x.as_i64().unwrap()).collect();
    Scalar4::new([a[0], a[1], a[2], a[3]], a[4] as i32)
}

pub fn phase_json(p: Phase) -> Value {
    let r: Rational64 = p.to_rational();
    json!([*r.numer(), *r.denom()])
}

pub fn parity_json(p: &Parity) -> (Value, bool) {
    let vars: Vec<u32> = p.iter().collect();
    // the constant bit is private: recover it by comparing with the flipped parity
    let c = *p != Parity::new(vars.clone(), false);
    (json!(vars), c)
}

pub fn expr_json(e: &Expr) -> Value {
    Value::Array(
        e.iter()
            .map(|p| {
                let (v, c) = parity_json(p);
                json!([v, c])
            })
            .collect(),
    )
}

fn ty_str(t: VType) -> &'static str {
    match t {
        VType::B => "B",
        VType::Z => "Z",
        VType::X => "X",
        VType::H => "Hbox",
        VType::WInput => "Win",
        VType::WOutput => "Wout",
        VType::ZBox => "Zbox",
    }
}
fn ty_from(s: &str) -> VType {
    match s {
        "B" => VType::B,
        "Z" => VType::Z,
        "X" => VType::X,
        "Hbox" => VType::H,
        _ => panic!("type {s}"),
    }
}
fn et_str(t: EType) -> &'static str {
    match t {
        EType::N => "N",
        EType::H => "H",
        EType::Wio => "W",
    }
}
pub fn et_from(s: &str) -> EType {
    match s {
        "N" => EType::N,
        "H" => EType::H,
        _ => panic!("etype {s}"),
    }
}

/// The abstract JSON diagram from plain parts (hook H4 hands out vertices and edges, not a graph); scalar 1.
pub fn abs_parts(verts: &[(V, VType, Phase)], edges: &[(V, V, EType)], ins: &[V], outs: &[V]) -> Value {
    let mut vs = verts.to_vec();
    vs.sort_by_key(|x| x.0);
    let v: Vec<Value> = vs.iter().map(|&(x, ty, ph)| json!({"id": x, "ty": ty_str(ty), "ph": phase_json(ph), "vars": [], "vc": false})).collect();
    let mut es: Vec<(V, V, EType)> = edges.iter().map(|&(a, b, t)| if a <= b { (a, b, t) } else { (b, a, t) }).collect();
    es.sort();
    let e: Vec<Value> = es.iter().map(|&(a, b, t)| json!({"u": a, "w": b, "t": et_str(t)})).collect();
    json!({"v": v, "e": e, "ins": ins, "outs": outs, "sc": [1, 0, 0, 0, 0], "sca": false, "sf": []})
}

/// The abstract JSON diagram from a snapshot taken by hook H3 (same shape as `abs`).
pub fn abs_snapshot(verts: &[(V, VData)], edges: &[(V, V, EType)], ins: &[V], outs: &[V], scalar: &Scalar4, sfs: &[(Expr, Scalar4)]) -> Value {
    let mut vs: Vec<&(V, VData)> = verts.iter().collect();
    vs.sort_by_key(|x| x.0);
    let v: Vec<Value> = vs
        .iter()
        .map(|(x, d)| {
            let (vars, vc) = parity_json(&d.vars);
            json!({"id": x, "ty": ty_str(d.ty), "ph": phase_json(d.phase), "vars": vars, "vc": vc})
        })
        .collect();
    let mut es: Vec<(V, V, EType)> = edges.iter().map(|&(a, b, t)| if a <= b { (a, b, t) } else { (b, a, t) }).collect();
    es.sort();
    let e: Vec<Value> = es.iter().map(|&(a, b, t)| json!({"u": a, "w": b, "t": et_str(t)})).collect();
    let mut sf: Vec<(Value, Value)> = sfs.iter().map(|(e, s)| (expr_json(e), sc_json(s))).collect();
    sf.sort_by_key(|(c, _)| c.to_string());
    let sf: Vec<Value> = sf.into_iter().map(|(c, s)| json!({"cond": c, "sc": s})).collect();
    json!({"v": v, "e": e, "ins": ins, "outs": outs, "sc": sc_json(scalar), "sca": sc_is_approx(scalar), "sf": sf})
}

/// Project a graph to the abstract JSON diagram.
pub fn abs(g: &impl GraphLike) -> Value {
    let mut vs: Vec<V> = g.vertices().collect();
    vs.sort();
    let v: Vec<Value> = vs
        .iter()
        .map(|&x| {
            let d = g.vertex_data(x);
            let (vars, vc) = parity_json(&d.vars);
            json!({"id": x, "ty": ty_str(d.ty), "ph": phase_json(d.phase), "vars": vars, "vc": vc})
        })
        .collect();
    let mut es: Vec<(V, V, EType)> = g
        .edges()
        .map(|(a, b, t)| if a <= b { (a, b, t) } else { (b, a, t) })
        .collect();
    es.sort();
    let e: Vec<Value> = es.iter().map(|&(a, b, t)| json!({"u": a, "w": b, "t": et_str(t)})).collect();
    let mut sf: Vec<(Value, Value)> = g.scalar_factors().map(|(e, s)| (expr_json(e), sc_json(s))).collect();
    sf.sort_by_key(|(c, _)| c.to_string());
    let sf: Vec<Value> = sf.into_iter().map(|(c, s)| json!({"cond": c, "sc": s})).collect();
    json!({"v": v, "e": e, "ins": g.inputs(), "outs": g.outputs(),
           "sc": sc_json(g.scalar()), "sca": sc_is_approx(g.scalar()), "sf": sf})
}

/// Coordinates, cached counters and other observables that only C09/C13 look at.
pub fn abs_ext(g: &impl GraphLike) -> Value {
    let mut a = abs(g);
    let mut vs: Vec<V> = g.vertices().collect();
    vs.sort();
    let crd: Vec<Value> = vs
        .iter()
        .map(|&x| json!([x, (g.row(x) * 10.0).round() as i64, (g.qubit(x) * 10.0).round() as i64]))
        .collect();
    a["crd"] = json!(crd);
    a["n"] = json!({"numv": g.num_vertices(), "nume": g.num_edges(), "vindex": g.vindex()});
    a
}

/// Build a graph with exactly the given vertex names from an abstract diagram.
/// Names are obtained by allocating 0..=max in order and deleting the unused ones, which
/// works for both backends without relying on named insertion.
pub fn build<G: GraphLike>(a: &Value) -> G {
    let mut g = G::new();
    let vs = a["v"].as_array().unwrap();
    let maxid = vs.iter().map(|v| v["id"].as_u64().unwrap() as usize).max();
    if let Some(maxid) = maxid {
        let mut present = vec![false; maxid + 1];
        for i in 0..=maxid {
            let x = g.add_vertex(VType::Z);
            assert_eq!(x, i, "fresh names are expected to be consecutive from an empty graph");
        }
        for v in vs {
            let id = v["id"].as_u64().unwrap() as usize;
            present[id] = true;
            let ph = &v["ph"];
            let d = VData {
                ty: ty_from(v["ty"].as_str().unwrap()),
                phase: Phase::new(Rational64::new(ph[0].as_i64().unwrap(), ph[1].as_i64().unwrap())),
                vars: Parity::new(
                    v["vars"].as_array().unwrap().iter().map(|x| x.as_u64().unwrap() as u32).collect::<Vec<u32>>(),
                    v["vc"].as_bool().unwrap(),
                ),
                qubit: v.get("q").and_then(|x| x.as_f64()).unwrap_or(0.0),
                row: v.get("r").and_then(|x| x.as_f64()).unwrap_or(0.0),
            };
            *g.vertex_data_mut(id) = d;
        }
        // delete unused names from the top down so that the vec backend's hole stack is deterministic
        for i in (0..=maxid).rev() {
            if !present[i] {
                g.remove_vertex(i);
            }
        }
    }
    // The abstract diagram lists its edges sorted; inserting them in that order would give every built graph the same
    // adjacency ORDER (a gadget's leaf always last in its hub's list, ...), and code that takes "the first neighbour with ..."
    // would only ever be seen in one of its cases (seed C04_f). Every second diagram (decided by a hash of its content, so that
    // both backends and every run agree) therefore gets its edges inserted in a scrambled order, sometimes with the endpoints
    // exchanged. Nothing observable through abs() depends on it.
    let es = a["e"].as_array().unwrap();
    let mut order: Vec<usize> = (0..es.len()).collect();
    let mut hsh = {
        use std::hash::{Hash, Hasher};
        let mut h = std::collections::hash_map::DefaultHasher::new();
        a["e"].to_string().hash(&mut h);
        a["v"].to_string().hash(&mut h);
        h.finish() | 1
    };
    let scramble = (hsh >> 7) & 1 == 1;
    let mut next = || {
        hsh ^= hsh << 13;
        hsh ^= hsh >> 7;
        hsh ^= hsh << 17;
        hsh
    };
    if scramble {
        for i in (1..order.len()).rev() {
            order.swap(i, (next() % (i as u64 + 1)) as usize);
        }
    }
    for &i in &order {
        let e = &es[i];
        let (mut u, mut w) = (e["u"].as_u64().unwrap() as usize, e["w"].as_u64().unwrap() as usize);
        if scramble && next() & 1 == 1 {
            std::mem::swap(&mut u, &mut w);
        }
        g.add_edge_with_type(u, w, et_from(e["t"].as_str().unwrap()));
    }
    g.set_inputs(a["ins"].as_array().unwrap().iter().map(|x| x.as_u64().unwrap() as usize).collect());
    g.set_outputs(a["outs"].as_array().unwrap().iter().map(|x| x.as_u64().unwrap() as usize).collect());
    *g.scalar_mut() = sc_from_json(&a["sc"]);
    if let Some(sf) = a.get("sf").and_then(|x| x.as_array()) {
        for f in sf {
            let ps: Vec<Parity> = f["cond"]
                .as_array()
                .unwrap()
                .iter()
                .map(|p| {
                    Parity::new(
                        p[0].as_array().unwrap().iter().map(|x| x.as_u64().unwrap() as u32).collect::<Vec<u32>>(),
                        p[1].as_bool().unwrap(),
                    )
                })
                .collect();
            let e = if ps.len() == 1 {
                Expr::linear(ps[0].clone())
            } else {
                Expr::quadratic(ps[0].clone(), ps[1].clone())
            };
            g.mul_scalar_factor(e, sc_from_json(&f["sc"]));
        }
    }
    g
}

/// Abort (tool error) if a JSON value could be misread by TLC's Json module.
pub fn assert_tlc_safe(v: &Value) {
    match v {
        Value::Null => panic!("null in trace line"),
        Value::Number(n) => {
            let i = n.as_i64().unwrap_or_else(|| panic!("non-integer number {n} in trace line"));
            assert!(i.abs() < (1 << 31) - 1, "integer {i} too large for TLC");
        }
        Value::Array(a) => a.iter().for_each(assert_tlc_safe),
        Value::Object(o) => o.values().for_each(assert_tlc_safe),
        _ => {}
    }
}

pub fn d_raw_json(d: &Dyadic) -> Value {
    let (s, m, e, a) = d.verif_raw();
    json!({"neg": s, "m": m.to_string(), "e": e, "ap": a})
}

/// Rename vertices to their rank (order-preserving); used to compare results of the two
/// backends when one of them compacted its names.
pub fn canon(a: &Value) -> Value {
    let ids: Vec<u64> = a["v"].as_array().unwrap().iter().map(|v| v["id"].as_u64().unwrap()).collect();
    let rank = |x: u64| ids.iter().position(|y| *y == x).map(|p| p as u64).unwrap_or(x + 1_000_000);
    let mut b = a.clone();
    for v in b["v"].as_array_mut().unwrap() {
        v["id"] = json!(rank(v["id"].as_u64().unwrap()));
    }
    for e in b["e"].as_array_mut().unwrap() {
        e["u"] = json!(rank(e["u"].as_u64().unwrap()));
        e["w"] = json!(rank(e["w"].as_u64().unwrap()));
    }
    for key in ["ins", "outs"] {
        for x in b[key].as_array_mut().unwrap() {
            *x = json!(rank(x.as_u64().unwrap()));
        }
    }
    b
}
