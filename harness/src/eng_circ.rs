//! Circuit-level engines: translation to diagrams (C02), circuit transformations (C15).

use crate::absg::{abs, abs_parts, canon};
use crate::circ::*;
use crate::util::{guarded, Tr};
use quizx::circuit::Circuit;
use quizx::graph::GraphLike;
use serde_json::{json, Value};

fn tograph<G: GraphLike>(c: &Circuit, mode: &str, be: &str) -> Value {
    let (simp, post) = match mode {
        "plain" => (false, false),
        "simp" => (true, false),
        "postsel" => (false, true),
        "simp_postsel" => (true, true),
        _ => panic!("mode"),
    };
    match guarded(|| c.to_graph_with_options::<G>(simp, post)) {
        Err(msg) => json!({"k": "tograph", "mode": mode, "be": be, "res": "panic", "msg": msg}),
        Ok(g) => json!({"k": "tograph", "mode": mode, "be": be, "res": "ok", "post": abs(&g)}),
    }
}

pub fn record_tograph(cj: &Value, tr: &mut Tr, modes: &[&str]) {
    let c = circ_from_json(cj);
    tr.group();
    tr.emit(json!({"k": "circ", "c": cj}));
    for mode in modes {
        let ev = tograph::<quizx::vec_graph::Graph>(&c, mode, "vec");
        let eh = tograph::<quizx::hash_graph::Graph>(&c, mode, "hash");
        let same = match (ev.get("post"), eh.get("post")) {
            (Some(a), Some(b)) => canon(a) == canon(b),
            _ => ev["res"] == eh["res"],
        };
        if same {
            let mut e = eh;
            e["be"] = json!("both");
            tr.emit(e);
        } else {
            tr.emit(ev);
            tr.emit(eh);
        }
    }
}

/// C15: adjoint, basic-gate expansion, concatenation, reversal, statistics
pub fn record_ops(cj: &Value, cj2: &Value, tr: &mut Tr) {
    let c = circ_from_json(cj);
    let c2 = circ_from_json(cj2);
    tr.group();
    tr.emit(json!({"k": "circ", "c": cj}));
    let put = |tr: &mut Tr, op: &str, r: Result<Value, String>| match r {
        Ok(v) => tr.emit(json!({"k": "op", "op": op, "res": "ok", "out": v})),
        Err(m) => tr.emit(json!({"k": "op", "op": op, "res": "panic", "msg": m})),
    };
    put(tr, "adjoint", guarded(|| circ_json(&c.to_adjoint())));
    put(tr, "basic", guarded(|| {
        let b = c.to_basic_gates();
        let adv: usize = c.gates.iter().map(|g| g.num_basic_gates()).sum();
        json!({"c": circ_json(&b), "advertised": adv})
    }));
    // every overload of `+` and `+=`
    put(tr, "concat", guarded(|| {
        let mut acc = c.clone();
        acc += &c2;
        json!({"rhs": cj2, "sum": circ_json(&(c.clone() + c2.clone())), "sum_ref": circ_json(&(&c + &c2)),
               "sum_ref_own": circ_json(&(&c + c2.clone())), "sum_own_ref": circ_json(&(c.clone() + &c2)), "sum_assign": circ_json(&acc)})
    }));
    put(tr, "reverse2", guarded(|| {
        let mut r = c.clone();
        r.reverse();
        let once = circ_json(&r);
        r.reverse();
        json!({"once": once, "twice": circ_json(&r)})
    }));
    put(tr, "stats", guarded(|| {
        let s = c.stats();
        json!({"qubits": s.qubits, "total": s.total, "oneq": s.oneq, "twoq": s.twoq, "moreq": s.moreq, "cliff": s.cliff, "non_cliff": s.non_cliff})
    }));
}

// ---------------------------------------------------------------------------------------
// C12: equality checkers
// ---------------------------------------------------------------------------------------
use quizx::equality::*;
use quizx::extract::ToCircuit;
use quizx::simplify::*;
use rand::rngs::StdRng;
use rand::Rng;

fn ans(r: Result<Option<bool>, String>) -> Value {
    match r {
        Ok(Some(true)) => json!("equal"),
        Ok(Some(false)) => json!("notequal"),
        Ok(None) => json!("unknown"),
        Err(_) => json!("panic"),
    }
}

pub fn record_eq_pair(c1j: &Value, c2j: &Value, how: &str, tr: &mut Tr) {
    let c1 = circ_from_json(c1j);
    let c2 = circ_from_json(c2j);
    tr.group();
    tr.emit(json!({"k": "pairc", "c1": c1j, "c2": c2j, "how": how}));
    for phase in [true, false] {
        tr.emit(json!({"k": "eq", "fn": "circuit", "phase": phase, "ret": ans(guarded(|| equal_circuit_with_options(&c1, &c2, phase)))}));
    }
    tr.emit(json!({"k": "eq", "fn": "circuit_default", "phase": true, "ret": ans(guarded(|| equal_circuit(&c1, &c2)))}));
    // graph variants on (possibly pre-simplified) circuit-derived diagrams
    let g1: quizx::vec_graph::Graph = c1.to_graph();
    let mut g2: quizx::vec_graph::Graph = c2.to_graph();
    for phase in [true, false] {
        tr.emit(json!({"k": "eq", "fn": "graph", "phase": phase, "ret": ans(guarded(|| equal_graph_with_options(&g1, &g2, phase)))}));
    }
    clifford_simp(&mut g2);
    tr.emit(json!({"k": "eq", "fn": "graph_simplified", "phase": false, "ret": ans(guarded(|| equal_graph_with_options(&g1, &g2, false)))}));
    let bev = |k: &str, f: &str, r: Result<bool, String>| match r {
        Ok(b) => json!({"k": k, "fn": f, "res": "ok", "ret": b}),
        Err(_) => json!({"k": k, "fn": f, "res": "panic"}),
    };
    tr.emit(bev("eqt", "circuit_tensor", guarded(|| equal_circuit_tensor(&c1, &c2))));
    tr.emit(bev("eqt", "graph_tensor", guarded(|| equal_graph_tensor(&g1, &c2.to_graph()))));
    tr.emit(bev("eqdim", "circuit_dim", guarded(|| equal_circuit_dim(&c1, &c2))));
}

/// the constructed families of the property: from a circuit c build (c2, how)
pub fn eq_variants(n: usize, gs: &[AG], r: &mut StdRng, al: &Alphabet) -> Vec<(usize, Vec<AG>, &'static str)> {
    let mut out: Vec<(usize, Vec<AG>, &'static str)> = vec![];
    let g = |t: &'static str, qs: Vec<usize>, ph: i64| AG { t, qs, ph };
    let q = r.random_range(0..n);
    let pos = r.random_range(0..=gs.len());
    let ins = |v: Vec<AG>| {
        let mut x = gs.to_vec();
        for (i, y) in v.into_iter().enumerate() {
            x.insert(pos + i, y);
        }
        x
    };
    out.push((n, gs.to_vec(), "same"));
    // inserted cancelling pairs
    out.push((n, ins(vec![g("HAD", vec![q], 0), g("HAD", vec![q], 0)]), "cancel_hh"));
    out.push((n, ins(vec![g("T", vec![q], 0), g("Tdg", vec![q], 0)]), "cancel_ttdg"));
    if n >= 2 {
        let q2 = (q + 1 + r.random_range(0..n - 1)) % n;
        out.push((n, ins(vec![g("CNOT", vec![q, q2], 0), g("CNOT", vec![q, q2], 0)]), "cancel_cxcx"));
        // commuted gates: two diagonal gates swapped
        out.push((n, ins(vec![g("CZ", vec![q, q2], 0), g("T", vec![q], 0), g("CZ", vec![q, q2], 0), g("Tdg", vec![q], 0)]), "commute_cz_t"));
        // wire permutation
        let mut x = gs.to_vec();
        x.push(g("SWAP", vec![q, q2], 0));
        out.push((n, x, "perm_swap"));
    }
    // one gate changed / one gate added
    if !gs.is_empty() {
        let i = r.random_range(0..gs.len());
        let mut x = gs.to_vec();
        let cands = al.gates(n);
        x[i] = cands[r.random_range(0..cands.len())].clone();
        out.push((n, x, "one_gate_changed"));
    }
    out.push((n, ins(vec![g("T", vec![q], 0)]), "extra_t"));
    out.push((n, ins(vec![g("Z", vec![q], 0)]), "extra_z"));
    // global phases: X Z X Z = -1 ;  Z(1/4) X Z(1/4) X = e^{i pi/4}
    out.push((n, ins(vec![g("NOT", vec![q], 0), g("Z", vec![q], 0), g("NOT", vec![q], 0), g("Z", vec![q], 0)]), "phase_minus1"));
    out.push((n, ins(vec![g("T", vec![q], 0), g("NOT", vec![q], 0), g("T", vec![q], 0), g("NOT", vec![q], 0)]), "phase_omega"));
    // Hadamards on wires (at the end)
    let mut x = gs.to_vec();
    for k in 0..n {
        x.push(g("HAD", vec![k], 0));
    }
    out.push((n, x, "had_layer"));
    let mut x = gs.to_vec();
    x.push(g("HAD", vec![q], 0));
    out.push((n, x, "had_one"));
    // different qubit counts
    out.push((n + 1, gs.to_vec(), "arity_plus1"));
    out
}

/// re-extraction: simplify and extract with the library; None if extraction fails
pub fn reextract(cj: &Value) -> Option<Value> {
    let c = circ_from_json(cj);
    guarded(|| {
        let mut g: quizx::vec_graph::Graph = c.to_graph();
        clifford_simp(&mut g);
        g.to_circuit().ok().map(|c2| circ_json(&c2))
    })
    .ok()
    .flatten()
}

// ---------------------------------------------------------------------------------------
// C03: optimise-and-extract
// ---------------------------------------------------------------------------------------
use quizx::extract::Extractor;

fn simp_by<G: GraphLike>(name: &str, g: &mut G) {
    match name {
        "flow" => {
            flow_simp(g);
        }
        "clifford" => {
            clifford_simp(g);
        }
        "full" => {
            full_simp(g);
        }
        "interior" => {
            interior_clifford_simp(g);
        }
        _ => {}
    }
}

fn extract_one<G: GraphLike>(c: &Circuit, simp: &str, mode: &str, be: &str) -> Value {
    let r = crate::eng_simp::with_watchdog(30, {
        let (c, simp, mode) = (c.clone(), simp.to_string(), mode.to_string());
        move || {
            guarded(|| {
                let mut g: G = c.to_graph();
                simp_by(&simp, &mut g);
                let mut ex = Extractor::new(&mut g);
                match mode.as_str() {
                    "gflow" => {
                        ex.gflow();
                    }
                    "simple" => {
                        ex.gflow_simple_gauss();
                    }
                    "perm" => {
                        ex.gflow().up_to_perm();
                    }
                    "flow" => {
                        ex.flow();
                    }
                    _ => {}
                }
                match ex.extract() {
                    Ok(c2) => Ok(circ_json(&c2)),
                    Err(e) => Err(e.0.chars().filter(|ch| ch.is_ascii() && *ch != '"').take(100).collect::<String>()),
                }
            })
        }
    });
    match r {
        None => json!({"k": "extract", "simp": simp, "mode": mode, "be": be, "res": "timeout"}),
        Some(Err(m)) => json!({"k": "extract", "simp": simp, "mode": mode, "be": be, "res": "panic", "msg": m}),
        Some(Ok(Err(m))) => json!({"k": "extract", "simp": simp, "mode": mode, "be": be, "res": "error", "msg": m}),
        Some(Ok(Ok(out))) => json!({"k": "extract", "simp": simp, "mode": mode, "be": be, "res": "ok", "out": out}),
    }
}

pub fn record_extract(cj: &Value, tr: &mut Tr, thorough: bool) {
    let c = circ_from_json(cj);
    tr.group();
    tr.emit(json!({"k": "circ", "c": cj}));
    let mut combos: Vec<(&str, &str)> = vec![];
    for s in ["flow", "clifford", "full"] {
        for m in ["gflow", "simple", "perm"] {
            combos.push((s, m));
        }
    }
    combos.push(("flow", "flow"));
    if thorough {
        combos.push(("interior", "gflow"));
        combos.push(("none", "gflow"));
    }
    for (s, m) in combos {
        let ev = extract_one::<quizx::vec_graph::Graph>(&c, s, m, "vec");
        let eh = extract_one::<quizx::hash_graph::Graph>(&c, s, m, "hash");
        let same = {
            let (mut a, mut b) = (ev.clone(), eh.clone());
            a["be"] = json!("");
            b["be"] = json!("");
            a == b
        };
        if same {
            let mut e = ev;
            e["be"] = json!("both");
            tr.emit(e);
        } else {
            tr.emit(ev);
            tr.emit(eh);
        }
    }
}

/// C03, per-phase: one extraction with hook H4 installed; every phase of Extractor::extract is logged with
/// the remaining diagram, the circuit so far and the frontier (mc/Trace_XSteps.tla)
fn xsteps_one<G: GraphLike>(c: &Circuit, simp: &str, mode: &str, be: &str, tr: &mut Tr) {
    use std::sync::{Arc, Mutex};
    let steps: Arc<Mutex<Vec<Value>>> = Arc::new(Mutex::new(vec![]));
    let r = crate::eng_simp::with_watchdog(30, {
        let (c, simp, mode, steps) = (c.clone(), simp.to_string(), mode.to_string(), steps.clone());
        move || {
            let sink_steps = steps.clone();
            quizx::extract::verif::set_sink(Some(Box::new(move |s: quizx::extract::verif::Step| {
                let fr: Vec<Value> = s.frontier.iter().map(|&(q, v)| json!([q, v])).collect();
                sink_steps.lock().unwrap().push(json!({"k": "xstep", "phase": s.phase, "g": abs_parts(&s.verts, &s.edges, &s.inputs, &s.outputs),
                                                       "c": circ_json(&s.circuit), "fr": fr}));
            })));
            let r = guarded(|| {
                let mut g: G = c.to_graph();
                simp_by(&simp, &mut g);
                let mut ex = Extractor::new(&mut g);
                match mode.as_str() {
                    "gflow" => {
                        ex.gflow();
                    }
                    "simple" => {
                        ex.gflow_simple_gauss();
                    }
                    "perm" => {
                        ex.gflow().up_to_perm();
                    }
                    "flow" => {
                        ex.flow();
                    }
                    _ => {}
                }
                match ex.extract() {
                    Ok(c2) => Ok(circ_json(&c2)),
                    Err(e) => Err(e.0.chars().filter(|ch| ch.is_ascii() && *ch != '"').take(100).collect::<String>()),
                }
            });
            quizx::extract::verif::set_sink(None);
            r
        }
    });
    tr.emit(json!({"k": "xbegin", "simp": simp, "mode": mode, "be": be}));
    for s in steps.lock().unwrap().iter() {
        tr.emit(s.clone());
    }
    let end = match r {
        None => json!({"k": "xend", "simp": simp, "mode": mode, "be": be, "res": "timeout"}),
        Some(Err(m)) => json!({"k": "xend", "simp": simp, "mode": mode, "be": be, "res": "panic", "msg": m}),
        Some(Ok(Err(m))) => json!({"k": "xend", "simp": simp, "mode": mode, "be": be, "res": "error", "msg": m}),
        Some(Ok(Ok(out))) => json!({"k": "xend", "simp": simp, "mode": mode, "be": be, "res": "ok", "out": out}),
    };
    tr.emit(end);
}

pub fn record_xsteps(cj: &Value, tr: &mut Tr, thorough: bool, idx: usize) {
    let c = circ_from_json(cj);
    tr.group();
    tr.emit(json!({"k": "circ", "c": cj}));
    let mut combos: Vec<(&str, &str)> = vec![("clifford", "gflow"), ("full", "gflow"), ("full", "simple"), ("flow", "flow")];
    if thorough {
        combos.extend([("clifford", "simple"), ("flow", "gflow"), ("full", "perm"), ("interior", "gflow")]);
    }
    for (i, (s, m)) in combos.into_iter().enumerate() {
        // alternate the backends (both when thorough)
        if thorough || (idx + i) % 2 == 0 {
            xsteps_one::<quizx::vec_graph::Graph>(&c, s, m, "vec", tr);
        }
        if thorough || (idx + i) % 2 == 1 {
            xsteps_one::<quizx::hash_graph::Graph>(&c, s, m, "hash", tr);
        }
    }
}

/// run the built `quizx opt` binary on the circuit's QASM and parse what it prints
pub fn record_cli_opt(cj: &Value, tr: &mut Tr, bin: &str, dir: &str, idx: usize) {
    let c = circ_from_json(cj);
    let path = format!("{dir}/in_{idx}.qasm");
    std::fs::write(&path, c.to_qasm()).unwrap();
    for (mi, method) in ["", "--full", "--flow", "--clifford"].iter().enumerate() {
        let mut cmd = std::process::Command::new(bin);
        cmd.arg("opt").arg(&path);
        if !method.is_empty() {
            cmd.arg(method);
        }
        let outfile = format!("{dir}/out_{idx}_{mi}.qasm");
        let use_file = (idx + mi) % 2 == 1;
        if use_file {
            cmd.arg("-o").arg(&outfile);
        }
        let o = cmd.output().expect("run quizx");
        let text = if use_file { std::fs::read_to_string(&outfile).unwrap_or_default() } else { String::from_utf8_lossy(&o.stdout).to_string() };
        let stderr = String::from_utf8_lossy(&o.stderr).to_string();
        let code = o.status.code().unwrap_or(-1);
        let parsed = Circuit::from_qasm(&text);
        let mut e = json!({"k": "cli_opt", "method": method, "via": if use_file { "file" } else { "stdout" }, "exit": code,
                           "panicked": stderr.contains("panicked at")});
        match parsed {
            Ok(c2) if code == 0 => {
                e["res"] = json!("ok");
                e["out"] = circ_json(&c2);
            }
            Ok(_) => e["res"] = json!("exit_nonzero"),
            Err(m) => {
                e["res"] = json!(if code == 0 { "unparsable" } else { "exit_nonzero" });
                e["msg"] = json!(m.chars().filter(|ch| ch.is_ascii() && *ch != '"' && *ch != '\n').take(100).collect::<String>());
            }
        }
        tr.emit(e);
        let _ = std::fs::remove_file(&outfile);
    }
    let _ = std::fs::remove_file(&path);
}
