//! Circuit-level engines: translation to diagrams (C02), circuit transformations (C15).

use crate::absg::{abs, abs_parts, canon};
use crate::circ::*;
use crate::util::{guarded, Tr};
use quizx::circuit::Circuit;
use quizx::graph::GraphLike;
use serde_json::{json, Value};

fn tograph<G: GraphLike>(c: &Circuit, mode: &str, be: &str) -> Value {
    let (simp, post) = match mode {
        "plain" => (false, false),
        "simp" => (true, false),
        "postsel" => (false, true),
        "simp_postsel" => (true, true),
        _ => panic!("mode"),
    };
    match guarded(|| c.to_graph_with_options::<G>(simp, post)) {
        Err(msg) => json!({"k": "tograph", "mode": mode, "be": be, "res": "panic", "msg": msg}),
        Ok(g) => json!({"k": "tograph", "mode": mode, "be": be, "res": "ok", "post": abs(&g)}),
    }
}

pub fn record_tograph(cj: &Value, tr: &mut Tr, modes: &[&str]) {
    let c = circ_from_json(cj);
    tr.group();
    tr.emit(json!({"k": "circ", "c": cj}));
    // to_graph_with_options(true, true): the post-selection flag only matters for CCZ / TOFF, so the fourth corner of the
    // option grid is recorded for every circuit that contains one of them and for every fourth other circuit
    let has3 = c.gates.iter().any(|g| matches!(g.t, quizx::gate::GType::CCZ | quizx::gate::GType::TOFF));
    for mode in modes {
        if *mode == "simp_postsel" && !has3 && tr.groups % 4 != 0 {
            continue;
        }
        let ev = tograph::<quizx::vec_graph::Graph>(&c, mode, "vec");
        let eh = tograph::<quizx::hash_graph::Graph>(&c, mode, "hash");
        let same = match (ev.get("post"), eh.get("post")) {
            (Some(a), Some(b)) => canon(a) == canon(b),
            _ => ev["res"] == eh["res"],
        };
        if same {
            let mut e = eh;
            e["be"] = json!("both");
            tr.emit(e);
        } else {
            tr.emit(ev);
            tr.emit(eh);
        }
    }
}

/// C02 (audit: `Gate::add_to_graph` is pub): the translation driven gate by gate by the CALLER, with a caller-owned
/// qubit -> output-position map that is not the identity (wire w carries qubit p^-1(w)) and a caller-chosen first fresh
/// variable.  The header is the circuit as the wires see it (qubit q of the gate list renamed to p[q]), so the diagram must
/// denote exactly what `to_graph` of the header denotes (Trace_Circ: Translated; L1: ToGraphFrom name for name).
fn direct_one<G: GraphLike>(cj: &Value, p: &[usize], fresh0: u32, postsel: bool, be: &str) -> Value {
    use rustc_hash::FxHashMap;
    let n = cj["n"].as_u64().unwrap() as usize;
    // inverse renaming: the caller's gate list talks about qubit q = p^-1(w)
    let mut pinv = vec![0usize; n];
    for (q, &w) in p.iter().enumerate() {
        pinv[w] = q;
    }
    let gates: Vec<quizx::gate::Gate> = rename_qubits(cj, &pinv)["gates"].as_array().unwrap().iter().map(gate_from_json).collect();
    let mode = if postsel { "direct_postsel" } else { "direct" };
    let r = guarded(|| {
        let mut g = G::new();
        let (mut ins, mut outs) = (vec![], vec![]);
        for w in 0..n {
            let i = g.add_vertex_with_data(quizx::graph::VData { ty: quizx::graph::VType::B, qubit: w as f64, row: 1.0, ..Default::default() });
            let o = g.add_vertex_with_data(quizx::graph::VData { ty: quizx::graph::VType::B, qubit: w as f64, row: 2.0, ..Default::default() });
            g.add_edge(i, o);
            ins.push(i);
            outs.push(o);
        }
        g.set_inputs(ins);
        g.set_outputs(outs);
        let mut qs: FxHashMap<usize, usize> = FxHashMap::default();
        for (q, &w) in p.iter().enumerate() {
            qs.insert(q, w);
        }
        let mut fresh = fresh0;
        let mut touched = 0usize;
        for gt in &gates {
            touched += gt.add_to_graph(&mut fresh, &mut g, &mut qs, postsel).len();
        }
        // outputs back in the order of the wires' names
        let mut live: Vec<(usize, usize)> = qs.iter().map(|(&q, &i)| (p[q], i)).collect();
        live.sort();
        let outs: Vec<usize> = live.iter().map(|&(_, i)| g.outputs()[i]).collect();
        g.set_outputs(outs);
        (abs(&g), fresh, touched)
    });
    match r {
        Err(msg) => json!({"k": "tograph", "mode": mode, "be": be, "res": "panic", "msg": msg}),
        Ok((post, fresh_end, touched)) => json!({"k": "tograph", "mode": mode, "be": be, "res": "ok", "post": post, "fresh_end": fresh_end, "touched": touched}),
    }
}

pub fn record_tograph_direct(cj: &Value, tr: &mut Tr, r: &mut StdRng) {
    let n = cj["n"].as_u64().unwrap() as usize;
    let mut p: Vec<usize> = (0..n).collect();
    for i in (1..n).rev() {
        p.swap(i, r.random_range(0..=i));
    }
    let maxv = cj["gates"].as_array().unwrap().iter().flat_map(|g| g["vars"].as_array().unwrap().iter().map(|x| x.as_u64().unwrap() as u32)).max();
    let first = maxv.map_or(0, |m| m + 1);
    // the documented seed (largest explicit + 1), a larger one, and one that collides with an explicit variable
    let fresh0 = match r.random_range(0..3) {
        0 => first,
        1 => first + 2,
        _ => 0,
    };
    tr.group();
    tr.emit(json!({"k": "circ", "c": cj, "fresh0": fresh0, "perm": p}));
    let postsel = r.random_bool(0.5);
    let ev = direct_one::<quizx::vec_graph::Graph>(cj, &p, fresh0, postsel, "vec");
    let eh = direct_one::<quizx::hash_graph::Graph>(cj, &p, fresh0, postsel, "hash");
    let same = match (ev.get("post"), eh.get("post")) {
        (Some(a), Some(b)) => canon(a) == canon(b) && ev["fresh_end"] == eh["fresh_end"],
        _ => ev["res"] == eh["res"],
    };
    if same {
        let mut e = eh;
        e["be"] = json!("both");
        tr.emit(e);
    } else {
        tr.emit(ev);
        tr.emit(eh);
    }
}

/// C10 / C02 (audit item 1, `write_measure` -> `Parity::single(cbit)`): the circuit is handed over as QASM TEXT whose
/// measurements are `measure q[i] -> c[j];` statements; the header is the circuit the text denotes (Measure gate on qubit i
/// with outcome variable j), the translation is that of the circuit `from_qasm` returned.  A text the front end rejects is
/// recorded (`note`), not judged (C14 owns parsing).
pub fn record_tograph_qasm(cj: &Value, tr: &mut Tr, modes: &[&str]) -> bool {
    let n = cj["n"].as_u64().unwrap() as usize;
    let gates = cj["gates"].as_array().unwrap();
    // two classical registers c[2], d[2]: bit j of the text is c[j] for j < 2 and d[j - 2] otherwise
    let mut text = format!("OPENQASM 2.0;\ninclude \"qelib1.inc\";\nqreg q[{n}];\ncreg c[2];\ncreg d[2];\n");
    for g in gates {
        let gt = gate_from_json(g);
        if g["t"] == "Measure" {
            let vs = g["vars"].as_array().unwrap();
            if vs.len() != 1 || vs[0].as_u64().unwrap() > 3 {
                return false;
            }
            let j = vs[0].as_u64().unwrap();
            let cb = if j < 2 { format!("c[{j}]") } else { format!("d[{}]", j - 2) };
            text += &format!("measure q[{}] -> {cb};\n", g["qs"][0]);
        } else if g["t"] == "MeasureReset" || g["t"] == "ParityPhase" {
            return false; // not declared by the front end
        } else {
            text += &format!("{};\n", gt.to_qasm());
        }
    }
    tr.group();
    tr.emit(json!({"k": "circ", "c": cj, "via": "qasm"}));
    match guarded(|| Circuit::from_qasm(&text)) {
        Ok(Ok(c)) => {
            for mode in modes {
                if *mode == "simp_postsel" {
                    continue;
                }
                let mut e = tograph::<quizx::vec_graph::Graph>(&c, mode, "vec");
                e["via"] = json!("qasm");
                tr.emit(e);
            }
        }
        Ok(Err(m)) => tr.emit(json!({"k": "note", "what": "qasm_rejected", "msg": m.chars().filter(|ch| ch.is_ascii() && *ch != '"' && *ch != '\\' && *ch != '\n').take(120).collect::<String>()})),
        Err(m) => tr.emit(json!({"k": "note", "what": "qasm_panic", "msg": m})),
    }
    true
}

/// C15: adjoint, basic-gate expansion, concatenation, reversal, statistics
pub fn record_ops(cj: &Value, cj2: &Value, tr: &mut Tr) {
    let c = circ_from_json(cj);
    let c2 = circ_from_json(cj2);
    tr.group();
    tr.emit(json!({"k": "circ", "c": cj}));
    let put = |tr: &mut Tr, op: &str, r: Result<Value, String>| match r {
        Ok(v) => tr.emit(json!({"k": "op", "op": op, "res": "ok", "out": v})),
        Err(m) => tr.emit(json!({"k": "op", "op": op, "res": "panic", "msg": m})),
    };
    put(tr, "adjoint", guarded(|| circ_json(&c.to_adjoint())));
    put(tr, "basic", guarded(|| {
        let b = c.to_basic_gates();
        let adv: usize = c.gates.iter().map(|g| g.num_basic_gates()).sum();
        json!({"c": circ_json(&b), "advertised": adv})
    }));
    // every overload of `+` and `+=`
    put(tr, "concat", guarded(|| {
        let mut acc = c.clone();
        acc += &c2;
        json!({"rhs": cj2, "sum": circ_json(&(c.clone() + c2.clone())), "sum_ref": circ_json(&(&c + &c2)),
               "sum_ref_own": circ_json(&(&c + c2.clone())), "sum_own_ref": circ_json(&(c.clone() + &c2)), "sum_assign": circ_json(&acc)})
    }));
    put(tr, "reverse2", guarded(|| {
        let mut r = c.clone();
        r.reverse();
        let once = circ_json(&r);
        r.reverse();
        json!({"once": once, "twice": circ_json(&r)})
    }));
    put(tr, "stats", guarded(|| {
        let s = c.stats();
        json!({"qubits": s.qubits, "total": s.total, "oneq": s.oneq, "twoq": s.twoq, "moreq": s.moreq, "cliff": s.cliff, "non_cliff": s.non_cliff})
    }));
    record_ops_more(&c, cj, tr);
}

/// the labelled numbers of `Display for CircuitStats`, read by label (text processing only; TLC compares them with the fields)
fn read_stats_display(text: &str) -> Value {
    let num_after = |label: &str| -> i64 {
        text.find(label).and_then(|i| text[i + label.len()..].trim_start().split(|ch: char| !ch.is_ascii_digit()).next().and_then(|x| x.parse().ok())).unwrap_or(-1)
    };
    let before = |label: &str| -> i64 {
        text.find(label).and_then(|i| text[..i].trim_end().rsplit(|ch: char| !ch.is_ascii_digit()).next().and_then(|x| x.parse().ok())).unwrap_or(-1)
    };
    json!({"qubits": before(" qubits"), "total": before(" gates"), "oneq": num_after("1-qubit:"), "twoq": num_after("2-qubit:"), "moreq": num_after("n-qubit:"),
           "cliff": num_after("\n  clifford:"), "non_cliff": num_after("non-clifford:")})
}

const ALL_KINDS: [&str; 21] = ["XPhase", "NOT", "ZPhase", "Z", "S", "T", "Sdg", "Tdg", "CNOT", "CZ", "ParityPhase", "XCX", "SWAP", "HAD", "TOFF", "CCZ",
                               "InitAncilla", "PostSelect", "Measure", "MeasureReset", "UnknownGate"];

/// C15, the rest of the public surface of circuit.rs / gate.rs (audit items 11 and 25)
fn record_ops_more(c: &Circuit, cj: &Value, tr: &mut Tr) {
    use bitgauss::{BitMatrix, RowOps};
    use quizx::gate::{GType, Gate};
    let n = c.num_qubits();
    let put = |tr: &mut Tr, op: &str, r: Result<Value, String>| match r {
        Ok(v) => tr.emit(json!({"k": "op", "op": op, "res": "ok", "out": v})),
        Err(m) => tr.emit(json!({"k": "op", "op": op, "res": "panic", "msg": m})),
    };
    let salt = tr.groups;
    // ---- `+` / `+=` with DIFFERENT qubit counts: there is no composite map; each overload is recorded on its own
    {
        let n2 = if salt % 2 == 0 { n + 1 } else { n.saturating_sub(1) };
        let mut c2 = Circuit::new(n2);
        // the right operand addresses its own highest qubit (when it has one)
        if n2 > 0 {
            c2.push(Gate::new(GType::HAD, vec![n2 - 1]));
        }
        if n >= 1 && salt % 3 == 0 {
            c2.gates.extend(c.gates.iter().filter(|g| g.qs.iter().all(|&q| q < n2)).cloned());
        }
        let one = |r: Result<Circuit, String>| match r {
            Ok(x) => ("ok", circ_json(&x)),
            Err(_) => ("panic", json!({"n": 0, "gates": []})),
        };
        let rs = [
            ("sum", one(guarded(|| c.clone() + c2.clone()))),
            ("sum_ref", one(guarded(|| c + &c2))),
            ("sum_ref_own", one(guarded(|| c + c2.clone()))),
            ("sum_own_ref", one(guarded(|| c.clone() + &c2))),
            ("sum_assign", one(guarded(|| {
                let mut acc = c.clone();
                acc += &c2;
                acc
            }))),
        ];
        let mut res = serde_json::Map::new();
        let mut outs = serde_json::Map::new();
        for (name, (r, o)) in rs {
            res.insert(name.to_string(), json!(r));
            outs.insert(name.to_string(), o);
        }
        put(tr, "concat_mismatch", Ok(json!({"rhs": circ_json(&c2), "results": res, "outs": outs})));
    }
    // ---- push_front (prepending one gate)
    {
        let g = if n >= 2 && salt % 2 == 0 { Gate::new(GType::CNOT, vec![salt % n, (salt + 1) % n]) } else { Gate::new_with_phase(GType::ZPhase, vec![salt % n.max(1)], num::Rational64::new(1, 4)) };
        put(tr, "push_front", guarded(|| {
            let mut x = c.clone();
            x.push_front(g.clone());
            let mut y = c.clone();
            y.push_back(g.clone());
            json!({"g": gate_json(&g), "out": circ_json(&x), "back": circ_json(&y)})
        }));
    }
    // ---- construction by NAME: add_gate / add_gate_with_phase / add_gate_with_phase_and_vars
    put(tr, "by_name", guarded(|| {
        let mut x = Circuit::new(n);
        let mut used = [0usize; 3];
        for (i, g) in c.gates.iter().enumerate() {
            let name = g.t.qasm_name();
            let zero = { use num::Zero; g.phase.is_zero() };
            match (i + salt) % 3 {
                0 => {
                    used[0] += 1;
                    x.add_gate_with_phase_and_vars(name, g.qs.clone(), g.phase, g.vars.clone())
                }
                1 if zero && g.vars.is_empty() => {
                    used[1] += 1;
                    x.add_gate(name, g.qs.clone())
                }
                _ if g.vars.is_empty() => {
                    used[2] += 1;
                    x.add_gate_with_phase(name, g.qs.clone(), g.phase)
                }
                _ => x.add_gate_with_phase_and_vars(name, g.qs.clone(), g.phase, g.vars.clone()),
            }
        }
        // a name the table does not know (recorded, not judged)
        let mut u = Circuit::new(1);
        u.add_gate("u3", vec![0]);
        json!({"out": circ_json(&x), "unknown_kind": format!("{:?}", u.gates[0].t), "used": used})
    }));
    // ---- num_gates_of_type for every kind
    put(tr, "counts", guarded(|| {
        let ns: Vec<usize> = ALL_KINDS.iter().map(|k| c.num_gates_of_type(gtype_from(k))).collect();
        json!({"kinds": ALL_KINDS, "ns": ns, "num_gates": c.num_gates()})
    }));
    // ---- the two other views of the statistics: into_array and Display
    put(tr, "stats_views", guarded(|| {
        let s = c.stats();
        let made = quizx::circuit::CircuitStats::make(c);
        json!({"fields": {"qubits": s.qubits, "total": s.total, "oneq": s.oneq, "twoq": s.twoq, "moreq": s.moreq, "cliff": s.cliff, "non_cliff": s.non_cliff},
               "arr": s.into_array(), "disp": read_stats_display(&format!("{s}")), "make_same": made == s})
    }));
    // ---- in-place adjoint of the circuit and of every single gate
    put(tr, "adjoint_inplace", guarded(|| {
        let mut x = c.clone();
        x.adjoint();
        let gw: Vec<Value> = c.gates.iter().map(|g| {
            let mut h = g.clone();
            h.adjoint();
            gate_json(&h)
        }).collect();
        json!({"inplace": circ_json(&x), "to_adjoint": circ_json(&c.to_adjoint()), "gatewise": gw})
    }));
    // ---- the same gate sequence held in DIFFERENT physical layouts of the VecDeque (a deque that saw push_front is wrapped
    //      around the end of its buffer, as the circuits the extractor builds are): every in-place operation runs on a
    //      freshly BUILT circuit (Clone re-lays the buffer contiguously and would hide the layout)
    put(tr, "layouts", guarded(|| {
        let gs: Vec<Gate> = c.gates.iter().cloned().collect();
        let build = |mode: &str| -> Circuit {
            let mut x = Circuit::new(n);
            match mode {
                "push_back" => gs.iter().for_each(|g| x.push_back(g.clone())),
                "front_rev" => gs.iter().rev().for_each(|g| x.push_front(g.clone())),
                "middle_out" => {
                    let mid = gs.len() / 2;
                    let (mut lo, mut hi) = (mid, mid);
                    // alternate: one gate before the middle to the front, one after it to the back
                    while lo > 0 || hi < gs.len() {
                        if lo > 0 {
                            lo -= 1;
                            x.push_front(gs[lo].clone());
                        }
                        if hi < gs.len() {
                            x.push_back(gs[hi].clone());
                            hi += 1;
                        }
                    }
                }
                "last_front" => {
                    gs.iter().skip(1).for_each(|g| x.push(g.clone()));
                    if let Some(g) = gs.first() {
                        x.push_front(g.clone());
                    }
                }
                // two gates too many at the front, taken off again through the public deque
                "pop" => {
                    x.push_front(Gate::new(GType::HAD, vec![0]));
                    x.push_front(Gate::new(GType::NOT, vec![0]));
                    gs.iter().for_each(|g| x.push_back(g.clone()));
                    x.gates.pop_front();
                    x.gates.pop_front();
                }
                _ => panic!("layout {mode}"),
            }
            x
        };
        let mut out = vec![];
        for mode in ["push_back", "front_rev", "middle_out", "last_front", "pop"] {
            let b = build(mode);
            let wrapped = !b.gates.as_slices().1.is_empty();
            let mut r = build(mode);
            r.reverse();
            let rev_once = circ_json(&r);
            r.reverse();
            let mut a = build(mode);
            a.adjoint();
            let mut s1 = build(mode);
            s1 += &a;
            let s2 = build(mode) + build(mode).to_adjoint();
            out.push(json!({"mode": mode, "wrapped": wrapped, "built": circ_json(&b), "eq_base": b == *c, "rev_once": rev_once, "rev_twice": circ_json(&r),
                            "adj_inplace": circ_json(&a), "to_adjoint": circ_json(&build(mode).to_adjoint()), "plus_adj": circ_json(&s1), "plus_adj2": circ_json(&s2),
                            "basic": circ_json(&build(mode).to_basic_gates()), "stats_same": build(mode).stats() == c.stats()}));
        }
        json!({"layouts": out, "basic_base": circ_json(&c.to_basic_gates())})
    }));
    // ---- RowOps for Circuit: a circuit of CNOT / SWAP gates as the proxy of an F2 matrix.  `mat` is what the SAME call does
    //      to the identity BitMatrix (bitgauss defines the operation); Trace_Circ checks that the circuit's linear map on
    //      X-basis states (where `c|b> = |m b>` of the impl's documentation holds) is multiplied by exactly that matrix.
    if n >= 2 {
        let mut base = Circuit::new(n);
        base.gates.extend(c.gates.iter().filter(|g| matches!(g.t, GType::CNOT | GType::SWAP)).cloned());
        let r0 = salt % n;
        let r1 = (r0 + 1 + (salt / n) % (n - 1)) % n;
        let mut ops = vec![];
        for (name, a, b) in [("add_row", r0, r1), ("add_row", r1, r0), ("swap_rows", r0, r1)] {
            let r = guarded(|| {
                let mut x = base.clone();
                let mut m = BitMatrix::identity(n);
                if name == "add_row" {
                    x.add_row(a, b);
                    m.add_row(a, b);
                } else {
                    x.swap_rows(a, b);
                    m.swap_rows(a, b);
                }
                let rows: Vec<Vec<u8>> = (0..n).map(|i| (0..n).map(|j| m[(i, j)] as u8).collect()).collect();
                (circ_json(&x), rows)
            });
            match r {
                Ok((out, mat)) => ops.push(json!({"op": name, "r0": a, "r1": b, "res": "ok", "out": out, "mat": mat})),
                Err(_) => ops.push(json!({"op": name, "r0": a, "r1": b, "res": "panic", "out": {"n": 0, "gates": []}, "mat": []})),
            }
        }
        put(tr, "rowops", Ok(json!({"base": circ_json(&base), "ops": ops})));
    }
    let _ = cj;
}

// ---------------------------------------------------------------------------------------
// C12: equality checkers
// ---------------------------------------------------------------------------------------
use quizx::equality::*;
use quizx::extract::ToCircuit;
use quizx::simplify::*;
use rand::rngs::StdRng;
use rand::Rng;

fn ans(r: Result<Option<bool>, String>) -> Value {
    match r {
        Ok(Some(true)) => json!("equal"),
        Ok(Some(false)) => json!("notequal"),
        Ok(None) => json!("unknown"),
        Err(_) => json!("panic"),
    }
}

pub fn record_eq_pair(c1j: &Value, c2j: &Value, how: &str, tr: &mut Tr) {
    let c1 = circ_from_json(c1j);
    let c2 = circ_from_json(c2j);
    tr.group();
    tr.emit(json!({"k": "pairc", "c1": c1j, "c2": c2j, "how": how}));
    eq_answers(&c1, &c2, tr);
}

/// C12, circuit-derived diagrams that are NOT square (seed C12_e): circuits with ancilla initialisation / post-selection denote
/// maps n -> m with m != n. Header `pairn`; the arities are those of the denoted map, not the qubit count. The rewriting-based
/// checker presupposes unitaries, so for these pairs only its "not equal" answers are judged (Trace_Eq: DefNotEqual); the
/// tensor-based checkers and the arity tests are judged in full.
pub fn record_eq_pair_n(c1j: &Value, c2j: &Value, how: &str, tr: &mut Tr) {
    let c1 = circ_from_json(c1j);
    let c2 = circ_from_json(c2j);
    tr.group();
    tr.emit(json!({"k": "pairn", "c1": c1j, "c2": c2j, "how": how}));
    eq_answers(&c1, &c2, tr);
}

/// C12, global phases that are NOT multiples of pi/4 (the scalar of the residue is then held as floats): the second circuit is
/// the first followed by  x q; rz(n/d) q; x q; rz(n/d) q  =  e^{i pi n/d} * identity, so by construction the pair is equal up
/// to a global phase and NOT equal exactly (n/d is not an even integer); both argument orders. Header `pairp`.
pub fn record_eq_generic(c1j: &Value, q: usize, n: i64, d: i64, base_first: bool, tr: &mut Tr) {
    let mut c2j = c1j.clone();
    {
        let gs = c2j["gates"].as_array_mut().unwrap();
        for t in ["NOT", "ZPhase", "NOT", "ZPhase"] {
            gs.push(json!({"t": t, "qs": [q], "ph": if t == "ZPhase" { json!([n, d]) } else { json!([0, 1]) }, "vars": []}));
        }
    }
    let c1 = circ_from_json(c1j);
    let c2 = circ_from_json(&c2j);
    tr.group();
    tr.emit(json!({"k": "pairp", "c1": c1j, "q": q, "ph": [n, d], "base_first": base_first}));
    if base_first {
        eq_answers(&c1, &c2, tr);
    } else {
        eq_answers(&c2, &c1, tr);
    }
}

fn eq_answers(c1: &Circuit, c2: &Circuit, tr: &mut Tr) {
    let (c1, c2) = (c1.clone(), c2.clone());
    for phase in [true, false] {
        tr.emit(json!({"k": "eq", "fn": "circuit", "phase": phase, "ret": ans(guarded(|| equal_circuit_with_options(&c1, &c2, phase)))}));
    }
    tr.emit(json!({"k": "eq", "fn": "circuit_default", "phase": true, "ret": ans(guarded(|| equal_circuit(&c1, &c2)))}));
    // graph variants on (possibly pre-simplified) circuit-derived diagrams
    let g1: quizx::vec_graph::Graph = c1.to_graph();
    let mut g2: quizx::vec_graph::Graph = c2.to_graph();
    for phase in [true, false] {
        tr.emit(json!({"k": "eq", "fn": "graph", "phase": phase, "ret": ans(guarded(|| equal_graph_with_options(&g1, &g2, phase)))}));
    }
    // the default wrapper (up to global phase) and the arity test, called directly on the diagrams
    tr.emit(json!({"k": "eq", "fn": "graph_default", "phase": true, "ret": ans(guarded(|| equal_graph(&g1, &g2)))}));
    tr.emit(match guarded(|| equal_graph_dim(&g1, &g2)) {
        Ok(b) => json!({"k": "eqdim", "fn": "graph_dim", "res": "ok", "ret": b}),
        Err(_) => json!({"k": "eqdim", "fn": "graph_dim", "res": "panic"}),
    });
    clifford_simp(&mut g2);
    tr.emit(json!({"k": "eq", "fn": "graph_simplified", "phase": false, "ret": ans(guarded(|| equal_graph_with_options(&g1, &g2, false)))}));
    let bev = |k: &str, f: &str, r: Result<bool, String>| match r {
        Ok(b) => json!({"k": k, "fn": f, "res": "ok", "ret": b}),
        Err(_) => json!({"k": k, "fn": f, "res": "panic"}),
    };
    tr.emit(bev("eqt", "circuit_tensor", guarded(|| equal_circuit_tensor(&c1, &c2))));
    tr.emit(bev("eqt", "graph_tensor", guarded(|| equal_graph_tensor(&g1, &c2.to_graph()))));
    tr.emit(bev("eqdim", "circuit_dim", guarded(|| equal_circuit_dim(&c1, &c2))));
}

/// a unitary diagram of the circuit that is NOT the plain `to_graph` output
pub const EQ_ROUTES: [&str; 8] = ["full", "clifford", "build_simp", "flow", "postsel", "x_to_z", "rebuilt", "phase_i"];
fn diagram_by(c: &Circuit, route: &str) -> quizx::vec_graph::Graph {
    use quizx::vec_graph::Graph;
    match route {
        "full" => {
            let mut g: Graph = c.to_graph();
            full_simp(&mut g);
            g
        }
        "clifford" => {
            let mut g: Graph = c.to_graph();
            clifford_simp(&mut g);
            g
        }
        "flow" => {
            let mut g: Graph = c.to_graph();
            flow_simp(&mut g);
            g
        }
        "build_simp" => c.to_graph_with_options(true, false),
        "postsel" => c.to_graph_with_options(false, true),
        "x_to_z" => {
            let mut g: Graph = c.to_graph();
            g.x_to_z();
            g
        }
        // the same diagram under other vertex names: through the abstract projection, two adjoints, compaction
        "rebuilt" => {
            let g0: Graph = c.to_graph();
            let mut g: Graph = crate::absg::build(&abs(&g0.to_adjoint().to_adjoint()));
            g.pack(true);
            g
        }
        // the map times i: still unitary, equal only up to a global phase
        "phase_i" => {
            let mut g: Graph = c.to_graph();
            *g.scalar_mut() *= quizx::scalar::Scalar4::new([0, 0, 1, 0], 0);
            g
        }
        _ => panic!("route {route}"),
    }
}

/// C12 (audit item 17): the graph entry points on unitary diagrams that were not produced by `to_graph`.  The header
/// carries the two diagrams; the ground truth is their denotation `Den` computed by TLC (mc/Trace_Eq.tla, `pairg`).
pub fn record_eq_graphs(c1j: &Value, c2j: &Value, how: &str, r1: &str, r2: &str, tr: &mut Tr) {
    let c1 = circ_from_json(c1j);
    let c2 = circ_from_json(c2j);
    let (g1, g2) = match guarded(|| (diagram_by(&c1, r1), diagram_by(&c2, r2))) {
        Ok(x) => x,
        Err(_) => return, // building the inputs is not the call under test (C01 / C02 judge it)
    };
    // the ground truth is Den of the logged diagrams: keep them within what TLC evaluates in seconds
    let spiders = |g: &quizx::vec_graph::Graph| g.vertices().filter(|&v| g.vertex_type(v) != quizx::graph::VType::B).count();
    if spiders(&g1) > 14 || spiders(&g2) > 14 {
        return;
    }
    tr.group();
    tr.emit(json!({"k": "pairg", "g1": abs(&g1), "g2": abs(&g2), "how": how, "r1": r1, "r2": r2}));
    for phase in [true, false] {
        tr.emit(json!({"k": "eq", "fn": "graph", "phase": phase, "ret": ans(guarded(|| equal_graph_with_options(&g1, &g2, phase)))}));
    }
    tr.emit(json!({"k": "eq", "fn": "graph_default", "phase": true, "ret": ans(guarded(|| equal_graph(&g1, &g2)))}));
    tr.emit(match guarded(|| equal_graph_tensor(&g1, &g2)) {
        Ok(b) => json!({"k": "eqt", "fn": "graph_tensor", "res": "ok", "ret": b}),
        Err(_) => json!({"k": "eqt", "fn": "graph_tensor", "res": "panic"}),
    });
    tr.emit(match guarded(|| equal_graph_dim(&g1, &g2)) {
        Ok(b) => json!({"k": "eqdim", "fn": "graph_dim", "res": "ok", "ret": b}),
        Err(_) => json!({"k": "eqdim", "fn": "graph_dim", "res": "panic"}),
    });
}

/// the constructed families of the property: from a circuit c build (c2, how)
pub fn eq_variants(n: usize, gs: &[AG], r: &mut StdRng, al: &Alphabet) -> Vec<(usize, Vec<AG>, &'static str)> {
    let mut out: Vec<(usize, Vec<AG>, &'static str)> = vec![];
    let g = |t: &'static str, qs: Vec<usize>, ph: i64| AG { t, qs, ph };
    let q = r.random_range(0..n);
    let pos = r.random_range(0..=gs.len());
    let ins = |v: Vec<AG>| {
        let mut x = gs.to_vec();
        for (i, y) in v.into_iter().enumerate() {
            x.insert(pos + i, y);
        }
        x
    };
    out.push((n, gs.to_vec(), "same"));
    // inserted cancelling pairs
    out.push((n, ins(vec![g("HAD", vec![q], 0), g("HAD", vec![q], 0)]), "cancel_hh"));
    out.push((n, ins(vec![g("T", vec![q], 0), g("Tdg", vec![q], 0)]), "cancel_ttdg"));
    if n >= 2 {
        let q2 = (q + 1 + r.random_range(0..n - 1)) % n;
        out.push((n, ins(vec![g("CNOT", vec![q, q2], 0), g("CNOT", vec![q, q2], 0)]), "cancel_cxcx"));
        // commuted gates: two diagonal gates swapped
        out.push((n, ins(vec![g("CZ", vec![q, q2], 0), g("T", vec![q], 0), g("CZ", vec![q, q2], 0), g("Tdg", vec![q], 0)]), "commute_cz_t"));
        // wire permutation
        let mut x = gs.to_vec();
        x.push(g("SWAP", vec![q, q2], 0));
        out.push((n, x, "perm_swap"));
    }
    // one gate changed / one gate added
    if !gs.is_empty() {
        let i = r.random_range(0..gs.len());
        let mut x = gs.to_vec();
        let cands = al.gates(n);
        x[i] = cands[r.random_range(0..cands.len())].clone();
        out.push((n, x, "one_gate_changed"));
    }
    out.push((n, ins(vec![g("T", vec![q], 0)]), "extra_t"));
    out.push((n, ins(vec![g("Z", vec![q], 0)]), "extra_z"));
    // global phases: X Z X Z = -1 ;  Z(1/4) X Z(1/4) X = e^{i pi/4}
    out.push((n, ins(vec![g("NOT", vec![q], 0), g("Z", vec![q], 0), g("NOT", vec![q], 0), g("Z", vec![q], 0)]), "phase_minus1"));
    out.push((n, ins(vec![g("T", vec![q], 0), g("NOT", vec![q], 0), g("T", vec![q], 0), g("NOT", vec![q], 0)]), "phase_omega"));
    // Hadamards on wires (at the end)
    let mut x = gs.to_vec();
    for k in 0..n {
        x.push(g("HAD", vec![k], 0));
    }
    out.push((n, x, "had_layer"));
    let mut x = gs.to_vec();
    x.push(g("HAD", vec![q], 0));
    out.push((n, x, "had_one"));
    // different qubit counts
    out.push((n + 1, gs.to_vec(), "arity_plus1"));
    out
}

/// re-extraction: simplify and extract with the library; None if extraction fails
pub fn reextract(cj: &Value) -> Option<Value> {
    let c = circ_from_json(cj);
    guarded(|| {
        let mut g: quizx::vec_graph::Graph = c.to_graph();
        clifford_simp(&mut g);
        g.to_circuit().ok().map(|c2| circ_json(&c2))
    })
    .ok()
    .flatten()
}

// ---------------------------------------------------------------------------------------
// C03: optimise-and-extract
// ---------------------------------------------------------------------------------------
use quizx::extract::Extractor;

fn simp_by<G: GraphLike>(name: &str, g: &mut G) {
    match name {
        "flow" => {
            flow_simp(g);
        }
        "clifford" => {
            clifford_simp(g);
        }
        "full" => {
            full_simp(g);
        }
        "interior" => {
            interior_clifford_simp(g);
        }
        _ => {}
    }
}

/// a caller-written Gauss strategy for `with_gaussf` (delegates to the simple eliminator)
fn custom_gauss<G: GraphLike>(e: &mut Extractor<G>, c: &mut Circuit) {
    Extractor::simple_gauss(e, c)
}

/// every way the public API offers to extract: builder options in both orders, explicit `with_gaussf`, the `ToCircuit` entry points
fn extract_by<G: GraphLike>(g: &mut G, mode: &str) -> Result<Circuit, quizx::extract::ExtractError<G>> {
    match mode {
        "to_circuit" => g.to_circuit(),
        "to_circuit_mut" => g.to_circuit_mut(),
        "extractor_default" => g.extractor().extract(),
        "extractor_simple" => g.extractor().gflow_simple_gauss().extract(),
        _ => {
            let mut ex = Extractor::new(g);
            match mode {
                "gflow" => {
                    ex.gflow();
                }
                "simple" => {
                    ex.gflow_simple_gauss();
                }
                "perm" => {
                    ex.gflow().up_to_perm();
                }
                "flow" => {
                    ex.flow();
                }
                "simple_perm" => {
                    ex.gflow_simple_gauss().up_to_perm();
                }
                "perm_simple" => {
                    ex.up_to_perm().gflow_simple_gauss();
                }
                "flow_perm" => {
                    ex.flow().up_to_perm();
                }
                "wg_simple" => {
                    ex.with_gaussf(Extractor::simple_gauss);
                }
                "wg_single" => {
                    ex.with_gaussf(Extractor::single_sln_set);
                }
                "wg_none" => {
                    ex.with_gaussf(Extractor::no_gauss);
                }
                "wg_custom" => {
                    ex.with_gaussf(custom_gauss::<G>);
                }
                "none" => {}
                _ => panic!("extract mode {mode}"),
            }
            ex.extract()
        }
    }
}

fn extract_one<G: GraphLike>(c: &Circuit, simp: &str, mode: &str, be: &str) -> Value {
    let r = crate::eng_simp::with_watchdog(30, {
        let (c, simp, mode) = (c.clone(), simp.to_string(), mode.to_string());
        move || {
            guarded(|| {
                let mut g: G = c.to_graph();
                simp_by(&simp, &mut g);
                match extract_by(&mut g, &mode) {
                    Ok(c2) => Ok(circ_json(&c2)),
                    // Display of ExtractError is the message
                    Err(e) => Err(format!("{e}").chars().filter(|ch| ch.is_ascii() && *ch != '"').take(100).collect::<String>()),
                }
            })
        }
    });
    match r {
        None => json!({"k": "extract", "simp": simp, "mode": mode, "be": be, "res": "timeout"}),
        Some(Err(m)) => json!({"k": "extract", "simp": simp, "mode": mode, "be": be, "res": "panic", "msg": m}),
        Some(Ok(Err(m))) => json!({"k": "extract", "simp": simp, "mode": mode, "be": be, "res": "error", "msg": m}),
        Some(Ok(Ok(out))) => json!({"k": "extract", "simp": simp, "mode": mode, "be": be, "res": "ok", "out": out}),
    }
}

pub fn record_extract(cj: &Value, tr: &mut Tr, thorough: bool) {
    let c = circ_from_json(cj);
    tr.group();
    let idx = tr.groups; // rotates the selection of the additional combinations
    tr.emit(json!({"k": "circ", "c": cj}));
    let mut combos: Vec<(&str, &str)> = vec![];
    const SIMPS: [&str; 3] = ["flow", "clifford", "full"];
    for s in SIMPS {
        for m in ["gflow", "simple", "perm"] {
            combos.push((s, m));
        }
    }
    combos.push(("flow", "flow"));
    if thorough {
        combos.push(("interior", "gflow"));
        combos.push(("none", "gflow"));
    }
    for (s, m) in combos {
        let ev = extract_one::<quizx::vec_graph::Graph>(&c, s, m, "vec");
        let eh = extract_one::<quizx::hash_graph::Graph>(&c, s, m, "hash");
        let same = {
            let (mut a, mut b) = (ev.clone(), eh.clone());
            a["be"] = json!("");
            b["be"] = json!("");
            a == b
        };
        if same {
            let mut e = ev;
            e["be"] = json!("both");
            tr.emit(e);
        } else {
            tr.emit(ev);
            tr.emit(eh);
        }
    }
    // the other option combinations and entry points of the public API (audit item 12): all of them when thorough, a
    // rotating selection otherwise, on alternating backends.  `flow` / `wg_none` after clifford / full simplification are
    // NOT promised to succeed (no causal flow): Trace_Extract records them without judging.
    let mut more: Vec<(&str, &str)> = vec![];
    if thorough {
        for s in SIMPS {
            for m in ["simple_perm", "perm_simple", "wg_simple", "wg_single", "wg_custom", "to_circuit", "to_circuit_mut", "extractor_default", "extractor_simple"] {
                more.push((s, m));
            }
        }
        more.extend([("flow", "flow_perm"), ("flow", "wg_none"), ("clifford", "flow"), ("full", "flow"), ("clifford", "flow_perm"), ("full", "wg_none")]);
    } else {
        more.push((SIMPS[idx % 3], if idx % 4 == 0 { "perm_simple" } else { "simple_perm" }));
        more.push(("flow", if idx % 3 == 0 { "wg_none" } else { "flow_perm" }));
        more.push((SIMPS[(idx / 3) % 3], ["wg_simple", "wg_single", "wg_custom"][idx % 3]));
        more.push((SIMPS[(idx + 1) % 3], ["to_circuit", "to_circuit_mut", "extractor_default", "extractor_simple"][idx % 4]));
        more.push((["clifford", "full"][idx % 2], ["flow", "flow_perm", "wg_none"][(idx / 2) % 3]));
    }
    for (i, (s, m)) in more.into_iter().enumerate() {
        if (idx + i) % 2 == 0 {
            tr.emit(extract_one::<quizx::vec_graph::Graph>(&c, s, m, "vec"));
        } else {
            tr.emit(extract_one::<quizx::hash_graph::Graph>(&c, s, m, "hash"));
        }
    }
}

/// C03, per-phase: one extraction with hook H4 installed; every phase of Extractor::extract is logged with
/// the remaining diagram, the circuit so far and the frontier (mc/Trace_XSteps.tla)
fn xsteps_one<G: GraphLike>(c: &Circuit, simp: &str, mode: &str, be: &str, tr: &mut Tr) {
    use std::sync::{Arc, Mutex};
    let steps: Arc<Mutex<Vec<Value>>> = Arc::new(Mutex::new(vec![]));
    let r = crate::eng_simp::with_watchdog(30, {
        let (c, simp, mode, steps) = (c.clone(), simp.to_string(), mode.to_string(), steps.clone());
        move || {
            let sink_steps = steps.clone();
            quizx::extract::verif::set_sink(Some(Box::new(move |s: quizx::extract::verif::Step| {
                let fr: Vec<Value> = s.frontier.iter().map(|&(q, v)| json!([q, v])).collect();
                sink_steps.lock().unwrap().push(json!({"k": "xstep", "phase": s.phase, "g": abs_parts(&s.verts, &s.edges, &s.inputs, &s.outputs),
                                                       "c": circ_json(&s.circuit), "fr": fr}));
            })));
            let r = guarded(|| {
                let mut g: G = c.to_graph();
                simp_by(&simp, &mut g);
                let mut ex = Extractor::new(&mut g);
                match mode.as_str() {
                    "gflow" => {
                        ex.gflow();
                    }
                    "simple" => {
                        ex.gflow_simple_gauss();
                    }
                    "perm" => {
                        ex.gflow().up_to_perm();
                    }
                    "flow" => {
                        ex.flow();
                    }
                    _ => {}
                }
                match ex.extract() {
                    Ok(c2) => Ok(circ_json(&c2)),
                    Err(e) => Err(e.0.chars().filter(|ch| ch.is_ascii() && *ch != '"').take(100).collect::<String>()),
                }
            });
            quizx::extract::verif::set_sink(None);
            r
        }
    });
    tr.emit(json!({"k": "xbegin", "simp": simp, "mode": mode, "be": be}));
    for s in steps.lock().unwrap().iter() {
        tr.emit(s.clone());
    }
    let end = match r {
        None => json!({"k": "xend", "simp": simp, "mode": mode, "be": be, "res": "timeout"}),
        Some(Err(m)) => json!({"k": "xend", "simp": simp, "mode": mode, "be": be, "res": "panic", "msg": m}),
        Some(Ok(Err(m))) => json!({"k": "xend", "simp": simp, "mode": mode, "be": be, "res": "error", "msg": m}),
        Some(Ok(Ok(out))) => json!({"k": "xend", "simp": simp, "mode": mode, "be": be, "res": "ok", "out": out}),
    };
    tr.emit(end);
}

pub fn record_xsteps(cj: &Value, tr: &mut Tr, thorough: bool, idx: usize) {
    let c = circ_from_json(cj);
    tr.group();
    tr.emit(json!({"k": "circ", "c": cj}));
    let mut combos: Vec<(&str, &str)> = vec![("clifford", "gflow"), ("full", "gflow"), ("full", "simple"), ("flow", "flow")];
    if thorough {
        combos.extend([("clifford", "simple"), ("flow", "gflow"), ("full", "perm"), ("interior", "gflow")]);
    }
    for (i, (s, m)) in combos.into_iter().enumerate() {
        // alternate the backends (both when thorough)
        if thorough || (idx + i) % 2 == 0 {
            xsteps_one::<quizx::vec_graph::Graph>(&c, s, m, "vec", tr);
        }
        if thorough || (idx + i) % 2 == 1 {
            xsteps_one::<quizx::hash_graph::Graph>(&c, s, m, "hash", tr);
        }
    }
}

/// run the built `quizx opt` binary on the circuit's QASM and parse what it prints
pub fn record_cli_opt(cj: &Value, tr: &mut Tr, bin: &str, dir: &str, idx: usize) {
    let c = circ_from_json(cj);
    let path = format!("{dir}/in_{idx}.qasm");
    std::fs::write(&path, c.to_qasm()).unwrap();
    let clean = |m: &str| m.chars().filter(|ch| ch.is_ascii() && *ch != '"' && *ch != '\\' && *ch != '\n').take(100).collect::<String>();
    for (mi, method) in ["", "--full", "--flow", "--clifford"].iter().enumerate() {
        let mut cmd = std::process::Command::new(bin);
        cmd.arg("opt").arg(&path);
        if !method.is_empty() {
            cmd.arg(method);
        }
        let outfile = format!("{dir}/out_{idx}_{mi}.qasm");
        let use_file = (idx + mi) % 2 == 1;
        // both spellings of the output option
        let oflag = if (idx / 2 + mi) % 2 == 0 { "-o" } else { "--out" };
        if use_file {
            cmd.arg(oflag).arg(&outfile);
        }
        let o = cmd.output().expect("run quizx");
        let text = if use_file { std::fs::read_to_string(&outfile).unwrap_or_default() } else { String::from_utf8_lossy(&o.stdout).to_string() };
        let stderr = String::from_utf8_lossy(&o.stderr).to_string();
        let code = o.status.code().unwrap_or(-1);
        let parsed = Circuit::from_qasm(&text);
        let mut e = json!({"k": "cli_opt", "method": method, "via": if use_file { oflag } else { "stdout" }, "exit": code, "expect": "ok",
                           "panicked": stderr.contains("panicked at")});
        match parsed {
            Ok(c2) if code == 0 => {
                e["res"] = json!("ok");
                e["out"] = circ_json(&c2);
            }
            Ok(_) => e["res"] = json!("exit_nonzero"),
            Err(m) => {
                e["res"] = json!(if code == 0 { "unparsable" } else { "exit_nonzero" });
                e["msg"] = json!(clean(&m));
            }
        }
        tr.emit(e);
        let _ = std::fs::remove_file(&outfile);
    }
    // ---- invocations that have no result to print: the contract is an error exit, not a panic and not a success
    //      (one case per call, rotating): two method flags at once, a missing input file, an input that is not QASM,
    //      an input with a gate the front end does not declare, an input with a barrier
    let bad = format!("{dir}/bad_{idx}.qasm");
    let outfile = format!("{dir}/badout_{idx}.qasm");
    static CALLS: std::sync::atomic::AtomicUsize = std::sync::atomic::AtomicUsize::new(0);
    let (case, args): (&str, Vec<String>) = match CALLS.fetch_add(1, std::sync::atomic::Ordering::Relaxed) % 6 {
        0 => ("two_methods", vec![path.clone(), "--full".into(), "--flow".into()]),
        1 => ("two_methods", vec![path.clone(), "--clifford".into(), "--full".into(), "--out".into(), outfile.clone()]),
        2 => ("missing_input", vec![format!("{dir}/does_not_exist_{idx}.qasm")]),
        3 => {
            std::fs::write(&bad, "this is not a circuit\n").unwrap();
            ("garbage_input", vec![bad.clone(), "--out".into(), outfile.clone()])
        }
        4 => {
            std::fs::write(&bad, "OPENQASM 2.0;\ninclude \"qelib1.inc\";\nqreg q[2];\nh q[0];\nu3(0.1,0.2,0.3) q[1];\ncx q[0], q[1];\n").unwrap();
            ("undeclared_gate", vec![bad.clone()])
        }
        _ => {
            std::fs::write(&bad, "OPENQASM 2.0;\ninclude \"qelib1.inc\";\nqreg q[2];\nh q[0];\nbarrier q;\ncx q[0], q[1];\n").unwrap();
            ("barrier", vec![bad.clone(), "--flow".into()])
        }
    };
    let o = std::process::Command::new(bin).arg("opt").args(&args).output().expect("run quizx");
    let stderr = String::from_utf8_lossy(&o.stderr).to_string();
    let stdout = String::from_utf8_lossy(&o.stdout).to_string();
    tr.emit(json!({"k": "cli_opt", "method": case, "via": "none", "exit": o.status.code().unwrap_or(-1), "expect": "reject", "res": "n/a",
                   "panicked": stderr.contains("panicked at"), "wrote_file": std::path::Path::new(&outfile).exists(),
                   "printed_qasm": stdout.contains("qreg"), "msg": clean(&stderr)}));
    let _ = std::fs::remove_file(&bad);
    let _ = std::fs::remove_file(&outfile);
    let _ = std::fs::remove_file(&path);
}

// ---------------------------------------------------------------------------------------
// GENERIC-PHASE tier (`--generic N`): circuits with rz / rx / parity-phase angles n/d * pi that are NOT multiples of pi/4 - the
// clause "to floating-point tolerance" of C02 and the "arbitrary rational Z/X phases" of C03's quantifier.  TLC cannot decide
// floating point: the harness compares with the independent float reference evaluator (refeval.rs: ref_circ from the gate
// matrices of spec/Circuit.tla, ref_den from the definition of spec/ZXSem.tla; validated against the exact specification by
// Trace_Tensor!RefEvalOK) and logs BOOLEANS, the trace specifications judge them.
//   begin    {what: "generic_circ", c}
//   tographf {mode, be, res: ok|panic|toobig, close, arity, approx}       Trace_Circ:    TranslatedFloat, NoPanic
//   extractf {simp, mode, be, res: ok|error|panic|timeout, close, n, kinds} Trace_Extract: ExtractOKFloat (close, same qubits,
//            kinds within the basic gate set - the last two judged by TLC from the logged values), ExtractionSucceeds, NoPanic, Terminates
// ---------------------------------------------------------------------------------------

fn tograph_f<G: GraphLike>(c: &Circuit, mode: &str, be: &str, want: &[crate::refeval::C]) -> Value {
    use crate::refeval::{abs_f, close, den_bits, ref_den};
    let (simp, post) = match mode {
        "plain" => (false, false),
        "simp" => (true, false),
        "postsel" => (false, true),
        "simp_postsel" => (true, true),
        _ => panic!("mode"),
    };
    match guarded(|| c.to_graph_with_options::<G>(simp, post)) {
        Err(msg) => json!({"k": "tographf", "mode": mode, "be": be, "res": "panic", "msg": msg}),
        Ok(g) => {
            let a = abs_f(&g);
            if den_bits(&a) > crate::refeval::MAX_BITS {
                return json!({"k": "tographf", "mode": mode, "be": be, "res": "toobig"});
            }
            let n = c.num_qubits();
            let arity = g.inputs().len() == n && g.outputs().len() == n;
            json!({"k": "tographf", "mode": mode, "be": be, "res": "ok", "arity": arity, "close": arity && close(&ref_den(&a), want, 1e-9),
                   "approx": crate::absg::sc_is_approx(g.scalar())})
        }
    }
}

pub fn record_tograph_generic(cj: &Value, tr: &mut Tr) {
    let c = circ_from_json(cj);
    tr.group();
    tr.emit(json!({"k": "begin", "what": "generic_circ", "c": cj}));
    let want = crate::refeval::ref_circ(cj);
    for mode in ["plain", "simp", "postsel", "simp_postsel"] {
        let ev = tograph_f::<quizx::vec_graph::Graph>(&c, mode, "vec", &want);
        let eh = tograph_f::<quizx::hash_graph::Graph>(&c, mode, "hash", &want);
        let same = {
            let (mut x, mut y) = (ev.clone(), eh.clone());
            x["be"] = json!("");
            y["be"] = json!("");
            x == y
        };
        if same {
            let mut e = eh;
            e["be"] = json!("both");
            tr.emit(e);
        } else {
            tr.emit(ev);
            tr.emit(eh);
        }
    }
}

fn extract_one_f<G: GraphLike>(c: &Circuit, simp: &str, mode: &str, be: &str, want: &[crate::refeval::C]) -> Value {
    let r = crate::eng_simp::with_watchdog(30, {
        let (c, simp, mode) = (c.clone(), simp.to_string(), mode.to_string());
        move || {
            guarded(|| {
                let mut g: G = c.to_graph();
                simp_by(&simp, &mut g);
                match extract_by(&mut g, &mode) {
                    Ok(c2) => Ok(circ_json(&c2)),
                    Err(e) => Err(format!("{e}").chars().filter(|ch| ch.is_ascii() && *ch != '"').take(100).collect::<String>()),
                }
            })
        }
    });
    let head = json!({"k": "extractf", "simp": simp, "mode": mode, "be": be});
    let with = |mut h: Value, more: Value| {
        for (k, v) in more.as_object().unwrap() {
            h[k] = v.clone();
        }
        h
    };
    match r {
        None => with(head, json!({"res": "timeout"})),
        Some(Err(m)) => with(head, json!({"res": "panic", "msg": m})),
        Some(Ok(Err(m))) => with(head, json!({"res": "error", "msg": m})),
        Some(Ok(Ok(out))) => {
            let n = c.num_qubits();
            let n2 = out["n"].as_u64().unwrap() as usize;
            let mut kinds: Vec<String> = out["gates"].as_array().unwrap().iter().map(|g| g["t"].as_str().unwrap().to_string()).collect();
            kinds.sort();
            kinds.dedup();
            let evaluable = n2 == n && kinds.iter().all(|k| crate::refeval::is_unitary_kind(k));
            let close = evaluable && {
                let got = crate::refeval::ref_circ(&out);
                if matches!(mode, "perm" | "simple_perm" | "perm_simple" | "flow_perm") {
                    crate::refeval::proj_close_up_to_perm(&got, want, n, 1e-9)
                } else {
                    crate::refeval::proj_close(&got, want, 1e-9)
                }
            };
            with(head, json!({"res": "ok", "close": close, "n": n2, "kinds": kinds, "ngates": out["gates"].as_array().unwrap().len()}))
        }
    }
}

/// the combinations C03 promises: {flow, clifford, full} x {single-solution-set, simple-Gauss, up-to-permutation} and flow x flow
pub fn record_extract_generic(cj: &Value, tr: &mut Tr) {
    let c = circ_from_json(cj);
    tr.group();
    tr.emit(json!({"k": "begin", "what": "generic_circ", "c": cj}));
    let want = crate::refeval::ref_circ(cj);
    let mut combos: Vec<(&str, &str)> = vec![];
    for s in ["flow", "clifford", "full"] {
        for m in ["gflow", "simple", "perm"] {
            combos.push((s, m));
        }
    }
    combos.push(("flow", "flow"));
    for (s, m) in combos {
        let ev = extract_one_f::<quizx::vec_graph::Graph>(&c, s, m, "vec", &want);
        let eh = extract_one_f::<quizx::hash_graph::Graph>(&c, s, m, "hash", &want);
        let same = {
            let (mut a, mut b) = (ev.clone(), eh.clone());
            a["be"] = json!("");
            b["be"] = json!("");
            a == b
        };
        if same {
            let mut e = ev;
            e["be"] = json!("both");
            tr.emit(e);
        } else {
            tr.emit(ev);
            tr.emit(eh);
        }
    }
}

pub fn record_generic(engine: &str, n: usize, seed: u64, tr: &mut Tr) -> usize {
    let mut r = crate::gens::rng(seed ^ 0x6e7e);
    for i in 0..n {
        if engine == "tograph" {
            // every third circuit may contain one CCZ / Toffoli (the post-selection option only matters there)
            let cj = generic_circuit(&mut r, 3, 6, true, if i % 3 == 0 { 1 } else { 0 });
            record_tograph_generic(&cj, tr);
        } else {
            let cj = generic_circuit(&mut r, 3, 8, true, if i % 4 == 0 { 1 } else { 0 });
            record_extract_generic(&cj, tr);
        }
    }
    n
}
