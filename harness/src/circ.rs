//! Circuits: JSON projection shared with spec/Circuit.tla, exhaustive and random generators.

use crate::absg::phase_json;
use crate::gens::ph4;
use num::Rational64;
use quizx::circuit::Circuit;
use quizx::gate::*;
use quizx::params::Parity;
use quizx::phase::Phase;
use rand::rngs::StdRng;
use rand::Rng;
use serde_json::{json, Value};

pub fn gate_json(g: &Gate) -> Value {
    let vars: Vec<u32> = g.vars.iter().collect();
    json!({"t": format!("{:?}", g.t), "qs": g.qs, "ph": phase_json(g.phase), "vars": vars})
}

pub fn circ_json(c: &Circuit) -> Value {
    json!({"n": c.num_qubits(), "gates": c.gates.iter().map(gate_json).collect::<Vec<_>>()})
}

pub fn gtype_from(s: &str) -> GType {
    match s {
        "XPhase" => XPhase,
        "NOT" => NOT,
        "ZPhase" => ZPhase,
        "Z" => Z,
        "S" => S,
        "T" => T,
        "Sdg" => Sdg,
        "Tdg" => Tdg,
        "CNOT" => CNOT,
        "CZ" => CZ,
        "ParityPhase" => ParityPhase,
        "XCX" => XCX,
        "SWAP" => SWAP,
        "HAD" => HAD,
        "TOFF" => TOFF,
        "CCZ" => CCZ,
        "InitAncilla" => InitAncilla,
        "PostSelect" => PostSelect,
        "Measure" => Measure,
        "MeasureReset" => MeasureReset,
        _ => UnknownGate,
    }
}

pub fn circ_from_json(v: &Value) -> Circuit {
    let mut c = Circuit::new(v["n"].as_u64().unwrap() as usize);
    for g in v["gates"].as_array().unwrap() {
        let ph = &g["ph"];
        let vars: Vec<u32> = g["vars"].as_array().map(|a| a.iter().map(|x| x.as_u64().unwrap() as u32).collect()).unwrap_or_default();
        c.push(Gate::new_with_phase_and_vars(
            gtype_from(g["t"].as_str().unwrap()),
            g["qs"].as_array().unwrap().iter().map(|x| x.as_u64().unwrap() as usize).collect(),
            Phase::new(Rational64::new(ph[0].as_i64().unwrap(), ph[1].as_i64().unwrap())),
            Parity::new(vars, false),
        ));
    }
    c
}

/// abstract gate: kind, qubits, phase in units of pi/4
#[derive(Clone, Debug)]
pub struct AG {
    pub t: &'static str,
    pub qs: Vec<usize>,
    pub ph: i64,
}

pub fn ag_json(n: usize, gs: &[AG]) -> Value {
    json!({"n": n, "gates": gs.iter().map(|g| json!({"t": g.t, "qs": g.qs, "ph": ph4(g.ph), "vars": []})).collect::<Vec<_>>()})
}

#[derive(Clone, Debug)]
pub struct Alphabet {
    pub oneq: Vec<&'static str>,
    pub twoq: Vec<&'static str>,
    pub special: Vec<&'static str>,
    pub threeq: Vec<&'static str>,
    pub phs: Vec<i64>,
    pub pp: bool,
}

impl Alphabet {
    pub fn unitary() -> Self {
        Alphabet {
            oneq: vec!["Z", "S", "T", "Sdg", "Tdg", "NOT", "HAD"],
            twoq: vec!["CNOT", "CZ", "XCX", "SWAP"],
            special: vec![],
            threeq: vec!["CCZ", "TOFF"],
            phs: vec![1, 2, 3, 4, 5, 6, 7],
            pp: true,
        }
    }
    pub fn all() -> Self {
        Alphabet { special: vec!["InitAncilla", "PostSelect", "Measure", "MeasureReset"], ..Self::unitary() }
    }
    pub fn gates(&self, n: usize) -> Vec<AG> {
        let mut out = vec![];
        for q in 0..n {
            for t in &self.oneq {
                out.push(AG { t, qs: vec![q], ph: 0 });
            }
            for &ph in &self.phs {
                out.push(AG { t: "ZPhase", qs: vec![q], ph });
                out.push(AG { t: "XPhase", qs: vec![q], ph });
            }
            for t in &self.special {
                out.push(AG { t, qs: vec![q], ph: 0 });
            }
        }
        for a in 0..n {
            for b in 0..n {
                if a != b {
                    for t in &self.twoq {
                        out.push(AG { t, qs: vec![a, b], ph: 0 });
                    }
                    if self.pp {
                        for &ph in &self.phs {
                            out.push(AG { t: "ParityPhase", qs: vec![a, b], ph });
                        }
                    }
                    for c in 0..n {
                        if c != a && c != b {
                            for t in &self.threeq {
                                out.push(AG { t, qs: vec![a, b, c], ph: 0 });
                            }
                        }
                    }
                }
            }
        }
        out
    }
}

/// gate admissible after prefix: init_anc only first on its qubit, nothing on removed qubits
fn admissible(prefix: &[AG], g: &AG) -> bool {
    let removed: Vec<usize> = prefix.iter().filter(|x| x.t == "PostSelect" || x.t == "Measure").map(|x| x.qs[0]).collect();
    if g.qs.iter().any(|q| removed.contains(q)) {
        return false;
    }
    if g.t == "InitAncilla" && prefix.iter().any(|x| x.qs.contains(&g.qs[0])) {
        return false;
    }
    true
}

/// all admissible circuits of length <= maxlen on n qubits
pub fn enum_circuits(n: usize, maxlen: usize, al: &Alphabet, emit: &mut impl FnMut(&[AG])) {
    let gs = al.gates(n);
    fn rec(gs: &[AG], cur: &mut Vec<AG>, maxlen: usize, emit: &mut impl FnMut(&[AG])) {
        emit(cur);
        if cur.len() == maxlen {
            return;
        }
        for g in gs {
            if admissible(cur, g) {
                cur.push(g.clone());
                rec(gs, cur, maxlen, emit);
                cur.pop();
            }
        }
    }
    rec(&gs, &mut vec![], maxlen, emit);
}

pub fn random_circuit(r: &mut StdRng, n: usize, len: usize, al: &Alphabet) -> Vec<AG> {
    let gs = al.gates(n);
    // weight the kinds equally rather than the instances
    let kinds: Vec<&'static str> = {
        let mut k: Vec<&'static str> = gs.iter().map(|g| g.t).collect();
        k.sort();
        k.dedup();
        k
    };
    let mut cur: Vec<AG> = vec![];
    let mut tries = 0;
    while cur.len() < len && tries < 50 * len + 50 {
        tries += 1;
        let k = kinds[r.random_range(0..kinds.len())];
        let cands: Vec<&AG> = gs.iter().filter(|g| g.t == k).collect();
        let mut g = cands[r.random_range(0..cands.len())].clone();
        // parity-phase gates of arity 1..n
        if g.t == "ParityPhase" {
            let ar = r.random_range(1..=n);
            let mut qs: Vec<usize> = (0..n).collect();
            for i in (1..qs.len()).rev() {
                qs.swap(i, r.random_range(0..=i));
            }
            g.qs = qs[..ar].to_vec();
        }
        // the special gates are rare, otherwise every wire is cut early
        if al.special.contains(&g.t) && r.random_bool(0.7) {
            continue;
        }
        if admissible(&cur, &g) {
            cur.push(g);
        }
    }
    cur
}

// ---------------------------------------------------------------------------------------
// measurement gates with EXPLICIT outcome variables (audit item 1)
// ---------------------------------------------------------------------------------------

pub fn is_meas(g: &Value) -> bool {
    g["t"] == "Measure" || g["t"] == "MeasureReset"
}

pub const VAR_SCHEMES: [&str; 5] = ["distinct", "same", "mixed", "multi", "gap"];

/// A copy of the circuit in which Measure / MeasureReset gates carry explicit variables (None if there is no such gate):
///   distinct  every measurement its own variable (a random injective choice from 0..)
///   same      all measurements into ONE variable
///   mixed     explicit (variables 0..2, repetitions allowed) and fresh (`vars: []`) measurements mixed
///   multi     parities of one or two variables
///   gap       one measurement into variable 2 or 3, the others fresh (fresh numbering starts above the largest explicit one)
pub fn with_measure_vars(cj: &Value, scheme: &str, r: &mut StdRng) -> Option<Value> {
    let mut c = cj.clone();
    let gates = c["gates"].as_array_mut().unwrap();
    let idxs: Vec<usize> = (0..gates.len()).filter(|&i| is_meas(&gates[i])).collect();
    if idxs.is_empty() {
        return None;
    }
    let mut names: Vec<u32> = (0..idxs.len() as u32).collect();
    for i in (1..names.len()).rev() {
        names.swap(i, r.random_range(0..=i));
    }
    let same = r.random_range(0..3u32);
    let gap_at = r.random_range(0..idxs.len());
    for (k, &i) in idxs.iter().enumerate() {
        let vars: Vec<u32> = match scheme {
            "distinct" => vec![names[k]],
            "same" => vec![same],
            "mixed" => {
                if r.random_bool(0.5) {
                    vec![r.random_range(0..3u32)]
                } else {
                    vec![]
                }
            }
            "multi" => {
                let a = r.random_range(0..3u32);
                let b = r.random_range(0..3u32);
                if a == b {
                    vec![a]
                } else {
                    vec![a.min(b), a.max(b)]
                }
            }
            "gap" => {
                if k == gap_at {
                    vec![r.random_range(2..4u32)]
                } else {
                    vec![]
                }
            }
            _ => panic!("scheme {scheme}"),
        };
        gates[i]["vars"] = json!(vars);
    }
    Some(c)
}

/// the circuit with every qubit q renamed to p[q]
pub fn rename_qubits(cj: &Value, p: &[usize]) -> Value {
    let mut c = cj.clone();
    for g in c["gates"].as_array_mut().unwrap() {
        let qs: Vec<usize> = g["qs"].as_array().unwrap().iter().map(|x| p[x.as_u64().unwrap() as usize]).collect();
        g["qs"] = json!(qs);
    }
    c
}

pub fn gate_from_json(g: &Value) -> Gate {
    let ph = &g["ph"];
    let vars: Vec<u32> = g["vars"].as_array().map(|a| a.iter().map(|x| x.as_u64().unwrap() as u32).collect()).unwrap_or_default();
    Gate::new_with_phase_and_vars(
        gtype_from(g["t"].as_str().unwrap()),
        g["qs"].as_array().unwrap().iter().map(|x| x.as_u64().unwrap() as usize).collect(),
        Phase::new(Rational64::new(ph[0].as_i64().unwrap(), ph[1].as_i64().unwrap())),
        Parity::new(vars, false),
    )
}

/// put 1..=3 further measurements into a random circuit (the special gates are rare in `random_circuit`): MeasureReset
/// anywhere on a live qubit, Measure after the last gate that touches its qubit
pub fn add_measurements(gs: &mut Vec<AG>, n: usize, r: &mut StdRng) {
    for _ in 0..r.random_range(1..=3usize) {
        let q = r.random_range(0..n);
        let gone = |g: &AG| (g.t == "PostSelect" || g.t == "Measure") && g.qs[0] == q;
        if r.random_bool(0.5) {
            // MeasureReset: before the qubit is removed (if it is)
            let end = gs.iter().position(gone).unwrap_or(gs.len());
            let at = r.random_range(0..=end);
            gs.insert(at, AG { t: "MeasureReset", qs: vec![q], ph: 0 });
        } else if !gs.iter().any(gone) {
            let at = gs.iter().rposition(|g| g.qs.contains(&q)).map_or(0, |i| i + 1);
            let at = r.random_range(at..=gs.len());
            gs.insert(at, AG { t: "Measure", qs: vec![q], ph: 0 });
        }
    }
}

// ---------------------------------------------------------------------------------------
// opt-in GENERIC phases (rz / rx / parity-phase angles n/d * pi with d in {3,5,6,7,8,12,16}): the floating-point clause
// ---------------------------------------------------------------------------------------

/// Give the phase gates of an abstract circuit generic angles with probability `p` each, and turn a fraction of the
/// fixed-angle one-qubit gates (Z, S, T, ...) into rz / rx with a generic angle. Returns the number of generic angles.
pub fn make_generic_circuit(cj: &mut Value, r: &mut StdRng, p: f64) -> usize {
    let mut n = 0;
    for g in cj["gates"].as_array_mut().unwrap() {
        let t = g["t"].as_str().unwrap().to_string();
        let phase_gate = matches!(t.as_str(), "ZPhase" | "XPhase" | "ParityPhase");
        let fixed = matches!(t.as_str(), "Z" | "S" | "T" | "Sdg" | "Tdg" | "NOT");
        if (phase_gate && r.random_bool(p)) || (fixed && r.random_bool(p * 0.5)) {
            if fixed {
                g["t"] = json!(if r.random_bool(0.5) { "ZPhase" } else { "XPhase" });
            }
            g["ph"] = crate::gens::generic_phase(r);
            n += 1;
        }
    }
    n
}

/// a seeded unitary circuit with at least one generic angle: 1..=maxq qubits, <= maxlen gates, at most `max3` three-qubit gates
pub fn generic_circuit(r: &mut StdRng, maxq: usize, maxlen: usize, pp: bool, max3: usize) -> Value {
    loop {
        let n = r.random_range(1..=maxq);
        let len = r.random_range(1..=maxlen);
        let mut al = Alphabet { pp, ..Alphabet::unitary() };
        if n < 3 {
            al.threeq = vec![];
        }
        if n < 2 {
            al.twoq = vec![];
            al.pp = false;
        }
        let gs = random_circuit(r, n, len, &al);
        if gs.iter().filter(|g| g.qs.len() == 3 && (g.t == "CCZ" || g.t == "TOFF")).count() > max3 {
            continue;
        }
        let mut cj = ag_json(n, &gs);
        if make_generic_circuit(&mut cj, r, 0.7) > 0 {
            return cj;
        }
    }
}
