//! C06: the `quizx sim` command line, run as a process (the binary built from /repo's working
//! tree with the guard cfg).  The guarded hooks in cli/sim.rs append every scalar the
//! decomposer returns and every Bernoulli draw to the file named by QUIZX_VERIF_TRACE; this
//! engine turns them into events that TLC (mc/Trace_Sim) validates against the exact Born
//! quantities of spec/Sim.tla.  Floating point only appears here: printed decimals and the
//! sampler's p are compared (1e-9) with values derived from the exact scalars TLC validates.

use crate::circ::*;
use crate::util::{arg_num, arg_val, Tr};
use num::complex::Complex;
use rand::Rng;
use serde_json::{json, Value};
use std::process::Command;

/// raw parts [[neg,"mantissa",exp,approx] x 4] -> (exact [a,b,c,d,e] JSON or "big", complex value, approx flag)
fn raw_scalar(raw: &Value) -> (Value, Complex<f64>, bool) {
    let mut parts: Vec<Option<(i128, i32)>> = vec![];
    let mut approx = false;
    let mut fl = [0f64; 4];
    for (i, d) in raw.as_array().unwrap().iter().enumerate() {
        let neg = d[0].as_bool().unwrap();
        let m: u64 = d[1].as_str().unwrap().parse().unwrap();
        let e = d[2].as_i64().unwrap() as i32;
        approx |= d[3].as_bool().unwrap();
        fl[i] = (m as f64) * 2f64.powi(e) * if neg { -1.0 } else { 1.0 };
        if m == 0 {
            parts.push(None);
        } else {
            let tz = m.trailing_zeros();
            let mm = (m >> tz) as i128;
            parts.push(Some((if neg { -mm } else { mm }, e + tz as i32)));
        }
    }
    let r = std::f64::consts::FRAC_1_SQRT_2;
    let c = Complex::new(fl[0] + (fl[1] - fl[3]) * r, fl[2] + (fl[1] + fl[3]) * r);
    let emin = parts.iter().flatten().map(|p| p.1).min();
    let js = match emin {
        None => json!([0, 0, 0, 0, 0]),
        Some(emin) => {
            let mut out = [0i128; 4];
            let mut ok = true;
            for (i, p) in parts.iter().enumerate() {
                if let Some((m, e)) = p {
                    let sh = (e - emin) as u32;
                    if sh > 40 {
                        ok = false;
                    } else {
                        out[i] = m << sh;
                    }
                }
            }
            if ok && out.iter().all(|x| x.abs() < (1 << 30)) {
                json!([out[0] as i64, out[1] as i64, out[2] as i64, out[3] as i64, emin])
            } else {
                json!("big")
            }
        }
    };
    // TLC cannot compare a sequence with a string: "big" scalars are sent as zeros plus the approx flag
    let (js, approx) = if js == json!("big") { (json!([0, 0, 0, 0, 0]), true) } else { (js, approx) };
    (js, c, approx)
}

struct Run {
    exit: i32,
    stdout: String,
    panicked: bool,
    hooks: Vec<Value>,
}

fn run(bin: &str, args: &[String], tracefile: &str) -> Run {
    let _ = std::fs::remove_file(tracefile);
    let o = Command::new(bin).args(args).env("QUIZX_VERIF_TRACE", tracefile).output().expect("run quizx");
    let hooks = std::fs::read_to_string(tracefile)
        .unwrap_or_default()
        .lines()
        .filter_map(|l| serde_json::from_str::<Value>(l).ok())
        .collect();
    let _ = std::fs::remove_file(tracefile);
    Run {
        exit: o.status.code().unwrap_or(-1),
        stdout: String::from_utf8_lossy(&o.stdout).to_string(),
        panicked: String::from_utf8_lossy(&o.stderr).contains("panicked at"),
        hooks,
    }
}

fn chars(s: &str) -> Vec<String> {
    s.chars().map(|c| c.to_string()).collect()
}

fn all_strings(alpha: &[char], n: usize) -> Vec<String> {
    let mut out = vec![String::new()];
    for _ in 0..n {
        out = out.iter().flat_map(|s| alpha.iter().map(move |c| format!("{s}{c}"))).collect();
    }
    out
}

pub fn record(args: &[String], seed: u64, tr: &mut Tr) -> Value {
    let bin = arg_val(args, "--quizx-bin").expect("--quizx-bin");
    let dir = arg_val(args, "--dir").expect("--dir");
    std::fs::create_dir_all(&dir).unwrap();
    let ncirc: usize = arg_num(args, "--circuits", 10);
    let shots: usize = arg_num(args, "--shots", 6);
    let maxq: usize = arg_num(args, "--maxq", 3);
    let maxlen: usize = arg_num(args, "--maxlen", 8);
    let per: usize = arg_num(args, "--queries", 6);
    let mut r = crate::gens::rng(seed);
    let al = Alphabet { pp: false, ..Alphabet::unitary() };
    let tf = format!("{dir}/hook.ndjson");
    let (mut nq, mut nbad) = (0usize, 0usize);
    // fixed circuits that make marginals non-trivial, then random ones
    let mut circuits: Vec<(usize, Vec<AG>)> = vec![
        (2, vec![AG { t: "HAD", qs: vec![0], ph: 0 }, AG { t: "CNOT", qs: vec![0, 1], ph: 0 }]),
        (2, vec![AG { t: "HAD", qs: vec![0], ph: 0 }, AG { t: "T", qs: vec![0], ph: 0 }, AG { t: "HAD", qs: vec![0], ph: 0 }, AG { t: "SWAP", qs: vec![0, 1], ph: 0 }]),
        (3, vec![AG { t: "HAD", qs: vec![0], ph: 0 }, AG { t: "CNOT", qs: vec![0, 1], ph: 0 }, AG { t: "CNOT", qs: vec![1, 2], ph: 0 }, AG { t: "T", qs: vec![2], ph: 0 }, AG { t: "HAD", qs: vec![2], ph: 0 }]),
    ];
    while circuits.len() < ncirc {
        let n = r.random_range(1..=maxq);
        let len = r.random_range(1..=maxlen);
        let mut al2 = al.clone();
        if n < 3 {
            al2.threeq = vec![];
        }
        if n < 2 {
            al2.twoq = vec![];
        }
        circuits.push((n, random_circuit(&mut r, n, len, &al2)));
    }
    for (ci, (n, gs)) in circuits.iter().take(ncirc).enumerate() {
        let cj = ag_json(*n, gs);
        let c = circ_from_json(&cj);
        let path = format!("{dir}/c_{ci}.qasm");
        std::fs::write(&path, c.to_qasm()).unwrap();
        tr.group();
        tr.emit(json!({"k": "circ", "c": cj}));
        let methods: Vec<Vec<String>> = vec![vec![], vec!["--cats".into()], vec!["--bss".into()]];
        let pars: Vec<Vec<String>> = vec![vec![], vec!["-p".into(), "2".into()]];
        let cfg = |r: &mut rand::rngs::StdRng| -> (Vec<String>, Vec<String>) { (methods[r.random_range(0..3)].clone(), pars[r.random_range(0..2)].clone()) };
        // ---- amplitudes ----
        let mut bitstrs = all_strings(&['0', '1'], *n);
        bitstrs.push("0".into());
        bitstrs.push("1".into());
        for i in (1..bitstrs.len()).rev() {
            bitstrs.swap(i, r.random_range(0..=i));
        }
        for bs in bitstrs.iter().take(per) {
            for rep in 0..2 {
                let (m, p) = if rep == 0 { (vec![], vec![]) } else { cfg(&mut r) };
                let mut a: Vec<String> = vec!["sim".into(), path.clone(), "-a".into(), bs.clone()];
                a.extend(m.clone());
                a.extend(p.clone());
                let out = run(&bin, &a, &tf);
                let mut e = json!({"k": "amp", "chars": chars(bs), "method": m, "par": !p.is_empty(), "exit": out.exit, "panicked": out.panicked});
                if out.exit == 0 && out.hooks.len() == 1 {
                    let (js, cval, ap) = raw_scalar(&out.hooks[0]["raw"]);
                    let printed: f64 = out.stdout.trim().parse().unwrap_or(f64::NAN);
                    e["scalar"] = js;
                    e["approx"] = json!(ap);
                    e["printed_ok"] = json!((printed - cval.norm_sqr()).abs() <= 1e-9);
                    e["res"] = json!("ok");
                } else {
                    e["res"] = json!(if out.exit == 0 { "nohook" } else { "error" });
                }
                tr.emit(e);
                nq += 1;
            }
        }
        // ---- expectation values ----
        let mut ps = all_strings(&['I', 'X', 'Y', 'Z'], *n);
        ps.extend(["X", "y", "Z", "i"].iter().map(|s| s.to_string()));
        if *n == 2 {
            ps.push("xZ".into());
        }
        for i in (1..ps.len()).rev() {
            ps.swap(i, r.random_range(0..=i));
        }
        for pstr in ps.iter().take(per + 2) {
            let (m, p) = cfg(&mut r);
            let mut a: Vec<String> = vec!["sim".into(), path.clone(), "-e".into(), pstr.clone()];
            a.extend(m.clone());
            a.extend(p.clone());
            let out = run(&bin, &a, &tf);
            let mut e = json!({"k": "exp", "chars": chars(pstr), "method": m, "par": !p.is_empty(), "exit": out.exit, "panicked": out.panicked});
            if out.exit == 0 && out.hooks.len() == 1 {
                let (js, cval, ap) = raw_scalar(&out.hooks[0]["raw"]);
                let printed: f64 = out.stdout.trim().parse().unwrap_or(f64::NAN);
                e["scalar"] = js;
                e["approx"] = json!(ap);
                e["printed_ok"] = json!((printed - cval.re).abs() <= 1e-9);
                e["res"] = json!("ok");
            } else {
                e["res"] = json!(if out.exit == 0 { "nohook" } else { "error" });
            }
            tr.emit(e);
            nq += 1;
        }
        // ---- samples ----
        for rep in 0..2 {
            let (m, p) = if rep == 0 { (vec![], vec![]) } else { cfg(&mut r) };
            let mut a: Vec<String> = vec!["sim".into(), path.clone(), "-s".into(), shots.to_string()];
            a.extend(m.clone());
            a.extend(p.clone());
            let out = run(&bin, &a, &tf);
            let lines: Vec<&str> = out.stdout.lines().filter(|l| !l.trim().is_empty()).collect();
            let mut e = json!({"k": "sample", "method": m, "par": !p.is_empty(), "exit": out.exit, "panicked": out.panicked, "shots": shots});
            if out.exit == 0 && out.hooks.len() == 2 * shots * n && lines.len() == shots {
                let mut sh = vec![];
                for s in 0..shots {
                    let mut draws = vec![];
                    let mut prefix_prob = 1.0f64;
                    for k in 0..*n {
                        let hs = &out.hooks[2 * (s * n + k)];
                        let hd = &out.hooks[2 * (s * n + k) + 1];
                        let (js, cval, ap) = raw_scalar(&hs["raw"]);
                        let bits: Vec<u8> = hd["bits"].as_str().unwrap().bytes().map(|b| b - b'0').collect();
                        let p: f64 = hd["p"].as_str().unwrap().parse().unwrap_or(f64::NAN);
                        let joint = cval.re;
                        let cond = joint / prefix_prob;
                        let bit = *bits.last().unwrap();
                        draws.push(json!({"pre": bits[..bits.len() - 1], "scalar": js, "approx": ap, "bit": bit,
                                          "p_in_range": (0.0..=1.0).contains(&p), "p_is_conditional": (p - cond).abs() <= 1e-9}));
                        prefix_prob = if bit == 1 { joint } else { prefix_prob - joint };
                    }
                    let printed: Vec<u8> = lines[s].trim().bytes().map(|b| b.wrapping_sub(b'0')).collect();
                    sh.push(json!({"draws": draws, "printed": printed}));
                }
                e["res"] = json!("ok");
                e["runs"] = json!(sh);
            } else {
                e["res"] = json!(if out.exit == 0 { "nohook" } else { "error" });
            }
            tr.emit(e);
            nq += 1;
        }
        // ---- malformed queries: must be rejected with an error, not a panic ----
        let long = "01".repeat(*n);
        let bads: Vec<Vec<String>> = vec![
            vec!["-a".into(), long.clone() + "0"],
            vec!["-a".into(), "0".repeat(*n + 2)],
            vec!["-a".into(), "012"[..(*n).min(3)].to_string() + "2"],
            vec!["-a".into(), "".into()],
            vec!["-e".into(), "X".repeat(*n + 1)],
            vec!["-e".into(), "Q".into()],
            vec!["-e".into(), "".into()],
            vec!["-a".into(), "0".into(), "-e".into(), "Z".into()],
            vec!["-a".into(), "0".into(), "-s".into(), "2".into()],
            vec!["--cats".into(), "--bss".into()],
        ];
        for b in bads.iter() {
            if *n == 1 && (b[1].len() == 1) && b.len() == 2 && b[1] != "Q" {
                continue;
            }
            let mut a: Vec<String> = vec!["sim".into(), path.clone()];
            a.extend(b.clone());
            let out = run(&bin, &a, &tf);
            let kind = if b[0] == "-a" && b.len() == 2 { "bits" } else if b[0] == "-e" && b.len() == 2 { "paulis" } else { "flags" };
            tr.emit(json!({"k": "query", "kind": kind, "chars": if b.len() == 2 { chars(&b[1]) } else { vec![] }, "argv": b, "exit": out.exit, "panicked": out.panicked}));
            nbad += 1;
        }
        let _ = std::fs::remove_file(&path);
    }
    json!({"circuits": ncirc.min(circuits.len()), "queries": nq, "malformed": nbad})
}
