//! C06: the `quizx sim` command line, run as a process (the binary built from /repo's working
//! tree with the guard cfg).  The guarded hooks in cli/sim.rs append every scalar the
//! decomposer returns and every Bernoulli draw to the file named by QUIZX_VERIF_TRACE; this
//! engine turns them into events that TLC (mc/Trace_Sim) validates against the exact Born
//! quantities of spec/Sim.tla.  Floating point only appears here: printed decimals and the
//! sampler's p are compared (1e-9) with values derived from the exact scalars TLC validates.

use crate::circ::*;
use crate::util::{arg_num, arg_val, Tr};
use num::complex::Complex;
use rand::Rng;
use serde_json::{json, Value};
use std::process::Command;

/// raw parts [[neg,"mantissa",exp,approx] x 4] -> (exact [a,b,c,d,e] JSON or "big", complex value, approx flag)
fn raw_scalar(raw: &Value) -> (Value, Complex<f64>, bool) {
    let mut parts: Vec<Option<(i128, i32)>> = vec![];
    let mut approx = false;
    let mut fl = [0f64; 4];
    for (i, d) in raw.as_array().unwrap().iter().enumerate() {
        let neg = d[0].as_bool().unwrap();
        let m: u64 = d[1].as_str().unwrap().parse().unwrap();
        let e = d[2].as_i64().unwrap() as i32;
        approx |= d[3].as_bool().unwrap();
        fl[i] = (m as f64) * 2f64.powi(e) * if neg { -1.0 } else { 1.0 };
        if m == 0 {
            parts.push(None);
        } else {
            let tz = m.trailing_zeros();
            let mm = (m >> tz) as i128;
            parts.push(Some((if neg { -mm } else { mm }, e + tz as i32)));
        }
    }
    let r = std::f64::consts::FRAC_1_SQRT_2;
    let c = Complex::new(fl[0] + (fl[1] - fl[3]) * r, fl[2] + (fl[1] + fl[3]) * r);
    let emin = parts.iter().flatten().map(|p| p.1).min();
    let js = match emin {
        None => json!([0, 0, 0, 0, 0]),
        Some(emin) => {
            let mut out = [0i128; 4];
            let mut ok = true;
            for (i, p) in parts.iter().enumerate() {
                if let Some((m, e)) = p {
                    let sh = (e - emin) as u32;
                    if sh > 40 {
                        ok = false;
                    } else {
                        out[i] = m << sh;
                    }
                }
            }
            if ok && out.iter().all(|x| x.abs() < (1 << 30)) {
                json!([out[0] as i64, out[1] as i64, out[2] as i64, out[3] as i64, emin])
            } else {
                json!("big")
            }
        }
    };
    // TLC cannot compare a sequence with a string: "big" scalars are sent as zeros plus the approx flag
    let (js, approx) = if js == json!("big") { (json!([0, 0, 0, 0, 0]), true) } else { (js, approx) };
    (js, c, approx)
}

struct Run {
    exit: i32,
    stdout: String,
    panicked: bool,
    hooks: Vec<Value>,
}

fn run(bin: &str, args: &[String], tracefile: &str) -> Run {
    let _ = std::fs::remove_file(tracefile);
    let o = Command::new(bin).args(args).env("QUIZX_VERIF_TRACE", tracefile).output().expect("run quizx");
    let hooks = std::fs::read_to_string(tracefile)
        .unwrap_or_default()
        .lines()
        .filter_map(|l| serde_json::from_str::<Value>(l).ok())
        .collect();
    let _ = std::fs::remove_file(tracefile);
    Run {
        exit: o.status.code().unwrap_or(-1),
        stdout: String::from_utf8_lossy(&o.stdout).to_string(),
        panicked: String::from_utf8_lossy(&o.stderr).contains("panicked at"),
        hooks,
    }
}

fn chars(s: &str) -> Vec<String> {
    s.chars().map(|c| c.to_string()).collect()
}

fn all_strings(alpha: &[char], n: usize) -> Vec<String> {
    let mut out = vec![String::new()];
    for _ in 0..n {
        out = out.iter().flat_map(|s| alpha.iter().map(move |c| format!("{s}{c}"))).collect();
    }
    out
}

pub fn record(args: &[String], seed: u64, tr: &mut Tr) -> Value {
    let bin = arg_val(args, "--quizx-bin").expect("--quizx-bin");
    let dir = arg_val(args, "--dir").expect("--dir");
    std::fs::create_dir_all(&dir).unwrap();
    let ncirc: usize = arg_num(args, "--circuits", 10);
    let shots: usize = arg_num(args, "--shots", 6);
    let maxq: usize = arg_num(args, "--maxq", 3);
    let maxlen: usize = arg_num(args, "--maxlen", 8);
    let per: usize = arg_num(args, "--queries", 6);
    let mut r = crate::gens::rng(seed);
    // --alphabet ct --minlen L --minq Q: deep T-rich circuits (the doubled diagrams of marginals / expectation values then contain
    // cat states whose legs are adjacent, 6-T BSS groups with mixed phases, ...)
    let minlen: usize = arg_num(args, "--minlen", 1);
    let minq: usize = arg_num(args, "--minq", 1);
    let al = if arg_val(args, "--alphabet").as_deref() == Some("ct") {
        Alphabet { oneq: vec!["T", "T", "Tdg", "HAD", "HAD", "S"], twoq: vec!["CNOT", "CZ"], special: vec![], threeq: vec![], phs: vec![], pp: false }
    } else {
        Alphabet { pp: false, ..Alphabet::unitary() }
    };
    let tf = format!("{dir}/hook.ndjson");
    let (mut nq, mut nbad) = (0usize, 0usize);
    let variants = crate::util::arg_flag(args, "--variants");
    let mut nvar = 0usize;
    // fixed circuits that make marginals non-trivial, then random ones
    let mut circuits: Vec<(usize, Vec<AG>)> = if minlen > 1 { vec![] } else { vec![
        (2, vec![AG { t: "HAD", qs: vec![0], ph: 0 }, AG { t: "CNOT", qs: vec![0, 1], ph: 0 }]),
        (2, vec![AG { t: "HAD", qs: vec![0], ph: 0 }, AG { t: "T", qs: vec![0], ph: 0 }, AG { t: "HAD", qs: vec![0], ph: 0 }, AG { t: "SWAP", qs: vec![0, 1], ph: 0 }]),
        (3, vec![AG { t: "HAD", qs: vec![0], ph: 0 }, AG { t: "CNOT", qs: vec![0, 1], ph: 0 }, AG { t: "CNOT", qs: vec![1, 2], ph: 0 }, AG { t: "T", qs: vec![2], ph: 0 }, AG { t: "HAD", qs: vec![2], ph: 0 }]),
    ] };
    while circuits.len() < ncirc {
        let n = r.random_range(minq.min(maxq)..=maxq);
        let len = r.random_range(minlen.min(maxlen)..=maxlen);
        let mut al2 = al.clone();
        if n < 3 {
            al2.threeq = vec![];
        }
        if n < 2 {
            al2.twoq = vec![];
        }
        circuits.push((n, random_circuit(&mut r, n, len, &al2)));
    }
    for (ci, (n, gs)) in circuits.iter().take(ncirc).enumerate() {
        let cj = ag_json(*n, gs);
        let c = circ_from_json(&cj);
        let path = format!("{dir}/c_{ci}.qasm");
        std::fs::write(&path, c.to_qasm()).unwrap();
        tr.group();
        tr.emit(json!({"k": "circ", "c": cj}));
        let methods: Vec<Vec<String>> = vec![vec![], vec!["--cats".into()], vec!["--bss".into()]];
        let pars: Vec<Vec<String>> = vec![vec![], vec!["-p".into(), "2".into()]];
        let cfg = |r: &mut rand::rngs::StdRng| -> (Vec<String>, Vec<String>) { (methods[r.random_range(0..3)].clone(), pars[r.random_range(0..2)].clone()) };
        // ---- amplitudes ----
        let mut bitstrs = all_strings(&['0', '1'], *n);
        bitstrs.push("0".into());
        bitstrs.push("1".into());
        for i in (1..bitstrs.len()).rev() {
            bitstrs.swap(i, r.random_range(0..=i));
        }
        for bs in bitstrs.iter().take(per) {
            for rep in 0..2 {
                let (m, p) = if rep == 0 { (vec![], vec![]) } else { cfg(&mut r) };
                let mut a: Vec<String> = vec!["sim".into(), path.clone(), "-a".into(), bs.clone()];
                a.extend(m.clone());
                a.extend(p.clone());
                let out = run(&bin, &a, &tf);
                let mut e = json!({"k": "amp", "chars": chars(bs), "method": m, "par": !p.is_empty(), "exit": out.exit, "panicked": out.panicked});
                if out.exit == 0 && out.hooks.len() == 1 {
                    let (js, cval, ap) = raw_scalar(&out.hooks[0]["raw"]);
                    let printed: f64 = out.stdout.trim().parse().unwrap_or(f64::NAN);
                    e["scalar"] = js;
                    e["approx"] = json!(ap);
                    e["printed_ok"] = json!((printed - cval.norm_sqr()).abs() <= 1e-9);
                    e["res"] = json!("ok");
                } else {
                    e["res"] = json!(if out.exit == 0 { "nohook" } else { "error" });
                }
                tr.emit(e);
                nq += 1;
            }
        }
        // ---- expectation values ----
        let mut ps = all_strings(&['I', 'X', 'Y', 'Z'], *n);
        ps.extend(["X", "y", "Z", "i"].iter().map(|s| s.to_string()));
        if *n == 2 {
            ps.push("xZ".into());
        }
        for i in (1..ps.len()).rev() {
            ps.swap(i, r.random_range(0..=i));
        }
        for pstr in ps.iter().take(per + 2) {
            let (m, p) = cfg(&mut r);
            let mut a: Vec<String> = vec!["sim".into(), path.clone(), "-e".into(), pstr.clone()];
            a.extend(m.clone());
            a.extend(p.clone());
            let out = run(&bin, &a, &tf);
            let mut e = json!({"k": "exp", "chars": chars(pstr), "method": m, "par": !p.is_empty(), "exit": out.exit, "panicked": out.panicked});
            if out.exit == 0 && out.hooks.len() == 1 {
                let (js, cval, ap) = raw_scalar(&out.hooks[0]["raw"]);
                let printed: f64 = out.stdout.trim().parse().unwrap_or(f64::NAN);
                e["scalar"] = js;
                e["approx"] = json!(ap);
                e["printed_ok"] = json!((printed - cval.re).abs() <= 1e-9);
                e["res"] = json!("ok");
            } else {
                e["res"] = json!(if out.exit == 0 { "nohook" } else { "error" });
            }
            tr.emit(e);
            nq += 1;
        }
        // ---- samples ----
        for rep in 0..2 {
            let (m, p) = if rep == 0 { (vec![], vec![]) } else { cfg(&mut r) };
            let mut a: Vec<String> = vec!["sim".into(), path.clone(), "-s".into(), shots.to_string()];
            a.extend(m.clone());
            a.extend(p.clone());
            let out = run(&bin, &a, &tf);
            let lines: Vec<&str> = out.stdout.lines().filter(|l| !l.trim().is_empty()).collect();
            let mut e = json!({"k": "sample", "method": m, "par": !p.is_empty(), "exit": out.exit, "panicked": out.panicked, "shots": shots});
            if out.exit == 0 && out.hooks.len() == 2 * shots * n && lines.len() == shots {
                let mut sh = vec![];
                for s in 0..shots {
                    let mut draws = vec![];
                    let mut prefix_prob = 1.0f64;
                    for k in 0..*n {
                        let hs = &out.hooks[2 * (s * n + k)];
                        let hd = &out.hooks[2 * (s * n + k) + 1];
                        let (js, cval, ap) = raw_scalar(&hs["raw"]);
                        let bits: Vec<u8> = hd["bits"].as_str().unwrap().bytes().map(|b| b - b'0').collect();
                        let p: f64 = hd["p"].as_str().unwrap().parse().unwrap_or(f64::NAN);
                        let joint = cval.re;
                        let cond = joint / prefix_prob;
                        let bit = *bits.last().unwrap();
                        draws.push(json!({"pre": bits[..bits.len() - 1], "scalar": js, "approx": ap, "bit": bit,
                                          "p_in_range": (0.0..=1.0).contains(&p), "p_is_conditional": (p - cond).abs() <= 1e-9}));
                        prefix_prob = if bit == 1 { joint } else { prefix_prob - joint };
                    }
                    let printed: Vec<u8> = lines[s].trim().bytes().map(|b| b.wrapping_sub(b'0')).collect();
                    sh.push(json!({"draws": draws, "printed": printed}));
                }
                e["res"] = json!("ok");
                e["runs"] = json!(sh);
            } else {
                e["res"] = json!(if out.exit == 0 { "nohook" } else { "error" });
            }
            tr.emit(e);
            nq += 1;
        }
        // ---- malformed queries: must be rejected with an error, not a panic ----
        let long = "01".repeat(*n);
        let bads: Vec<Vec<String>> = vec![
            vec!["-a".into(), long.clone() + "0"],
            vec!["-a".into(), "0".repeat(*n + 2)],
            vec!["-a".into(), "012"[..(*n).min(3)].to_string() + "2"],
            vec!["-a".into(), "".into()],
            vec!["-e".into(), "X".repeat(*n + 1)],
            vec!["-e".into(), "Q".into()],
            vec!["-e".into(), "".into()],
            vec!["-a".into(), "0".into(), "-e".into(), "Z".into()],
            vec!["-a".into(), "0".into(), "-s".into(), "2".into()],
            vec!["--cats".into(), "--bss".into()],
        ];
        for b in bads.iter() {
            if *n == 1 && (b[1].len() == 1) && b.len() == 2 && b[1] != "Q" {
                continue;
            }
            let mut a: Vec<String> = vec!["sim".into(), path.clone()];
            a.extend(b.clone());
            let out = run(&bin, &a, &tf);
            let kind = if b[0] == "-a" && b.len() == 2 { "bits" } else if b[0] == "-e" && b.len() == 2 { "paulis" } else { "flags" };
            tr.emit(json!({"k": "query", "kind": kind, "chars": if b.len() == 2 { chars(&b[1]) } else { vec![] }, "argv": b, "exit": out.exit, "panicked": out.panicked}));
            nbad += 1;
        }
        if variants {
            nvar += record_variants(&bin, &path, &dir, &tf, *n, shots, &mut r, tr);
        }
        let _ = std::fs::remove_file(&path);
    }
    let nfile = if variants { record_file_errors(&bin, &dir, &tf, tr) } else { 0 };
    let ngen: usize = arg_num(args, "--generic", 0);
    let genq = if ngen > 0 { record_generic(&bin, &dir, &tf, ngen, shots, per, &mut r, tr) } else { 0 };
    json!({"circuits": ncirc.min(circuits.len()), "queries": nq, "malformed": nbad, "variants": nvar, "file_errors": nfile, "generic_circuits": ngen, "generic_queries": genq})
}

// ---------------------------------------------------------------------------------------------
// GENERIC-PHASE tier (`--generic N`): "for all circuits over the supported unitary gate set (including ... non-Clifford+T
// phases, to tolerance)". Circuits with rz / rx angles n/d * pi that are NOT multiples of pi/4 have no exact value in
// Z[omega][1/2]; the oracle is the harness's float state vector (refeval::ref_circ, column |0..0>, itself validated by TLC
// against CircSem on the exact fragment: RefEvalOK in the C08 traces). The comparisons happen here, TLC judges the booleans:
//   circf    {n}                                   header (the circuit itself is kept for the replay file)
//   ampf     {chars, close}                        printed |<b|C|0>|^2 within 1e-9 of the reference, and the hooked scalar's |.|^2 too
//   expf     {chars, close}                        printed <psi|P|psi> within 1e-9
//   samplef  {runs: [{nonzero, marg_ok, cond_ok, in_range, is_drawn_bits}]}
//            every hooked scalar is the marginal P(prefix o 1), every p the CONDITIONAL probability (1e-8: p is a quotient),
//            every printed sample has Born probability > 1e-12 and equals the bits drawn
// for the default method, --cats, --bss, with and without -p 2.
// ---------------------------------------------------------------------------------------------
fn record_generic(bin: &str, dir: &str, tf: &str, ngen: usize, shots: usize, per: usize, r: &mut rand::rngs::StdRng, tr: &mut Tr) -> usize {
    use crate::refeval::C;
    let mut nq = 0usize;
    let methods: Vec<Vec<String>> = vec![vec![], vec!["--cats".into()], vec!["--bss".into()]];
    let pars: Vec<Vec<String>> = vec![vec![], vec!["-p".into(), "2".into()]];
    for ci in 0..ngen {
        let cj = crate::circ::generic_circuit(r, 3, 8, false, 1);
        let n = cj["n"].as_u64().unwrap() as usize;
        let dim = 1usize << n;
        let psi: Vec<C> = crate::refeval::ref_circ(&cj)[..dim].to_vec();
        let c = circ_from_json(&cj);
        let path = format!("{dir}/g_{ci}.qasm");
        std::fs::write(&path, c.to_qasm()).unwrap();
        tr.group();
        tr.emit(json!({"k": "circf", "n": n, "c": cj}));
        let idx = |bits: &[u8]| bits.iter().fold(0usize, |a, &b| (a << 1) | b as usize);
        // P(the first len(prefix) qubits read `prefix`)
        let marg = |prefix: &[u8]| -> f64 {
            let k = prefix.len();
            (0..dim).filter(|i| (0..k).all(|q| ((i >> (n - 1 - q)) & 1) as u8 == prefix[q])).map(|i| psi[i].norm_sqr()).sum()
        };
        // ---- amplitudes ----
        let mut bitstrs = all_strings(&['0', '1'], n);
        for i in (1..bitstrs.len()).rev() {
            bitstrs.swap(i, r.random_range(0..=i));
        }
        for (qi, bs) in bitstrs.iter().take(per).enumerate() {
            let (m, p) = (methods[qi % 3].clone(), pars[(qi / 3) % 2].clone());
            let mut a: Vec<String> = vec!["sim".into(), path.clone(), "-a".into(), bs.clone()];
            a.extend(m.clone());
            a.extend(p.clone());
            let out = run(bin, &a, tf);
            let bits: Vec<u8> = bs.bytes().map(|b| b - b'0').collect();
            let want = psi[idx(&bits)].norm_sqr();
            let mut e = json!({"k": "ampf", "chars": chars(bs), "method": m, "par": !p.is_empty(), "exit": out.exit, "panicked": out.panicked});
            if out.exit == 0 && out.hooks.len() == 1 {
                let (_, cval, _) = raw_scalar(&out.hooks[0]["raw"]);
                let printed: f64 = out.stdout.trim().parse().unwrap_or(f64::NAN);
                e["close"] = json!((printed - want).abs() <= 1e-9 && (cval.norm_sqr() - want).abs() <= 1e-9);
                e["res"] = json!("ok");
            } else {
                e["close"] = json!(false);
                e["res"] = json!(if out.exit == 0 { "nohook" } else { "error" });
            }
            tr.emit(e);
            nq += 1;
        }
        // ---- expectation values ----
        let mut ps = all_strings(&['I', 'X', 'Y', 'Z'], n);
        for i in (1..ps.len()).rev() {
            ps.swap(i, r.random_range(0..=i));
        }
        for (qi, pstr) in ps.iter().take(per + 2).enumerate() {
            let (m, p) = (methods[(qi + 1) % 3].clone(), pars[(qi / 2) % 2].clone());
            let mut a: Vec<String> = vec!["sim".into(), path.clone(), "-e".into(), pstr.clone()];
            a.extend(m.clone());
            a.extend(p.clone());
            let out = run(bin, &a, tf);
            // <psi| P |psi> with P = tensor of Paulis, qubit 0 = first character
            let mut acc = C::new(0.0, 0.0);
            for i in 0..dim {
                // P|i> = phase * |j>
                let (mut j, mut ph) = (i, C::new(1.0, 0.0));
                for (q, ch) in pstr.chars().enumerate() {
                    let bit = (i >> (n - 1 - q)) & 1;
                    match ch {
                        'X' => j ^= 1 << (n - 1 - q),
                        'Y' => {
                            j ^= 1 << (n - 1 - q);
                            ph *= if bit == 0 { C::new(0.0, 1.0) } else { C::new(0.0, -1.0) };
                        }
                        'Z' => {
                            if bit == 1 {
                                ph = -ph;
                            }
                        }
                        _ => {}
                    }
                }
                acc += psi[j].conj() * ph * psi[i];
            }
            let mut e = json!({"k": "expf", "chars": chars(pstr), "method": m, "par": !p.is_empty(), "exit": out.exit, "panicked": out.panicked});
            if out.exit == 0 && out.hooks.len() == 1 {
                let printed: f64 = out.stdout.trim().parse().unwrap_or(f64::NAN);
                e["close"] = json!((printed - acc.re).abs() <= 1e-9 && acc.im.abs() <= 1e-9);
                e["res"] = json!("ok");
            } else {
                e["close"] = json!(false);
                e["res"] = json!(if out.exit == 0 { "nohook" } else { "error" });
            }
            tr.emit(e);
            nq += 1;
        }
        // ---- samples ----
        for rep in 0..2usize {
            let (m, p) = (methods[(ci + rep) % 3].clone(), pars[rep % 2].clone());
            let mut a: Vec<String> = vec!["sim".into(), path.clone(), "-s".into(), shots.to_string()];
            a.extend(m.clone());
            a.extend(p.clone());
            let out = run(bin, &a, tf);
            let lines: Vec<&str> = out.stdout.lines().filter(|l| !l.trim().is_empty()).collect();
            let mut e = json!({"k": "samplef", "method": m, "par": !p.is_empty(), "exit": out.exit, "panicked": out.panicked, "shots": shots});
            if out.exit == 0 && out.hooks.len() == 2 * shots * n && lines.len() == shots {
                let mut sh = vec![];
                for s in 0..shots {
                    let (mut marg_ok, mut cond_ok, mut in_range, mut pre_ok) = (true, true, true, true);
                    let mut drawn: Vec<u8> = vec![];
                    for k in 0..n {
                        let hs = &out.hooks[2 * (s * n + k)];
                        let hd = &out.hooks[2 * (s * n + k) + 1];
                        let (_, cval, _) = raw_scalar(&hs["raw"]);
                        let bits: Vec<u8> = hd["bits"].as_str().unwrap().bytes().map(|b| b - b'0').collect();
                        let p: f64 = hd["p"].as_str().unwrap().parse().unwrap_or(f64::NAN);
                        pre_ok &= bits.len() == k + 1 && bits[..k] == drawn[..];
                        let mut one = drawn.clone();
                        one.push(1);
                        let (joint, pre) = (marg(&one), marg(&drawn));
                        marg_ok &= (cval.re - joint).abs() <= 1e-9 && cval.im.abs() <= 1e-9;
                        cond_ok &= pre > 1e-12 && (p - joint / pre).abs() <= 1e-8;
                        in_range &= (0.0..=1.0).contains(&p);
                        drawn.push(*bits.last().unwrap());
                    }
                    let printed: Vec<u8> = lines[s].trim().bytes().map(|b| b.wrapping_sub(b'0')).collect();
                    let nonzero = printed.len() == n && printed.iter().all(|&b| b <= 1) && psi[idx(&printed)].norm_sqr() > 1e-12;
                    sh.push(json!({"nonzero": nonzero, "marg_ok": marg_ok, "cond_ok": cond_ok, "in_range": in_range, "is_drawn_bits": pre_ok && printed == drawn}));
                }
                e["res"] = json!("ok");
                e["runs"] = json!(sh);
            } else {
                e["res"] = json!(if out.exit == 0 { "nohook" } else { "error" });
                e["runs"] = json!([]);
            }
            tr.emit(e);
            nq += 1;
        }
        let _ = std::fs::remove_file(&path);
    }
    nq
}

// ---------------------------------------------------------------------------------------------
// API-coverage additions (docs/api_audit.md #13): the command-line surface the runs above never use.
//   no task flag (default SimTask{shots: 1}), -s 0, the long flags --shots / --amplitude / --expval / --parallel,
//   -p N for N in {0,1,3,4}, -o / --out (the answer is read back from the file), unreadable / malformed /
//   unsupported input files.  Every run goes through the built binary with QUIZX_VERIF_TRACE exactly like the
//   runs above and produces the same amp / exp / sample / query events (Born-rule predicates of Trace_Sim.tla).
// ---------------------------------------------------------------------------------------------

/// where the answer of a run is: stdout, or the file given to -o / --out
fn answer_text(out: &Run, out_file: &Option<String>) -> Option<String> {
    match out_file {
        None => Some(out.stdout.clone()),
        Some(f) => {
            let t = std::fs::read_to_string(f).ok();
            let _ = std::fs::remove_file(f);
            t
        }
    }
}

fn scalar_event(kind: &str, chars_: &str, variant: &str, argv: &[String], out: &Run, out_file: &Option<String>) -> Value {
    let mut e = json!({"k": kind, "chars": chars(chars_), "method": [], "par": argv.iter().any(|a| a == "-p" || a == "--parallel"), "exit": out.exit,
                       "panicked": out.panicked, "variant": variant, "argv": argv[2..], "out": out_file.is_some()});
    let text = answer_text(out, out_file);
    if out.exit == 0 && out.hooks.len() == 1 && text.is_some() {
        let (js, cval, ap) = raw_scalar(&out.hooks[0]["raw"]);
        let printed: f64 = text.unwrap().trim().parse().unwrap_or(f64::NAN);
        e["scalar"] = js;
        e["approx"] = json!(ap);
        let want = if kind == "amp" { cval.norm_sqr() } else { cval.re };
        e["printed_ok"] = json!((printed - want).abs() <= 1e-9);
        e["res"] = json!("ok");
        if out_file.is_some() {
            e["stdout_empty"] = json!(out.stdout.trim().is_empty());
        }
    } else {
        e["res"] = json!(if out.exit != 0 { "error" } else if text.is_none() { "nofile" } else { "nohook" });
    }
    e
}

fn sample_event(variant: &str, argv: &[String], shots: usize, n: usize, out: &Run, out_file: &Option<String>) -> Value {
    let mut e = json!({"k": "sample", "method": [], "par": argv.iter().any(|a| a == "-p" || a == "--parallel"), "exit": out.exit, "panicked": out.panicked,
                       "shots": shots, "variant": variant, "argv": argv[2..], "out": out_file.is_some()});
    let text = answer_text(out, out_file);
    let lines: Vec<String> = text.clone().unwrap_or_default().lines().filter(|l| !l.trim().is_empty()).map(|l| l.to_string()).collect();
    if out.exit == 0 && text.is_some() && out.hooks.len() == 2 * shots * n && lines.len() == shots {
        let mut sh = vec![];
        for s in 0..shots {
            let mut draws = vec![];
            let mut prefix_prob = 1.0f64;
            for k in 0..n {
                let hs = &out.hooks[2 * (s * n + k)];
                let hd = &out.hooks[2 * (s * n + k) + 1];
                let (js, cval, ap) = raw_scalar(&hs["raw"]);
                let bits: Vec<u8> = hd["bits"].as_str().unwrap().bytes().map(|b| b - b'0').collect();
                let p: f64 = hd["p"].as_str().unwrap().parse().unwrap_or(f64::NAN);
                let joint = cval.re;
                let cond = joint / prefix_prob;
                let bit = *bits.last().unwrap();
                draws.push(json!({"pre": bits[..bits.len() - 1], "scalar": js, "approx": ap, "bit": bit,
                                  "p_in_range": (0.0..=1.0).contains(&p), "p_is_conditional": (p - cond).abs() <= 1e-9}));
                prefix_prob = if bit == 1 { joint } else { prefix_prob - joint };
            }
            let printed: Vec<u8> = lines[s].trim().bytes().map(|b| b.wrapping_sub(b'0')).collect();
            sh.push(json!({"draws": draws, "printed": printed}));
        }
        e["res"] = json!("ok");
        e["runs"] = json!(sh);
    } else {
        e["res"] = json!(if out.exit != 0 { "error" } else if text.is_none() { "nofile" } else { "nohook" });
    }
    e
}

#[allow(clippy::too_many_arguments)]
fn record_variants(bin: &str, path: &str, dir: &str, tf: &str, n: usize, shots: usize, r: &mut rand::rngs::StdRng, tr: &mut Tr) -> usize {
    let mut cnt = 0;
    let pick = |r: &mut rand::rngs::StdRng, xs: &[&str]| -> String { xs[r.random_range(0..xs.len())].to_string() };
    // method / parallel spellings; -p takes a depth that the code ignores: every value must give the same answers
    let method = |r: &mut rand::rngs::StdRng| -> Vec<String> { [vec![], vec!["--cats".to_string()], vec!["--bss".to_string()]][r.random_range(0..3)].clone() };
    let par = |r: &mut rand::rngs::StdRng| -> Vec<String> {
        if r.random_bool(0.25) {
            vec![]
        } else {
            vec![["-p", "--parallel"][r.random_range(0..2)].to_string(), ["0", "1", "3", "4"][r.random_range(0..4)].to_string()]
        }
    };
    let outf = |r: &mut rand::rngs::StdRng, tag: &str| -> (Vec<String>, Option<String>) {
        let f = format!("{dir}/out_{tag}.txt");
        let _ = std::fs::remove_file(&f);
        (vec![["-o", "--out"][r.random_range(0..2)].to_string(), f.clone()], Some(f))
    };
    let bit_string = |r: &mut rand::rngs::StdRng| -> String { (0..n).map(|_| if r.random_bool(0.5) { '1' } else { '0' }).collect() };
    let pauli_string = |r: &mut rand::rngs::StdRng| -> String { (0..n).map(|_| ['I', 'X', 'Y', 'Z', 'x', 'z'][r.random_range(0..6)]).collect() };
    let base = |extra: Vec<Vec<String>>| -> Vec<String> {
        let mut a: Vec<String> = vec!["sim".into(), path.to_string()];
        for x in extra {
            a.extend(x);
        }
        a
    };
    // (1) no task flag at all: one shot
    for rep in 0..2 {
        let (o, of) = if rep == 1 { outf(r, "d") } else { (vec![], None) };
        let a = base(vec![method(r), par(r), o]);
        let out = run(bin, &a, tf);
        tr.emit(sample_event("default_task", &a, 1, n, &out, &of));
        cnt += 1;
    }
    // (2) zero shots
    let a = base(vec![vec![pick(r, &["-s", "--shots"]), "0".into()], method(r), par(r)]);
    let out = run(bin, &a, tf);
    tr.emit(sample_event("zero_shots", &a, 0, n, &out, &None));
    cnt += 1;
    // (3) --shots with the parallel values, once into a file
    for rep in 0..2 {
        let k = 1 + r.random_range(0..shots.max(1));
        let (o, of) = if rep == 1 { outf(r, "s") } else { (vec![], None) };
        let a = base(vec![o, vec![pick(r, &["--shots", "-s"]), k.to_string()], par(r), method(r)]);
        let out = run(bin, &a, tf);
        tr.emit(sample_event("shots", &a, k, n, &out, &of));
        cnt += 1;
    }
    // (4) --amplitude / -a with the parallel values, once into a file
    for rep in 0..3 {
        let bs = if rep == 2 { pick(r, &["0", "1"]) } else { bit_string(r) };
        let (o, of) = if rep == 1 { outf(r, "a") } else { (vec![], None) };
        let a = base(vec![par(r), vec![pick(r, &["--amplitude", "-a"]), bs.clone()], o, method(r)]);
        let out = run(bin, &a, tf);
        tr.emit(scalar_event("amp", &bs, "amplitude", &a, &out, &of));
        cnt += 1;
    }
    // (5) --expval / -e
    for rep in 0..3 {
        let ps = if rep == 2 { pick(r, &["X", "y", "Z"]) } else { pauli_string(r) };
        let (o, of) = if rep == 1 { outf(r, "e") } else { (vec![], None) };
        let a = base(vec![method(r), vec![pick(r, &["--expval", "-e"]), ps.clone()], par(r), o]);
        let out = run(bin, &a, tf);
        tr.emit(scalar_event("exp", &ps, "expval", &a, &out, &of));
        cnt += 1;
    }
    // (6) malformed flag values: not a number, -o without a value, an output path that cannot be written
    let bads: Vec<Vec<String>> = vec![
        vec!["-p".into(), "x".into(), "-a".into(), "0".into()],
        vec!["-s".into(), "-1".into()],
        vec!["--shots".into(), "two".into()],
        vec!["-a".into(), "0".into(), "-o".into()],
        vec!["-a".into(), "0".into(), "-o".into(), format!("{dir}/no_such_dir/out.txt")],
    ];
    let b = &bads[r.random_range(0..bads.len())];
    let a = base(vec![b.clone()]);
    let out = run(bin, &a, tf);
    tr.emit(json!({"k": "query", "kind": "flags", "chars": [], "argv": b, "exit": out.exit, "panicked": out.panicked, "variant": "bad_flag_value"}));
    cnt + 1
}

/// input files the command must refuse (error exit, no panic)
fn record_file_errors(bin: &str, dir: &str, tf: &str, tr: &mut Tr) -> usize {
    let hdr = "OPENQASM 2.0;\ninclude \"qelib1.inc\";\nqreg q[2];\n";
    // definitely malformed: must be rejected
    let malformed: Vec<(&str, Option<String>)> = vec![
        ("nonexistent", None),
        ("directory", None),
        ("empty", Some(String::new())),
        ("garbage", Some("this is not qasm\n".into())),
        ("binary", None),
        ("missing_semicolon", Some(format!("{hdr}h q[0]\ncx q[0],q[1];\n"))),
        ("undefined_gate", Some(format!("{hdr}foo q[0];\n"))),
        ("index_out_of_range", Some(format!("{hdr}h q[5];\n"))),
        ("wrong_arity", Some(format!("{hdr}h q[0], q[1];\n"))),
        ("undeclared_register", Some(format!("{hdr}h r[0];\n"))),
    ];
    // legal OpenQASM that quizx does not support: whatever the exit status, no panic
    let unsupported: Vec<(&str, String)> = vec![
        ("u3", format!("{hdr}u3(0.1,0.2,0.3) q[0];\n")),
        ("cy", format!("{hdr}cy q[0],q[1];\n")),
        ("reset", format!("{hdr}reset q[0];\n")),
        ("barrier", format!("{hdr}h q[0];\nbarrier q;\n")),
        ("conditional", format!("{hdr}creg c[2];\nif(c==1) x q[0];\n")),
        ("opaque", format!("{hdr}opaque mygate a;\nmygate q[0];\n")),
    ];
    // a measurement makes the circuit non-unitary: outside the property's quantifier, recorded only
    let outside: Vec<(&str, String)> = vec![("measure", format!("{hdr}creg c[2];\nh q[0];\nmeasure q[0] -> c[0];\n"))];
    tr.group();
    tr.emit(json!({"k": "circ", "c": {"n": 2, "gates": []}}));
    let tasks: Vec<Vec<String>> = vec![vec![], vec!["-a".into(), "0".into()], vec!["-e".into(), "Z".into()], vec!["-s".into(), "2".into()]];
    let mut cnt = 0;
    for (name, content) in &malformed {
        let path = format!("{dir}/bad_{name}.qasm");
        let _ = std::fs::remove_file(&path);
        let _ = std::fs::remove_dir(&path);
        match (*name, content) {
            ("directory", _) => std::fs::create_dir_all(&path).unwrap(),
            ("binary", _) => std::fs::write(&path, [0u8, 159, 146, 150, 255, 254, 0, 1, 2, 200]).unwrap(),
            (_, Some(c)) => std::fs::write(&path, c).unwrap(),
            _ => {}
        }
        for t in &tasks {
            let mut a: Vec<String> = vec!["sim".into(), path.clone()];
            a.extend(t.clone());
            let out = run(bin, &a, tf);
            tr.emit(json!({"k": "query", "kind": "file_malformed", "what": name, "chars": [], "argv": t, "exit": out.exit, "panicked": out.panicked}));
            cnt += 1;
        }
        let _ = std::fs::remove_file(&path);
        let _ = std::fs::remove_dir(&path);
    }
    for (kind, list) in [("file_unsupported", &unsupported), ("file_outside", &outside)] {
        for (name, content) in list {
            let path = format!("{dir}/bad_{name}.qasm");
            std::fs::write(&path, content).unwrap();
            for t in &tasks {
                let mut a: Vec<String> = vec!["sim".into(), path.clone()];
                a.extend(t.clone());
                let out = run(bin, &a, tf);
                tr.emit(json!({"k": "query", "kind": kind, "what": name, "chars": [], "argv": t, "exit": out.exit, "panicked": out.panicked}));
                cnt += 1;
            }
            let _ = std::fs::remove_file(&path);
        }
    }
    cnt
}
