//! C13: qgraph JSON round trips.  One execution = one diagram (family member or seeded random
//! diagram, decorated with phases of denominators {1,2,3,4,8,16,256} or any d <= 256, coordinates that are random
//! multiples of 0.1, a scalar of one of the classes one / sqrt2^p e^{i k pi/4} / generic
//! Z[omega][1/2] value / zero, occasionally an H-box) pushed through
//!   encode_decode  quizx::json::encode_graph -> decode_graph          (vec and hash backend)
//!   serde_hash     serde_json::to_string -> from_str of hash_graph::Graph
//!   file           quizx::json::write_graph -> read_graph             (alternating backend)
//! Logged per round trip: the emitted text, parsed with serde_json::Value and PROJECTED by this file
//! (an independent reader: own phase-string parser, own scalar arithmetic) into the abstract document
//! of spec/JsonG.tla; the decoded graph (abs_ext); the scalar verdicts that need floating point.
//! mc/Trace_JsonG.tla decides everything else.
//!
//!   --fam <spec>   family as in the other engines (k=,tys=,phs=,ets=,nb=,bb=), repeatable
//!   --stride n     keep 1/n of the enumerated diagrams (class = seed mod n)
//!   --random N     seeded random diagrams;  --rand maxsp=,maxb=,minsp=,pedge=
//!   --big N        seeded random diagrams with 9..16 spiders (isomorphism only, no denotation)
//!   --named        a fixed list of small diagrams x every scalar of the catalogue
//!   --dir <path>   where the `file` round trip writes (default <out>_files)

use crate::absg::{abs_ext, build, sc_exact};
use crate::eng_tensor::exact_to_c;
use crate::gens::{self, Family, RandCfg};
use crate::util::{arg_flag, arg_num, arg_val, guarded, Tr};
use num::complex::Complex;
use quizx::graph::GraphLike;
use quizx::scalar::Scalar4;
use rand::rngs::StdRng;
use rand::Rng;
use serde_json::{json, Value};
use std::path::Path;

type VecG = quizx::vec_graph::Graph;
type HashG = quizx::hash_graph::Graph;

fn parse_family(s: &str) -> Family {
    let mut f = Family { k: 2, tys: vec!["Z"], phs: vec![0], ets: vec!["H"], nb: 0, vars: vec![], bb: false };
    for kv in s.split(',') {
        let (k, v) = kv.split_once('=').expect("k=v");
        match k {
            "k" => f.k = v.parse().unwrap(),
            "tys" => f.tys = v.chars().map(|c| if c == 'Z' { "Z" } else { "X" }).collect(),
            "phs" => f.phs = v.chars().map(|c| c.to_digit(10).unwrap() as i64).collect(),
            "ets" => f.ets = v.chars().map(|c| if c == 'N' { "N" } else { "H" }).collect(),
            "nb" => f.nb = v.parse().unwrap(),
            "bb" => f.bb = v == "1",
            _ => panic!("family key {k}"),
        }
    }
    f
}

fn parse_rand(s: &str) -> RandCfg {
    let mut c = RandCfg { scalars: false, ..RandCfg::any_zx() };
    for kv in s.split(',').filter(|x| !x.is_empty()) {
        let (k, v) = kv.split_once('=').expect("k=v");
        match k {
            "minsp" => c.min_sp = v.parse().unwrap(),
            "maxsp" => c.max_sp = v.parse().unwrap(),
            "maxb" => c.max_b = v.parse().unwrap(),
            "pedge" => c.pedge = v.parse().unwrap(),
            _ => panic!("rand key {k}"),
        }
    }
    c
}

fn clean(s: &str) -> String {
    s.chars().filter(|c| c.is_ascii() && *c != '"' && *c != '\\' && *c != '\n').take(160).collect()
}

// ---------------------------------------------------------------------------------------------
// decoration of a generated diagram
// ---------------------------------------------------------------------------------------------

/// generic elements of Z[omega]: none of them is sqrt2^p e^{i k pi/4}
const GENERIC: [[i64; 4]; 8] = [
    [1, 2, 0, 0],   // 1 + 2w
    [3, 0, -1, 0],  // 3 - w^2
    [1, 1, 0, 0],   // 1 + w
    [2, 1, 0, 0],
    [1, 1, 0, 2],
    [-3, 0, 0, 1],
    [0, 3, 0, 0],   // 3w: one coefficient, not a power of two
    [5, -2, 1, 1],
];

/// own classification of [a,b,c,d,e] (tags only; the verdict uses Ring!ExactPhasePow in TLC)
fn sc_class(s: &[i64; 5]) -> &'static str {
    let c = [s[0], s[1], s[2], s[3]];
    if c == [0, 0, 0, 0] {
        return "zero";
    }
    if c == [1, 0, 0, 0] && s[4] == 0 {
        return "one";
    }
    let single_pow2 = |x: &[i64; 4]| {
        let nz: Vec<i64> = x.iter().copied().filter(|v| *v != 0).collect();
        nz.len() == 1 && (nz[0].unsigned_abs()).is_power_of_two()
    };
    // x * sqrt2 = x * (w - w^3)
    let t = [c[1] - c[3], c[0] + c[2], c[1] + c[3], c[2] - c[0]];
    if single_pow2(&c) || single_pow2(&t) {
        "exact"
    } else {
        "inexact"
    }
}

/// the scalar catalogue: index -> [a,b,c,d,e]
fn catalogue_scalar(r: &mut StdRng, class: usize) -> [i64; 5] {
    match class {
        0 => [1, 0, 0, 0, 0],
        1 => {
            // sqrt2^p e^{i k pi/4}
            let p: i32 = r.random_range(-12..=12);
            let k: usize = r.random_range(0..8);
            let (mut c, e) = if p.rem_euclid(2) == 0 { ([1i64, 0, 0, 0], p / 2) } else { ([0i64, 1, 0, -1], (p - 1) / 2) };
            for _ in 0..k {
                c = [-c[3], c[0], c[1], c[2]];
            }
            [c[0], c[1], c[2], c[3], e as i64]
        }
        2 => {
            let g = GENERIC[r.random_range(0..GENERIC.len())];
            [g[0], g[1], g[2], g[3], r.random_range(-8..=8)]
        }
        3 => {
            // random small coefficients (any class)
            let mut s = [0i64; 5];
            for x in s.iter_mut().take(4) {
                *x = r.random_range(-3..=3);
            }
            s[4] = r.random_range(-4..=4);
            s
        }
        _ => [0, 0, 0, 0, 0],
    }
}

const DENS: [i64; 7] = [1, 2, 3, 4, 8, 16, 256];

struct Deco {
    other_phases: bool,
    zero_coords: bool,
    hbox: bool,
    sc: [i64; 5],
}

fn decorate(a: &Value, r: &mut StdRng, d: &Deco) -> Value {
    let mut a = a.clone();
    let nv = a["v"].as_array().unwrap().len();
    for v in a["v"].as_array_mut().unwrap() {
        let is_b = v["ty"] == "B";
        if !d.zero_coords {
            // multiples of 0.1, also negative
            v["r"] = json!(r.random_range(-50..=120) as f64 / 10.0);
            v["q"] = json!(r.random_range(-50..=120) as f64 / 10.0);
        }
        if !is_b && d.other_phases && r.random_bool(0.6) {
            // the listed denominators, or any denominator up to 256
            let den = if r.random_bool(0.6) { DENS[r.random_range(0..DENS.len())] } else { r.random_range(1..=256) };
            let num = r.random_range(-(2 * den)..=(2 * den));
            v["ph"] = json!([num, den]);
        }
        if !is_b && d.hbox && r.random_bool(if nv <= 3 { 0.7 } else { 0.3 }) {
            v["ty"] = json!("Hbox");
            if r.random_bool(0.5) {
                v["ph"] = json!([1, 1]); // the default phase of an H-box (written as "")
            }
        }
    }
    a["sc"] = json!(d.sc);
    a
}

// ---------------------------------------------------------------------------------------------
// the independent reader: emitted text -> abstract document
// ---------------------------------------------------------------------------------------------

/// "3*pi/4", "-pi/2", "pi", "7/4", "0", "~5*pi/13" -> (n, d); "" -> None
fn read_phase(s: &str) -> Result<Option<(i64, i64)>, String> {
    let t: String = s.chars().filter(|c| !c.is_whitespace() && *c != '~').collect();
    if t.is_empty() {
        return Ok(None);
    }
    let (np, den) = match t.split_once('/') {
        Some((a, b)) => (a.to_string(), b.parse::<i64>().map_err(|_| format!("denominator of {s}"))?),
        None => (t.clone(), 1),
    };
    let num = if let Some(c) = np.strip_suffix("pi") {
        let c = c.trim_end_matches('*');
        match c {
            "" => 1,
            "-" => -1,
            _ => c.parse::<i64>().map_err(|_| format!("numerator of {s}"))?,
        }
    } else {
        np.parse::<i64>().map_err(|_| format!("numerator of {s}"))?
    };
    if den <= 0 {
        return Err(format!("denominator of {s}"));
    }
    Ok(Some((num, den)))
}

fn small_pair(p: Option<(i64, i64)>) -> Result<Value, String> {
    match p {
        None => Ok(json!([0, 0])),
        Some((n, d)) if n.abs() < (1 << 30) && d < (1 << 30) => Ok(json!([n, d])),
        Some((n, d)) => Err(format!("phase {n}/{d} too large")),
    }
}

fn name_key(s: &str) -> (String, u64) {
    let pos = s.find(|c: char| c.is_ascii_digit()).unwrap_or(s.len());
    (s[..pos].to_string(), s[pos..].parse::<u64>().unwrap_or(u64::MAX))
}

fn milli(v: &Value) -> Result<i64, String> {
    let f = v.as_f64().ok_or("coordinate is not a number")?;
    let m = (f * 1000.0).round();
    if m.abs() > 1e9 {
        return Err("coordinate too large".into());
    }
    Ok(m as i64)
}

fn coord_of(ann: &Value) -> Result<Value, String> {
    match ann.get("coord") {
        None => Ok(json!([0, 0])),
        Some(c) => Ok(json!([milli(&c[0])?, milli(&c[1])?])),
    }
}

fn io_index(ann: &Value, key: &str) -> Result<i64, String> {
    match ann.get(key) {
        None => Ok(-1),
        Some(Value::Number(n)) => n.as_i64().filter(|x| *x >= 0 && *x < 1 << 20).ok_or(format!("{key} index")),
        Some(_) => Err(format!("{key} is not a number")),
    }
}

struct DocView {
    doc: Value,
    /// the scalar a reader computes from the scalar fields with doubles (None: absent = 1)
    scalar: Complex<f64>,
}

fn project_doc(text: &str) -> Result<DocView, String> {
    let v: Value = serde_json::from_str(text).map_err(|e| format!("not JSON: {e}"))?;
    let obj = |k: &str| -> Vec<(String, Value)> {
        let mut xs: Vec<(String, Value)> =
            v.get(k).and_then(|m| m.as_object()).map(|m| m.iter().map(|(a, b)| (a.clone(), b.clone())).collect()).unwrap_or_default();
        xs.sort_by_key(|(n, _)| name_key(n));
        xs
    };
    let mut wires = vec![];
    for (name, at) in obj("wire_vertices") {
        let ann = at.get("annotation").cloned().unwrap_or(json!({}));
        wires.push(json!({"name": name, "boundary": ann.get("boundary").and_then(|b| b.as_bool()).unwrap_or(false),
                          "coord": coord_of(&ann)?, "input": io_index(&ann, "input")?, "output": io_index(&ann, "output")?}));
    }
    let mut nodes = vec![];
    for (name, at) in obj("node_vertices") {
        let ann = at.get("annotation").cloned().unwrap_or(json!({}));
        let data = at.get("data").cloned().unwrap_or(json!({}));
        let ty = data.get("type").and_then(|t| t.as_str()).unwrap_or("Z").to_string();
        let value = small_pair(read_phase(data.get("value").and_then(|t| t.as_str()).unwrap_or(""))?)?;
        let is_edge = match data.get("is_edge") {
            None => false,
            Some(Value::String(s)) => s == "true",
            Some(Value::Bool(b)) => *b,
            Some(_) => return Err("is_edge".into()),
        };
        nodes.push(json!({"name": name, "type": ty, "value": value, "is_edge": is_edge, "coord": coord_of(&ann)?}));
    }
    let mut edges = vec![];
    for (_, at) in obj("undir_edges") {
        let src = at.get("src").and_then(|t| t.as_str()).ok_or("edge without src")?;
        let tgt = at.get("tgt").and_then(|t| t.as_str()).ok_or("edge without tgt")?;
        let ty = at.get("type").and_then(|t| t.as_str()).unwrap_or("simple");
        edges.push(json!({"src": src, "tgt": tgt, "type": ty}));
    }
    // the scalar: a JSON text inside a string field
    let mut sc = json!({"present": false, "power2": 0, "phase": [0, 0], "ff": "absent", "is_zero": false});
    let mut val = Complex::new(1.0, 0.0);
    if let Some(s) = v.get("scalar").and_then(|s| s.as_str()).filter(|s| !s.is_empty()) {
        let j: Value = serde_json::from_str(s).map_err(|e| format!("scalar is not JSON: {e}"))?;
        if j.get("phasenodes").and_then(|p| p.as_array()).map(|p| !p.is_empty()).unwrap_or(false)
            || j.get("is_unknown").and_then(|p| p.as_bool()).unwrap_or(false)
        {
            return Err("scalar with phasenodes / is_unknown".into());
        }
        let power2 = j.get("power2").and_then(|p| p.as_i64()).unwrap_or(0);
        if power2.abs() >= 1 << 20 {
            return Err("power2 too large".into());
        }
        let ph = read_phase(j.get("phase").and_then(|p| p.as_str()).unwrap_or(""))?;
        let is_zero = j.get("is_zero").and_then(|p| p.as_bool()).unwrap_or(false);
        let (ff, ffv) = match j.get("floatfactor") {
            None => ("absent", 1.0),
            Some(f) => {
                let f = f.as_f64().ok_or("floatfactor is not a number")?;
                if f == 1.0 {
                    ("one", 1.0)
                } else {
                    ("other", f)
                }
            }
        };
        let angle = ph.map(|(n, d)| n as f64 / d as f64).unwrap_or(0.0) * std::f64::consts::PI;
        val = if is_zero { Complex::new(0.0, 0.0) } else { Complex::from_polar(ffv * 2f64.powf(power2 as f64 / 2.0), angle) };
        // with a float factor the angle is a float-derived rational: opaque to the specification
        let phase = if ff == "other" { json!([0, 0]) } else { small_pair(ph)? };
        sc = json!({"present": true, "power2": power2, "phase": phase, "ff": ff, "is_zero": is_zero});
    }
    Ok(DocView { doc: json!({"wire_vertices": wires, "node_vertices": nodes, "undir_edges": edges, "scalar": sc}), scalar: val })
}

// ---------------------------------------------------------------------------------------------
// scalars with doubles (the clauses TLA+ cannot state)
// ---------------------------------------------------------------------------------------------

/// complex value from the raw stored parts (not through the library's f64 conversion)
fn raw_to_c(s: &Scalar4) -> Complex<f64> {
    let c: Vec<f64> = s
        .verif_coeffs()
        .iter()
        .map(|d| {
            let (neg, m, e, _) = d.verif_raw();
            let x = (m as f64) * 2f64.powi(e);
            if neg {
                -x
            } else {
                x
            }
        })
        .collect();
    let r = std::f64::consts::FRAC_1_SQRT_2;
    Complex::new(c[0] + (c[1] - c[3]) * r, c[2] + (c[1] + c[3]) * r)
}

fn rel_err(want: Complex<f64>, got: Complex<f64>) -> f64 {
    let d = (want - got).norm();
    if d == 0.0 {
        0.0
    } else if want.norm() == 0.0 {
        f64::INFINITY
    } else {
        d / want.norm()
    }
}

fn ppb(x: f64) -> i64 {
    let y = (x * 1e9).round();
    if y.is_nan() || y > 2e9 {
        2_000_000_000
    } else {
        y as i64
    }
}

// ---------------------------------------------------------------------------------------------
// one round trip
// ---------------------------------------------------------------------------------------------

fn attempt<T>(f: impl FnOnce() -> Result<T, String>, errname: &str) -> Result<T, (String, String)> {
    match guarded(f) {
        Err(p) => Err(("panic".to_string(), p)),
        Ok(Err(m)) => Err((errname.to_string(), clean(&m))),
        Ok(Ok(t)) => Ok(t),
    }
}

fn roundtrip<G: GraphLike>(
    via: &str,
    be: &str,
    tags: &[String],
    pre_sc: &Scalar4,
    enc: impl FnOnce() -> Result<String, String>,
    dec: impl FnOnce(&str) -> Result<G, String>,
) -> Value {
    let mut tags: Vec<String> = tags.to_vec();
    tags.push(format!("via={via}"));
    let fail = |res: &str, msg: &str| json!({"k": "roundtrip", "via": via, "be": be, "res": res, "msg": msg, "tags": tags});
    let text = match attempt(enc, "encode_err") {
        Ok(t) => t,
        Err((res, msg)) => return fail(&res, &msg),
    };
    let view = match project_doc(&text) {
        Ok(d) => d,
        Err(m) => return fail("unreadable", &clean(&m)),
    };
    let g2: G = match attempt(|| dec(&text), "decode_err") {
        Ok(g) => g,
        Err((res, msg)) => {
            let mut e = fail(&res, &msg);
            e["doc"] = view.doc;
            return e;
        }
    };
    let mut post = abs_ext(&g2);
    post.as_object_mut().unwrap().remove("n");
    let sc_big = post["sc"].is_string();
    if sc_big {
        post["sc"] = json!([0, 0, 0, 0, 0]);
    }
    let want = exact_to_c(pre_sc).expect("input scalars are small");
    let kept = match (sc_exact(pre_sc), sc_exact(g2.scalar())) {
        (Some(a), Some(b)) => a == b,
        _ => false,
    };
    let err_post = rel_err(want, raw_to_c(g2.scalar()));
    let err_doc = rel_err(want, view.scalar);
    json!({"k": "roundtrip", "via": via, "be": be, "res": "ok", "doc": view.doc, "post": post, "sc_big": sc_big,
           "scalar_exact_kept": kept, "scalar_close": err_post <= 1e-9, "doc_scalar_close": err_doc <= 1e-9,
           "relerr_ppb": ppb(err_post), "doc_relerr_ppb": ppb(err_doc), "tags": tags})
}

struct Ctx {
    dir: String,
    count: usize,
    events: usize,
    failures: usize,
    max_ppb_exact: i64,
    max_ppb_inexact: i64,
}

fn record_diagram(a: &Value, extra_tags: &[&str], cx: &mut Ctx, tr: &mut Tr) {
    cx.count += 1;
    let gv: VecG = build(a);
    let gh: HashG = build(a);
    let mut pre = abs_ext(&gv);
    pre.as_object_mut().unwrap().remove("n");
    {
        let mut p2 = abs_ext(&gh);
        p2.as_object_mut().unwrap().remove("n");
        assert_eq!(pre, p2, "the two backends were built differently");
    }
    let scv: Vec<i64> = a["sc"].as_array().unwrap().iter().map(|x| x.as_i64().unwrap()).collect();
    let class = sc_class(&[scv[0], scv[1], scv[2], scv[3], scv[4]]);
    let vs = a["v"].as_array().unwrap();
    let pi4 = vs.iter().all(|v| 4 % v["ph"][1].as_i64().unwrap() == 0);
    let mut tags: Vec<String> = vec![format!("sc={class}"), format!("ph={}", if pi4 { "pi4" } else { "other" })];
    if vs.iter().any(|v| v["ty"] == "Hbox") {
        tags.push("hbox".into());
    }
    if a["e"].as_array().unwrap().iter().any(|e| e["t"] == "H") {
        tags.push("hedge".into());
    }
    tags.extend(extra_tags.iter().map(|s| s.to_string()));
    tr.group();
    tr.emit(json!({"k": "reset", "pre": pre}));
    let pre_sc = *gv.scalar();
    let je = |e: quizx::json::JsonError| format!("{e}");
    let mut evs = vec![
        roundtrip::<VecG>("encode_decode", "vec", &tags, &pre_sc, || quizx::json::encode_graph(&gv).map_err(je), |s| quizx::json::decode_graph::<VecG>(s).map_err(je)),
        roundtrip::<HashG>("encode_decode", "hash", &tags, &pre_sc, || quizx::json::encode_graph(&gh).map_err(je), |s| quizx::json::decode_graph::<HashG>(s).map_err(je)),
        roundtrip::<HashG>("serde_hash", "hash", &tags, &pre_sc, || serde_json::to_string(&gh).map_err(|e| format!("{e}")), |s| serde_json::from_str::<HashG>(s).map_err(|e| format!("{e}"))),
    ];
    let path = format!("{}/rt_{}.qgraph", cx.dir, cx.count);
    let p = Path::new(&path);
    let read_back = || std::fs::read_to_string(p).map_err(|e| format!("cannot read the written file: {e}"));
    if cx.count % 2 == 0 {
        evs.push(roundtrip::<VecG>("file", "vec", &tags, &pre_sc, || quizx::json::write_graph(&gv, p).map_err(je).and_then(|_| read_back()),
                                   |_| quizx::json::read_graph::<VecG>(p).map_err(je)));
    } else {
        evs.push(roundtrip::<HashG>("file", "hash", &tags, &pre_sc, || quizx::json::write_graph(&gh, p).map_err(je).and_then(|_| read_back()),
                                    |_| quizx::json::read_graph::<HashG>(p).map_err(je)));
    }
    let _ = std::fs::remove_file(p);
    for e in evs {
        cx.events += 1;
        if e["res"] != "ok" {
            cx.failures += 1;
        } else {
            let x = e["relerr_ppb"].as_i64().unwrap();
            if class == "inexact" {
                cx.max_ppb_inexact = cx.max_ppb_inexact.max(x);
            } else {
                cx.max_ppb_exact = cx.max_ppb_exact.max(x);
            }
        }
        tr.emit(e);
    }
}

fn named() -> Vec<Value> {
    use crate::gens::{mk, AV};
    let z = |id, ph| AV { id, ty: "Z", ph, vars: vec![] };
    let x = |id, ph| AV { id, ty: "X", ph, vars: vec![] };
    let b = |id| AV { id, ty: "B", ph: 0, vars: vec![] };
    let one = [1, 0, 0, 0, 0];
    vec![
        mk(&[], &[], &[], &[], one),                                                               // the empty diagram
        mk(&[z(0, 0)], &[], &[], &[], one),                                                        // one spider (the scalar carrier)
        mk(&[b(0), b(1)], &[(0, 1, "N")], &[0], &[1], one),                                        // a wire
        mk(&[b(0), b(1)], &[(0, 1, "H")], &[0], &[1], one),                                        // a Hadamard wire
        mk(&[b(3), z(1, 1), x(2, 7), b(0)], &[(3, 1, "H"), (1, 2, "H"), (2, 0, "N")], &[3], &[0], one),
        mk(&[b(0), b(1), b(2), b(3), z(4, 2), z(5, 2)], &[(0, 4, "N"), (1, 5, "N"), (4, 5, "H"), (4, 2, "N"), (5, 3, "H")], &[1, 0], &[3, 2], one),
        mk(&[b(5), b(6), z(0, 0), z(1, 0), z(2, 0)], &[(0, 1, "H"), (1, 2, "H"), (0, 2, "H"), (5, 0, "N"), (6, 1, "N")], &[6, 5], &[], one), // symmetric
    ]
}

pub fn record(args: &[String], seed: u64, tr: &mut Tr) -> Value {
    let out = arg_val(args, "--out").unwrap_or_else(|| "json".into());
    let dir = arg_val(args, "--dir").unwrap_or(format!("{out}_files"));
    std::fs::create_dir_all(&dir).expect("create --dir");
    let mut cx = Ctx { dir, count: 0, events: 0, failures: 0, max_ppb_exact: 0, max_ppb_inexact: 0 };
    let mut r = gens::rng(seed ^ 0xc13);
    let stride: usize = arg_num(args, "--stride", 1);
    let offset: usize = seed as usize % stride.max(1);
    let (mut nfam, mut nrand, mut nbig, mut nnamed) = (0usize, 0usize, 0usize, 0usize);

    if arg_flag(args, "--named") {
        // every named diagram x every scalar class, several draws
        for a in named() {
            for class in [0usize, 1, 1, 2, 2, 2, 3, 4] {
                let sc = catalogue_scalar(&mut r, class);
                let d = Deco { other_phases: false, zero_coords: class == 0, hbox: false, sc };
                record_diagram(&decorate(&a, &mut r, &d), &[], &mut cx, tr);
                nnamed += 1;
            }
        }
        // every generic value of the catalogue on the one-spider diagram, unscaled and scaled
        for g in GENERIC {
            for e in [0i64, -10, 7] {
                let d = Deco { other_phases: false, zero_coords: true, hbox: false, sc: [g[0], g[1], g[2], g[3], e] };
                record_diagram(&decorate(&named()[1], &mut r, &d), &[], &mut cx, tr);
                nnamed += 1;
            }
        }
    }
    for fam in args.iter().enumerate().filter(|(_, a)| *a == "--fam").map(|(i, _)| args[i + 1].clone()) {
        let f = parse_family(&fam);
        let mut idx = 0usize;
        gens::enum_family(&f, |a| {
            if idx % stride == offset {
                // family members keep their pi/4 phases two times out of three (denotation checked)
                let class = [0usize, 1, 2, 1, 3, 2, 1, 4][nfam % 8];
                let d = Deco { other_phases: nfam % 3 == 2, zero_coords: nfam % 7 == 3, hbox: false, sc: catalogue_scalar(&mut r, class) };
                record_diagram(&decorate(&a, &mut r, &d), &[], &mut cx, tr);
                nfam += 1;
            }
            idx += 1;
        });
    }
    let n: usize = arg_num(args, "--random", 0);
    if n > 0 {
        let cfg = parse_rand(&arg_val(args, "--rand").unwrap_or_default());
        for _ in 0..n {
            let a = gens::random_diagram(&mut r, &cfg);
            // independent draws: no correlation between the phase, coordinate, H-box and scalar decorations
            let class = [1usize, 2, 0, 3, 1, 2, 4, 2][r.random_range(0..8)];
            let d = Deco { other_phases: r.random_bool(0.5), zero_coords: r.random_bool(0.12), hbox: r.random_bool(0.17), sc: catalogue_scalar(&mut r, class) };
            record_diagram(&decorate(&a, &mut r, &d), &[], &mut cx, tr);
            nrand += 1;
        }
    }
    let n: usize = arg_num(args, "--big", 0);
    if n > 0 {
        let cfg = RandCfg { min_sp: 9, max_sp: 16, max_b: 5, pedge: 0.22, scalars: false, ..RandCfg::any_zx() };
        for _ in 0..n {
            let a = gens::random_diagram(&mut r, &cfg);
            let class = [1usize, 2, 0, 3][r.random_range(0..4)];
            let d = Deco { other_phases: r.random_bool(0.5), zero_coords: r.random_bool(0.2), hbox: r.random_bool(0.25), sc: catalogue_scalar(&mut r, class) };
            record_diagram(&decorate(&a, &mut r, &d), &["big"], &mut cx, tr);
            nbig += 1;
        }
    }
    let _ = std::fs::remove_dir(&cx.dir);
    json!({"diagrams": cx.count, "family": nfam, "random": nrand, "big": nbig, "named": nnamed, "roundtrips": cx.events,
           "not_ok": cx.failures, "max_relerr_ppb_exact_class": cx.max_ppb_exact, "max_relerr_ppb_other": cx.max_ppb_inexact})
}
